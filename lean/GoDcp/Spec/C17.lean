import GoDcp.Model.Config
import GoDcp.Model.EnvSubst
/-!
C17 as decidable monitors over what the REAL code returned.  Each monitor
returns the name of the first violated clause (`""` = holds).  `Props/C17`
proves that the model's output always passes; the driver evaluates the same
monitors on the real observations.

Also here: the documented defaults, transcribed ONCE from the configuration
table of /repo/README.md (`readme`), and their interpretation (`docVal`).
-/
namespace GoDcp.Spec.C17
open GoDcp GoDcp.Config

/-! ## defaulting -/

/-- the environment override applies to this path -/
def envWins (env : Env) (p : String) : Bool :=
  (p == pTotal && env.total != "") || (p == pMember && env.member != "")

/-- the integer an override variable denotes (`none`: not an integer) -/
def envInt (raw : String) : Option Int := Units.parseInt64 raw.toList

/-- the value a set override variable imposes -/
def envExpect (raw : String) : Val :=
  match envInt raw with
  | some t => .int t
  | none => .absent

/-- logrus rejects the (non-empty) level value -/
def badLevel (v : Val) : Bool :=
  match v with
  | .str l => !validLevel l
  | _ => true

/-- exactly the inputs on which `ApplyDefaults` is allowed (and bound) to panic:
    a non-empty, non-integer override variable; or no injected logger and an
    explicit logging level that logrus does not know -/
def mustPanic (env : Env) (loggerSet : Bool) (set : Cfg) : Bool :=
  (env.total != "" && (envInt env.total).isNone) ||
  (env.member != "" && (envInt env.member).isNone) ||
  (!loggerSet && !isZero .zeroVal (get set pLevel) && badLevel (get set pLevel))

/-- a typed Go field cannot tell an explicit zero from "unset": observations
    are compared modulo that identification … -/
def normZ (v : Val) : Val := if isZero .zeroVal v then .absent else v

/-- … except in `any` / slice fields (the `== nil` entries of the table), where
    a non-nil zero is a value of its own -/
def canon (tbl : List Entry) (p : String) (v : Val) : Val :=
  if tbl.any (fun e => e.path == p && e.test == .isNil) then v else normZ v

def dedup (l : List String) : List String :=
  l.foldr (fun p acc => if acc.contains p then acc else p :: acc) []

/-- what one observed application of defaults must satisfy, relative to the
    configuration `set` it was applied to -/
def checkOnce (tbl : List Entry) (env : Env) (set r : Cfg) (paths : List String) : String :=
  if env.total != "" && normZ (get r pTotal) != normZ (envExpect env.total) then
    "C17.env_precedence"
  else if env.member != "" && normZ (get r pMember) != normZ (envExpect env.member) then
    "C17.env_precedence"
  else if !(tbl.all fun e => envWins env e.path || !isZero e.test (get set e.path) ||
              canon tbl e.path (get r e.path) == canon tbl e.path e.dflt) then
    "C17.fills_unset"
  else if !(paths.all fun p => envWins env p ||
              (tbl.any fun e => e.path == p && isZero e.test (get set p)) ||
              canon tbl p (get r p) == canon tbl p (get set p)) then
    "C17.preserves_set"
  else ""

/-- the observation of `ApplyDefaults(); ApplyDefaults()`:
    `none` = first call panicked; `some (r1, none)` = second call panicked -/
abbrev DefaultsObs := Option (Cfg × Option Cfg)

/-- the C17 defaulting monitor.  `tbl` = defaults table in force for the first
    call (`Config.table loggerSet`). -/
def holdsDefaults (tbl : List Entry) (env : Env) (loggerSet : Bool) (set : Cfg) (obs : DefaultsObs) : String :=
  match obs with
  | none => if mustPanic env loggerSet set then "" else "C17.no_panic_expected"
  | some (r1, second) =>
    if mustPanic env loggerSet set then "C17.panic_expected"
    else
      let paths := dedup (set.map (·.1) ++ r1.map (·.1) ++ tbl.map (·.path))
      let c1 := checkOnce tbl env set r1 paths
      if c1 != "" then c1
      else match second with
        | none => "C17.idempotent"
        | some r2 =>
          let paths2 := dedup (paths ++ r2.map (·.1))
          if paths2.all fun p => canon tbl p (get r2 p) == canon tbl p (get r1 p) then "" else "C17.idempotent"

/-! ## derived settings -/

/-- the observed struct holds (modulo typed zero = unset) the value computed for a field -/
def fieldAgrees (r : List (String × Val)) (x : String × PR) : Bool :=
  match x.2 with
  | .val v => normZ (get r x.1) == normZ v
  | _ => false

/-- "inherit / constant default unless the key is in the override map, then the
    parsed map value"; panic exactly when a mandatory key is missing or a value
    does not parse; no claim when a size value is outside the covered set -/
def holdsDerived (fields : List Field) (ov : List (String × String)) (real : Option (List (String × Val))) : String :=
  let vals := fields.map fun f => (f.key, fieldVal ov f)
  let anyPanic := vals.any fun r => r.2 == PR.panic
  match real with
  | none => if anyPanic then "" else "C17.derived_no_panic_expected"
  | some r =>
    if anyPanic then "C17.derived_panic_expected"
    else if vals.any fun x => x.2 == PR.uncovered then ""
    else if !(vals.all (fieldAgrees r)) then "C17.derived_inherit_unless_overridden"
    else if !(r.all fun kv => fields.any fun f => f.key == kv.1) then "C17.derived_unknown_field"
    else ""

/-! ## size units -/

/-- a well-formed size string in structured form:
    `[blanks][sign] I [(.|,) F] [blanks] (kb|mb|gb any case)` -/
structure WF where
  neg : Bool
  ip : List Char        -- integer digits
  fp : List Char        -- fraction digits
  k : Nat               -- 1 = kb, 2 = mb, 3 = gb
  deriving Repr

/-- the number multiplied by 1024^k, truncated to an integer -/
def WF.expected (w : WF) : Int :=
  let q := Units.digitsVal (w.ip ++ w.fp) * 1024 ^ w.k / 10 ^ w.fp.length
  if w.neg then -(q : Int) else (q : Int)

def holdsSizeWF (w : WF) (real : Option Int) : String :=
  if real == some w.expected then "" else "C17.units"

/-- plain integers resolve to themselves -/
def holdsSizeInt (neg : Bool) (ds : List Char) (real : Option Int) : String :=
  let n : Int := Units.digitsVal ds
  if real == some (if neg then -n else n) then "" else "C17.plain_int"

/-! ## ${VAR} substitution -/

inductive Seg
  | lit (s : List Char)
  | var (name : List Char)
  deriving DecidableEq, Repr

def Seg.render : Seg → List Char
  | .lit s => s
  | .var n => EnvSubst.placeholder n

def render (segs : List Seg) : List Char := (segs.map Seg.render).flatten

/-- every placeholder replaced by the variable's value when it is set, left
    untouched when it is not -/
def Seg.expected (env : EnvSubst.Env) : Seg → List Char
  | .lit s => s
  | .var n => match EnvSubst.lookupEnv env n with
    | some v => v
    | none => EnvSubst.placeholder n

def expected (env : EnvSubst.Env) (segs : List Seg) : List Char := (segs.map (Seg.expected env)).flatten

def noDollar (s : List Char) : Bool := !s.contains '$'

/-- the input set of the substitution clause: literals and VALUES without `$`,
    names non-empty without `$` and `}` -/
def Seg.simple : Seg → Bool
  | .lit s => noDollar s
  | .var n => !n.isEmpty && noDollar n && !n.contains '}'

def envSimple (env : EnvSubst.Env) : Bool := env.all fun kv => noDollar kv.2

end GoDcp.Spec.C17

namespace GoDcp.Spec.C17
open GoDcp GoDcp.Config
/-! ## the configuration table of /repo/README.md, transcribed once

`(Variable, Type, Default)` of every row, Default cell verbatim (`""` = empty cell). -/
def readme : List (String × String × String) := [
  ("hosts", "[]string", "-"),
  ("username", "string", "-"),
  ("password", "string", "-"),
  ("bucketName", "string", "-"),
  ("dcp.group.name", "string", ""),
  ("scopeName", "string", "_default"),
  ("collectionNames", "[]string", "_default"),
  ("connectionBufferSize", "uint, string", "20mb"),
  ("maxQueueSize", "int", "2048"),
  ("connectionTimeout", "time.Duration", "1m"),
  ("secureConnection", "bool", "false"),
  ("rootCAPath", "string", "*not set"),
  ("debug", "bool", "false"),
  ("dcp.bufferSize", "int", "16mb"),
  ("dcp.mode", "string", "infinite"),
  ("dcp.connectionBufferSize", "uint, string", "20mb"),
  ("dcp.connectionTimeout", "time.Duration", "1m"),
  ("dcp.maxQueueSize", "int", "2048"),
  ("dcp.listener.skipUntil", "time.Time", ""),
  ("dcp.group.membership.type", "string", ""),
  ("dcp.group.membership.memberNumber", "int", "1"),
  ("dcp.group.membership.totalMembers", "int", "1"),
  ("dcp.group.membership.rebalanceDelay", "time.Duration", "30s"),
  ("dcp.group.membership.config", "map[string]string", "*not set"),
  ("dcp.config.disableChangeStreams", "bool", "false"),
  ("leaderElection.enabled", "bool", "false"),
  ("leaderElection.type", "string", "kubernetes"),
  ("leaderElection.config", "map[string]string", "*not set"),
  ("leaderElection.rpc.port", "int", "8081"),
  ("checkpoint.type", "string", "auto"),
  ("checkpoint.autoReset", "string", "earliest"),
  ("checkpoint.interval", "time.Duration", "1m"),
  ("checkpoint.timeout", "time.Duration", "1m"),
  ("healthCheck.disabled", "bool", "false"),
  ("healthCheck.interval", "time.Duration", "1m"),
  ("healthCheck.timeout", "time.Duration", "1m"),
  ("rollbackMitigation.disabled", "bool", "false"),
  ("rollbackMitigation.interval", "time.Duration", "1s"),
  ("rollbackMitigation.configWatchInterval", "time.Duration", "10s"),
  ("metadata.type", "string", "couchbase"),
  ("metadata.readOnly", "bool", "false"),
  ("metadata.config", "map[string]string", "*not set"),
  ("api.disabled", "bool", "false"),
  ("api.port", "int", "8080"),
  ("metric.path", "string", "/metrics"),
  ("logging.level", "string", "info")]

/-- the value a README row promises for an option that the user did not set
    (`absent` = "stays at the Go zero value") -/
def docVal (ty dflt : String) : Val :=
  if dflt = "-" || dflt = "" || dflt = "*not set" then .absent
  else if ty = "bool" then (if dflt = "true" then .bool true else .absent)
  else if ty = "time.Duration" then
    match Units.parseDuration dflt.toList with
    | some n => .dur n
    | none => .absent
  else if ty = "int" || ty = "uint, string" then
    match Units.resolveString dflt.toList with
    | .ok n => .int n
    | _ => .absent
  else if ty = "[]string" then .strs [dflt]
  else .str dflt

/-- rows on which README and code disagree (see `Props/C17`: both proved) -/
def readmeDisagreements : List String := ["dcp.mode", "dcp.group.membership.type"]

end GoDcp.Spec.C17
