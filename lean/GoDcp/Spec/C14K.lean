import GoDcp.Model.Keys
/-!
C14 (keys part) as decidable monitors over the key bytes the real code produced.

The statement "distinct for distinct (group name, vBucket) pairs" is expressed by a
**decoder**: a function that recovers `(group, vbID)` from a checkpoint key alone
(and `(group, id)` from a membership key).  A key the decoder maps back to the pair
it was built from cannot be shared with any other pair.  `Props/C14Keys` proves
`decode (encode x) = x` for the model; the driver runs the decoder on the REAL key.
-/
namespace GoDcp.Spec.C14K
open GoDcp.Keys

/-- `strings.CutPrefix` -/
def stripPrefix? : Str → Str → Option Str
  | [], s => some s
  | _ :: _, [] => none
  | p :: ps, c :: cs => if p = c then stripPrefix? ps cs else none

/-- `strings.CutSuffix` -/
def stripSuffix? (w s : Str) : Option Str := (stripPrefix? w.reverse s.reverse).map List.reverse

/-- cut `s` after its last character that does not satisfy `p`:
    (`front` ending in that character, maximal `p`-suffix) -/
def splitLast (p : Char → Bool) (s : Str) : Str × Str :=
  ((s.reverse.dropWhile p).reverse, (s.reverse.takeWhile p).reverse)

/-- recover `(group, vbID)` from a checkpoint key -/
def decodeCheckpoint (key : Str) : Option (Str × Nat) := do
  let rest ← stripPrefix? keyPrefix key
  let (front, ds) := splitLast Char.isDigit rest
  if ds.isEmpty then none
  let g ← stripSuffix? (checkpointWord ++ [':']) front
  some (g, Nat.ofDigitChars 10 ds 0)

/-- recover `(group, id)` from an instance / index key (ids contain no ':') -/
def decodeInstance (key : Str) : Option (Str × Str) := do
  let rest ← stripPrefix? keyPrefix key
  let (front, id) := splitLast (· != ':') rest
  let g ← stripSuffix? (instanceWord ++ [':']) front
  some (g, id)

/-- under the reserved connector prefix -/
def reserved (key : Str) : Bool := keyPrefix.isPrefixOf key

/-- a key handed out for checkpoint `(g, vb)`: reserved, and decodes to exactly that pair -/
def holdsCheckpoint (g : Str) (vb : Nat) (key : Str) : Bool :=
  reserved key && decodeCheckpoint key == some (g, vb)

/-- a membership key for `(g, id)` with a colon-free id (`id = "all"` for the index document) -/
def holdsInstance (g id : Str) (key : Str) : Bool :=
  reserved key && decodeInstance key == some (g, id)

/-- `google/uuid` string form: 36 characters, lower-case hex and '-' -/
def uuidLike (id : Str) : Bool :=
  id.length == 36 && id.all fun c => c.isDigit || ('a' ≤ c && c ≤ 'f') || c == '-'

/-- the filter verdict for a key: hidden exactly when it carries a reserved prefix -/
def holdsFilter (key : Str) (hidden : Bool) : Bool :=
  hidden == (keyPrefix.isPrefixOf key || txnPrefix.isPrefixOf key)

end GoDcp.Spec.C14K
