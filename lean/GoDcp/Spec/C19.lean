import GoDcp.Model.Health
/-!
C19 as decidable monitors over what the real health checker was observed to do.
Written without reference to the model's `round` (an independent reading of the
statement); `Props/C19` proves the model satisfies them.
-/
namespace GoDcp.Spec.C19
open GoDcp.Health

/-- index of the first success among the first five results -/
def firstSuccess (p : List Bool) : Option Nat :=
  let q := p.take 5
  let i := q.idxOf true
  if i < q.length then some i else none

/-- one observed round: the scripted result pattern, the number of `Ping()` calls
    seen, the way it ended.
    * five failures first  ⇒ exactly five pings, then the process dies;
    * a success at index `i < 5` ⇒ exactly `i + 1` pings, no consequence;
    * (pattern shorter than five, all failures: the round is still waiting for a result). -/
def holds (p : List Bool) (pings : Nat) (out : Res) : Bool :=
  match firstSuccess p with
  | some i => out == .ok && pings == i + 1
  | none =>
    if 5 ≤ p.length then out == .panic && pings == 5
    else out == .starved && pings == p.length

/-- which clause failed (for the verdict line) -/
def clause (p : List Bool) (pings : Nat) (out : Res) : String :=
  match firstSuccess p with
  | some i =>
    if out == .panic then "C19.panic-without-five-failures"
    else if pings == i + 1 then "C19.outcome" else "C19.success-ends-round"
  | none =>
    if 5 ≤ p.length then (if out == .panic then "C19.ping-count" else "C19.no-panic-after-five-failures")
    else "C19.incomplete-round"

/-- a run of rounds (one pattern per ticker tick): the ping count of every round
    that was observed, and whether the process died.  A round that kills the
    process is the last one observed; without a death every scripted round is observed. -/
def holdsRounds : List (List Bool) → List Nat → Bool → Bool
  | [], [], died => !died
  | p :: ps, n :: ns, died =>
    if ns.isEmpty && died then holds p n .panic
    else holds p n .ok && holdsRounds ps ns died
  | _, _, _ => false

/-- an observed `Stop()`: it returned within the bound, and no `Ping()` was issued
    after it had returned -/
def holdsStop (returnedInTime : Bool) (latePings : Nat) : Bool :=
  returnedInTime && latePings == 0

end GoDcp.Spec.C19
