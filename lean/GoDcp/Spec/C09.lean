import GoDcp.Model.Chunk
/-!
C09 as a decidable monitor over an observed list of chunks `(start, stop)`
(half-open).  Used twice: `Props/C09.holds_bounds` proves the model satisfies it
for all `1 ≤ T ≤ N`; the driver evaluates it on what the real `ChunkSlice`
returned.
-/
namespace GoDcp.Spec.C09

/-- contiguous, ascending, non-empty, starting at `from` ; returns the final stop -/
def walk : Nat → List (Nat × Nat) → Option Nat
  | cur, [] => some cur
  | cur, (s, e) :: r => if s = cur ∧ s < e then walk e r else none

def sizes (cs : List (Nat × Nat)) : List Nat := cs.map fun c => c.2 - c.1

/-- largest size ≤ smallest size + 1 (linear time) -/
def balanced (cs : List (Nat × Nat)) : Bool :=
  let ss := sizes cs
  ss.foldl max 0 ≤ ss.foldl min (ss.headD 0) + 1

/-- the property: `T` chunks that tile `[0, N)` exactly, sizes within one -/
def holds (N T : Nat) (cs : List (Nat × Nat)) : Bool :=
  cs.length == T && walk 0 cs == some N && balanced cs

end GoDcp.Spec.C09
