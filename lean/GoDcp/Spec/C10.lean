import GoDcp.Model.Membership
/-!
C10 as decidable monitors over what the real code was observed to do.

* `holds`     – the infos the members of one group hold at quiescence, each with
                the member's join time: same total = group size, numbers are
                exactly 1..total, pairwise distinct, join order respected.
* `noRepeat`  – the `membershipChanged` events one instance published: a numbering
                is announced only when it differs from the one in effect.
* `collides`  – two members hold the same number (the classifier of finding F8, which commit
                23681a3 repaired: a hit is a plain failure now, `C10.tie-inconsistent`).
-/
namespace GoDcp.Spec.C10

/-- one observation per live member: (clusterJoinTime, MemberNumber, TotalMembers) -/
abbrev Obs := Int × Nat × Nat

def sameTotal (obs : List Obs) : Bool := obs.all fun o => o.2.2 == obs.length

def inRange (obs : List Obs) : Bool := obs.all fun o => decide (1 ≤ o.2.1) && decide (o.2.1 ≤ obs.length)

def nodupB : List Nat → Bool
  | [] => true
  | a :: r => !r.contains a && nodupB r

def distinctNumbers (obs : List Obs) : Bool := nodupB (obs.map fun o => o.2.1)

def covers (obs : List Obs) : Bool :=
  (List.range obs.length).all fun k => obs.any fun o => o.2.1 == k + 1

/-- a member that joined strictly earlier has the strictly smaller number (members with EQUAL join
    times are ordered by instance id – `Props/C10 rank_numbering_join_order`; the ids are not part of
    the observation, so for them the monitor checks distinctness and coverage only) -/
def joinOrder (obs : List Obs) : Bool :=
  obs.all fun a => obs.all fun b => !decide (a.1 < b.1) || decide (a.2.1 < b.2.1)

/-- the property at quiescence -/
def holds (obs : List Obs) : Bool :=
  sameTotal obs && inRange obs && distinctNumbers obs && covers obs && joinOrder obs

/-- name of the first failing clause, for the verdict column -/
def failing (obs : List Obs) : String :=
  if !sameTotal obs then "C10.total"
  else if !inRange obs then "C10.range"
  else if !distinctNumbers obs then "C10.distinct"
  else if !covers obs then "C10.cover"
  else if !joinOrder obs then "C10.joinorder"
  else "ok"

/-- announce only on change: no event repeats its predecessor -/
def noRepeat : List (Nat × Nat) → Bool
  | a :: b :: r => a != b && noRepeat (b :: r)
  | _ => true

/-- two entries of a list of (number,total) pairs are equal (positions differ) -/
def collides : List (Nat × Nat) → Bool
  | [] => false
  | a :: r => r.contains a || collides r

end GoDcp.Spec.C10
