import GoDcp.Model.Rollback
/-!
C08 as a decidable monitor.

Inputs of a case (chosen by the harness, i.e. the *server side*):
the `Scenario` (offset handed to `OpenStream`, the answers to both stream
requests, the outcome of the failover-log query) and the event sequence the
server streams afterwards.  Observation of the real code (`Obs`): whether
`OpenStream` returned nil, the DCP_STREAM_REQ extras the simulated node logged,
and what the listener of a real `couchbase.NewObserver` received.

`clauses` spells the statement of C08 out, one named Boolean per sentence;
`holds` is their conjunction.  Used twice: `Props/C08.holds_model` proves that
the model's own output satisfies it for every scenario and every server
sequence; the driver evaluates it on the real observation.
-/
namespace GoDcp.Spec.C08
open GoDcp.Rollback

structure Obs where
  ok : Bool
  reqs : List StreamReq
  delivered : List Delivered
  deriving DecidableEq, Repr

/-- the observation the model predicts for a case -/
def modelObs (sc : Scenario) (evs : List Event) : Obs :=
  match session sc evs with
  | (.opened reqs _ _, ds, _) => ⟨true, reqs, ds⟩
  | (.failed reqs, _, _) => ⟨false, reqs, []⟩
  | (.failstop reqs, _, _) => ⟨false, reqs, []⟩

/-- strictly increasing (linear time; `= List.Pairwise (· < ·)`, see `Props/C08.increasing_iff`) -/
def increasing : List Nat → Bool
  | [] => true
  | [_] => true
  | a :: b :: r => decide (a < b) && increasing (b :: r)

/-- well-formed failover log: starts strictly descending newest → oldest, oldest start = 0 -/
def wellFormed : Log → Bool
  | [] => false
  | [(_, s)] => s == 0
  | (_, s) :: (u', s') :: r => decide (s' < s) && wellFormed ((u', s') :: r)

/-- uuids of the entries whose branch contains `R`: start ≤ R, and the next newer
    entry (if any; its start is `prev`) starts above `R` -/
def containing (R : Nat) : Option Nat → Log → List Nat
  | _, [] => []
  | prev, (u, s) :: r =>
    let here := decide (s ≤ R) && (match prev with | none => true | some p => decide (R < p))
    if here then u :: containing R (some s) r else containing R (some s) r

/-- "on the history branch that contains R" (nothing is demanded when no entry
    contains `R`, which cannot happen for a well-formed log) -/
def branchOK (log : Log) (R uuid : Nat) : Bool :=
  let c := containing R none log
  c.isEmpty || c.contains uuid

def above (F : Nat) (l : List (Kind × Nat)) : List (Kind × Nat) := l.filter fun p => decide (F < p.2)

/-- the named sentences of C08 for one case -/
def clauses (sc : Scenario) (evs : List Event) (o : Obs) : List (String × Bool) :=
  match sc.a1 with
  | .rollback R =>
    let F := sc.off.seq
    let reopened : Bool := match sc.q, sc.a2 with
      | some _, .ok (_ :: _) => true
      | _, _ => false
    let mustFail : Bool := match sc.q, sc.a2 with
      | none, _ => true
      | _, .err => true
      | _, .rollback _ => true
      | _, _ => false
    let r2? := o.reqs[1]?
    [ -- re-requested starting at R with snapshot range [R,R] and the same end
      ("rerequest", match sc.q, r2? with
        | some _, some r2 => r2.start == R && r2.snapStart == R && r2.snapEnd == R && r2.stop == sc.off.latest
        | some _, none => false
        | none, _ => true),
      -- on the history branch that contains R
      ("branch", match sc.q, r2? with
        | some log, some r2 => branchOK log R r2.uuid
        | _, _ => true),
      -- the reopen succeeds when the server lets it
      ("reopened", !reopened || o.ok),
      -- not shown again any event at or below F (server seqnos strictly increasing)
      ("no-replay", !(o.ok && increasing ((gatedOf evs).map (·.2)))
                     || (deliveredGated o.delivered).all fun p => decide (F < p.2)),
      -- shown every document event above F (and nothing that was not sent)
      ("no-skip", !o.ok || above F (deliveredGated o.delivered) == above F (gatedOf evs)),
      -- offsets issued from then on carry the new branch's vbUUID
      ("uuid", match sc.a2 with
        | .ok ((u, _) :: _) => !o.ok || (deliveredUuids o.delivered).all (· == u)
        | _ => true),
      -- a vBucket that cannot be reopened fails instead of being silently left out
      ("fail-fast", !mustFail || (!o.ok && o.delivered.isEmpty)) ]
  | _ => []   -- no server-requested rollback: C08 says nothing

def holds (sc : Scenario) (evs : List Event) (o : Obs) : Bool :=
  (clauses sc evs o).all (·.2)

/-- name of the first violated sentence -/
def failing (sc : Scenario) (evs : List Event) (o : Obs) : Option String :=
  ((clauses sc evs o).find? (fun c => !c.2)).map (·.1)

end GoDcp.Spec.C08
