import GoDcp.Model.MinSeqNo
/-!
C07 as decidable monitors over what the real code did.

(a) `rmCheck` – stream `c07rm`: the harness scripts the cluster (which copies
    are listed, what each listed copy answers to OBSERVE_SEQNO, in which order
    answers arrive after a (re)start) and records every value the REAL
    `rollbackMitigation` hands to its dispatcher.  Every observed value `v` is
    judged against the table it was computed from (the scripted history
    replayed through `report`):
      * `unsafe-dispatch`  `v ≠ 0` but the listed copies do not all carry one
                           vbUUID with persisted seqno ≥ `v` (this is the
                           statement of C07: such a `v` would open the gate for
                           something the cluster can still roll back);
      * `not-min`          `v ≠ getMinSeqNo table` (the decision function);
      * `dispatch-missing` a dispatch is missing ("once persistence covers it" –
                           a missing dispatch keeps the gate shut).
(b) `gateCheck` – stream `c07gate`: the harness calls a REAL observer (rollback
    mitigation enabled), one goroutine per event, interleaved with
    `SetPersistSeqNo` and `Close`, and records per step which calls returned
    and whether the listener saw the event:
      * `unsafe-delivery`        an event was delivered whose gate seqno exceeds
                                 every non-zero value passed to `SetPersistSeqNo`
                                 so far (the marker's gate seqno is its START);
      * `lost-wakeup`            an arriving event whose seqno is already covered
                                 (or the stream is closed) keeps waiting;
      * `not-released`           a waiting event is covered by this step's value
                                 (or the stream was closed) and does not return;
      * `delivered-after-close`  the listener is called after `Close`;
      * `unknown-release`        a call returns that was not waiting.
`Props/C07` proves that the model's own output passes both monitors for every
script (`rmCheck_model`, `gateCheck_model`).
-/
namespace GoDcp.Spec.C07
open GoDcp.MinSeqNo

/-! ### (a) dispatches -/

/-- one observed dispatch `v` against the table it was computed from -/
def dispatchClause (t : Table) (v : Nat) : Option String :=
  if v != 0 && !coveredB t v then some "unsafe-dispatch"
  else if v != getMinSeqNo t then some "not-min"
  else none

/-- values of an observation line (`none` = the line of `Stop()`) -/
def valsOf : RmObs → List Nat
  | .many l => l
  | .one m => [m]
  | .nothing => []
  | .stopped => []

/-- one step: model dispatch events `evs` (table, value), table after the step `tEnd`, real values `vs`.
    A surplus dispatch of a safe value is not a violation of C07 (it shows up as a model/real
    difference only); a missing one is ("once persistence covers it"). -/
def stepClause (evs : List (Table × Nat)) (tEnd : Table) (vs : List Nat) : Option String :=
  if vs.length == evs.length then
    (evs.zip vs).findSome? fun ((t, _), v) => dispatchClause t v
  else
    -- judge the values against the table of the step, then the count
    match vs.findSome? fun v => if v != 0 && !coveredB tEnd v then some "unsafe-dispatch" else none with
    | some c => some c
    | none => if vs.length < evs.length then some "dispatch-missing" else none

def rmCheckAux : List (List (Table × Nat) × Table) → List RmObs → Option String
  | [], [] => none
  | (evs, tEnd) :: ms, o :: os =>
    match stepClause evs tEnd (valsOf o) with
    | some c => some c
    | none => rmCheckAux ms os
  | _, _ => some "length"

/-- first failing clause of a whole script, `none` = the property held -/
def rmCheck (s : RmSim) (steps : List RmStep) (real : List RmObs) : Option String :=
  rmCheckAux (RmSim.run s steps) real

/-! ### (a') a dispatch that only the OLD copy layout explains -/

/-- `v ≠ 0` is not covered by the table of the model (the layout of the newest config `configWatch` has to adopt) but IS
    covered by the table of an instance that ignored every `config` step and kept polling the old layout -/
def staleValue (tNew tOld : Table) (v : Nat) : Bool := v != 0 && !coveredB tNew v && coveredB tOld v

def staleAux : List (List (Table × Nat) × Table) → List (List (Table × Nat) × Table) → List RmObs → Bool
  | (_, tn) :: ns, (_, to) :: os, o :: rs => (valsOf o).any (staleValue tn to) || staleAux ns os rs
  | _, _, _ => false

/-- `rmCheck`, and when it fails: `C07.stale-copy-layout` if some observed value is one that the new layout does not cover
    and the layout before an ignored config does (a copy the cluster map lists now never entered `getMinSeqNo`) -/
def rmCheckL (s : RmSim) (steps : List RmStep) (real : List RmObs) : Option String :=
  match rmCheck s steps real with
  | none => none
  | some c =>
    if staleAux (RmSim.run s steps) (RmSim.run { s with stale := true } steps) real then some "C07.stale-copy-layout"
    else some c

/-! ### (b) the gate -/

/-- what the monitor remembers: the largest non-zero value given to `SetPersistSeqNo`,
    whether `Close` was called, which calls wait (arrival number, gate seqno) -/
structure Mon where
  maxP : Nat := 0
  closed : Bool := false
  waiting : List (Nat × Nat) := []
  next : Nat := 0
deriving DecidableEq, Repr, Inhabited

/-- the gate lets seqno `sq` pass (`none`: the event kind does not go through the gate) -/
def passes (maxP : Nat) (closed : Bool) : Option Nat → Bool
  | none => true
  | some s => closed || s ≤ maxP

/-- one call that returned in a `persist`/`close` step: arrival number, outcome -/
def relItem (m : Mon) (x : Nat × GRes) : Option String :=
  match m.waiting.lookup x.1 with
  | none => some "unknown-release"
  | some s =>
    if x.2 == .delivered && m.closed then some "delivered-after-close"
    else if x.2 == .delivered && !(s ≤ m.maxP) then some "unsafe-delivery"
    else none

/-- a waiting call (arrival number, gate seqno) that the gate now lets pass must be among the returned ones -/
def mustRel (m : Mon) (l : List (Nat × GRes)) (w : Nat × Nat) : Bool :=
  !(passes m.maxP m.closed (some w.2)) || (l.lookup w.1).isSome

/-- judge the calls that returned in a `persist`/`close` step -/
def releaseClause (m : Mon) (l : List (Nat × GRes)) : Option String :=
  match l.findSome? (relItem m) with
  | some c => some c
  | none => if m.waiting.all (mustRel m l) then none else some "not-released"

def Mon.remove (m : Mon) (l : List (Nat × GRes)) : Mon :=
  { m with waiting := m.waiting.filter fun w => (l.lookup w.1).isNone }

/-- one step: `Except.error clause` or the next monitor state -/
def gateStep (m : Mon) : GStep → GObs → Except String Mon
  | .arrive e, .done r =>
    if r == .delivered && m.closed then .error "delivered-after-close"
    else if r == .delivered && !(passes m.maxP false (gateSeq e)) then .error "unsafe-delivery"
    else .ok { m with next := m.next + 1 }
  | .arrive e, .waiting =>
    match gateSeq e with
    | none => .error "lost-wakeup"
    | some s =>
      if passes m.maxP m.closed (some s) then .error "lost-wakeup"
      else .ok { m with waiting := m.waiting ++ [(m.next, s)], next := m.next + 1 }
  | .persist p, .released l =>
    let m1 := { m with maxP := if p ≠ 0 ∧ p > m.maxP then p else m.maxP }
    match releaseClause m1 l with
    | some c => .error c
    | none => .ok (m1.remove l)
  | .close, .released l =>
    let m1 := { m with closed := true }
    match releaseClause m1 l with
    | some c => .error c
    | none => .ok (m1.remove l)
  | _, _ => .error "shape"

def gateCheckAux (m : Mon) : List GStep → List GObs → Option String
  | [], [] => none
  | a :: as, o :: os =>
    match gateStep m a o with
    | .error c => some c
    | .ok m' => gateCheckAux m' as os
  | _, _ => some "length"

/-- first failing clause of a whole gate script, `none` = the property held -/
def gateCheck (steps : List GStep) (real : List GObs) : Option String :=
  gateCheckAux {} steps real

end GoDcp.Spec.C07
