import GoDcp.Proofs.WaitRaceStep
/-! Glue between the transition function and the numeric preservation lemmas: how each step changes the view. -/
namespace GoDcp.WaitRace

theorem wcounts_set {s : State} {i : Nat} {w : Wait} (h : s.waits[i]? = some w) (pc' : WPc) (p : WPc → Bool) :
    (s.waits.set i { w with pc := pc' }).countP (fun x => p x.pc)
      = s.waits.countP (fun x => p x.pc) - (p w.pc).toNat + (p pc').toNat := by
  have a := countP_set_add (fun x : Wait => p x.pc) s.waits i { w with pc := pc' } w h
  cases hp : p w.pc
  · simp [hp] at a ⊢; omega
  · have g := countP_ge_of_get (fun x : Wait => p x.pc) s.waits i w h hp
    simp [hp] at a ⊢; omega

theorem ecounts_set {s : State} {j : Nat} {d : EndD} (h : s.ends[j]? = some d) (pc' : EPc) (p : EPc → Bool) :
    (s.ends.set j { d with pc := pc' }).countP (fun x => p x.pc)
      = s.ends.countP (fun x => p x.pc) - (p d.pc).toNat + (p pc').toNat := by
  have a := countP_set_add (fun x : EndD => p x.pc) s.ends j { d with pc := pc' } d h
  cases hp : p d.pc
  · simp [hp] at a ⊢; omega
  · have g := countP_ge_of_get (fun x : EndD => p x.pc) s.ends j d h hp
    simp [hp] at a ⊢; omega

/-- the wait counters after goroutine `i` moved to `pc'` -/
theorem wait_counts {s : State} {i : Nat} {w : Wait} (h : s.waits[i]? = some w) (pc' : WPc) :
    (s.waits.set i { w with pc := pc' }).countP (fun x => x.pc == .atSelect)
      = s.waits.countP (fun x => x.pc == .atSelect) - (w.pc == .atSelect).toNat + (pc' == .atSelect).toNat
    ∧ (s.waits.set i { w with pc := pc' }).countP (fun x => x.pc == .gotTok .close)
      = s.waits.countP (fun x => x.pc == .gotTok .close) - (w.pc == .gotTok .close).toNat + (pc' == .gotTok .close).toNat
    ∧ (s.waits.set i { w with pc := pc' }).countP (fun x => x.pc == .gotTok .endEv)
      = s.waits.countP (fun x => x.pc == .gotTok .endEv) - (w.pc == .gotTok .endEv).toNat + (pc' == .gotTok .endEv).toNat
    ∧ (s.waits.set i { w with pc := pc' }).countP (fun x => x.pc == .atTest)
      = s.waits.countP (fun x => x.pc == .atTest) - (w.pc == .atTest).toNat + (pc' == .atTest).toNat
    ∧ (s.waits.set i { w with pc := pc' }).countP (fun x => x.pc == .atStop)
      = s.waits.countP (fun x => x.pc == .atStop) - (w.pc == .atStop).toNat + (pc' == .atStop).toNat :=
  ⟨wcounts_set h pc' (· == .atSelect), wcounts_set h pc' (· == .gotTok .close), wcounts_set h pc' (· == .gotTok .endEv),
    wcounts_set h pc' (· == .atTest), wcounts_set h pc' (· == .atStop)⟩

/-- the delivery counters after delivery `j` moved to `pc'` -/
theorem end_counts {s : State} {j : Nat} {d : EndD} (h : s.ends[j]? = some d) (pc' : EPc) :
    (s.ends.set j { d with pc := pc' }).countP (fun x => x.pc == .atClassify)
      = s.ends.countP (fun x => x.pc == .atClassify) - (d.pc == .atClassify).toNat + (pc' == .atClassify).toNat
    ∧ (s.ends.set j { d with pc := pc' }).countP (fun x => x.pc == .atDecrement)
      = s.ends.countP (fun x => x.pc == .atDecrement) - (d.pc == .atDecrement).toNat + (pc' == .atDecrement).toNat
    ∧ (s.ends.set j { d with pc := pc' }).countP (fun x => x.pc == .atTest)
      = s.ends.countP (fun x => x.pc == .atTest) - (d.pc == .atTest).toNat + (pc' == .atTest).toNat
    ∧ (s.ends.set j { d with pc := pc' }).countP (fun x => x.pc == .atSend)
      = s.ends.countP (fun x => x.pc == .atSend) - (d.pc == .atSend).toNat + (pc' == .atSend).toNat :=
  ⟨ecounts_set h pc' (· == .atClassify), ecounts_set h pc' (· == .atDecrement), ecounts_set h pc' (· == .atTest),
    ecounts_set h pc' (· == .atSend)⟩

theorem VInv_of_view_eq {v v' : View} (h : VInv v') (e : v = v') : VInv v := e ▸ h

/-- the session tags survive a pc update of a live goroutine -/
theorem wsess_set {s : State} {i : Nat} {w : Wait} (h : s.waits[i]? = some w) (pc' : WPc) (hl : w.pc ≠ .done)
    (hI : ∀ x ∈ s.waits, x.pc ≠ .done → x.sess = s.sess) :
    ∀ x ∈ s.waits.set i { w with pc := pc' }, x.pc ≠ .done → x.sess = s.sess := by
  intro x hx hne
  rcases List.mem_or_eq_of_mem_set hx with hm | he
  · exact hI x hm hne
  · subst he; exact hI w (List.mem_of_getElem? h) hl

theorem esess_set {s : State} {j : Nat} {d : EndD} (_h : s.ends[j]? = some d) (pc' : EPc)
    (hd : ({ d with pc := pc' } : EndD).inFlight = true → d.sess = s.sess)
    (hI : ∀ x ∈ s.ends, x.inFlight = true → x.sess = s.sess) :
    ∀ x ∈ s.ends.set j { d with pc := pc' }, x.inFlight = true → x.sess = s.sess := by
  intro x hx hf
  rcases List.mem_or_eq_of_mem_set hx with hm | he
  · exact hI x hm hf
  · subst he; exact hd hf


theorem beq_toNat {α : Type} [DecidableEq α] (a b : α) : (a == b).toNat = if a = b then 1 else 0 := by
  by_cases h : a = b <;> simp [h]

theorem toNat_eq_one {b : Bool} : b.toNat = 1 ↔ b = true := by cases b <;> simp
theorem toNat_eq_zero {b : Bool} : b.toNat = 0 ↔ b = false := by cases b <;> simp

/-- closes `view s' = { view s with … }` after wait goroutine `i` moved to the given pc -/
syntax "wview " term : tactic
set_option hygiene false in
macro_rules
  | `(tactic| wview $pc) => `(tactic| (
      obtain ⟨c1, c2, c3, c4, c5⟩ := wait_counts h $pc
      simp [view, wSel, wGC, wGE, wT, wS, eCl, eDec, eT, eSd, c1, c2, c3, c4, c5, hpc, beq_toNat]))

/-- a step of a wait goroutine preserves the invariant (no scheduler hypothesis needed) -/
theorem inv_wait {s s' : State} {i : Nat} {t : Tok} (hI : Inv s) (hs : wStep s i t = some s') : Inv s' := by
  unfold wStep at hs
  cases h : s.waits[i]? with
  | none => simp [h] at hs
  | some w =>
    simp only [h] at hs
    have hmem := List.mem_of_getElem? h
    cases hpc : w.pc with
    | atSelect =>
      have g1 : (view s).wSel ≥ 1 := countP_ge_of_get _ s.waits i w h (by simp [hpc])
      simp only [hpc] at hs
      cases t with
      | close =>
        simp only at hs
        split at hs
        · rename_i hc
          cases hs
          refine ⟨VInv_of_view_eq (v_wSelClose (view s) hI.num g1 hc) ?_, wsess_set h _ (by simp [hpc]) hI.wsess, hI.esess⟩
          wview (.gotTok .close)
        · simp at hs
      | endEv =>
        simp only at hs
        split at hs
        · rename_i hc
          cases hs
          refine ⟨VInv_of_view_eq (v_wSelEnd (view s) hI.num g1 hc) ?_, wsess_set h _ (by simp [hpc]) hI.wsess, hI.esess⟩
          wview (.gotTok .endEv)
        · simp at hs
    | gotTok tk =>
      simp only [hpc] at hs
      cases tk with
      | close =>
        have g1 : (view s).wGC ≥ 1 := countP_ge_of_get _ s.waits i w h (by simp [hpc])
        simp only at hs
        cases hs
        refine ⟨VInv_of_view_eq (v_wGotClose (view s) hI.num g1) ?_, wsess_set h _ (by simp [hpc]) hI.wsess, hI.esess⟩
        wview .atTest
      | endEv =>
        have g1 : (view s).wGE ≥ 1 := countP_ge_of_get _ s.waits i w h (by simp [hpc])
        simp only at hs
        cases hs
        refine ⟨VInv_of_view_eq (v_wGotEnd (view s) hI.num g1) ?_, wsess_set h _ (by simp [hpc]) hI.wsess, hI.esess⟩
        wview .atTest
    | atTest =>
      have g1 : (view s).wT ≥ 1 := countP_ge_of_get _ s.waits i w h (by simp [hpc])
      simp only [hpc] at hs
      cases hb : s.balancing
      · simp only [hb] at hs
        cases hs
        refine ⟨VInv_of_view_eq (v_wTestStop (view s) hI.num g1 (by simp [view, hb])) ?_, ?_, hI.esess⟩
        · wview .atStop
          simp [hb]
        · simpa using wsess_set h .atStop (by simp [hpc]) hI.wsess
      · simp only [hb] at hs
        cases hs
        refine ⟨VInv_of_view_eq (v_wTestDone (view s) hI.num g1 (by simp [view, hb])) ?_, ?_, hI.esess⟩
        · wview .done
          simp [hb]
        · simpa using wsess_set h .done (by simp [hpc]) hI.wsess
    | atStop =>
      have g1 : (view s).wS ≥ 1 := countP_ge_of_get _ s.waits i w h (by simp [hpc])
      simp only [hpc] at hs
      cases hs
      have hw := hI.num.stopWhy g1
      have hsess : w.sess = s.sess := hI.wsess w hmem (by simp [hpc])
      have hbal : s.balancing = false := toNat_eq_zero.mp hw.1
      have hlegit : (s.shutdownReq || (w.sess == s.sess && decide (s.assigned ≤ s.finals) && !s.balancing)) = true := by
        rcases hw.2.2 with h1 | h1
        · have : s.shutdownReq = true := toNat_eq_one.mp h1
          simp [this]
        · have : s.assigned ≤ s.finals := h1
          simp [hsess, hbal, this]
      refine ⟨VInv_of_view_eq (v_wStop (view s) hI.num g1) ?_, wsess_set h _ (by simp [hpc]) hI.wsess, hI.esess⟩
      obtain ⟨c1, c2, c3, c4, c5⟩ := wait_counts h .done
      simp [view, wSel, wGC, wGE, wT, wS, eCl, eDec, eT, eSd, c1, c2, c3, c4, c5, hpc, beq_toNat, hlegit]
    | done => simp [hpc] at hs


/-- closes `view s' = { view s with … }` after delivery `j` moved to the given pc -/
syntax "eview " term : tactic
set_option hygiene false in
macro_rules
  | `(tactic| eview $pc) => `(tactic| (
      obtain ⟨c1, c2, c3, c4⟩ := end_counts h $pc
      simp [view, wSel, wGC, wGE, wT, wS, eCl, eDec, eT, eSd, c1, c2, c3, c4, hpc, beq_toNat]))

/-- a step of a stream-end delivery preserves the invariant (no scheduler hypothesis needed) -/
theorem inv_end {s s' : State} {j : Nat} (hI : Inv s) (hs : eStep s j = some s') : Inv s' := by
  unfold eStep at hs
  cases h : s.ends[j]? with
  | none => simp [h] at hs
  | some d =>
    simp only [h] at hs
    have hmem := List.mem_of_getElem? h
    cases hpc : d.pc with
    | atCheck =>
      simp only [hpc] at hs
      cases hc : (d.sess == s.sess && !s.endClosed)
      · simp only [hc] at hs
        cases hs
        refine ⟨VInv_of_view_eq hI.num ?_, hI.wsess, esess_set h _ (by simp [EndD.inFlight]) hI.esess⟩
        eview .done
      · simp only [hc] at hs
        cases hs
        have hc' : d.sess = s.sess ∧ s.endClosed = false := by simpa using hc
        refine ⟨VInv_of_view_eq (v_eCheckPass (view s) hI.num (by simp [view, hc'.2])) ?_, hI.wsess,
          esess_set h _ (fun _ => hc'.1) hI.esess⟩
        eview .atClassify
    | atClassify =>
      have g1 : (view s).eCl ≥ 1 := countP_ge_of_get _ s.ends j d h (by simp [hpc])
      have hown : d.sess = s.sess := hI.esess d hmem (by simp [EndD.inFlight, hpc])
      simp only [hpc] at hs
      cases hc : (!d.counted && !s.cwc)
      · simp only [hc] at hs
        cases hs
        refine ⟨VInv_of_view_eq (v_eClassCount (view s) hI.num g1) ?_, hI.wsess, esess_set h _ (fun _ => hown) hI.esess⟩
        eview .atDecrement
      · simp only [hc] at hs
        cases hs
        refine ⟨VInv_of_view_eq (v_eClassDrop (view s) hI.num g1) ?_, hI.wsess, esess_set h _ (fun _ => hown) hI.esess⟩
        eview .done
    | atDecrement =>
      have g1 : (view s).eDec ≥ 1 := countP_ge_of_get _ s.ends j d h (by simp [hpc])
      have hown : d.sess = s.sess := hI.esess d hmem (by simp [EndD.inFlight, hpc])
      have hownb : (d.sess == s.sess) = true := by simp [hown]
      simp only [hpc] at hs
      cases hz : (s.active - 1 == 0)
      · simp only [hz] at hs
        cases hs
        have hz' : (view s).active - 1 ≠ 0 := by simpa [view] using hz
        refine ⟨VInv_of_view_eq (v_eDecNonzero (view s) hI.num g1 hz') ?_, hI.wsess, esess_set h _ (fun _ => hown) hI.esess⟩
        obtain ⟨c1, c2, c3, c4⟩ := end_counts h .done
        simp [view, wSel, wGC, wGE, wT, wS, eCl, eDec, eT, eSd, c1, c2, c3, c4, hpc, beq_toNat, hownb]
      · simp only [hz] at hs
        cases hs
        have hz' : (view s).active - 1 = 0 := by simpa [view] using hz
        refine ⟨VInv_of_view_eq (v_eDecZero (view s) hI.num g1 hz') ?_, hI.wsess, esess_set h _ (fun _ => hown) hI.esess⟩
        obtain ⟨c1, c2, c3, c4⟩ := end_counts h .atTest
        simp [view, wSel, wGC, wGE, wT, wS, eCl, eDec, eT, eSd, c1, c2, c3, c4, hpc, beq_toNat, hownb]
    | atTest =>
      have g1 : (view s).eT ≥ 1 := countP_ge_of_get _ s.ends j d h (by simp [hpc])
      have hown : d.sess = s.sess := hI.esess d hmem (by simp [EndD.inFlight, hpc])
      simp only [hpc] at hs
      cases hb : s.closeFlag
      · simp only [hb] at hs
        cases hs
        refine ⟨VInv_of_view_eq (v_eTestSend (view s) hI.num g1 (by simp [view, hb])) ?_, hI.wsess, esess_set h _ (fun _ => hown) hI.esess⟩
        eview .atSend
        simp [hb]
      · simp only [hb] at hs
        cases hs
        refine ⟨VInv_of_view_eq (v_eTestDrop (view s) hI.num g1 (by simp [view, hb])) ?_, hI.wsess, esess_set h _ (fun _ => hown) hI.esess⟩
        eview .done
        simp [hb]
    | atSend =>
      have g1 : (view s).eSd ≥ 1 := countP_ge_of_get _ s.ends j d h (by simp [hpc])
      have hown : d.sess = s.sess := hI.esess d hmem (by simp [EndD.inFlight, hpc])
      simp only [hpc] at hs
      split at hs
      · rename_i hc
        cases hs
        refine ⟨VInv_of_view_eq (v_eSend (view s) hI.num g1 hc) ?_, hI.wsess, esess_set h _ (fun _ => hown) hI.esess⟩
        eview .done
      · simp at hs
    | done => simp [hpc] at hs


theorem all_done_of_live0 {s : State} (h : (view s).live = 0) : ∀ w ∈ s.waits, w.pc = .done := by
  intro w hw
  have h' : wSel s + wGC s + wGE s + wT s + wS s = 0 := h
  have z1 : wSel s = 0 := by omega
  have z2 : wGC s = 0 := by omega
  have z3 : wGE s = 0 := by omega
  have z4 : wT s = 0 := by omega
  have z5 : wS s = 0 := by omega
  have a1 := List.countP_eq_zero.mp z1 w hw
  have a2 := List.countP_eq_zero.mp z2 w hw
  have a3 := List.countP_eq_zero.mp z3 w hw
  have a4 := List.countP_eq_zero.mp z4 w hw
  have a5 := List.countP_eq_zero.mp z5 w hw
  cases hpc : w.pc with
  | gotTok t => cases t <;> simp [hpc] at a2 a3
  | _ => simp [hpc] at a1 a4 a5 ⊢

theorem none_inflight {s : State} (h : (view s).eCl + (view s).eDec + (view s).eT + (view s).eSd = 0) :
    ∀ d ∈ s.ends, d.inFlight = false := by
  intro d hd
  have h' : eCl s + eDec s + eT s + eSd s = 0 := h
  have z1 : eCl s = 0 := by omega
  have z2 : eDec s = 0 := by omega
  have z3 : eT s = 0 := by omega
  have z4 : eSd s = 0 := by omega
  have a1 := List.countP_eq_zero.mp z1 d hd
  have a2 := List.countP_eq_zero.mp z2 d hd
  have a3 := List.countP_eq_zero.mp z3 d hd
  have a4 := List.countP_eq_zero.mp z4 d hd
  cases hpc : d.pc <;> simp [hpc, EndD.inFlight] at a1 a2 a3 a4 ⊢

/-- closes `view s' = { view s with … }` after a step that leaves the thread lists alone (or appends) -/
syntax "mview" : tactic
macro_rules
  | `(tactic| mview) => `(tactic| (
      simp [view, wSel, wGC, wGE, wT, wS, eCl, eDec, eT, eSd, closeEnds, List.countP_append, List.countP_replicate,
        afterClose, afterOpen]))

/-- a micro-step of the control thread preserves the invariant, given `Prompt` and `EndsDrained` for this step -/
theorem inv_main {s s' : State} (hI : Inv s) (hp : s.main ≠ .rebArm → anyWaitEnabled s = false)
    (hd : s.main.isCEnd = true → s.ends.any EndD.inFlight = false)
    (hs : mStep s = some s') : Inv s' := by
  unfold mStep at hs
  cases hm : s.main with
  | idle => simp [hm] at hs
  | rebSetBal =>
    simp only [hm] at hs; cases hs
    exact ⟨VInv_of_view_eq (v_rebSetBal (view s) hI.num hm (prompt_facts (hp (by simp [hm])))) (by mview), hI.wsess, hI.esess⟩
  | cStart dcp cwc =>
    simp only [hm] at hs
    cases ho : s.obsNil
    · simp only [ho] at hs; cases hs
      exact ⟨VInv_of_view_eq (v_cStart (view s) hI.num dcp cwc hm (by simp [view, ho]) (prompt_facts (hp (by simp [hm])))) (by mview; simp [ho]), hI.wsess, hI.esess⟩
    · simp only [ho] at hs; cases hs
      exact ⟨VInv_of_view_eq hI.num (by mview; simp [ho, hm]), hI.wsess, hI.esess⟩
  | cStreams dcp =>
    simp only [hm] at hs; cases hs
    refine ⟨VInv_of_view_eq (v_cStreams (view s) hI.num dcp hm (prompt_facts (hp (by simp [hm])))) (by mview), hI.wsess, ?_⟩
    intro d hd' hf
    rcases List.mem_append.mp hd' with h1 | h1
    · exact hI.esess d h1 hf
    · have := List.eq_of_mem_replicate h1
      subst this; simp [EndD.inFlight] at hf
  | cEnd dcp =>
    have D := drained_facts (hd (by simp [hm, MPc.isCEnd]))
    simp only [hm] at hs; cases hs
    exact ⟨VInv_of_view_eq (v_cEnd (view s) hI.num dcp hm D (prompt_facts (hp (by simp [hm])))) (by mview), hI.wsess, hI.esess⟩
  | cSetOpen dcp =>
    simp only [hm] at hs; cases hs
    exact ⟨VInv_of_view_eq (v_cSetOpen (view s) hI.num dcp hm (prompt_facts (hp (by simp [hm])))) (by mview), hI.wsess, hI.esess⟩
  | cTest dcp =>
    simp only [hm] at hs; cases hs
    cases he : s.endFlag
    · exact ⟨VInv_of_view_eq (v_cTestSend (view s) hI.num dcp hm (by simp [view, he]) (prompt_facts (hp (by simp [hm])))) (by mview; simp [he]), hI.wsess, hI.esess⟩
    · exact ⟨VInv_of_view_eq (v_cTestSkip (view s) hI.num dcp hm (by simp [view, he]) (prompt_facts (hp (by simp [hm])))) (by mview; simp [he]), hI.wsess, hI.esess⟩
  | cSend dcp =>
    simp only [hm] at hs
    split at hs
    · rename_i hc; cases hs
      exact ⟨VInv_of_view_eq (v_cSend (view s) hI.num dcp hm hc (prompt_facts (hp (by simp [hm])))) (by mview), hI.wsess, hI.esess⟩
    · simp at hs
  | rebArm =>
    simp only [hm] at hs; cases hs
    exact ⟨VInv_of_view_eq (v_rebArm (view s) hI.num hm) (by mview), hI.wsess, hI.esess⟩
  | oResetClose n reb =>
    simp only [hm] at hs; cases hs
    exact ⟨VInv_of_view_eq (v_oResetClose (view s) hI.num n reb hm (prompt_facts (hp (by simp [hm])))) (by mview), hI.wsess, hI.esess⟩
  | oResetEnd n reb =>
    simp only [hm] at hs; cases hs
    exact ⟨VInv_of_view_eq (v_oResetEnd (view s) hI.num n reb hm (prompt_facts (hp (by simp [hm])))) (by mview), hI.wsess, hI.esess⟩
  | oSwap n reb =>
    simp only [hm] at hs; cases hs
    exact ⟨VInv_of_view_eq (v_oSwap (view s) hI.num n reb hm (prompt_facts (hp (by simp [hm])))) (by mview), hI.wsess, hI.esess⟩
  | oStreams n reb =>
    simp only [hm] at hs; cases hs
    have hA := hI.num.regA (by simp [view, hm, MPc.inA])
    have hN := hI.num.nilObs (by simp [view, hm, MPc.nilObs])
    have hF := hI.num.nilNoFlight hN
    refine ⟨VInv_of_view_eq (v_oStreams (view s) hI.num n reb hm (prompt_facts (hp (by simp [hm])))) (by mview), ?_, ?_⟩
    · intro w hw hne; exact absurd (all_done_of_live0 hA.1 w hw) hne
    · intro d hd' hf; have := none_inflight hF d hd'; simp [this] at hf
  | oSpawn reb =>
    simp only [hm] at hs; cases hs
    refine ⟨VInv_of_view_eq (v_oSpawn (view s) hI.num reb hm (prompt_facts (hp (by simp [hm])))) (by mview), ?_, hI.esess⟩
    intro w hw hne
    rcases List.mem_append.mp hw with h1 | h1
    · exact hI.wsess w h1 hne
    · simp at h1; subst h1; rfl
  | oSetOpen reb =>
    simp only [hm] at hs; cases hs
    exact ⟨VInv_of_view_eq (v_oSetOpen (view s) hI.num reb hm (prompt_facts (hp (by simp [hm])))) (by mview), hI.wsess, hI.esess⟩
  | rebClear =>
    simp only [hm] at hs; cases hs
    exact ⟨VInv_of_view_eq (v_rebClear (view s) hI.num hm (prompt_facts (hp (by simp [hm])))) (by mview), hI.wsess, hI.esess⟩


/-- every enabled step that respects `Prompt`, `EndsDrained` and `StopThenClose` preserves the invariant -/
theorem inv_step {s s' : State} {a : Action} (hI : Inv s) (hok : okStep s a = true) (hs : step s a = some s') : Inv s' := by
  unfold step at hs
  split at hs
  · simp at hs
  · simp only [okStep, Bool.and_eq_true] at hok
    obtain ⟨⟨hpr, hdr⟩, hst⟩ := hok
    cases a with
    | start n =>
      have hp : anyWaitEnabled s = false := by simpa [promptOk, Action.isControl] using hpr
      have P := prompt_facts hp
      simp only at hs
      split at hs
      · rename_i hc; cases hs
        obtain ⟨hm, h0, _, _⟩ := hc
        exact ⟨VInv_of_view_eq (v_start (view s) hI.num n hm h0 P) (by mview), hI.wsess, hI.esess⟩
      · simp at hs
    | notify =>
      have hp : anyWaitEnabled s = false := by simpa [promptOk, Action.isControl] using hpr
      have P := prompt_facts hp
      simp only at hs
      split at hs
      · rename_i hc
        obtain ⟨hm, h0, hd⟩ := hc
        cases hb : s.balancing
        · simp only [hb] at hs; cases hs
          have hd' : s.dcpStarted = false := by simpa using hd
          exact ⟨VInv_of_view_eq (v_notify (view s) hI.num hm h0 (by simp [view, hd']) (by simp [view, hb]) P) (by mview; simp [hb]),
            hI.wsess, hI.esess⟩
        · simp only [hb] at hs; cases hs; exact hI
      · simp at hs
    | fireTimer n =>
      have hp : anyWaitEnabled s = false := by simpa [promptOk, Action.isControl] using hpr
      have P := prompt_facts hp
      have hst' : s.stopClosed = 0 := by
        have : ¬ (s.stopClosed ≥ 1) := by simpa [stopOk] using hst
        omega
      simp only at hs
      split at hs
      · rename_i hc; cases hs
        obtain ⟨hm, ht, _⟩ := hc
        exact ⟨VInv_of_view_eq (v_fire (view s) hI.num n hm (by simp [view, ht]) hst' P) (by mview), hI.wsess, hI.esess⟩
      · simp at hs
    | shutdown =>
      simp only at hs; cases hs
      exact ⟨VInv_of_view_eq (v_shutdown (view s) hI.num) (by mview), hI.wsess, hI.esess⟩
    | dcpClose cancel =>
      have hp : anyWaitEnabled s = false := by simpa [promptOk, Action.isControl] using hpr
      have P := prompt_facts hp
      cases cancel
      · simp only [Bool.false_eq_true, if_false] at hs
        split at hs
        · rename_i hc; cases hs
          obtain ⟨hm, h0, hd, hw⟩ := hc
          have hd' : s.dcpStarted = false := by simpa using hd
          have hw' : (view s).shut = 1 ∨ (view s).stopClosed ≥ 1 := Or.inr (by simpa [view] using hw)
          exact ⟨VInv_of_view_eq (v_dcpClose (view s) hI.num false hm h0 (by simp [view, hd']) hw' P) (by mview),
            hI.wsess, hI.esess⟩
        · simp at hs
      · simp only [if_true] at hs
        split at hs
        · rename_i hc; cases hs
          obtain ⟨hm, h0, hd, hw⟩ := hc
          have hd' : s.dcpStarted = false := by simpa using hd
          have hw' : (view s).shut = 1 ∨ (view s).stopClosed ≥ 1 := Or.inl (by simp [view, hw])
          exact ⟨VInv_of_view_eq (v_dcpClose (view s) hI.num true hm h0 (by simp [view, hd']) hw' P) (by mview),
            hI.wsess, hI.esess⟩
        · simp at hs
    | main =>
      have hp : s.main ≠ .rebArm → anyWaitEnabled s = false := by
        intro hne
        cases hany : anyWaitEnabled s
        · rfl
        · simp [promptOk, Action.isControl, hany, hne] at hpr
      simp only at hs
      refine inv_main hI hp ?_ hs
      intro hc
      cases hany : s.ends.any EndD.inFlight
      · rfl
      · unfold drainedOk at hdr
        rw [hc, hany] at hdr
        simp at hdr
    | wait i t => exact inv_wait hI hs
    | endStep j => exact inv_end hI hs
    | srvEnd counted =>
      simp only at hs
      split at hs
      · rename_i hc; cases hs
        refine ⟨VInv_of_view_eq (v_srvEnd (view s) hI.num hc (if counted then s.running - 1 else s.running)) (by mview), hI.wsess, ?_⟩
        intro d hd' hf
        rcases List.mem_append.mp hd' with h1 | h1
        · exact hI.esess d h1 hf
        · simp at h1; subst h1; simp [EndD.inFlight] at hf
      · simp at hs

end GoDcp.WaitRace
