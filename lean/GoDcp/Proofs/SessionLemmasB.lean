import GoDcp.Proofs.SessionLemmas
/-!
Helper lemmas for Props/C01, C03, C05 that are not in `Proofs/SessionLemmas`
(namespace `GoDcp.B` so that names never clash with that file):
association lists with unique keys, reading a store after a batch of writes,
deliveries and listener contexts of one step.  No property statements here.
-/
namespace GoDcp.B
open GoDcp

/-! ## association lists -/
section amap
variable {α : Type}

theorem nodup_keys_set {m : AMap α} {x : Vb} {a : α} (h : (AMap.keys m).Nodup) :
    (AMap.keys (AMap.set m x a)).Nodup := by
  cases hx : AMap.has m x with
  | false =>
    rw [AMap.keys_set_of_not_has a hx]
    have hnot : x ∉ AMap.keys m := by
      intro hm
      have := (AMap.has_iff_mem_keys m x).2 hm
      simp [hx] at this
    exact List.nodup_append.mpr ⟨h, by simp, by
      intro a ha b hb; simp at hb; subst hb; intro e; subst e; exact hnot ha⟩
  | true => rw [AMap.keys_set_of_has a hx]; exact h

theorem get?_of_mem_nodup {m : AMap α} {x : Vb} {a : α} (hn : (AMap.keys m).Nodup) (h : (x, a) ∈ m) :
    AMap.get? m x = some a := by
  induction m with
  | nil => simp at h
  | cons hd t ih =>
    obtain ⟨k, v⟩ := hd
    simp only [AMap.keys, List.map_cons, List.nodup_cons] at hn
    rcases List.mem_cons.mp h with h | h
    · cases h; simp [AMap.get?]
    · have hk : k ≠ x := by
        intro e; subst e
        exact hn.1 (List.mem_map_of_mem (f := (·.1)) h)
      simp only [AMap.get?, hk, if_false]
      exact ih hn.2 h

/-- writing a list of (key, value) pairs one after the other: what a key reads afterwards -/
theorem get?_foldl_set (w : List (Vb × α)) (m : AMap α) (x : Vb) :
    AMap.get? (w.foldl (fun m p => AMap.set m p.1 p.2) m) x =
      match (w.reverse.find? fun p => p.1 == x) with
      | some p => some p.2
      | none => AMap.get? m x := by
  induction w generalizing m with
  | nil => simp
  | cons hd t ih =>
    obtain ⟨k, v⟩ := hd
    rw [List.foldl_cons, ih, List.reverse_cons, List.find?_append]
    cases hf : t.reverse.find? (fun p => p.1 == x) with
    | some p => simp
    | none =>
      by_cases hk : k = x
      · subst hk; simp [AMap.get?_set_same]
      · have : x ≠ k := fun e => hk e.symm
        simp [hk, AMap.get?_set_other _ _ _ _ this]

/-- with unique keys in the batch, a key of the batch reads its own value -/
theorem get?_foldl_set_of_mem {w : List (Vb × α)} (m : AMap α) {x : Vb} {a : α}
    (hn : (AMap.keys w).Nodup) (h : (x, a) ∈ w) :
    AMap.get? (w.foldl (fun m p => AMap.set m p.1 p.2) m) x = some a := by
  rw [get?_foldl_set]
  have hr : (x, a) ∈ w.reverse := List.mem_reverse.mpr h
  cases hf : w.reverse.find? (fun p => p.1 == x) with
  | none =>
    have := List.find?_eq_none.mp hf (x, a) hr
    simp at this
  | some p =>
    have hp := List.mem_of_find?_eq_some hf
    have hpx : p.1 = x := by simpa using List.find?_some hf
    have hpw : p ∈ w := List.mem_reverse.mp hp
    obtain ⟨k, v⟩ := p
    simp only at hpx; subst hpx
    have h1 := get?_of_mem_nodup hn hpw
    have h2 := get?_of_mem_nodup hn h
    rw [h1] at h2
    simpa using h2

/-- a key outside the batch reads what it read before -/
theorem get?_foldl_set_of_not_mem {w : List (Vb × α)} (m : AMap α) {x : Vb}
    (h : x ∉ AMap.keys w) : AMap.get? (w.foldl (fun m p => AMap.set m p.1 p.2) m) x = AMap.get? m x := by
  rw [get?_foldl_set]
  cases hf : w.reverse.find? (fun p => p.1 == x) with
  | none => rfl
  | some p =>
    have hp := List.mem_reverse.mp (List.mem_of_find?_eq_some hf)
    have hpx : p.1 = x := by simpa using List.find?_some hf
    exact absurd (hpx ▸ AMap.mem_keys_of_mem hp) h

end amap

/-! ## the one `setOffset` call a step makes -/

/-- the `setOffset (vb, off, dirty)` call made by this op, if any: the `Ack` closure of
    a context of the current session, or an absorbed server event (reserved-key
    document: not dirty; seqno-advanced / system event: dirty) -/
def settleOf (s : St) (op : Op) : Option (Vb × Offset × Bool) :=
  match op with
  | .ack i =>
    match s.ctxs[i]? with
    | some p => if p.sess ≠ s.sess then none else some (p.vb, p.off, true)
    | none => none
  | .ev vb e =>
    match s.observers.get? vb with
    | none => none
    | some o =>
      match (Obs.step s.cfg.obs o e).2 with
      | .fwd (.doc d off _ _) => if isMetaKey d.key then some (vb, off, false) else none
      | .fwd (.seqAdv off) => some (vb, off, true)
      | .fwd (.sys _ off) => some (vb, off, true)
      | _ => none
  | _ => none

/-- the state in which that call is made differs from `s` only in fields `setOffset` does not read -/
theorem step_eq_setOffset (s : St) (op : Op) :
    match settleOf s op with
    | some (vb, off, d) =>
      ∃ s1 : St, s1.cfg = s.cfg ∧ s1.offsets = s.offsets ∧ s1.dirtyMaps = s.dirtyMaps ∧ s1.curGen = s.curGen ∧
        (step s op).1.offsets = (setOffset s1 vb off d).1.offsets ∧
        (step s op).1.dirtyMaps = (setOffset s1 vb off d).1.dirtyMaps ∧
        (step s op).2 = (setOffset s1 vb off d).2
    | none => (∀ vb e, op = .ev vb e → (step s op).1.offsets = s.offsets ∧ (step s op).1.dirtyMaps = s.dirtyMaps ∧
                  ∀ vb' o, Obsv.track vb' o ∉ (step s op).2) ∧
              (∀ i, op = .ack i → (step s op).1.offsets = s.offsets ∧ (step s op).1.dirtyMaps = s.dirtyMaps ∧
                  ∀ vb' o, Obsv.track vb' o ∉ (step s op).2) := by
  cases op with
  | ack i =>
    simp only [settleOf, step]
    cases hc : s.ctxs[i]? with
    | none => simp
    | some p =>
      by_cases hs : p.sess ≠ s.sess
      · simp [hs]
      · simp only [hs, if_false]
        exact ⟨s, rfl, rfl, rfl, rfl, rfl, rfl, rfl⟩
  | ev vb e =>
    simp only [settleOf, step]
    cases ho : s.observers.get? vb with
    | none => simp [evStep_of_no_obs e ho]
    | some o =>
      rw [evStep_of_obs e ho]
      simp only
      generalize Obs.step s.cfg.obs o e = r
      obtain ⟨o', out⟩ := r
      cases out with
      | fwd le =>
        cases le with
        | doc d off c t =>
          cases hm : isMetaKey d.key with
          | true =>
            simp only [hm, if_true, listen_doc_meta _ _ _ _ _ hm]
            exact ⟨{ s with observers := s.observers.set vb o' }, rfl, rfl, rfl, rfl, rfl, rfl, rfl⟩
          | false =>
            simp [hm, listen_doc_user _ _ _ _ _ hm]
        | seqAdv off => exact ⟨{ s with observers := s.observers.set vb o' }, rfl, rfl, rfl, rfl, rfl, rfl, rfl⟩
        | sys k off => exact ⟨{ s with observers := s.observers.set vb o' }, rfl, rfl, rfl, rfl, rfl, rfl, rfl⟩
        | marker => simp [listen]
        | oso => simp [listen]
      | _ => simp
  | _ => simp [settleOf]

theorem accepts_congr {s s1 : St} (hc : s1.cfg = s.cfg) (ho : s1.offsets = s.offsets) (vb : Vb) (o : Offset) :
    accepts s1 vb o = accepts s vb o := by
  unfold accepts; rw [hc, ho]

theorem curDirty_congr {s s1 : St} (hd : s1.dirtyMaps = s.dirtyMaps) (hg : s1.curGen = s.curGen) :
    curDirty s1 = curDirty s := by
  unfold curDirty; rw [hd, hg]

/-- is `op` an acknowledgement or a server event -/
def isSettleOp : Op → Bool
  | .ack _ | .ev _ _ => true
  | _ => false

/-- lookup in the offsets after an acknowledgement / server event -/
theorem settle_get? (s : St) (op : Op) (hop : isSettleOp op = true) (v : Vb) :
    (step s op).1.offsets.get? v =
      match settleOf s op with
      | some (vb, off, _) => if v = vb ∧ accepts s vb off = true then some off else s.offsets.get? v
      | none => s.offsets.get? v := by
  have := step_eq_setOffset s op
  cases hso : settleOf s op with
  | none =>
    rw [hso] at this
    cases op with
    | ack i => rw [(this.2 i rfl).1]
    | ev vb e => rw [(this.1 vb e rfl).1]
    | _ => simp [isSettleOp] at hop
  | some r =>
    obtain ⟨vb, off, d⟩ := r
    rw [hso] at this
    obtain ⟨s1, hc, ho, _, _, h1, _, _⟩ := this
    simp only [h1, setOffset_get?, accepts_congr hc ho, ho]

/-- the offsets map after an acknowledgement / server event -/
theorem settle_offsets (s : St) (op : Op) (hop : isSettleOp op = true) :
    (step s op).1.offsets =
      match settleOf s op with
      | some (vb, off, _) => if accepts s vb off = true then s.offsets.set vb off else s.offsets
      | none => s.offsets := by
  have := step_eq_setOffset s op
  cases hso : settleOf s op with
  | none =>
    rw [hso] at this
    cases op with
    | ack i => rw [(this.2 i rfl).1]
    | ev vb e => rw [(this.1 vb e rfl).1]
    | _ => simp [isSettleOp] at hop
  | some r =>
    obtain ⟨vb, off, d⟩ := r
    rw [hso] at this
    obtain ⟨s1, hc, ho, _, _, h1, _, _⟩ := this
    simp only [h1, setOffset_offsets, accepts_congr hc ho, ho]

/-- the current dirty list after an acknowledgement / server event, as a set -/
theorem settle_mem_curDirty (s : St) (op : Op) (hop : isSettleOp op = true) (x : Vb) :
    x ∈ curDirty (step s op).1 ↔
      (∃ off, settleOf s op = some (x, off, true) ∧ accepts s x off = true) ∨ x ∈ curDirty s := by
  have hg : (step s op).1.curGen = s.curGen :=
    step_curGen s (by cases op <;> first | rfl | simp [isSettleOp] at hop)
  have := step_eq_setOffset s op
  cases hso : settleOf s op with
  | none =>
    rw [hso] at this
    have hd : (step s op).1.dirtyMaps = s.dirtyMaps := by
      cases op with
      | ack i => exact (this.2 i rfl).2.1
      | ev vb e => exact (this.1 vb e rfl).2.1
      | _ => simp [isSettleOp] at hop
    rw [curDirty_congr hd hg]; simp
  | some r =>
    obtain ⟨vb, off, d⟩ := r
    rw [hso] at this
    obtain ⟨s1, hc, ho, hd1, hg1, _, h2, _⟩ := this
    have e1 : curDirty (step s op).1 = curDirty (setOffset s1 vb off d).1 := by
      unfold curDirty; rw [h2, hg, setOffset_curGen, hg1]
    rw [e1, mem_curDirty_setOffset, accepts_congr hc ho, curDirty_congr hd1 hg1]
    constructor
    · rintro (⟨rfl, rfl, ha⟩ | h)
      · exact Or.inl ⟨off, rfl, ha⟩
      · exact Or.inr h
    · rintro (⟨off', he, ha⟩ | h)
      · injection he with he; injection he with h1 he; injection he with h2 h3
        subst h1 h2 h3
        exact Or.inl ⟨rfl, rfl, ha⟩
      · exact Or.inr h

/-- the notifications of an acknowledgement / server event -/
theorem settle_track (s : St) (op : Op) (hop : isSettleOp op = true) (vb' : Vb) (o : Offset) :
    Obsv.track vb' o ∈ (step s op).2 ↔
      ∃ d, settleOf s op = some (vb', o, d) ∧ accepts s vb' o = true := by
  have := step_eq_setOffset s op
  cases hso : settleOf s op with
  | none =>
    rw [hso] at this
    have : Obsv.track vb' o ∉ (step s op).2 := by
      cases op with
      | ack i => exact (this.2 i rfl).2.2 vb' o
      | ev vb e => exact (this.1 vb e rfl).2.2 vb' o
      | _ => simp [isSettleOp] at hop
    simp [this]
  | some r =>
    obtain ⟨vb, off, d⟩ := r
    rw [hso] at this
    obtain ⟨s1, hc, ho, _, _, _, _, h3⟩ := this
    rw [h3, setOffset_out, accepts_congr hc ho]
    by_cases ha : accepts s vb off = true
    · simp only [ha, if_true, List.mem_singleton]
      constructor
      · intro h; injection h with h1 h2; subst h1 h2; exact ⟨d, rfl, ha⟩
      · rintro ⟨d', he, _⟩
        injection he with he; injection he with h1 he; injection he with h2 _
        subst h1 h2; rfl
    · simp only [ha]
      constructor
      · intro h; simp at h
      · rintro ⟨d', he, ha'⟩
        injection he with he; injection he with h1 he; injection he with h2 _
        subst h1 h2; exact absurd ha' ha

theorem vbRange_nodup (c : Cfg) : (vbRange c).Nodup := by
  unfold vbRange List.Nodup
  rw [List.pairwise_map]
  have := List.nodup_range (n := c.hi + 1 - c.lo)
  unfold List.Nodup at this
  refine this.imp ?_
  intro a b hab h
  have : @Eq Nat (a + c.lo) (b + c.lo) := h
  omega

/-- the keys of the offsets map are always pairwise distinct -/
theorem offsets_nodup_step (s : St) (op : Op) (h : (AMap.keys s.offsets).Nodup) :
    (AMap.keys (step s op).1.offsets).Nodup := by
  by_cases hop : isSettleOp op = true
  · rw [settle_offsets s op hop]
    split
    · split
      · exact nodup_keys_set h
      · exact h
    · exact h
  · cases op with
    | ack i => simp [isSettleOp] at hop
    | ev vb e => simp [isSettleOp] at hop
    | «open» =>
      by_cases hio : s.isOpen = true
      · simp only [step, openSession_of_isOpen hio]; exact h
      · have hio' : s.isOpen = false := by simpa using hio
        cases hl : load (openBase s) with
        | none => simp [step, openSession_of_load_none hio' hl, openBase, AMap.keys]
        | some r =>
          obtain ⟨offs, dirty, any⟩ := r
          simp only [step, openSession_of_load_some hio' hl]
          rw [load_keys hl]; exact vbRange_nodup _
    | close =>
      simp only [step, closeSession]
      split
      · exact h
      · simp [AMap.keys]
    | crash => simp [step, crash, AMap.keys]
    | rebalance lo hi =>
      simp only [step]
      rcases rebalanceSession_cases s lo hi with ⟨_, e⟩ | ⟨_, _, _, _, e⟩ | ⟨offs, dirty, any, _, _, _, hl, e⟩ <;> rw [e]
      · exact h
      · simp [rebalBase, closedOf, AMap.keys]
      · rw [rebalDone_offsets, load_keys hl]; exact vbRange_nodup _
    | _ => rw [step_offsets s (by rfl)]; exact h

end GoDcp.B
