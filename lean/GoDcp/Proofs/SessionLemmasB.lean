import GoDcp.Proofs.SessionLemmas
/-!
Helper lemmas for Props/C01, C03, C05 that are not in `Proofs/SessionLemmas`
(namespace `GoDcp.B` so that names never clash with that file):
association lists with unique keys, reading a store after a batch of writes,
deliveries and listener contexts of one step.  No property statements here.
-/
namespace GoDcp.B
open GoDcp

/-! ## association lists -/
section amap
variable {α : Type}

theorem nodup_keys_set {m : AMap α} {x : Vb} {a : α} (h : (AMap.keys m).Nodup) :
    (AMap.keys (AMap.set m x a)).Nodup := by
  cases hx : AMap.has m x with
  | false =>
    rw [AMap.keys_set_of_not_has a hx]
    have hnot : x ∉ AMap.keys m := by
      intro hm
      have := (AMap.has_iff_mem_keys m x).2 hm
      simp [hx] at this
    exact List.nodup_append.mpr ⟨h, by simp, by
      intro a ha b hb; simp at hb; subst hb; intro e; subst e; exact hnot ha⟩
  | true => rw [AMap.keys_set_of_has a hx]; exact h

theorem get?_of_mem_nodup {m : AMap α} {x : Vb} {a : α} (hn : (AMap.keys m).Nodup) (h : (x, a) ∈ m) :
    AMap.get? m x = some a := by
  induction m with
  | nil => simp at h
  | cons hd t ih =>
    obtain ⟨k, v⟩ := hd
    simp only [AMap.keys, List.map_cons, List.nodup_cons] at hn
    rcases List.mem_cons.mp h with h | h
    · cases h; simp [AMap.get?]
    · have hk : k ≠ x := by
        intro e; subst e
        exact hn.1 (List.mem_map_of_mem (f := (·.1)) h)
      simp only [AMap.get?, hk, if_false]
      exact ih hn.2 h

/-- writing a list of (key, value) pairs one after the other: what a key reads afterwards -/
theorem get?_foldl_set (w : List (Vb × α)) (m : AMap α) (x : Vb) :
    AMap.get? (w.foldl (fun m p => AMap.set m p.1 p.2) m) x =
      match (w.reverse.find? fun p => p.1 == x) with
      | some p => some p.2
      | none => AMap.get? m x := by
  induction w generalizing m with
  | nil => simp
  | cons hd t ih =>
    obtain ⟨k, v⟩ := hd
    rw [List.foldl_cons, ih, List.reverse_cons, List.find?_append]
    cases hf : t.reverse.find? (fun p => p.1 == x) with
    | some p => simp
    | none =>
      by_cases hk : k = x
      · subst hk; simp [AMap.get?_set_same]
      · have : x ≠ k := fun e => hk e.symm
        simp [hk, AMap.get?_set_other _ _ _ _ this]

/-- with unique keys in the batch, a key of the batch reads its own value -/
theorem get?_foldl_set_of_mem {w : List (Vb × α)} (m : AMap α) {x : Vb} {a : α}
    (hn : (AMap.keys w).Nodup) (h : (x, a) ∈ w) :
    AMap.get? (w.foldl (fun m p => AMap.set m p.1 p.2) m) x = some a := by
  rw [get?_foldl_set]
  have hr : (x, a) ∈ w.reverse := List.mem_reverse.mpr h
  cases hf : w.reverse.find? (fun p => p.1 == x) with
  | none =>
    have := List.find?_eq_none.mp hf (x, a) hr
    simp at this
  | some p =>
    have hp := List.mem_of_find?_eq_some hf
    have hpx : p.1 = x := by simpa using List.find?_some hf
    have hpw : p ∈ w := List.mem_reverse.mp hp
    obtain ⟨k, v⟩ := p
    simp only at hpx; subst hpx
    have h1 := get?_of_mem_nodup hn hpw
    have h2 := get?_of_mem_nodup hn h
    rw [h1] at h2
    simpa using h2

/-- a key outside the batch reads what it read before -/
theorem get?_foldl_set_of_not_mem {w : List (Vb × α)} (m : AMap α) {x : Vb}
    (h : x ∉ AMap.keys w) : AMap.get? (w.foldl (fun m p => AMap.set m p.1 p.2) m) x = AMap.get? m x := by
  rw [get?_foldl_set]
  cases hf : w.reverse.find? (fun p => p.1 == x) with
  | none => rfl
  | some p =>
    have hp := List.mem_reverse.mp (List.mem_of_find?_eq_some hf)
    have hpx : p.1 = x := by simpa using List.find?_some hf
    exact absurd (hpx ▸ AMap.mem_keys_of_mem hp) h

end amap
end GoDcp.B
