import GoDcp.Model.Session
/-!
# Shared helper lemmas about the session model (M1 + M2)

Used by the C04 / C06 / C14 proofs and meant to be imported by the proofs of the
other session properties. Core Lean only.

Contents
* `AMap` lemmas (membership, keys, `set` frame / commutation, `map`, `filter`)
* `posSeq`, `inSession`, `accepts`
* `markDirty` / `setOffset` characterisation and frame lemmas
* `Obs.step` facts (what the observer may change, what it forwards)
* `listen` / `ack` / saver micro-steps / `saveAll` decomposition
* life cycle: `openSession`, `closeSession`, `rebalanceSession` (`closedOf`, `rebalBase`, `rebalDone`,
  `rebalanceSession_cases`), `reopenStream` (`reopenStream_cases`)
* "what each op can change" lemmas for `step`
* `run` / `runTrace` bookkeeping
-/
namespace GoDcp

/-! ## association lists -/
namespace AMap
variable {α β : Type}

@[simp] theorem get?_nil (x : Vb) : get? ([] : AMap α) x = none := rfl

theorem get?_cons (k : Vb) (v : α) (r : AMap α) (x : Vb) :
    get? ((k, v) :: r) x = if k = x then some v else get? r x := rfl

/-- a successful lookup returns a pair that is in the list -/
theorem mem_of_get?_eq_some {m : AMap α} {x : Vb} {a : α} (h : get? m x = some a) : (x, a) ∈ m := by
  induction m with
  | nil => simp at h
  | cons hd t ih =>
    obtain ⟨k, v⟩ := hd
    rw [get?_cons] at h
    by_cases hk : k = x
    · subst hk; simp at h; subst h; exact List.mem_cons_self
    · simp [hk] at h; exact List.mem_cons_of_mem _ (ih h)

theorem get?_isSome_iff_mem_keys (m : AMap α) (x : Vb) : (get? m x).isSome = true ↔ x ∈ keys m := by
  induction m with
  | nil => simp [keys]
  | cons hd t ih =>
    obtain ⟨k, v⟩ := hd
    rw [get?_cons]
    by_cases hk : k = x
    · subst hk; simp [keys]
    · have : ¬ x = k := fun h => hk h.symm
      simp only [hk, if_false, ih]; simp [keys, this]

theorem has_iff_mem_keys (m : AMap α) (x : Vb) : has m x = true ↔ x ∈ keys m :=
  get?_isSome_iff_mem_keys m x

theorem has_iff_exists (m : AMap α) (x : Vb) : has m x = true ↔ ∃ a, get? m x = some a := by
  unfold has; exact Option.isSome_iff_exists

theorem get?_eq_none_iff_not_mem_keys (m : AMap α) (x : Vb) : get? m x = none ↔ x ∉ keys m := by
  rw [← get?_isSome_iff_mem_keys]; cases get? m x <;> simp

theorem has_eq_false_iff (m : AMap α) (x : Vb) : has m x = false ↔ get? m x = none := by
  unfold has; cases get? m x <;> simp

/-- a pair of the list has its key among the keys -/
theorem mem_keys_of_mem {m : AMap α} {p : Vb × α} (h : p ∈ m) : p.1 ∈ keys m :=
  List.mem_map_of_mem h

/-- every key has a pair -/
theorem exists_mem_of_mem_keys {m : AMap α} {x : Vb} (h : x ∈ keys m) : ∃ a, (x, a) ∈ m := by
  unfold keys at h
  obtain ⟨⟨k, a⟩, hp, rfl⟩ := List.mem_map.1 h
  exact ⟨a, hp⟩

/-- whatever is in `set m x a` is the new pair or was there before -/
theorem mem_set {m : AMap α} {x : Vb} {a : α} {p : Vb × α} (h : p ∈ set m x a) : p = (x, a) ∨ p ∈ m := by
  induction m with
  | nil => simp [set] at h; exact Or.inl h
  | cons hd t ih =>
    obtain ⟨k, v⟩ := hd
    by_cases hk : k = x
    · subst hk
      simp only [set, if_true, List.mem_cons] at h
      rcases h with h | h
      · exact Or.inl h
      · exact Or.inr (List.mem_cons_of_mem _ h)
    · simp only [set, hk, if_false, List.mem_cons] at h
      rcases h with h | h
      · exact Or.inr (h ▸ List.mem_cons_self)
      · rcases ih h with h | h
        · exact Or.inl h
        · exact Or.inr (List.mem_cons_of_mem _ h)

/-- the new pair is in `set m x a` -/
theorem mem_set_self (m : AMap α) (x : Vb) (a : α) : (x, a) ∈ set m x a := by
  induction m with
  | nil => simp [set]
  | cons hd t ih =>
    obtain ⟨k, v⟩ := hd
    by_cases hk : k = x
    · subst hk; simp [set]
    · simp only [set, hk, if_false]; exact List.mem_cons_of_mem _ ih

/-- pairs under other keys survive `set` -/
theorem mem_set_of_mem_of_ne {m : AMap α} {x : Vb} {a : α} {p : Vb × α} (h : p ∈ m) (hne : p.1 ≠ x) :
    p ∈ set m x a := by
  induction m with
  | nil => simp at h
  | cons hd t ih =>
    obtain ⟨k, v⟩ := hd
    by_cases hk : k = x
    · subst hk
      simp only [set, if_true]
      rcases List.mem_cons.1 h with h | h
      · subst h; exact absurd rfl hne
      · exact List.mem_cons_of_mem _ h
    · simp only [set, hk, if_false]
      rcases List.mem_cons.1 h with h | h
      · subst h; exact List.mem_cons_self
      · exact List.mem_cons_of_mem _ (ih h)

theorem keys_set_of_has {m : AMap α} {x : Vb} (a : α) (h : has m x = true) : keys (set m x a) = keys m := by
  induction m with
  | nil => simp [has] at h
  | cons hd t ih =>
    obtain ⟨k, v⟩ := hd
    by_cases hk : k = x
    · subst hk; simp [set, keys]
    · have ht : has t x = true := by simpa [has, get?_cons, hk] using h
      have := ih ht
      simp only [keys] at this ⊢
      simp [set, hk, this]

theorem keys_set_of_not_has {m : AMap α} {x : Vb} (a : α) (h : has m x = false) :
    keys (set m x a) = keys m ++ [x] := by
  induction m with
  | nil => simp [set, keys]
  | cons hd t ih =>
    obtain ⟨k, v⟩ := hd
    by_cases hk : k = x
    · subst hk; simp [has, get?_cons] at h
    · have ht : has t x = false := by simpa [has, get?_cons, hk] using h
      have := ih ht
      simp only [keys] at this ⊢
      simp [set, hk, this]

/-- the keys after `set`: the old keys and `x` -/
theorem mem_keys_set (m : AMap α) (x y : Vb) (a : α) : y ∈ keys (set m x a) ↔ y = x ∨ y ∈ keys m := by
  rw [← get?_isSome_iff_mem_keys, ← get?_isSome_iff_mem_keys, get?_set]
  by_cases h : y = x <;> simp [h]

theorem has_set (m : AMap α) (x y : Vb) (a : α) : has (set m x a) y = (decide (y = x) || has m y) := by
  unfold has; rw [get?_set]; by_cases h : y = x <;> simp [h]

/-- writing the same key twice keeps the second value -/
theorem set_set_same (m : AMap α) (x : Vb) (a b : α) : set (set m x a) x b = set m x b := by
  induction m with
  | nil => simp [set]
  | cons hd t ih =>
    obtain ⟨k, v⟩ := hd
    by_cases hk : k = x
    · subst hk; simp [set]
    · simp [set, hk, ih]

/-- writes to different keys commute as soon as one of the keys is already present
    (no append-order difference) -/
theorem set_comm_of_has {m : AMap α} {x y : Vb} (a b : α) (hxy : x ≠ y) (hx : has m x = true) :
    set (set m x a) y b = set (set m y b) x a := by
  induction m with
  | nil => simp [has] at hx
  | cons hd t ih =>
    obtain ⟨k, v⟩ := hd
    by_cases hk : k = x
    · subst hk; simp [set, hxy]
    · by_cases hk' : k = y
      · subst hk'; simp [set, hk]
      · have ht : has t x = true := by simpa [has, get?_cons, hk] using hx
        simp [set, hk, hk', ih ht]

/-- lookup through a value map that may look at the key -/
theorem get?_mapVal (f : Vb → α → β) (m : AMap α) (x : Vb) :
    get? (m.map fun p => (p.1, f p.1 p.2)) x = (get? m x).map (f x) := by
  induction m with
  | nil => rfl
  | cons hd t ih =>
    obtain ⟨k, v⟩ := hd
    simp only [List.map_cons, get?_cons]
    by_cases hk : k = x
    · subst hk; simp
    · simp [hk, ih]

theorem keys_mapVal (f : Vb → α → β) (m : AMap α) : keys (m.map fun p => (p.1, f p.1 p.2)) = keys m := by
  simp [keys, List.map_map, Function.comp_def]

/-- lookup in a list built from a key list -/
theorem get?_ofKeys (f : Vb → α) (l : List Vb) (x : Vb) :
    get? (l.map fun k => (k, f k)) x = if x ∈ l then some (f x) else none := by
  induction l with
  | nil => rfl
  | cons k t ih =>
    simp only [List.map_cons, get?_cons, ih]
    by_cases hk : k = x
    · subst hk; simp
    · have : ¬ x = k := fun h => hk h.symm
      simp [hk, this]

/-- lookup after removing one key -/
theorem get?_filter_ne (m : AMap α) (k x : Vb) :
    get? (m.filter fun p => p.1 ≠ k) x = if x = k then none else get? m x := by
  induction m with
  | nil => simp
  | cons hd t ih =>
    obtain ⟨k', v⟩ := hd
    have ih' := ih
    simp only [ne_eq, decide_not] at ih'
    by_cases h1 : k' = k
    · subst h1
      by_cases h2 : x = k'
      · subst h2; simpa [List.filter_cons] using ih'
      · have : ¬ k' = x := fun h => h2 h.symm
        simpa [List.filter_cons, h2, get?_cons, this] using ih'
    · by_cases h2 : x = k
      · subst h2; simpa [List.filter_cons, h1, get?_cons] using ih'
      · simp [h1, get?_cons, ih', h2]

/-- folding `set` over a list only adds pairs of that list -/
theorem mem_foldl_set {w : List (Vb × α)} {m : AMap α} {p : Vb × α}
    (h : p ∈ w.foldl (fun m q => set m q.1 q.2) m) : p ∈ m ∨ p ∈ w := by
  induction w generalizing m with
  | nil => exact Or.inl h
  | cons q r ih =>
    rcases ih h with h | h
    · rcases mem_set h with h | h
      · exact Or.inr (by cases q; cases h; exact List.mem_cons_self)
      · exact Or.inl h
    · exact Or.inr (List.mem_cons_of_mem _ h)

/-- keys after folding `set` -/
theorem mem_keys_foldl_set {w : List (Vb × α)} {m : AMap α} {x : Vb}
    (h : x ∈ keys (w.foldl (fun m q => set m q.1 q.2) m)) : x ∈ keys m ∨ x ∈ keys w := by
  obtain ⟨a, ha⟩ := exists_mem_of_mem_keys h
  rcases mem_foldl_set ha with h | h
  · exact Or.inl (mem_keys_of_mem h)
  · exact Or.inr (mem_keys_of_mem h)

end AMap

/-! ## basic notions -/

/-- tracked sequence number of a vBucket (0 when the stream has no entry) -/
def posSeq (s : St) (vb : Vb) : Nat := ((s.offsets.get? vb).map (·.seq)).getD 0

/-- ops that keep the stream object, its observers and loaded positions (and its durable
    environment's identity): everything but open / close / crash / setStore / setFlog / rebalance.
    A rebalance keeps the stream object but closes it, changes the range and loads the positions
    again from the store (they can move backwards across it), so it is a boundary like close+open;
    `.reopen` is in-session (it changes no position, only the observer's branch id). -/
def inSession : Op → Bool
  | .open | .close | .crash | .setStore _ _ | .setFlog _ _ | .rebalance _ _ => false
  | _ => true

/-- `setOffset` takes the offset: range guard and regression guard -/
def accepts (s : St) (vb : Vb) (o : Offset) : Bool :=
  inRange s.cfg vb &&
    match s.offsets.get? vb with
    | some cur => decide (cur.seq ≤ o.seq)
    | none => true

theorem accepts_iff (s : St) (vb : Vb) (o : Offset) :
    accepts s vb o = true ↔
      inRange s.cfg vb = true ∧ (s.offsets.get? vb = none ∨ ∃ cur, s.offsets.get? vb = some cur ∧ cur.seq ≤ o.seq) := by
  unfold accepts
  cases h : s.offsets.get? vb <;> simp

/-- with the position function: accepted iff in range and not behind the position -/
theorem accepts_iff_pos (s : St) (vb : Vb) (o : Offset) :
    accepts s vb o = true ↔ inRange s.cfg vb = true ∧ posSeq s vb ≤ o.seq := by
  unfold accepts posSeq
  cases h : s.offsets.get? vb <;> simp

theorem posSeq_of_get? {s : St} {vb : Vb} {o : Offset} (h : s.offsets.get? vb = some o) : posSeq s vb = o.seq := by
  simp [posSeq, h]

theorem posSeq_of_none {s : St} {vb : Vb} (h : s.offsets.get? vb = none) : posSeq s vb = 0 := by
  simp [posSeq, h]

/-- `posSeq` only looks at `offsets` -/
theorem posSeq_congr {s t : St} (h : t.offsets = s.offsets) (vb : Vb) : posSeq t vb = posSeq s vb := by
  simp [posSeq, h]

/-! ## `inRange` and `vbRange` -/

theorem inRange_iff (c : Cfg) (vb : Vb) : inRange c vb = true ↔ c.lo ≤ vb ∧ vb ≤ c.hi := by
  simp [inRange]

/-- the range guard is membership in the assigned vBucket list -/
theorem inRange_iff_mem_vbRange (c : Cfg) (vb : Vb) : inRange c vb = true ↔ vb ∈ vbRange c := by
  rw [inRange_iff]
  unfold vbRange
  constructor
  · intro ⟨h1, h2⟩
    have h1 : @LE.le Nat _ c.lo vb := h1
    have h2 : @LE.le Nat _ vb c.hi := h2
    exact List.mem_map.2 ⟨vb - c.lo, List.mem_range.2 (by omega), by show @Eq Nat (vb - c.lo + c.lo) vb; omega⟩
  · intro h
    obtain ⟨i, hi, hv⟩ := List.mem_map.1 h
    have := List.mem_range.1 hi
    have hv' : @Eq Nat (i + c.lo) vb := hv
    show @LE.le Nat _ c.lo vb ∧ @LE.le Nat _ vb c.hi
    omega

/-! ## `markDirty` -/

/-- `markDirty` only touches `dirtyMaps` -/
theorem markDirty_eq (s : St) (vb : Vb) :
    markDirty s vb = { s with dirtyMaps :=
      if (curDirty s).contains vb then s.dirtyMaps else s.dirtyMaps.set s.curGen (curDirty s ++ [vb]) } := by
  simp only [markDirty]
  cases h : (curDirty s).contains vb
  · simp only [Bool.false_eq_true, if_false]
  · simp only [if_true]

@[simp] theorem markDirty_cfg (s : St) (vb : Vb) : (markDirty s vb).cfg = s.cfg := by rw [markDirty_eq]
@[simp] theorem markDirty_store (s : St) (vb : Vb) : (markDirty s vb).store = s.store := by rw [markDirty_eq]
@[simp] theorem markDirty_high (s : St) (vb : Vb) : (markDirty s vb).high = s.high := by rw [markDirty_eq]
@[simp] theorem markDirty_flog (s : St) (vb : Vb) : (markDirty s vb).flog = s.flog := by rw [markDirty_eq]
@[simp] theorem markDirty_sess (s : St) (vb : Vb) : (markDirty s vb).sess = s.sess := by rw [markDirty_eq]
@[simp] theorem markDirty_isOpen (s : St) (vb : Vb) : (markDirty s vb).isOpen = s.isOpen := by rw [markDirty_eq]
@[simp] theorem markDirty_everOpened (s : St) (vb : Vb) : (markDirty s vb).everOpened = s.everOpened := by rw [markDirty_eq]
@[simp] theorem markDirty_offsets (s : St) (vb : Vb) : (markDirty s vb).offsets = s.offsets := by rw [markDirty_eq]
@[simp] theorem markDirty_curGen (s : St) (vb : Vb) : (markDirty s vb).curGen = s.curGen := by rw [markDirty_eq]
@[simp] theorem markDirty_nextGen (s : St) (vb : Vb) : (markDirty s vb).nextGen = s.nextGen := by rw [markDirty_eq]
@[simp] theorem markDirty_anyDirty (s : St) (vb : Vb) : (markDirty s vb).anyDirty = s.anyDirty := by rw [markDirty_eq]
@[simp] theorem markDirty_observers (s : St) (vb : Vb) : (markDirty s vb).observers = s.observers := by rw [markDirty_eq]
@[simp] theorem markDirty_obsNil (s : St) (vb : Vb) : (markDirty s vb).obsNil = s.obsNil := by rw [markDirty_eq]
@[simp] theorem markDirty_ctxs (s : St) (vb : Vb) : (markDirty s vb).ctxs = s.ctxs := by rw [markDirty_eq]
@[simp] theorem markDirty_savers (s : St) (vb : Vb) : (markDirty s vb).savers = s.savers := by rw [markDirty_eq]
@[simp] theorem markDirty_lockHeld (s : St) (vb : Vb) : (markDirty s vb).lockHeld = s.lockHeld := by rw [markDirty_eq]

/-- the current dirty list after `markDirty`, as a set: the old one plus `vb`
    (needs the current generation to have a map, which `Inv_gen` below gives) -/
theorem mem_curDirty_markDirty (s : St) (vb x : Vb) :
    x ∈ curDirty (markDirty s vb) ↔ x = vb ∨ x ∈ curDirty s := by
  simp only [markDirty]
  cases h : (curDirty s).contains vb
  · simp only [Bool.false_eq_true, if_false]
    simp only [curDirty, AMap.get?_set_same, Option.getD_some, List.mem_append, List.mem_singleton]
    exact Or.comm
  · simp only [if_true]
    constructor
    · exact Or.inr
    · rintro (rfl | h')
      · simpa using h
      · exact h'

/-- other generations' dirty maps are not touched by `markDirty` -/
theorem markDirty_dirtyMaps_other (s : St) (vb : Vb) (g : Nat) (h : g ≠ s.curGen) :
    (markDirty s vb).dirtyMaps.get? g = s.dirtyMaps.get? g := by
  simp only [markDirty]
  cases hc : (curDirty s).contains vb
  · simp only [Bool.false_eq_true, if_false]; exact AMap.get?_set_other _ _ _ _ h
  · simp only [if_true]

/-! ## `setOffset` -/

/-- `setOffset` in one line: if accepted, store + notify (+ mark), else nothing -/
theorem setOffset_eq (s : St) (vb : Vb) (o : Offset) (dirty : Bool) :
    setOffset s vb o dirty =
      if accepts s vb o then
        (if dirty then markDirty { s with offsets := s.offsets.set vb o } vb
         else { s with offsets := s.offsets.set vb o }, [.track vb o])
      else (s, []) := by
  unfold setOffset accepts
  by_cases hr : inRange s.cfg vb
  · cases hg : s.offsets.get? vb with
    | none => simp [hr]
    | some cur =>
      by_cases hc : cur.seq > o.seq
      · have : ¬ cur.seq ≤ o.seq := by omega
        simp [hr, hc, this]
      · have : cur.seq ≤ o.seq := by omega
        simp [hr, hc, this]
  · simp [hr]

theorem setOffset_of_accepts {s : St} {vb : Vb} {o : Offset} (dirty : Bool) (h : accepts s vb o = true) :
    setOffset s vb o dirty =
      (if dirty then markDirty { s with offsets := s.offsets.set vb o } vb
       else { s with offsets := s.offsets.set vb o }, [.track vb o]) := by
  rw [setOffset_eq, if_pos h]

theorem setOffset_of_not_accepts {s : St} {vb : Vb} {o : Offset} (dirty : Bool) (h : accepts s vb o = false) :
    setOffset s vb o dirty = (s, []) := by
  rw [setOffset_eq]; simp [h]

/-- the notification list of `setOffset` -/
theorem setOffset_out (s : St) (vb : Vb) (o : Offset) (dirty : Bool) :
    (setOffset s vb o dirty).2 = if accepts s vb o then [.track vb o] else [] := by
  rw [setOffset_eq]; split <;> rfl

/-- the offsets map after `setOffset` -/
theorem setOffset_offsets (s : St) (vb : Vb) (o : Offset) (dirty : Bool) :
    (setOffset s vb o dirty).1.offsets = if accepts s vb o then s.offsets.set vb o else s.offsets := by
  rw [setOffset_eq]
  by_cases h : accepts s vb o <;> cases dirty <;> simp [h]

/-- a non-dirtying `setOffset` leaves the dirty maps alone -/
theorem setOffset_dirtyMaps_false (s : St) (vb : Vb) (o : Offset) :
    (setOffset s vb o false).1.dirtyMaps = s.dirtyMaps := by
  rw [setOffset_eq]; split <;> rfl

@[simp] theorem setOffset_cfg (s : St) (vb : Vb) (o : Offset) (d : Bool) : (setOffset s vb o d).1.cfg = s.cfg := by
  rw [setOffset_eq]; by_cases h : accepts s vb o <;> cases d <;> simp [h]
@[simp] theorem setOffset_store (s : St) (vb : Vb) (o : Offset) (d : Bool) : (setOffset s vb o d).1.store = s.store := by
  rw [setOffset_eq]; by_cases h : accepts s vb o <;> cases d <;> simp [h]
@[simp] theorem setOffset_high (s : St) (vb : Vb) (o : Offset) (d : Bool) : (setOffset s vb o d).1.high = s.high := by
  rw [setOffset_eq]; by_cases h : accepts s vb o <;> cases d <;> simp [h]
@[simp] theorem setOffset_flog (s : St) (vb : Vb) (o : Offset) (d : Bool) : (setOffset s vb o d).1.flog = s.flog := by
  rw [setOffset_eq]; by_cases h : accepts s vb o <;> cases d <;> simp [h]
@[simp] theorem setOffset_sess (s : St) (vb : Vb) (o : Offset) (d : Bool) : (setOffset s vb o d).1.sess = s.sess := by
  rw [setOffset_eq]; by_cases h : accepts s vb o <;> cases d <;> simp [h]
@[simp] theorem setOffset_isOpen (s : St) (vb : Vb) (o : Offset) (d : Bool) : (setOffset s vb o d).1.isOpen = s.isOpen := by
  rw [setOffset_eq]; by_cases h : accepts s vb o <;> cases d <;> simp [h]
@[simp] theorem setOffset_everOpened (s : St) (vb : Vb) (o : Offset) (d : Bool) :
    (setOffset s vb o d).1.everOpened = s.everOpened := by
  rw [setOffset_eq]; by_cases h : accepts s vb o <;> cases d <;> simp [h]
@[simp] theorem setOffset_curGen (s : St) (vb : Vb) (o : Offset) (d : Bool) : (setOffset s vb o d).1.curGen = s.curGen := by
  rw [setOffset_eq]; by_cases h : accepts s vb o <;> cases d <;> simp [h]
@[simp] theorem setOffset_nextGen (s : St) (vb : Vb) (o : Offset) (d : Bool) : (setOffset s vb o d).1.nextGen = s.nextGen := by
  rw [setOffset_eq]; by_cases h : accepts s vb o <;> cases d <;> simp [h]
@[simp] theorem setOffset_anyDirty (s : St) (vb : Vb) (o : Offset) (d : Bool) : (setOffset s vb o d).1.anyDirty = s.anyDirty := by
  rw [setOffset_eq]; by_cases h : accepts s vb o <;> cases d <;> simp [h]
@[simp] theorem setOffset_observers (s : St) (vb : Vb) (o : Offset) (d : Bool) :
    (setOffset s vb o d).1.observers = s.observers := by
  rw [setOffset_eq]; by_cases h : accepts s vb o <;> cases d <;> simp [h]
@[simp] theorem setOffset_obsNil (s : St) (vb : Vb) (o : Offset) (d : Bool) : (setOffset s vb o d).1.obsNil = s.obsNil := by
  rw [setOffset_eq]; by_cases h : accepts s vb o <;> cases d <;> simp [h]
@[simp] theorem setOffset_ctxs (s : St) (vb : Vb) (o : Offset) (d : Bool) : (setOffset s vb o d).1.ctxs = s.ctxs := by
  rw [setOffset_eq]; by_cases h : accepts s vb o <;> cases d <;> simp [h]
@[simp] theorem setOffset_savers (s : St) (vb : Vb) (o : Offset) (d : Bool) : (setOffset s vb o d).1.savers = s.savers := by
  rw [setOffset_eq]; by_cases h : accepts s vb o <;> cases d <;> simp [h]
@[simp] theorem setOffset_lockHeld (s : St) (vb : Vb) (o : Offset) (d : Bool) : (setOffset s vb o d).1.lockHeld = s.lockHeld := by
  rw [setOffset_eq]; by_cases h : accepts s vb o <;> cases d <;> simp [h]

/-- lookup in the offsets after `setOffset` -/
theorem setOffset_get? (s : St) (vb : Vb) (o : Offset) (d : Bool) (v : Vb) :
    (setOffset s vb o d).1.offsets.get? v =
      if v = vb ∧ accepts s vb o = true then some o else s.offsets.get? v := by
  rw [setOffset_offsets]
  by_cases h : accepts s vb o
  · simp only [h, if_true, AMap.get?_set, and_true]
  · simp [h]

/-- other vBuckets' entries are not touched -/
theorem setOffset_get?_other (s : St) (vb : Vb) (o : Offset) (d : Bool) {v : Vb} (h : v ≠ vb) :
    (setOffset s vb o d).1.offsets.get? v = s.offsets.get? v := by
  rw [setOffset_get?]; simp [h]

/-- existing entries stay, only an accepted `vb` may be added -/
theorem setOffset_has (s : St) (vb : Vb) (o : Offset) (d : Bool) (v : Vb) :
    (setOffset s vb o d).1.offsets.has v = (s.offsets.has v || (decide (v = vb) && accepts s vb o)) := by
  unfold AMap.has
  rw [setOffset_get?]
  by_cases h1 : v = vb <;> by_cases h2 : accepts s vb o <;> simp [h1, h2]

/-- the dirty maps of generations other than the current one are not touched -/
theorem setOffset_dirtyMaps_other (s : St) (vb : Vb) (o : Offset) (d : Bool) (g : Nat) (h : g ≠ s.curGen) :
    (setOffset s vb o d).1.dirtyMaps.get? g = s.dirtyMaps.get? g := by
  rw [setOffset_eq]
  by_cases ha : accepts s vb o <;> cases d <;> simp [ha]
  exact markDirty_dirtyMaps_other _ _ _ h

/-- the current dirty list after `setOffset`, as a set -/
theorem mem_curDirty_setOffset (s : St) (vb : Vb) (o : Offset) (d : Bool) (x : Vb) :
    x ∈ curDirty (setOffset s vb o d).1 ↔ (x = vb ∧ d = true ∧ accepts s vb o = true) ∨ x ∈ curDirty s := by
  rw [setOffset_eq]
  by_cases ha : accepts s vb o <;> cases d <;> simp [ha]
  · rfl
  · rw [mem_curDirty_markDirty]; rfl

/-! ## the observer -/
namespace Obs

theorem needCatchup_cases (o : Obs) (seq : Nat) :
    (needCatchup o seq).2 = o ∨ (needCatchup o seq).2 = { o with catchNeed := false } := by
  unfold needCatchup
  split
  · exact Or.inl rfl
  · split
    · exact Or.inr rfl
    · exact Or.inl rfl

@[simp] theorem needCatchup_snap (o : Obs) (seq : Nat) : (needCatchup o seq).2.snap = o.snap := by
  rcases needCatchup_cases o seq with h | h <;> rw [h]
@[simp] theorem needCatchup_uuid (o : Obs) (seq : Nat) : (needCatchup o seq).2.uuid = o.uuid := by
  rcases needCatchup_cases o seq with h | h <;> rw [h]
@[simp] theorem needCatchup_latest (o : Obs) (seq : Nat) : (needCatchup o seq).2.latest = o.latest := by
  rcases needCatchup_cases o seq with h | h <;> rw [h]
@[simp] theorem needCatchup_closed (o : Obs) (seq : Nat) : (needCatchup o seq).2.closed = o.closed := by
  rcases needCatchup_cases o seq with h | h <;> rw [h]
@[simp] theorem needCatchup_endClosed (o : Obs) (seq : Nat) : (needCatchup o seq).2.endClosed = o.endClosed := by
  rcases needCatchup_cases o seq with h | h <;> rw [h]
@[simp] theorem needCatchup_persist (o : Obs) (seq : Nat) : (needCatchup o seq).2.persist = o.persist := by
  rcases needCatchup_cases o seq with h | h <;> rw [h]

@[simp] theorem needCatchup_mkOffset (o : Obs) (seq x : Nat) : mkOffset (needCatchup o seq).2 x = mkOffset o x := by
  simp [mkOffset]
@[simp] theorem needCatchup_inSnap (o : Obs) (seq x : Nat) : inSnap (needCatchup o seq).2 x = inSnap o x := by
  simp [inSnap]
@[simp] theorem needCatchup_send (o : Obs) (seq : Nat) (e : LEvent) : send (needCatchup o seq).2 e = send o e := by
  simp [send]

@[simp] theorem count_snap (o : Obs) (k : DocKind) : (count o k).snap = o.snap := by cases k <;> rfl
@[simp] theorem count_uuid (o : Obs) (k : DocKind) : (count o k).uuid = o.uuid := by cases k <;> rfl
@[simp] theorem count_latest (o : Obs) (k : DocKind) : (count o k).latest = o.latest := by cases k <;> rfl
@[simp] theorem count_closed (o : Obs) (k : DocKind) : (count o k).closed = o.closed := by cases k <;> rfl
@[simp] theorem count_endClosed (o : Obs) (k : DocKind) : (count o k).endClosed = o.endClosed := by cases k <;> rfl
@[simp] theorem count_persist (o : Obs) (k : DocKind) : (count o k).persist = o.persist := by cases k <;> rfl
@[simp] theorem count_catchNeed (o : Obs) (k : DocKind) : (count o k).catchNeed = o.catchNeed := by cases k <;> rfl
@[simp] theorem count_catchSeq (o : Obs) (k : DocKind) : (count o k).catchSeq = o.catchSeq := by cases k <;> rfl

@[simp] theorem mkOffset_seq (o : Obs) (seq : Nat) : (mkOffset o seq).seq = seq := by
  unfold mkOffset; split <;> rfl
@[simp] theorem mkOffset_uuid (o : Obs) (seq : Nat) : (mkOffset o seq).uuid = o.uuid := by
  unfold mkOffset; split <;> rfl
@[simp] theorem mkOffset_latest (o : Obs) (seq : Nat) : (mkOffset o seq).latest = o.latest := by
  unfold mkOffset; split <;> rfl

/-- inside the current marker the offset is built from that marker -/
theorem mkOffset_of_inSnap {o : Obs} {seq : Nat} (h : inSnap o seq = true) :
    ∃ s e, o.snap = some (s, e) ∧ s ≤ seq ∧ seq ≤ e ∧ mkOffset o seq = ⟨o.uuid, seq, s, e, o.latest⟩ := by
  unfold inSnap at h
  unfold mkOffset
  cases hs : o.snap with
  | none => simp [hs] at h
  | some p =>
    obtain ⟨a, b⟩ := p
    simp [hs] at h
    exact ⟨a, b, rfl, h.1, h.2, rfl⟩

/-- the document case of `Obs.step` without the pattern-matching `let` -/
theorem step_doc (c : ObsCfg) (o : Obs) (d : DocEv) :
    step c o (.doc d) =
      if !gateOpen c o d.seq then (o, .blocked) else
      if (needCatchup o d.seq).1 then ((needCatchup o d.seq).2, .dropCatchup) else
      if beforeSkip c (d.cas / 1000000000) then ((needCatchup o d.seq).2, .dropSkip) else
      if !inSnap o d.seq then ((needCatchup o d.seq).2, .failstop) else
      (count (needCatchup o d.seq).2 d.kind,
       send o (.doc d (mkOffset o d.seq) (collName c d.coll) (d.cas / 1000000000))) := by
  simp only [step]
  rcases hn : needCatchup o d.seq with ⟨need, o1⟩
  have h1 : o1 = (needCatchup o d.seq).2 := by rw [hn]
  simp only [h1, needCatchup_inSnap, needCatchup_mkOffset, needCatchup_send]

/-- the system-event case of `Obs.step` without the pattern-matching `let` -/
theorem step_sys (c : ObsCfg) (o : Obs) (k : SysKind) (seq coll : Nat) :
    step c o (.sys k seq coll) =
      if !gateOpen c o seq then (o, .blocked) else
      if (needCatchup o seq).1 then ((needCatchup o seq).2, .dropCatchup) else
      if !inSnap o seq then ((needCatchup o seq).2, .failstop) else
      ((needCatchup o seq).2, send o (.sys k (mkOffset o seq))) := by
  simp only [step]
  rcases hn : needCatchup o seq with ⟨need, o1⟩
  have h1 : o1 = (needCatchup o seq).2 := by rw [hn]
  simp only [h1, needCatchup_inSnap, needCatchup_mkOffset, needCatchup_send]

theorem step_marker (c : ObsCfg) (o : Obs) (s e : Nat) :
    step c o (.marker s e) =
      if !gateOpen c o s then (o, .blocked) else
      ({ o with snap := some (s, e) }, send o .marker) := rfl

theorem step_seqAdv (c : ObsCfg) (o : Obs) (seq : Nat) :
    step c o (.seqAdv seq) =
      if !gateOpen c o seq then (o, .blocked) else
      ({ o with snap := some (seq, seq) }, send o (.seqAdv ⟨o.uuid, seq, seq, seq, o.latest⟩)) := rfl

theorem step_oso (c : ObsCfg) (o : Obs) : step c o .oso = (o, send o .oso) := rfl

/-- no server event changes the observer's branch id -/
@[simp] theorem step_uuid (c : ObsCfg) (o : Obs) (e : SrvEv) : (step c o e).1.uuid = o.uuid := by
  cases e with
  | marker s e => rw [step_marker]; split <;> rfl
  | doc d => rw [step_doc]; (repeat' split) <;> simp
  | seqAdv seq => rw [step_seqAdv]; split <;> rfl
  | sys k seq coll => rw [step_sys]; (repeat' split) <;> simp
  | oso => rfl

@[simp] theorem step_latest (c : ObsCfg) (o : Obs) (e : SrvEv) : (step c o e).1.latest = o.latest := by
  cases e with
  | marker s e => rw [step_marker]; split <;> rfl
  | doc d => rw [step_doc]; (repeat' split) <;> simp
  | seqAdv seq => rw [step_seqAdv]; split <;> rfl
  | sys k seq coll => rw [step_sys]; (repeat' split) <;> simp
  | oso => rfl

@[simp] theorem step_closed (c : ObsCfg) (o : Obs) (e : SrvEv) : (step c o e).1.closed = o.closed := by
  cases e with
  | marker s e => rw [step_marker]; split <;> rfl
  | doc d => rw [step_doc]; (repeat' split) <;> simp
  | seqAdv seq => rw [step_seqAdv]; split <;> rfl
  | sys k seq coll => rw [step_sys]; (repeat' split) <;> simp
  | oso => rfl

@[simp] theorem step_endClosed (c : ObsCfg) (o : Obs) (e : SrvEv) : (step c o e).1.endClosed = o.endClosed := by
  cases e with
  | marker s e => rw [step_marker]; split <;> rfl
  | doc d => rw [step_doc]; (repeat' split) <;> simp
  | seqAdv seq => rw [step_seqAdv]; split <;> rfl
  | sys k seq coll => rw [step_sys]; (repeat' split) <;> simp
  | oso => rfl

@[simp] theorem step_persist (c : ObsCfg) (o : Obs) (e : SrvEv) : (step c o e).1.persist = o.persist := by
  cases e with
  | marker s e => rw [step_marker]; split <;> rfl
  | doc d => rw [step_doc]; (repeat' split) <;> simp
  | seqAdv seq => rw [step_seqAdv]; split <;> rfl
  | sys k seq coll => rw [step_sys]; (repeat' split) <;> simp
  | oso => rfl

/-- a document event never changes the marker -/
theorem step_doc_snap (c : ObsCfg) (o : Obs) (d : DocEv) : (step c o (.doc d)).1.snap = o.snap := by
  rw [step_doc]; (repeat' split) <;> simp

theorem step_sys_snap (c : ObsCfg) (o : Obs) (k : SysKind) (seq coll : Nat) :
    (step c o (.sys k seq coll)).1.snap = o.snap := by
  rw [step_sys]; (repeat' split) <;> simp

theorem send_eq_fwd {o : Obs} {e le : LEvent} (h : send o e = .fwd le) : le = e ∧ o.closed = false := by
  unfold send at h
  split at h
  · cases h
  · rename_i hc; injection h with h; exact ⟨h.symm, by simpa using hc⟩

/-- everything the observer can forward, with the conditions under which it does -/
theorem step_fwd_cases {c : ObsCfg} {o : Obs} {e : SrvEv} {le : LEvent} (h : (step c o e).2 = .fwd le) :
    (∃ s e', e = .marker s e' ∧ le = .marker) ∨
    (∃ d, e = .doc d ∧ le = .doc d (mkOffset o d.seq) (collName c d.coll) (d.cas / 1000000000) ∧
        gateOpen c o d.seq = true ∧ (needCatchup o d.seq).1 = false ∧
        beforeSkip c (d.cas / 1000000000) = false ∧ inSnap o d.seq = true) ∨
    (∃ seq, e = .seqAdv seq ∧ le = .seqAdv ⟨o.uuid, seq, seq, seq, o.latest⟩) ∨
    (∃ k seq coll, e = .sys k seq coll ∧ le = .sys k (mkOffset o seq) ∧
        gateOpen c o seq = true ∧ (needCatchup o seq).1 = false ∧ inSnap o seq = true) ∨
    (e = .oso ∧ le = .oso) := by
  cases e with
  | marker s e' =>
    rw [step_marker] at h
    split at h
    · cases h
    · exact Or.inl ⟨s, e', rfl, (send_eq_fwd h).1⟩
  | doc d =>
    rw [step_doc] at h
    split at h; · cases h
    split at h; · cases h
    split at h; · cases h
    split at h; · cases h
    rename_i h1 h2 h3 h4
    refine Or.inr (Or.inl ⟨d, rfl, (send_eq_fwd h).1, ?_, ?_, ?_, ?_⟩)
    · simpa using h1
    · simpa using h2
    · simpa using h3
    · simpa using h4
  | seqAdv seq =>
    rw [step_seqAdv] at h
    split at h
    · cases h
    · exact Or.inr (Or.inr (Or.inl ⟨seq, rfl, (send_eq_fwd h).1⟩))
  | sys k seq coll =>
    rw [step_sys] at h
    split at h; · cases h
    split at h; · cases h
    split at h; · cases h
    rename_i h1 h2 h3
    refine Or.inr (Or.inr (Or.inr (Or.inl ⟨k, seq, coll, rfl, (send_eq_fwd h).1, ?_, ?_, ?_⟩)))
    · simpa using h1
    · simpa using h2
    · simpa using h3
  | oso =>
    rw [step_oso] at h
    exact Or.inr (Or.inr (Or.inr (Or.inr ⟨rfl, (send_eq_fwd h).1⟩)))

end Obs

/-! ## `listen`, `ack`, `evStep` -/

theorem listen_doc_meta (s : St) (vb : Vb) {d : DocEv} (off : Offset) (coll : String) (t : Nat)
    (h : isMetaKey d.key = true) : listen s vb (.doc d off coll t) = setOffset s vb off false := by
  simp [listen, h]

theorem listen_doc_user (s : St) (vb : Vb) {d : DocEv} (off : Offset) (coll : String) (t : Nat)
    (h : isMetaKey d.key = false) :
    listen s vb (.doc d off coll t) =
      ({ s with ctxs := s.ctxs ++ [⟨s.sess, vb, off⟩] }, [.deliver s.ctxs.length vb d off coll t]) := by
  simp [listen, h]

@[simp] theorem listen_cfg (s : St) (vb : Vb) (le : LEvent) : (listen s vb le).1.cfg = s.cfg := by
  cases le <;> simp only [listen] <;> (try split) <;> simp
@[simp] theorem listen_store (s : St) (vb : Vb) (le : LEvent) : (listen s vb le).1.store = s.store := by
  cases le <;> simp only [listen] <;> (try split) <;> simp
@[simp] theorem listen_high (s : St) (vb : Vb) (le : LEvent) : (listen s vb le).1.high = s.high := by
  cases le <;> simp only [listen] <;> (try split) <;> simp
@[simp] theorem listen_flog (s : St) (vb : Vb) (le : LEvent) : (listen s vb le).1.flog = s.flog := by
  cases le <;> simp only [listen] <;> (try split) <;> simp
@[simp] theorem listen_sess (s : St) (vb : Vb) (le : LEvent) : (listen s vb le).1.sess = s.sess := by
  cases le <;> simp only [listen] <;> (try split) <;> simp
@[simp] theorem listen_isOpen (s : St) (vb : Vb) (le : LEvent) : (listen s vb le).1.isOpen = s.isOpen := by
  cases le <;> simp only [listen] <;> (try split) <;> simp
@[simp] theorem listen_everOpened (s : St) (vb : Vb) (le : LEvent) : (listen s vb le).1.everOpened = s.everOpened := by
  cases le <;> simp only [listen] <;> (try split) <;> simp
@[simp] theorem listen_curGen (s : St) (vb : Vb) (le : LEvent) : (listen s vb le).1.curGen = s.curGen := by
  cases le <;> simp only [listen] <;> (try split) <;> simp
@[simp] theorem listen_nextGen (s : St) (vb : Vb) (le : LEvent) : (listen s vb le).1.nextGen = s.nextGen := by
  cases le <;> simp only [listen] <;> (try split) <;> simp
@[simp] theorem listen_anyDirty (s : St) (vb : Vb) (le : LEvent) : (listen s vb le).1.anyDirty = s.anyDirty := by
  cases le <;> simp only [listen] <;> (try split) <;> simp
@[simp] theorem listen_observers (s : St) (vb : Vb) (le : LEvent) : (listen s vb le).1.observers = s.observers := by
  cases le <;> simp only [listen] <;> (try split) <;> simp
@[simp] theorem listen_obsNil (s : St) (vb : Vb) (le : LEvent) : (listen s vb le).1.obsNil = s.obsNil := by
  cases le <;> simp only [listen] <;> (try split) <;> simp
@[simp] theorem listen_savers (s : St) (vb : Vb) (le : LEvent) : (listen s vb le).1.savers = s.savers := by
  cases le <;> simp only [listen] <;> (try split) <;> simp
@[simp] theorem listen_lockHeld (s : St) (vb : Vb) (le : LEvent) : (listen s vb le).1.lockHeld = s.lockHeld := by
  cases le <;> simp only [listen] <;> (try split) <;> simp

/-- `listen` only ever appends to the context list -/
theorem listen_ctxs_prefix (s : St) (vb : Vb) (le : LEvent) : s.ctxs <+: (listen s vb le).1.ctxs := by
  cases le <;> simp only [listen] <;> (try split) <;> simp

theorem ack_eq (s : St) (p : Pending) :
    ack s p = ({ (setOffset s p.vb p.off true).1 with anyDirty := true }, (setOffset s p.vb p.off true).2) := rfl

@[simp] theorem ack_cfg (s : St) (p : Pending) : (ack s p).1.cfg = s.cfg := by
  simp [ack_eq]
@[simp] theorem ack_store (s : St) (p : Pending) : (ack s p).1.store = s.store := by
  simp [ack_eq]
@[simp] theorem ack_high (s : St) (p : Pending) : (ack s p).1.high = s.high := by
  simp [ack_eq]
@[simp] theorem ack_flog (s : St) (p : Pending) : (ack s p).1.flog = s.flog := by
  simp [ack_eq]
@[simp] theorem ack_sess (s : St) (p : Pending) : (ack s p).1.sess = s.sess := by
  simp [ack_eq]
@[simp] theorem ack_isOpen (s : St) (p : Pending) : (ack s p).1.isOpen = s.isOpen := by
  simp [ack_eq]
@[simp] theorem ack_everOpened (s : St) (p : Pending) : (ack s p).1.everOpened = s.everOpened := by
  simp [ack_eq]
@[simp] theorem ack_curGen (s : St) (p : Pending) : (ack s p).1.curGen = s.curGen := by
  simp [ack_eq]
@[simp] theorem ack_nextGen (s : St) (p : Pending) : (ack s p).1.nextGen = s.nextGen := by
  simp [ack_eq]
@[simp] theorem ack_observers (s : St) (p : Pending) : (ack s p).1.observers = s.observers := by
  simp [ack_eq]
@[simp] theorem ack_obsNil (s : St) (p : Pending) : (ack s p).1.obsNil = s.obsNil := by
  simp [ack_eq]
@[simp] theorem ack_ctxs (s : St) (p : Pending) : (ack s p).1.ctxs = s.ctxs := by
  simp [ack_eq]
@[simp] theorem ack_savers (s : St) (p : Pending) : (ack s p).1.savers = s.savers := by
  simp [ack_eq]
@[simp] theorem ack_lockHeld (s : St) (p : Pending) : (ack s p).1.lockHeld = s.lockHeld := by
  simp [ack_eq]

@[simp] theorem ack_anyDirty (s : St) (p : Pending) : (ack s p).1.anyDirty = true := rfl

theorem ack_offsets (s : St) (p : Pending) : (ack s p).1.offsets = (setOffset s p.vb p.off true).1.offsets := rfl
theorem ack_dirtyMaps (s : St) (p : Pending) : (ack s p).1.dirtyMaps = (setOffset s p.vb p.off true).1.dirtyMaps := rfl
theorem ack_out (s : St) (p : Pending) : (ack s p).2 = (setOffset s p.vb p.off true).2 := rfl

theorem evStep_of_no_obs {s : St} {vb : Vb} (e : SrvEv) (h : s.observers.get? vb = none) :
    evStep s vb e = (s, [.bad "no observer for vb"]) := by
  simp only [evStep, h]

theorem evStep_of_obs {s : St} {vb : Vb} {o : Obs} (e : SrvEv) (h : s.observers.get? vb = some o) :
    evStep s vb e =
      match (Obs.step s.cfg.obs o e).2 with
      | .fwd le => listen { s with observers := s.observers.set vb (Obs.step s.cfg.obs o e).1 } vb le
      | .blocked => ({ s with observers := s.observers.set vb (Obs.step s.cfg.obs o e).1 }, [.blocked])
      | .dropCatchup => ({ s with observers := s.observers.set vb (Obs.step s.cfg.obs o e).1 }, [.drop "catchup"])
      | .dropSkip => ({ s with observers := s.observers.set vb (Obs.step s.cfg.obs o e).1 }, [.drop "skip"])
      | .dropClosed => ({ s with observers := s.observers.set vb (Obs.step s.cfg.obs o e).1 }, [.drop "closed"])
      | .failstop => ({ s with observers := s.observers.set vb (Obs.step s.cfg.obs o e).1 }, [.failstop "snapshot"]) := by
  simp only [evStep, h]
  generalize Obs.step s.cfg.obs o e = r
  obtain ⟨o', out⟩ := r
  cases out <;> rfl

@[simp] theorem evStep_cfg (s : St) (vb : Vb) (e : SrvEv) : (evStep s vb e).1.cfg = s.cfg := by
  cases h : s.observers.get? vb with
  | none => rw [evStep_of_no_obs e h]
  | some o => rw [evStep_of_obs e h]; split <;> simp
@[simp] theorem evStep_store (s : St) (vb : Vb) (e : SrvEv) : (evStep s vb e).1.store = s.store := by
  cases h : s.observers.get? vb with
  | none => rw [evStep_of_no_obs e h]
  | some o => rw [evStep_of_obs e h]; split <;> simp
@[simp] theorem evStep_high (s : St) (vb : Vb) (e : SrvEv) : (evStep s vb e).1.high = s.high := by
  cases h : s.observers.get? vb with
  | none => rw [evStep_of_no_obs e h]
  | some o => rw [evStep_of_obs e h]; split <;> simp
@[simp] theorem evStep_flog (s : St) (vb : Vb) (e : SrvEv) : (evStep s vb e).1.flog = s.flog := by
  cases h : s.observers.get? vb with
  | none => rw [evStep_of_no_obs e h]
  | some o => rw [evStep_of_obs e h]; split <;> simp
@[simp] theorem evStep_sess (s : St) (vb : Vb) (e : SrvEv) : (evStep s vb e).1.sess = s.sess := by
  cases h : s.observers.get? vb with
  | none => rw [evStep_of_no_obs e h]
  | some o => rw [evStep_of_obs e h]; split <;> simp
@[simp] theorem evStep_isOpen (s : St) (vb : Vb) (e : SrvEv) : (evStep s vb e).1.isOpen = s.isOpen := by
  cases h : s.observers.get? vb with
  | none => rw [evStep_of_no_obs e h]
  | some o => rw [evStep_of_obs e h]; split <;> simp
@[simp] theorem evStep_everOpened (s : St) (vb : Vb) (e : SrvEv) : (evStep s vb e).1.everOpened = s.everOpened := by
  cases h : s.observers.get? vb with
  | none => rw [evStep_of_no_obs e h]
  | some o => rw [evStep_of_obs e h]; split <;> simp
@[simp] theorem evStep_curGen (s : St) (vb : Vb) (e : SrvEv) : (evStep s vb e).1.curGen = s.curGen := by
  cases h : s.observers.get? vb with
  | none => rw [evStep_of_no_obs e h]
  | some o => rw [evStep_of_obs e h]; split <;> simp
@[simp] theorem evStep_nextGen (s : St) (vb : Vb) (e : SrvEv) : (evStep s vb e).1.nextGen = s.nextGen := by
  cases h : s.observers.get? vb with
  | none => rw [evStep_of_no_obs e h]
  | some o => rw [evStep_of_obs e h]; split <;> simp
@[simp] theorem evStep_anyDirty (s : St) (vb : Vb) (e : SrvEv) : (evStep s vb e).1.anyDirty = s.anyDirty := by
  cases h : s.observers.get? vb with
  | none => rw [evStep_of_no_obs e h]
  | some o => rw [evStep_of_obs e h]; split <;> simp
@[simp] theorem evStep_obsNil (s : St) (vb : Vb) (e : SrvEv) : (evStep s vb e).1.obsNil = s.obsNil := by
  cases h : s.observers.get? vb with
  | none => rw [evStep_of_no_obs e h]
  | some o => rw [evStep_of_obs e h]; split <;> simp
@[simp] theorem evStep_savers (s : St) (vb : Vb) (e : SrvEv) : (evStep s vb e).1.savers = s.savers := by
  cases h : s.observers.get? vb with
  | none => rw [evStep_of_no_obs e h]
  | some o => rw [evStep_of_obs e h]; split <;> simp
@[simp] theorem evStep_lockHeld (s : St) (vb : Vb) (e : SrvEv) : (evStep s vb e).1.lockHeld = s.lockHeld := by
  cases h : s.observers.get? vb with
  | none => rw [evStep_of_no_obs e h]
  | some o => rw [evStep_of_obs e h]; split <;> simp

theorem evStep_ctxs_prefix (s : St) (vb : Vb) (e : SrvEv) : s.ctxs <+: (evStep s vb e).1.ctxs := by
  cases h : s.observers.get? vb with
  | none => rw [evStep_of_no_obs e h]; exact List.prefix_refl _
  | some o =>
    rw [evStep_of_obs e h]
    split
    · exact listen_ctxs_prefix { s with observers := s.observers.set vb (Obs.step s.cfg.obs o e).1 } _ _
    all_goals exact List.prefix_refl _

/-! ## the saver micro-steps -/

@[simp] theorem svBegin_cfg (s : St) (k : Nat) : (svBegin s k).1.cfg = s.cfg := by
  unfold svBegin; (repeat' split) <;> rfl
@[simp] theorem svBegin_store (s : St) (k : Nat) : (svBegin s k).1.store = s.store := by
  unfold svBegin; (repeat' split) <;> rfl
@[simp] theorem svBegin_high (s : St) (k : Nat) : (svBegin s k).1.high = s.high := by
  unfold svBegin; (repeat' split) <;> rfl
@[simp] theorem svBegin_flog (s : St) (k : Nat) : (svBegin s k).1.flog = s.flog := by
  unfold svBegin; (repeat' split) <;> rfl
@[simp] theorem svBegin_sess (s : St) (k : Nat) : (svBegin s k).1.sess = s.sess := by
  unfold svBegin; (repeat' split) <;> rfl
@[simp] theorem svBegin_isOpen (s : St) (k : Nat) : (svBegin s k).1.isOpen = s.isOpen := by
  unfold svBegin; (repeat' split) <;> rfl
@[simp] theorem svBegin_everOpened (s : St) (k : Nat) : (svBegin s k).1.everOpened = s.everOpened := by
  unfold svBegin; (repeat' split) <;> rfl
@[simp] theorem svBegin_offsets (s : St) (k : Nat) : (svBegin s k).1.offsets = s.offsets := by
  unfold svBegin; (repeat' split) <;> rfl
@[simp] theorem svBegin_dirtyMaps (s : St) (k : Nat) : (svBegin s k).1.dirtyMaps = s.dirtyMaps := by
  unfold svBegin; (repeat' split) <;> rfl
@[simp] theorem svBegin_curGen (s : St) (k : Nat) : (svBegin s k).1.curGen = s.curGen := by
  unfold svBegin; (repeat' split) <;> rfl
@[simp] theorem svBegin_nextGen (s : St) (k : Nat) : (svBegin s k).1.nextGen = s.nextGen := by
  unfold svBegin; (repeat' split) <;> rfl
@[simp] theorem svBegin_anyDirty (s : St) (k : Nat) : (svBegin s k).1.anyDirty = s.anyDirty := by
  unfold svBegin; (repeat' split) <;> rfl
@[simp] theorem svBegin_observers (s : St) (k : Nat) : (svBegin s k).1.observers = s.observers := by
  unfold svBegin; (repeat' split) <;> rfl
@[simp] theorem svBegin_obsNil (s : St) (k : Nat) : (svBegin s k).1.obsNil = s.obsNil := by
  unfold svBegin; (repeat' split) <;> rfl
@[simp] theorem svBegin_ctxs (s : St) (k : Nat) : (svBegin s k).1.ctxs = s.ctxs := by
  unfold svBegin; (repeat' split) <;> rfl
@[simp] theorem svBegin_lockHeld (s : St) (k : Nat) : (svBegin s k).1.lockHeld = s.lockHeld := by
  unfold svBegin; (repeat' split) <;> rfl
@[simp] theorem svDump_cfg (s : St) (k : Nat) : (svDump s k).1.cfg = s.cfg := by
  unfold svDump; (repeat' split) <;> rfl
@[simp] theorem svDump_store (s : St) (k : Nat) : (svDump s k).1.store = s.store := by
  unfold svDump; (repeat' split) <;> rfl
@[simp] theorem svDump_high (s : St) (k : Nat) : (svDump s k).1.high = s.high := by
  unfold svDump; (repeat' split) <;> rfl
@[simp] theorem svDump_flog (s : St) (k : Nat) : (svDump s k).1.flog = s.flog := by
  unfold svDump; (repeat' split) <;> rfl
@[simp] theorem svDump_sess (s : St) (k : Nat) : (svDump s k).1.sess = s.sess := by
  unfold svDump; (repeat' split) <;> rfl
@[simp] theorem svDump_isOpen (s : St) (k : Nat) : (svDump s k).1.isOpen = s.isOpen := by
  unfold svDump; (repeat' split) <;> rfl
@[simp] theorem svDump_everOpened (s : St) (k : Nat) : (svDump s k).1.everOpened = s.everOpened := by
  unfold svDump; (repeat' split) <;> rfl
@[simp] theorem svDump_offsets (s : St) (k : Nat) : (svDump s k).1.offsets = s.offsets := by
  unfold svDump; (repeat' split) <;> rfl
@[simp] theorem svDump_dirtyMaps (s : St) (k : Nat) : (svDump s k).1.dirtyMaps = s.dirtyMaps := by
  unfold svDump; (repeat' split) <;> rfl
@[simp] theorem svDump_curGen (s : St) (k : Nat) : (svDump s k).1.curGen = s.curGen := by
  unfold svDump; (repeat' split) <;> rfl
@[simp] theorem svDump_nextGen (s : St) (k : Nat) : (svDump s k).1.nextGen = s.nextGen := by
  unfold svDump; (repeat' split) <;> rfl
@[simp] theorem svDump_anyDirty (s : St) (k : Nat) : (svDump s k).1.anyDirty = s.anyDirty := by
  unfold svDump; (repeat' split) <;> rfl
@[simp] theorem svDump_observers (s : St) (k : Nat) : (svDump s k).1.observers = s.observers := by
  unfold svDump; (repeat' split) <;> rfl
@[simp] theorem svDump_obsNil (s : St) (k : Nat) : (svDump s k).1.obsNil = s.obsNil := by
  unfold svDump; (repeat' split) <;> rfl
@[simp] theorem svDump_ctxs (s : St) (k : Nat) : (svDump s k).1.ctxs = s.ctxs := by
  unfold svDump; (repeat' split) <;> rfl
@[simp] theorem svStore_cfg (s : St) (k : Nat) (res : StoreRes) : (svStore s k res).1.cfg = s.cfg := by
  unfold svStore; (repeat' split) <;> rfl
@[simp] theorem svStore_high (s : St) (k : Nat) (res : StoreRes) : (svStore s k res).1.high = s.high := by
  unfold svStore; (repeat' split) <;> rfl
@[simp] theorem svStore_flog (s : St) (k : Nat) (res : StoreRes) : (svStore s k res).1.flog = s.flog := by
  unfold svStore; (repeat' split) <;> rfl
@[simp] theorem svStore_sess (s : St) (k : Nat) (res : StoreRes) : (svStore s k res).1.sess = s.sess := by
  unfold svStore; (repeat' split) <;> rfl
@[simp] theorem svStore_isOpen (s : St) (k : Nat) (res : StoreRes) : (svStore s k res).1.isOpen = s.isOpen := by
  unfold svStore; (repeat' split) <;> rfl
@[simp] theorem svStore_everOpened (s : St) (k : Nat) (res : StoreRes) : (svStore s k res).1.everOpened = s.everOpened := by
  unfold svStore; (repeat' split) <;> rfl
@[simp] theorem svStore_offsets (s : St) (k : Nat) (res : StoreRes) : (svStore s k res).1.offsets = s.offsets := by
  unfold svStore; (repeat' split) <;> rfl
@[simp] theorem svStore_dirtyMaps (s : St) (k : Nat) (res : StoreRes) : (svStore s k res).1.dirtyMaps = s.dirtyMaps := by
  unfold svStore; (repeat' split) <;> rfl
@[simp] theorem svStore_curGen (s : St) (k : Nat) (res : StoreRes) : (svStore s k res).1.curGen = s.curGen := by
  unfold svStore; (repeat' split) <;> rfl
@[simp] theorem svStore_nextGen (s : St) (k : Nat) (res : StoreRes) : (svStore s k res).1.nextGen = s.nextGen := by
  unfold svStore; (repeat' split) <;> rfl
@[simp] theorem svStore_anyDirty (s : St) (k : Nat) (res : StoreRes) : (svStore s k res).1.anyDirty = s.anyDirty := by
  unfold svStore; (repeat' split) <;> rfl
@[simp] theorem svStore_observers (s : St) (k : Nat) (res : StoreRes) : (svStore s k res).1.observers = s.observers := by
  unfold svStore; (repeat' split) <;> rfl
@[simp] theorem svStore_obsNil (s : St) (k : Nat) (res : StoreRes) : (svStore s k res).1.obsNil = s.obsNil := by
  unfold svStore; (repeat' split) <;> rfl
@[simp] theorem svStore_ctxs (s : St) (k : Nat) (res : StoreRes) : (svStore s k res).1.ctxs = s.ctxs := by
  unfold svStore; (repeat' split) <;> rfl
@[simp] theorem svUnmark_cfg (s : St) (k : Nat) : (svUnmark s k).1.cfg = s.cfg := by
  unfold svUnmark; (repeat' split) <;> rfl
@[simp] theorem svUnmark_store (s : St) (k : Nat) : (svUnmark s k).1.store = s.store := by
  unfold svUnmark; (repeat' split) <;> rfl
@[simp] theorem svUnmark_high (s : St) (k : Nat) : (svUnmark s k).1.high = s.high := by
  unfold svUnmark; (repeat' split) <;> rfl
@[simp] theorem svUnmark_flog (s : St) (k : Nat) : (svUnmark s k).1.flog = s.flog := by
  unfold svUnmark; (repeat' split) <;> rfl
@[simp] theorem svUnmark_sess (s : St) (k : Nat) : (svUnmark s k).1.sess = s.sess := by
  unfold svUnmark; (repeat' split) <;> rfl
@[simp] theorem svUnmark_isOpen (s : St) (k : Nat) : (svUnmark s k).1.isOpen = s.isOpen := by
  unfold svUnmark; (repeat' split) <;> rfl
@[simp] theorem svUnmark_everOpened (s : St) (k : Nat) : (svUnmark s k).1.everOpened = s.everOpened := by
  unfold svUnmark; (repeat' split) <;> rfl
@[simp] theorem svUnmark_offsets (s : St) (k : Nat) : (svUnmark s k).1.offsets = s.offsets := by
  unfold svUnmark; (repeat' split) <;> rfl
@[simp] theorem svUnmark_observers (s : St) (k : Nat) : (svUnmark s k).1.observers = s.observers := by
  unfold svUnmark; (repeat' split) <;> rfl
@[simp] theorem svUnmark_obsNil (s : St) (k : Nat) : (svUnmark s k).1.obsNil = s.obsNil := by
  unfold svUnmark; (repeat' split) <;> rfl
@[simp] theorem svUnmark_ctxs (s : St) (k : Nat) : (svUnmark s k).1.ctxs = s.ctxs := by
  unfold svUnmark; (repeat' split) <;> rfl

theorem freshSaver_gt (s : St) : ∀ p ∈ s.savers, p.1 < freshSaver s := by
  unfold freshSaver
  have hf : (fun (m : Nat) (x : Nat × SaverPc) => match x with | (k, _) => max m (k + 1)) =
      fun m p => max m (p.1 + 1) := by
    funext m x; cases x; rfl
  rw [hf]
  have key : ∀ (l : List (Nat × SaverPc)) (init : Nat),
      init ≤ l.foldl (fun m p => max m (p.1 + 1)) init ∧
      ∀ p ∈ l, p.1 < l.foldl (fun m p => max m (p.1 + 1)) init := by
    intro l
    induction l with
    | nil => intro init; simp
    | cons q r ih =>
      intro init
      have := ih (max init (q.1 + 1))
      simp only [List.foldl_cons, List.mem_cons]
      refine ⟨by omega, ?_⟩
      rintro p (rfl | hp)
      · omega
      · exact this.2 p hp
  exact (key s.savers 1000).2

theorem freshSaver_not_has (s : St) : s.savers.has (freshSaver s) = false := by
  cases h : s.savers.has (freshSaver s) with
  | false => rfl
  | true =>
    obtain ⟨a, ha⟩ := AMap.exists_mem_of_mem_keys ((AMap.has_iff_mem_keys _ _).1 h)
    have := freshSaver_gt s _ ha
    simp at this

namespace AMap
variable {α : Type}
theorem filter_ne_of_not_has {m : AMap α} {k : Vb} (h : has m k = false) : m.filter (fun p => p.1 ≠ k) = m := by
  apply List.filter_eq_self.2
  intro p hp
  have : p.1 ≠ k := by
    intro e
    have := (has_iff_mem_keys m k).2 (e ▸ mem_keys_of_mem hp)
    simp [h] at this
  simpa using this

theorem filter_ne_set (m : AMap α) (k : Vb) (a : α) :
    (set m k a).filter (fun p => p.1 ≠ k) = m.filter (fun p => p.1 ≠ k) := by
  induction m with
  | nil => simp [set]
  | cons hd t ih =>
    obtain ⟨k', v⟩ := hd
    by_cases hk : k' = k
    · subst hk; simp [set]
    · simp only [set, hk, if_false, List.filter_cons, ih]
end AMap

/-- `mdWrite` looks only at the store and the read-only switch -/
theorem mdWrite_congr {s t : St} (h1 : t.store = s.store) (h2 : t.cfg = s.cfg) (st : List (Vb × Doc)) (d : List Vb)
    (res : StoreRes) : mdWrite t st d res = mdWrite s st d res := by
  unfold mdWrite; rw [h1, h2]

theorem storeSucceeds_congr {s t : St} (h2 : t.cfg = s.cfg) (res : StoreRes) : storeSucceeds t res = storeSucceeds s res := by
  cases res <;> simp [storeSucceeds, h2]


theorem svBegin_of_exists {s : St} {k : Nat} (h : s.savers.has k = true) : svBegin s k = (s, [.bad "saver exists"]) := by
  simp [svBegin, h]

theorem svBegin_of_clean {s : St} {k : Nat} (h : s.savers.has k = false) (ha : s.anyDirty = false) :
    svBegin s k = (s, [.flag false]) := by
  simp [svBegin, h, ha]

theorem svBegin_of_dirty {s : St} {k : Nat} (h : s.savers.has k = false) (ha : s.anyDirty = true) :
    svBegin s k = ({ s with savers := s.savers.set k (.wantLock s.curGen) }, [.flag true]) := by
  simp [svBegin, h, ha]

theorem svDump_of_wantLock {s : St} {k g : Nat} (h : s.savers.get? k = some (.wantLock g)) (hl : s.lockHeld = false) :
    svDump s k =
      ({ s with savers := s.savers.set k (.dumped (dumpState s) ((s.dirtyMaps.get? g).getD [])), lockHeld := true },
       [.saveCall (dumpState s) ((s.dirtyMaps.get? g).getD [])]) := by
  simp [svDump, h, hl]

theorem svStore_of_dumped {s : St} {k : Nat} {st : List (Vb × Doc)} {d : List Vb} (res : StoreRes)
    (h : s.savers.get? k = some (.dumped st d)) :
    svStore s k res =
      if storeSucceeds s res then
        ({ s with store := (mdWrite s st d res).1, savers := s.savers.set k .stored }, [.written (mdWrite s st d res).2])
      else
        ({ s with store := (mdWrite s st d res).1, savers := dropSaver s k, lockHeld := false },
         [.written (mdWrite s st d res).2, .saveErr]) := by
  simp only [svStore, h]

theorem svUnmark_of_stored {s : St} {k : Nat} (h : s.savers.get? k = some .stored) :
    svUnmark s k =
      ({ s with anyDirty := false, curGen := s.nextGen, nextGen := s.nextGen + 1,
                dirtyMaps := s.dirtyMaps.set s.nextGen [], savers := dropSaver s k, lockHeld := false }, [.ok]) := by
  simp [svUnmark, h]


/-- `mdWrite` as a function of the two things it reads -/
def mdWriteCore (readOnly : Bool) (store : AMap Doc) (state : List (Vb × Doc)) (dirty : List Vb) (res : StoreRes) :
    AMap Doc × List (Vb × Doc) :=
  if readOnly then (store, []) else
  let cand := state.filter fun (vb, _) => dirty.contains vb
  let w := match res with
    | .ok => cand
    | .fail => []
    | .part ws => cand.filter fun (vb, _) => ws.contains vb
  (w.foldl (fun m (vb, d) => m.set vb d) store, w)

theorem mdWrite_eq_core (s : St) (st : List (Vb × Doc)) (d : List Vb) (res : StoreRes) :
    mdWrite s st d res = mdWriteCore s.cfg.readOnly s.store st d res := rfl

def storeSucceedsCore (readOnly : Bool) : StoreRes → Bool
  | .ok => true
  | _ => readOnly

theorem storeSucceeds_eq_core (s : St) (res : StoreRes) : storeSucceeds s res = storeSucceedsCore s.cfg.readOnly res := by
  cases res <;> rfl

/-- a whole quiescent save in closed form -/
theorem saveAll_eq (s : St) (res : StoreRes) :
    saveAll s res =
      if s.lockHeld then (s, [.bad "lock held"]) else
      if !s.anyDirty then (s, [.nowrite]) else
      if storeSucceeds s res then
        ({ s with store := (mdWrite s (dumpState s) (curDirty s) res).1, anyDirty := false, curGen := s.nextGen,
                  nextGen := s.nextGen + 1, dirtyMaps := s.dirtyMaps.set s.nextGen [] },
         if s.cfg.readOnly then [.nowrite]
         else [.saveCall (dumpState s) (curDirty s), .written (mdWrite s (dumpState s) (curDirty s) res).2])
      else
        ({ s with store := (mdWrite s (dumpState s) (curDirty s) res).1 },
         if s.cfg.readOnly then [.nowrite]
         else [.saveCall (dumpState s) (curDirty s), .written (mdWrite s (dumpState s) (curDirty s) res).2, .saveErr]) := by
  unfold saveAll
  by_cases hl : s.lockHeld
  · simp [hl]
  have hl' : s.lockHeld = false := by simpa using hl
  simp only [hl, Bool.false_eq_true, if_false]
  have hf := freshSaver_not_has s
  cases ha : s.anyDirty with
  | false => rw [svBegin_of_clean hf ha]; simp
  | true =>
    rw [svBegin_of_dirty hf ha]
    have hd : s.savers.filter (fun p => p.1 ≠ freshSaver s) = s.savers := AMap.filter_ne_of_not_has hf
    have hd' : ∀ a : SaverPc, List.filter (fun x => !decide (x.fst = freshSaver s)) (s.savers.set (freshSaver s) a)
        = s.savers := by
      intro a
      have := AMap.filter_ne_set s.savers (freshSaver s) a
      rw [hd] at this
      simpa using this
    cases hs : storeSucceedsCore s.cfg.readOnly res <;>
    simp [svDump, svStore, svUnmark, hl', AMap.get?_set_same, dropSaver, AMap.set_set_same, hd',
      mdWrite_eq_core, storeSucceeds_eq_core, dumpState, curDirty, hs, ha]

@[simp] theorem saveAll_cfg (s : St) (res : StoreRes) : (saveAll s res).1.cfg = s.cfg := by
  rw [saveAll_eq]; (repeat' split) <;> rfl
@[simp] theorem saveAll_high (s : St) (res : StoreRes) : (saveAll s res).1.high = s.high := by
  rw [saveAll_eq]; (repeat' split) <;> rfl
@[simp] theorem saveAll_flog (s : St) (res : StoreRes) : (saveAll s res).1.flog = s.flog := by
  rw [saveAll_eq]; (repeat' split) <;> rfl
@[simp] theorem saveAll_sess (s : St) (res : StoreRes) : (saveAll s res).1.sess = s.sess := by
  rw [saveAll_eq]; (repeat' split) <;> rfl
@[simp] theorem saveAll_isOpen (s : St) (res : StoreRes) : (saveAll s res).1.isOpen = s.isOpen := by
  rw [saveAll_eq]; (repeat' split) <;> rfl
@[simp] theorem saveAll_everOpened (s : St) (res : StoreRes) : (saveAll s res).1.everOpened = s.everOpened := by
  rw [saveAll_eq]; (repeat' split) <;> rfl
@[simp] theorem saveAll_offsets (s : St) (res : StoreRes) : (saveAll s res).1.offsets = s.offsets := by
  rw [saveAll_eq]; (repeat' split) <;> rfl
@[simp] theorem saveAll_observers (s : St) (res : StoreRes) : (saveAll s res).1.observers = s.observers := by
  rw [saveAll_eq]; (repeat' split) <;> rfl
@[simp] theorem saveAll_obsNil (s : St) (res : StoreRes) : (saveAll s res).1.obsNil = s.obsNil := by
  rw [saveAll_eq]; (repeat' split) <;> rfl
@[simp] theorem saveAll_ctxs (s : St) (res : StoreRes) : (saveAll s res).1.ctxs = s.ctxs := by
  rw [saveAll_eq]; (repeat' split) <;> rfl
@[simp] theorem saveAll_savers (s : St) (res : StoreRes) : (saveAll s res).1.savers = s.savers := by
  rw [saveAll_eq]; (repeat' split) <;> rfl
@[simp] theorem saveAll_lockHeld (s : St) (res : StoreRes) : (saveAll s res).1.lockHeld = s.lockHeld := by
  rw [saveAll_eq]; (repeat' split) <;> rfl

/-! ## life cycle -/

/-- the fresh stream object `stream.Open` starts from -/
def openBase (s : St) : St :=
  { cfg := s.cfg, store := s.store, high := s.high, flog := s.flog, sess := s.sess + 1, ctxs := s.ctxs }

/-- the observer object `stream.Open` creates for one vBucket -/
def initObs (s : St) (vb : Vb) (o : Offset) : Obs := { latest := o.latest, uuid := (s.flog.get? vb).getD 0 }

theorem openSession_of_isOpen {s : St} (h : s.isOpen = true) : openSession s = (s, [.bad "already open"]) := by
  simp [openSession, h]

theorem openSession_of_load_none {s : St} (h : s.isOpen = false) (hl : load (openBase s) = none) :
    openSession s = ({ openBase s with everOpened := false }, [.failstop "checkpoint-ahead"]) := by
  simp only [openBase] at hl
  simp [openSession, h, hl, openBase]

theorem openSession_of_load_some {s : St} {offs : AMap Offset} {dirty : List Vb} {any : Bool}
    (h : s.isOpen = false) (hl : load (openBase s) = some (offs, dirty, any)) :
    openSession s =
      ({ openBase s with isOpen := true, everOpened := true, offsets := offs, dirtyMaps := [(0, dirty)],
                         anyDirty := any,
                         observers := (offs.map fun p => (p.1, initObs s p.1 p.2)),
                         obsNil := false },
       offs.map fun p => .openreq p.1 p.2) := by
  simp only [openBase] at hl
  simp [openSession, h, hl, openBase, initObs]

@[simp] theorem openSession_cfg (s : St) : (openSession s).1.cfg = s.cfg := by
  simp only [openSession]; split; · rfl
  split <;> rfl
@[simp] theorem openSession_store (s : St) : (openSession s).1.store = s.store := by
  simp only [openSession]; split; · rfl
  split <;> rfl
@[simp] theorem openSession_high (s : St) : (openSession s).1.high = s.high := by
  simp only [openSession]; split; · rfl
  split <;> rfl
@[simp] theorem openSession_flog (s : St) : (openSession s).1.flog = s.flog := by
  simp only [openSession]; split; · rfl
  split <;> rfl
@[simp] theorem openSession_ctxs (s : St) : (openSession s).1.ctxs = s.ctxs := by
  simp only [openSession]; split; · rfl
  split <;> rfl
@[simp] theorem closeSession_cfg (s : St) : (closeSession s).1.cfg = s.cfg := by
  simp only [closeSession]; split <;> rfl
@[simp] theorem closeSession_store (s : St) : (closeSession s).1.store = s.store := by
  simp only [closeSession]; split <;> rfl
@[simp] theorem closeSession_high (s : St) : (closeSession s).1.high = s.high := by
  simp only [closeSession]; split <;> rfl
@[simp] theorem closeSession_flog (s : St) : (closeSession s).1.flog = s.flog := by
  simp only [closeSession]; split <;> rfl
@[simp] theorem closeSession_sess (s : St) : (closeSession s).1.sess = s.sess := by
  simp only [closeSession]; split <;> rfl
@[simp] theorem closeSession_everOpened (s : St) : (closeSession s).1.everOpened = s.everOpened := by
  simp only [closeSession]; split <;> rfl
@[simp] theorem closeSession_anyDirty (s : St) : (closeSession s).1.anyDirty = s.anyDirty := by
  simp only [closeSession]; split <;> rfl
@[simp] theorem closeSession_ctxs (s : St) : (closeSession s).1.ctxs = s.ctxs := by
  simp only [closeSession]; split <;> rfl
@[simp] theorem closeSession_savers (s : St) : (closeSession s).1.savers = s.savers := by
  simp only [closeSession]; split <;> rfl
@[simp] theorem closeSession_lockHeld (s : St) : (closeSession s).1.lockHeld = s.lockHeld := by
  simp only [closeSession]; split <;> rfl
@[simp] theorem crash_cfg (s : St) : (crash s).1.cfg = s.cfg := by
  rfl
@[simp] theorem crash_store (s : St) : (crash s).1.store = s.store := by
  rfl
@[simp] theorem crash_high (s : St) : (crash s).1.high = s.high := by
  rfl
@[simp] theorem crash_flog (s : St) : (crash s).1.flog = s.flog := by
  rfl
@[simp] theorem crash_ctxs (s : St) : (crash s).1.ctxs = s.ctxs := by
  rfl

/-! ### `stream.Rebalance` and `reopenStream` -/

/-- the state `stream.Close` leaves when the stream was open -/
def closedOf (s : St) : St :=
  { s with isOpen := false, offsets := [], dirtyMaps := s.dirtyMaps.set s.nextGen [],
           curGen := s.nextGen, nextGen := s.nextGen + 1,
           observers := s.observers.map (fun (vb, o) => (vb, o.close.closeEnd)), obsNil := true }

theorem closeSession_of_open {s : St} (h : s.isOpen = true) :
    closeSession s = (closedOf s, s.offsets.map fun p => Obsv.closereq p.1) := by
  simp [closeSession, h, closedOf]

theorem closeSession_of_not_open {s : St} (h : s.isOpen = false) : closeSession s = (s, [.bad "not open"]) := by
  simp [closeSession, h]

/-- the closed stream object with the new range: what a rebalance loads from -/
def rebalBase (s : St) (lo hi : Vb) : St :=
  { closedOf s with cfg := { s.cfg with lo := lo, hi := hi } }

/-- the state after a rebalance whose load succeeded -/
def rebalDone (s : St) (lo hi : Vb) (offs : AMap Offset) (dirty : List Vb) (any : Bool) : St :=
  { rebalBase s lo hi with isOpen := true, offsets := offs, dirtyMaps := s.dirtyMaps.set s.nextGen dirty,
                           anyDirty := any, observers := (offs.map fun p => (p.1, initObs s p.1 p.2)),
                           obsNil := false }

@[simp] theorem rebalBase_cfg (s : St) (lo hi : Vb) : (rebalBase s lo hi).cfg = { s.cfg with lo := lo, hi := hi } := rfl
@[simp] theorem rebalBase_store (s : St) (lo hi : Vb) : (rebalBase s lo hi).store = s.store := rfl
@[simp] theorem rebalBase_high (s : St) (lo hi : Vb) : (rebalBase s lo hi).high = s.high := rfl
@[simp] theorem rebalBase_flog (s : St) (lo hi : Vb) : (rebalBase s lo hi).flog = s.flog := rfl
@[simp] theorem rebalDone_cfg (s : St) (lo hi : Vb) (offs : AMap Offset) (dirty : List Vb) (any : Bool) :
    (rebalDone s lo hi offs dirty any).cfg = { s.cfg with lo := lo, hi := hi } := rfl
@[simp] theorem rebalDone_offsets (s : St) (lo hi : Vb) (offs : AMap Offset) (dirty : List Vb) (any : Bool) :
    (rebalDone s lo hi offs dirty any).offsets = offs := rfl
@[simp] theorem rebalDone_observers (s : St) (lo hi : Vb) (offs : AMap Offset) (dirty : List Vb) (any : Bool) :
    (rebalDone s lo hi offs dirty any).observers = offs.map fun p => (p.1, initObs s p.1 p.2) := rfl
@[simp] theorem rebalDone_isOpen (s : St) (lo hi : Vb) (offs : AMap Offset) (dirty : List Vb) (any : Bool) :
    (rebalDone s lo hi offs dirty any).isOpen = true := rfl
@[simp] theorem rebalDone_anyDirty (s : St) (lo hi : Vb) (offs : AMap Offset) (dirty : List Vb) (any : Bool) :
    (rebalDone s lo hi offs dirty any).anyDirty = any := rfl
@[simp] theorem rebalDone_curGen (s : St) (lo hi : Vb) (offs : AMap Offset) (dirty : List Vb) (any : Bool) :
    (rebalDone s lo hi offs dirty any).curGen = s.nextGen := rfl
@[simp] theorem rebalDone_nextGen (s : St) (lo hi : Vb) (offs : AMap Offset) (dirty : List Vb) (any : Bool) :
    (rebalDone s lo hi offs dirty any).nextGen = s.nextGen + 1 := rfl
@[simp] theorem rebalDone_dirtyMaps (s : St) (lo hi : Vb) (offs : AMap Offset) (dirty : List Vb) (any : Bool) :
    (rebalDone s lo hi offs dirty any).dirtyMaps = s.dirtyMaps.set s.nextGen dirty := rfl
@[simp] theorem rebalDone_curDirty (s : St) (lo hi : Vb) (offs : AMap Offset) (dirty : List Vb) (any : Bool) :
    curDirty (rebalDone s lo hi offs dirty any) = dirty := by
  simp [curDirty, AMap.get?_set_same]
@[simp] theorem rebalDone_store (s : St) (lo hi : Vb) (offs : AMap Offset) (dirty : List Vb) (any : Bool) :
    (rebalDone s lo hi offs dirty any).store = s.store := rfl
@[simp] theorem rebalDone_high (s : St) (lo hi : Vb) (offs : AMap Offset) (dirty : List Vb) (any : Bool) :
    (rebalDone s lo hi offs dirty any).high = s.high := rfl
@[simp] theorem rebalDone_flog (s : St) (lo hi : Vb) (offs : AMap Offset) (dirty : List Vb) (any : Bool) :
    (rebalDone s lo hi offs dirty any).flog = s.flog := rfl
@[simp] theorem rebalDone_sess (s : St) (lo hi : Vb) (offs : AMap Offset) (dirty : List Vb) (any : Bool) :
    (rebalDone s lo hi offs dirty any).sess = s.sess := rfl
@[simp] theorem rebalDone_ctxs (s : St) (lo hi : Vb) (offs : AMap Offset) (dirty : List Vb) (any : Bool) :
    (rebalDone s lo hi offs dirty any).ctxs = s.ctxs := rfl
@[simp] theorem rebalDone_savers (s : St) (lo hi : Vb) (offs : AMap Offset) (dirty : List Vb) (any : Bool) :
    (rebalDone s lo hi offs dirty any).savers = s.savers := rfl
@[simp] theorem rebalDone_lockHeld (s : St) (lo hi : Vb) (offs : AMap Offset) (dirty : List Vb) (any : Bool) :
    (rebalDone s lo hi offs dirty any).lockHeld = s.lockHeld := rfl
@[simp] theorem rebalDone_obsNil (s : St) (lo hi : Vb) (offs : AMap Offset) (dirty : List Vb) (any : Bool) :
    (rebalDone s lo hi offs dirty any).obsNil = false := rfl
@[simp] theorem rebalDone_everOpened (s : St) (lo hi : Vb) (offs : AMap Offset) (dirty : List Vb) (any : Bool) :
    (rebalDone s lo hi offs dirty any).everOpened = s.everOpened := rfl

/-- `checkpoint.Load` reads the configuration, the store, the high seqnos and the failover logs only -/
theorem load_congr {s t : St} (h1 : t.cfg = s.cfg) (h2 : t.store = s.store) (h3 : t.high = s.high)
    (h4 : t.flog = s.flog) : load t = load s := by
  cases s; cases t
  simp only at h1 h2 h3 h4
  subst h1 h2 h3 h4
  rfl

theorem rebalanceSession_of_not_open {s : St} (lo hi : Vb) (h : s.isOpen = false) :
    rebalanceSession s lo hi = (s, [.bad "not open"]) := by
  simp [rebalanceSession, h]

theorem rebalanceSession_of_savers {s : St} (lo hi : Vb) (h : s.isOpen = true) (hs : s.savers ≠ []) :
    rebalanceSession s lo hi = (s, [.bad "saver in flight"]) := by
  have : s.savers.isEmpty = false := by cases hh : s.savers <;> simp_all
  simp [rebalanceSession, h, this]

theorem rebalanceSession_of_empty {s : St} {lo hi : Vb} (h : s.isOpen = true) (hs : s.savers = []) (hr : hi < lo) :
    rebalanceSession s lo hi = (s, [.bad "empty range"]) := by
  have hr' : lo > hi := hr
  have hs' : s.savers.isEmpty = true := by rw [hs]; rfl
  simp [rebalanceSession, h, hs', hr']

theorem rebalanceSession_of_load_none {s : St} {lo hi : Vb} (h : s.isOpen = true) (hs : s.savers = [])
    (hr : lo ≤ hi) (hl : load (rebalBase s lo hi) = none) :
    rebalanceSession s lo hi =
      ({ rebalBase s lo hi with everOpened := false },
       (s.offsets.map fun p => Obsv.closereq p.1) ++ [.failstop "checkpoint-ahead"]) := by
  have hr' : ¬ lo > hi := Nat.not_lt.2 hr
  have hs' : s.savers.isEmpty = true := by rw [hs]; rfl
  simp only [rebalBase, closedOf] at hl
  simp [rebalanceSession, h, hs', hr', closeSession, hl, rebalBase, closedOf]

theorem rebalanceSession_of_load_some {s : St} {lo hi : Vb} {offs : AMap Offset} {dirty : List Vb} {any : Bool}
    (h : s.isOpen = true) (hs : s.savers = []) (hr : lo ≤ hi)
    (hl : load (rebalBase s lo hi) = some (offs, dirty, any)) :
    rebalanceSession s lo hi =
      (rebalDone s lo hi offs dirty any,
       (s.offsets.map fun p => Obsv.closereq p.1) ++ offs.map fun p => Obsv.openreq p.1 p.2) := by
  have hr' : ¬ lo > hi := Nat.not_lt.2 hr
  have hs' : s.savers.isEmpty = true := by rw [hs]; rfl
  simp only [rebalBase, closedOf] at hl
  simp [rebalanceSession, h, hs', hr', closeSession, hl, rebalBase, closedOf, rebalDone, initObs,
    AMap.set_set_same]

/-- the three outcomes of a rebalance: refused (generator error, nothing changes), fail-stop of the
    load, or closed / re-ranged / loaded again -/
theorem rebalanceSession_cases (s : St) (lo hi : Vb) :
    (∃ why, rebalanceSession s lo hi = (s, [.bad why])) ∨
    (s.isOpen = true ∧ s.savers = [] ∧ lo ≤ hi ∧ load (rebalBase s lo hi) = none ∧
      rebalanceSession s lo hi =
        ({ rebalBase s lo hi with everOpened := false },
         (s.offsets.map fun p => Obsv.closereq p.1) ++ [.failstop "checkpoint-ahead"])) ∨
    (∃ offs dirty any, s.isOpen = true ∧ s.savers = [] ∧ lo ≤ hi ∧
      load (rebalBase s lo hi) = some (offs, dirty, any) ∧
      rebalanceSession s lo hi =
        (rebalDone s lo hi offs dirty any,
         (s.offsets.map fun p => Obsv.closereq p.1) ++ offs.map fun p => Obsv.openreq p.1 p.2)) := by
  by_cases h : s.isOpen = true
  · by_cases hs : s.savers = []
    · by_cases hr : lo ≤ hi
      · cases hl : load (rebalBase s lo hi) with
        | none => exact Or.inr (Or.inl ⟨h, hs, hr, rfl, rebalanceSession_of_load_none h hs hr hl⟩)
        | some r =>
          obtain ⟨offs, dirty, any⟩ := r
          exact Or.inr (Or.inr ⟨offs, dirty, any, h, hs, hr, rfl, rebalanceSession_of_load_some h hs hr hl⟩)
      · exact Or.inl ⟨_, rebalanceSession_of_empty h hs (Nat.lt_of_not_le hr)⟩
    · exact Or.inl ⟨_, rebalanceSession_of_savers lo hi h hs⟩
  · exact Or.inl ⟨_, rebalanceSession_of_not_open lo hi (by simpa using h)⟩

/-- a rebalance keeps every configuration switch but the range -/
theorem rebalanceSession_cfg (s : St) (lo hi : Vb) :
    (rebalanceSession s lo hi).1.cfg = s.cfg ∨ (rebalanceSession s lo hi).1.cfg = { s.cfg with lo := lo, hi := hi } := by
  rcases rebalanceSession_cases s lo hi with ⟨_, h⟩ | ⟨_, _, _, _, h⟩ | ⟨_, _, _, _, _, _, _, h⟩ <;> rw [h]
  · exact Or.inl rfl
  · exact Or.inr rfl
  · exact Or.inr rfl

@[simp] theorem rebalanceSession_cfg_obs (s : St) (lo hi : Vb) : (rebalanceSession s lo hi).1.cfg.obs = s.cfg.obs := by
  rcases rebalanceSession_cfg s lo hi with h | h <;> rw [h]
@[simp] theorem rebalanceSession_cfg_finite (s : St) (lo hi : Vb) :
    (rebalanceSession s lo hi).1.cfg.finite = s.cfg.finite := by
  rcases rebalanceSession_cfg s lo hi with h | h <;> rw [h]
@[simp] theorem rebalanceSession_cfg_resetLatest (s : St) (lo hi : Vb) :
    (rebalanceSession s lo hi).1.cfg.resetLatest = s.cfg.resetLatest := by
  rcases rebalanceSession_cfg s lo hi with h | h <;> rw [h]
@[simp] theorem rebalanceSession_cfg_readOnly (s : St) (lo hi : Vb) :
    (rebalanceSession s lo hi).1.cfg.readOnly = s.cfg.readOnly := by
  rcases rebalanceSession_cfg s lo hi with h | h <;> rw [h]
@[simp] theorem rebalanceSession_store (s : St) (lo hi : Vb) : (rebalanceSession s lo hi).1.store = s.store := by
  rcases rebalanceSession_cases s lo hi with ⟨_, h⟩ | ⟨_, _, _, _, h⟩ | ⟨_, _, _, _, _, _, _, h⟩ <;> rw [h] <;> rfl
@[simp] theorem rebalanceSession_high (s : St) (lo hi : Vb) : (rebalanceSession s lo hi).1.high = s.high := by
  rcases rebalanceSession_cases s lo hi with ⟨_, h⟩ | ⟨_, _, _, _, h⟩ | ⟨_, _, _, _, _, _, _, h⟩ <;> rw [h] <;> rfl
@[simp] theorem rebalanceSession_flog (s : St) (lo hi : Vb) : (rebalanceSession s lo hi).1.flog = s.flog := by
  rcases rebalanceSession_cases s lo hi with ⟨_, h⟩ | ⟨_, _, _, _, h⟩ | ⟨_, _, _, _, _, _, _, h⟩ <;> rw [h] <;> rfl
@[simp] theorem rebalanceSession_sess (s : St) (lo hi : Vb) : (rebalanceSession s lo hi).1.sess = s.sess := by
  rcases rebalanceSession_cases s lo hi with ⟨_, h⟩ | ⟨_, _, _, _, h⟩ | ⟨_, _, _, _, _, _, _, h⟩ <;> rw [h] <;> rfl
@[simp] theorem rebalanceSession_ctxs (s : St) (lo hi : Vb) : (rebalanceSession s lo hi).1.ctxs = s.ctxs := by
  rcases rebalanceSession_cases s lo hi with ⟨_, h⟩ | ⟨_, _, _, _, h⟩ | ⟨_, _, _, _, _, _, _, h⟩ <;> rw [h] <;> rfl
@[simp] theorem rebalanceSession_savers (s : St) (lo hi : Vb) : (rebalanceSession s lo hi).1.savers = s.savers := by
  rcases rebalanceSession_cases s lo hi with ⟨_, h⟩ | ⟨_, _, _, _, h⟩ | ⟨_, _, _, _, _, _, _, h⟩ <;> rw [h] <;> rfl
@[simp] theorem rebalanceSession_lockHeld (s : St) (lo hi : Vb) :
    (rebalanceSession s lo hi).1.lockHeld = s.lockHeld := by
  rcases rebalanceSession_cases s lo hi with ⟨_, h⟩ | ⟨_, _, _, _, h⟩ | ⟨_, _, _, _, _, _, _, h⟩ <;> rw [h] <;> rfl

/-- the two outcomes of a transient stream end: refused, or the same position requested again and
    the observer's branch id set to the current head of the failover log -/
theorem reopenStream_cases (s : St) (vb : Vb) :
    (∃ why, reopenStream s vb = (s, [.bad why])) ∨
    (∃ o ob, s.isOpen = true ∧ s.offsets.get? vb = some o ∧ s.observers.get? vb = some ob ∧
      reopenStream s vb =
        ({ s with observers := s.observers.set vb (ob.setUuid ((s.flog.get? vb).getD 0)) }, [.openreq vb o])) := by
  unfold reopenStream
  by_cases h : s.isOpen = true
  · cases ho : s.offsets.get? vb with
    | none => exact Or.inl ⟨"vb not streamed", by simp [h]⟩
    | some o =>
      cases hb : s.observers.get? vb with
      | none => exact Or.inl ⟨"vb not streamed", by simp [h]⟩
      | some ob => exact Or.inr ⟨o, ob, h, rfl, rfl, by simp [h]⟩
  · exact Or.inl ⟨"not open", by simp [h]⟩

/-- a rebalance whose preconditions fail changes nothing -/
theorem rebalanceSession_of_refused {s : St} {lo hi : Vb} (hc : ¬ (s.isOpen = true ∧ s.savers = [] ∧ lo ≤ hi)) :
    ∃ why, rebalanceSession s lo hi = (s, [.bad why]) := by
  rcases rebalanceSession_cases s lo hi with h | ⟨h1, h2, h3, _⟩ | ⟨_, _, _, h1, h2, h3, _⟩
  · exact h
  · exact absurd ⟨h1, h2, h3⟩ hc
  · exact absurd ⟨h1, h2, h3⟩ hc

/-- a reopen of a closed stream, or of a vBucket without position or observer, changes nothing -/
theorem reopenStream_of_refused {s : St} {vb : Vb}
    (hc : ¬ (s.isOpen = true ∧ (s.offsets.get? vb).isSome = true ∧ (s.observers.get? vb).isSome = true)) :
    ∃ why, reopenStream s vb = (s, [.bad why]) := by
  rcases reopenStream_cases s vb with h | ⟨o, ob, h1, h2, h3, _⟩
  · exact h
  · exact absurd ⟨h1, by simp [h2], by simp [h3]⟩ hc

@[simp] theorem reopenStream_cfg (s : St) (vb : Vb) : (reopenStream s vb).1.cfg = s.cfg := by
  rcases reopenStream_cases s vb with ⟨_, h⟩ | ⟨_, _, _, _, _, h⟩ <;> rw [h]
@[simp] theorem reopenStream_store (s : St) (vb : Vb) : (reopenStream s vb).1.store = s.store := by
  rcases reopenStream_cases s vb with ⟨_, h⟩ | ⟨_, _, _, _, _, h⟩ <;> rw [h]
@[simp] theorem reopenStream_high (s : St) (vb : Vb) : (reopenStream s vb).1.high = s.high := by
  rcases reopenStream_cases s vb with ⟨_, h⟩ | ⟨_, _, _, _, _, h⟩ <;> rw [h]
@[simp] theorem reopenStream_flog (s : St) (vb : Vb) : (reopenStream s vb).1.flog = s.flog := by
  rcases reopenStream_cases s vb with ⟨_, h⟩ | ⟨_, _, _, _, _, h⟩ <;> rw [h]
@[simp] theorem reopenStream_sess (s : St) (vb : Vb) : (reopenStream s vb).1.sess = s.sess := by
  rcases reopenStream_cases s vb with ⟨_, h⟩ | ⟨_, _, _, _, _, h⟩ <;> rw [h]
@[simp] theorem reopenStream_isOpen (s : St) (vb : Vb) : (reopenStream s vb).1.isOpen = s.isOpen := by
  rcases reopenStream_cases s vb with ⟨_, h⟩ | ⟨_, _, _, _, _, h⟩ <;> rw [h]
@[simp] theorem reopenStream_everOpened (s : St) (vb : Vb) : (reopenStream s vb).1.everOpened = s.everOpened := by
  rcases reopenStream_cases s vb with ⟨_, h⟩ | ⟨_, _, _, _, _, h⟩ <;> rw [h]
@[simp] theorem reopenStream_offsets (s : St) (vb : Vb) : (reopenStream s vb).1.offsets = s.offsets := by
  rcases reopenStream_cases s vb with ⟨_, h⟩ | ⟨_, _, _, _, _, h⟩ <;> rw [h]
@[simp] theorem reopenStream_dirtyMaps (s : St) (vb : Vb) : (reopenStream s vb).1.dirtyMaps = s.dirtyMaps := by
  rcases reopenStream_cases s vb with ⟨_, h⟩ | ⟨_, _, _, _, _, h⟩ <;> rw [h]
@[simp] theorem reopenStream_curGen (s : St) (vb : Vb) : (reopenStream s vb).1.curGen = s.curGen := by
  rcases reopenStream_cases s vb with ⟨_, h⟩ | ⟨_, _, _, _, _, h⟩ <;> rw [h]
@[simp] theorem reopenStream_nextGen (s : St) (vb : Vb) : (reopenStream s vb).1.nextGen = s.nextGen := by
  rcases reopenStream_cases s vb with ⟨_, h⟩ | ⟨_, _, _, _, _, h⟩ <;> rw [h]
@[simp] theorem reopenStream_anyDirty (s : St) (vb : Vb) : (reopenStream s vb).1.anyDirty = s.anyDirty := by
  rcases reopenStream_cases s vb with ⟨_, h⟩ | ⟨_, _, _, _, _, h⟩ <;> rw [h]
@[simp] theorem reopenStream_obsNil (s : St) (vb : Vb) : (reopenStream s vb).1.obsNil = s.obsNil := by
  rcases reopenStream_cases s vb with ⟨_, h⟩ | ⟨_, _, _, _, _, h⟩ <;> rw [h]
@[simp] theorem reopenStream_ctxs (s : St) (vb : Vb) : (reopenStream s vb).1.ctxs = s.ctxs := by
  rcases reopenStream_cases s vb with ⟨_, h⟩ | ⟨_, _, _, _, _, h⟩ <;> rw [h]
@[simp] theorem reopenStream_savers (s : St) (vb : Vb) : (reopenStream s vb).1.savers = s.savers := by
  rcases reopenStream_cases s vb with ⟨_, h⟩ | ⟨_, _, _, _, _, h⟩ <;> rw [h]
@[simp] theorem reopenStream_lockHeld (s : St) (vb : Vb) : (reopenStream s vb).1.lockHeld = s.lockHeld := by
  rcases reopenStream_cases s vb with ⟨_, h⟩ | ⟨_, _, _, _, _, h⟩ <;> rw [h]

/-- what a refused / accepted reopen says: never anything but `bad` or one stream request -/
theorem reopenStream_out (s : St) (vb : Vb) :
    (∃ why, (reopenStream s vb).2 = [.bad why]) ∨ ∃ o, s.offsets.get? vb = some o ∧ (reopenStream s vb).2 = [.openreq vb o] := by
  rcases reopenStream_cases s vb with ⟨w, h⟩ | ⟨o, _, _, ho, _, h⟩ <;> rw [h]
  · exact Or.inl ⟨w, rfl⟩
  · exact Or.inr ⟨o, ho, rfl⟩

/-- the observation list of a rebalance: `bad`, or the close requests of the old range followed by
    the fail-stop or the stream requests of the new one -/
theorem mem_rebalanceSession_out {s : St} {lo hi : Vb} {x : Obsv} (h : x ∈ (rebalanceSession s lo hi).2) :
    (∃ why, x = .bad why) ∨ (∃ vb, x = .closereq vb) ∨ x = .failstop "checkpoint-ahead" ∨
    ∃ offs dirty any vb o, s.isOpen = true ∧ s.savers = [] ∧ lo ≤ hi ∧
      load (rebalBase s lo hi) = some (offs, dirty, any) ∧ (vb, o) ∈ offs ∧ x = .openreq vb o ∧
      (rebalanceSession s lo hi).1 = rebalDone s lo hi offs dirty any := by
  rcases rebalanceSession_cases s lo hi with ⟨w, e⟩ | ⟨_, _, _, _, e⟩ | ⟨offs, dirty, any, h1, h2, h3, hl, e⟩ <;>
    rw [e] at h ⊢
  · simp at h; exact Or.inl ⟨w, h⟩
  · simp only [List.mem_append, List.mem_map, List.mem_singleton] at h
    rcases h with ⟨p, _, rfl⟩ | h
    · exact Or.inr (Or.inl ⟨_, rfl⟩)
    · exact Or.inr (Or.inr (Or.inl h))
  · simp only [List.mem_append, List.mem_map] at h
    rcases h with ⟨p, _, rfl⟩ | ⟨p, hp, rfl⟩
    · exact Or.inr (Or.inl ⟨_, rfl⟩)
    · exact Or.inr (Or.inr (Or.inr ⟨offs, dirty, any, p.1, p.2, h1, h2, h3, hl, hp, rfl, rfl⟩))

theorem mem_reopenStream_out {s : St} {vb : Vb} {x : Obsv} (h : x ∈ (reopenStream s vb).2) :
    (∃ why, x = .bad why) ∨ ∃ o ob, s.isOpen = true ∧ s.offsets.get? vb = some o ∧ s.observers.get? vb = some ob ∧
      x = .openreq vb o ∧
      (reopenStream s vb).1 = { s with observers := s.observers.set vb (ob.setUuid ((s.flog.get? vb).getD 0)) } := by
  rcases reopenStream_cases s vb with ⟨w, e⟩ | ⟨o, ob, h1, h2, h3, e⟩ <;> rw [e] at h ⊢
  · simp at h; exact Or.inl ⟨w, h⟩
  · simp at h; exact Or.inr ⟨o, ob, h1, h2, h3, h, rfl⟩

/-! ### `checkpoint.Load` -/

/-- the two ways `load` succeeds; in both the result is one offset per assigned vBucket -/
theorem load_some_cases {s : St} {offs : AMap Offset} {dirty : List Vb} {any : Bool}
    (h : load s = some (offs, dirty, any)) :
    (s.cfg.resetLatest = true ∧
      offs = (vbRange s.cfg).map fun vb =>
        (vb, (⟨(s.flog.get? vb).getD 0, (s.high.get? vb).getD 0, (s.high.get? vb).getD 0, (s.high.get? vb).getD 0,
              initLatest s.cfg.finite ((s.high.get? vb).getD 0)⟩ : Offset))) ∨
    (dirty = [] ∧ any = false ∧
      (∀ vb ∈ vbRange s.cfg, ((s.store.get? vb).getD Doc.zero).seq ≤ (s.high.get? vb).getD 0) ∧
      offs = (vbRange s.cfg).map fun vb =>
        (vb, ((s.store.get? vb).getD Doc.zero).toOffset (initLatest s.cfg.finite ((s.high.get? vb).getD 0)))) := by
  unfold load mdLoad at h
  dsimp only at h
  split at h
  · rename_i hc
    injection h with h
    injection h with h1 h2
    left
    refine ⟨by simp at hc; exact hc.2, ?_⟩
    rw [← h1]; simp [List.map_map, Function.comp_def]
  · split at h
    · cases h
    · rename_i hc2
      injection h with h
      injection h with h1 h2
      injection h2 with h2 h3
      right
      refine ⟨h2.symm, h3.symm, ?_, ?_⟩
      · intro vb hvb
        simp only [List.any_map, List.any_eq_true, Function.comp, decide_eq_true_eq, not_exists, not_and] at hc2
        have := hc2 vb hvb
        omega
      · rw [← h1]; simp [List.map_map, Function.comp_def]

/-- after a successful load every assigned vBucket, and nothing else, has an offset -/
theorem load_keys {s : St} {offs : AMap Offset} {dirty : List Vb} {any : Bool}
    (h : load s = some (offs, dirty, any)) : AMap.keys offs = vbRange s.cfg := by
  rcases load_some_cases h with ⟨_, h⟩ | ⟨_, _, _, h⟩ <;> rw [h] <;> simp [AMap.keys, List.map_map, Function.comp_def]



/-! ## what each op can change

For every field of the state a predicate `Op.touchesF` lists the ops that may
change it; `step_F` says every other op leaves it alone. `cfg` is never changed
by `step`. -/

/-- splits the `if` / `match` layers of one `step` case and closes by the frame lemmas -/
macro "step_frame" : tactic =>
  `(tactic| (simp only [step] <;> (repeat' split) <;> simp))

/-- ops that may change the configuration: a rebalance changes the vBucket range (and nothing else
    of the configuration, see `step_cfg_obs` … `step_cfg_readOnly`) -/
def Op.touchesCfg : Op → Bool
  | .rebalance _ _ => true
  | _ => false

/-- no op but a rebalance changes the configuration -/
theorem step_cfg (s : St) {op : Op} (h : op.touchesCfg = false) : (step s op).1.cfg = s.cfg := by
  cases op <;> simp [Op.touchesCfg] at h <;> step_frame

/-- the configuration after a step: the old one, or (rebalance) the old one with the new range -/
theorem step_cfg_cases (s : St) (op : Op) :
    (step s op).1.cfg = s.cfg ∨ ∃ lo hi, op = .rebalance lo hi ∧ (step s op).1.cfg = { s.cfg with lo := lo, hi := hi } := by
  by_cases h : op.touchesCfg = false
  · exact Or.inl (step_cfg s h)
  · cases op <;> simp [Op.touchesCfg] at h
    rename_i lo hi
    rcases rebalanceSession_cfg s lo hi with h | h
    · exact Or.inl h
    · exact Or.inr ⟨lo, hi, rfl, h⟩

/-- no op changes the observer configuration, the finite / reset-to-latest / read-only switches -/
@[simp] theorem step_cfg_obs (s : St) (op : Op) : (step s op).1.cfg.obs = s.cfg.obs := by
  rcases step_cfg_cases s op with h | ⟨_, _, _, h⟩ <;> rw [h]
@[simp] theorem step_cfg_finite (s : St) (op : Op) : (step s op).1.cfg.finite = s.cfg.finite := by
  rcases step_cfg_cases s op with h | ⟨_, _, _, h⟩ <;> rw [h]
@[simp] theorem step_cfg_resetLatest (s : St) (op : Op) : (step s op).1.cfg.resetLatest = s.cfg.resetLatest := by
  rcases step_cfg_cases s op with h | ⟨_, _, _, h⟩ <;> rw [h]
@[simp] theorem step_cfg_readOnly (s : St) (op : Op) : (step s op).1.cfg.readOnly = s.cfg.readOnly := by
  rcases step_cfg_cases s op with h | ⟨_, _, _, h⟩ <;> rw [h]

/-- ops that may change `store` -/
def Op.touchesStore : Op → Bool
  | .setStore _ _ | .save _ | .svStore _ _ => true
  | _ => false

theorem step_store (s : St) {op : Op} (h : op.touchesStore = false) : (step s op).1.store = s.store := by
  cases op <;> simp [Op.touchesStore] at h <;> step_frame

/-- ops that may change `high` -/
def Op.touchesHigh : Op → Bool
  | .setHigh _ _ => true
  | _ => false

theorem step_high (s : St) {op : Op} (h : op.touchesHigh = false) : (step s op).1.high = s.high := by
  cases op <;> simp [Op.touchesHigh] at h <;> step_frame

/-- ops that may change `flog` -/
def Op.touchesFlog : Op → Bool
  | .setFlog _ _ => true
  | _ => false

theorem step_flog (s : St) {op : Op} (h : op.touchesFlog = false) : (step s op).1.flog = s.flog := by
  cases op <;> simp [Op.touchesFlog] at h <;> step_frame

/-- ops that may change `sess` -/
def Op.touchesSess : Op → Bool
  | .open | .crash => true
  | _ => false

theorem step_sess (s : St) {op : Op} (h : op.touchesSess = false) : (step s op).1.sess = s.sess := by
  cases op <;> simp [Op.touchesSess] at h <;> step_frame

/-- ops that may change `isOpen` -/
def Op.touchesIsOpen : Op → Bool
  | .open | .close | .crash | .rebalance _ _ => true
  | _ => false

theorem step_isOpen (s : St) {op : Op} (h : op.touchesIsOpen = false) : (step s op).1.isOpen = s.isOpen := by
  cases op <;> simp [Op.touchesIsOpen] at h <;> step_frame

/-- ops that may change `everOpened` -/
def Op.touchesEverOpened : Op → Bool
  | .open | .crash | .rebalance _ _ => true
  | _ => false

theorem step_everOpened (s : St) {op : Op} (h : op.touchesEverOpened = false) : (step s op).1.everOpened = s.everOpened := by
  cases op <;> simp [Op.touchesEverOpened] at h <;> step_frame

/-- ops that may change `offsets` -/
def Op.touchesOffsets : Op → Bool
  | .open | .close | .crash | .ev _ _ | .ack _ | .rebalance _ _ => true
  | _ => false

theorem step_offsets (s : St) {op : Op} (h : op.touchesOffsets = false) : (step s op).1.offsets = s.offsets := by
  cases op <;> simp [Op.touchesOffsets] at h <;> step_frame

/-- ops that may change `dirtyMaps` -/
def Op.touchesDirtyMaps : Op → Bool
  | .open | .close | .crash | .ev _ _ | .ack _ | .save _ | .svUnmark _ | .rebalance _ _ => true
  | _ => false

theorem step_dirtyMaps (s : St) {op : Op} (h : op.touchesDirtyMaps = false) : (step s op).1.dirtyMaps = s.dirtyMaps := by
  cases op <;> simp [Op.touchesDirtyMaps] at h <;> step_frame

/-- ops that may change `curGen` -/
def Op.touchesCurGen : Op → Bool
  | .open | .close | .crash | .save _ | .svUnmark _ | .rebalance _ _ => true
  | _ => false

theorem step_curGen (s : St) {op : Op} (h : op.touchesCurGen = false) : (step s op).1.curGen = s.curGen := by
  cases op <;> simp [Op.touchesCurGen] at h <;> step_frame

/-- ops that may change `nextGen` -/
def Op.touchesNextGen : Op → Bool
  | .open | .close | .crash | .save _ | .svUnmark _ | .rebalance _ _ => true
  | _ => false

theorem step_nextGen (s : St) {op : Op} (h : op.touchesNextGen = false) : (step s op).1.nextGen = s.nextGen := by
  cases op <;> simp [Op.touchesNextGen] at h <;> step_frame

/-- ops that may change `anyDirty` -/
def Op.touchesAnyDirty : Op → Bool
  | .open | .crash | .ack _ | .save _ | .svUnmark _ | .rebalance _ _ => true
  | _ => false

theorem step_anyDirty (s : St) {op : Op} (h : op.touchesAnyDirty = false) : (step s op).1.anyDirty = s.anyDirty := by
  cases op <;> simp [Op.touchesAnyDirty] at h <;> step_frame

/-- ops that may change `observers` -/
def Op.touchesObservers : Op → Bool
  | .open | .close | .crash | .ev _ _ | .persist _ _ | .rebalance _ _ | .reopen _ => true
  | _ => false

theorem step_observers (s : St) {op : Op} (h : op.touchesObservers = false) : (step s op).1.observers = s.observers := by
  cases op <;> simp [Op.touchesObservers] at h <;> step_frame

/-- ops that may change `obsNil` -/
def Op.touchesObsNil : Op → Bool
  | .open | .close | .crash | .rebalance _ _ => true
  | _ => false

theorem step_obsNil (s : St) {op : Op} (h : op.touchesObsNil = false) : (step s op).1.obsNil = s.obsNil := by
  cases op <;> simp [Op.touchesObsNil] at h <;> step_frame

/-- ops that may change `ctxs` -/
def Op.touchesCtxs : Op → Bool
  | .ev _ _ => true
  | _ => false

theorem step_ctxs (s : St) {op : Op} (h : op.touchesCtxs = false) : (step s op).1.ctxs = s.ctxs := by
  cases op <;> simp [Op.touchesCtxs] at h <;> step_frame

/-- ops that may change `savers` -/
def Op.touchesSavers : Op → Bool
  | .open | .crash | .svBegin _ | .svDump _ | .svStore _ _ | .svUnmark _ => true
  | _ => false

theorem step_savers (s : St) {op : Op} (h : op.touchesSavers = false) : (step s op).1.savers = s.savers := by
  cases op <;> simp [Op.touchesSavers] at h <;> step_frame

/-- ops that may change `lockHeld` -/
def Op.touchesLockHeld : Op → Bool
  | .open | .crash | .svDump _ | .svStore _ _ | .svUnmark _ => true
  | _ => false

theorem step_lockHeld (s : St) {op : Op} (h : op.touchesLockHeld = false) : (step s op).1.lockHeld = s.lockHeld := by
  cases op <;> simp [Op.touchesLockHeld] at h <;> step_frame


/-- in-session ops keep the session number, the open flag and the environment identity -/
theorem step_sess_of_inSession (s : St) {op : Op} (h : inSession op = true) : (step s op).1.sess = s.sess := by
  apply step_sess; cases op <;> simp [inSession] at h <;> rfl

theorem step_isOpen_of_inSession (s : St) {op : Op} (h : inSession op = true) : (step s op).1.isOpen = s.isOpen := by
  apply step_isOpen; cases op <;> simp [inSession] at h <;> rfl

theorem step_flog_of_inSession (s : St) {op : Op} (h : inSession op = true) : (step s op).1.flog = s.flog := by
  apply step_flog; cases op <;> simp [inSession] at h <;> rfl

/-- contexts are only ever appended -/
theorem step_ctxs_prefix (s : St) (op : Op) : s.ctxs <+: (step s op).1.ctxs := by
  by_cases h : op.touchesCtxs = false
  · rw [step_ctxs s h]; exact List.prefix_refl _
  · cases op <;> simp [Op.touchesCtxs] at h
    exact evStep_ctxs_prefix _ _ _

/-! ## runs -/

@[simp] theorem run_nil (s : St) : run s [] = s := rfl
@[simp] theorem run_cons (s : St) (op : Op) (ops : List Op) : run s (op :: ops) = run (step s op).1 ops := rfl

theorem run_append (s : St) (a b : List Op) : run s (a ++ b) = run (run s a) b := by
  simp [run, List.foldl_append]

@[simp] theorem runTrace_nil (s : St) : runTrace s [] = (s, []) := rfl

theorem runTrace_cons (s : St) (op : Op) (ops : List Op) :
    runTrace s (op :: ops) = ((runTrace (step s op).1 ops).1, (step s op).2 :: (runTrace (step s op).1 ops).2) := rfl

/-- the state component of `runTrace` is `run` -/
@[simp] theorem runTrace_fst (s : St) (ops : List Op) : (runTrace s ops).1 = run s ops := by
  induction ops generalizing s with
  | nil => rfl
  | cons op r ih => rw [runTrace_cons, run_cons]; exact ih _

@[simp] theorem runTrace_length (s : St) (ops : List Op) : (runTrace s ops).2.length = ops.length := by
  induction ops generalizing s with
  | nil => rfl
  | cons op r ih => rw [runTrace_cons]; simp [ih]

/-- an invariant of every step (under a side condition on the ops) is an invariant of runs -/
theorem run_induction {P : St → Prop} {ok : Op → Prop} (hstep : ∀ s op, ok op → P s → P (step s op).1)
    (s : St) (ops : List Op) (hok : ∀ op ∈ ops, ok op) (h : P s) : P (run s ops) := by
  induction ops generalizing s with
  | nil => exact h
  | cons op r ih =>
    rw [run_cons]
    exact ih _ (fun o ho => hok o (List.mem_cons_of_mem _ ho)) (hstep s op (hok op List.mem_cons_self) h)

/-- a run without a rebalance keeps the configuration -/
theorem run_cfg (s : St) (ops : List Op) (h : ∀ op ∈ ops, op.touchesCfg = false) : (run s ops).cfg = s.cfg := by
  induction ops generalizing s with
  | nil => rfl
  | cons op r ih =>
    rw [run_cons, ih _ (fun o ho => h o (List.mem_cons_of_mem _ ho)), step_cfg s (h op List.mem_cons_self)]

@[simp] theorem run_cfg_obs (s : St) (ops : List Op) : (run s ops).cfg.obs = s.cfg.obs := by
  induction ops generalizing s with
  | nil => rfl
  | cons op r ih => rw [run_cons, ih, step_cfg_obs]
@[simp] theorem run_cfg_finite (s : St) (ops : List Op) : (run s ops).cfg.finite = s.cfg.finite := by
  induction ops generalizing s with
  | nil => rfl
  | cons op r ih => rw [run_cons, ih, step_cfg_finite]
@[simp] theorem run_cfg_resetLatest (s : St) (ops : List Op) : (run s ops).cfg.resetLatest = s.cfg.resetLatest := by
  induction ops generalizing s with
  | nil => rfl
  | cons op r ih => rw [run_cons, ih, step_cfg_resetLatest]
@[simp] theorem run_cfg_readOnly (s : St) (ops : List Op) : (run s ops).cfg.readOnly = s.cfg.readOnly := by
  induction ops generalizing s with
  | nil => rfl
  | cons op r ih => rw [run_cons, ih, step_cfg_readOnly]

/-- in-session ops keep the whole configuration -/
theorem step_cfg_of_inSession (s : St) {op : Op} (h : inSession op = true) : (step s op).1.cfg = s.cfg := by
  apply step_cfg; cases op <;> simp [inSession] at h <;> rfl

theorem run_ctxs_prefix (s : St) (ops : List Op) : s.ctxs <+: (run s ops).ctxs := by
  induction ops generalizing s with
  | nil => exact List.prefix_refl _
  | cons op r ih => rw [run_cons]; exact List.IsPrefix.trans (step_ctxs_prefix s op) (ih _)

/-! ## what is written, and where saver dumps come from -/

/-- what one `Metadata.Save` call writes is part of the dump it was given, restricted to the dirty list -/
theorem mem_mdWrite_written {s : St} {st : List (Vb × Doc)} {d : List Vb} {res : StoreRes} {q : Vb × Doc}
    (h : q ∈ (mdWrite s st d res).2) : q ∈ st ∧ q.1 ∈ d := by
  unfold mdWrite at h
  split at h
  · simp at h
  · cases res with
    | ok => simp only [List.mem_filter] at h; exact ⟨h.1, by simpa using h.2⟩
    | fail => simp at h
    | part ws =>
      simp only [List.mem_filter] at h; exact ⟨h.1.1, by simpa using h.1.2⟩

/-- the store after the call: the old pairs and what was written -/
theorem mem_mdWrite_store {s : St} {st : List (Vb × Doc)} {d : List Vb} {res : StoreRes} {q : Vb × Doc}
    (h : q ∈ (mdWrite s st d res).1) : q ∈ s.store ∨ q ∈ (mdWrite s st d res).2 := by
  unfold mdWrite at h ⊢
  split
  · rename_i hr; simp [hr] at h; exact Or.inl h
  · rename_i hr
    simp only [hr] at h
    simp only [Bool.false_eq_true, if_false] at h
    exact AMap.mem_foldl_set h

/-- behind the read-only wrapper nothing is written -/
theorem mdWrite_readOnly {s : St} (h : s.cfg.readOnly = true) (st : List (Vb × Doc)) (d : List Vb) (res : StoreRes) :
    mdWrite s st d res = (s.store, []) := by
  simp [mdWrite, h]

theorem mem_dumpState {s : St} {q : Vb × Doc} (h : q ∈ dumpState s) : ∃ o, (q.1, o) ∈ s.offsets ∧ q.2 = o.toDoc := by
  unfold dumpState at h
  obtain ⟨⟨vb, o⟩, hp, rfl⟩ := List.mem_map.1 h
  exact ⟨o, hp, rfl⟩

theorem mem_dropSaver {s : St} {k : Nat} {p : Nat × SaverPc} (h : p ∈ dropSaver s k) : p ∈ s.savers := by
  unfold dropSaver at h; exact (List.mem_filter.1 h).1

/-- a saver that sits inside `metadata.Save` after a step was there before, or has just dumped the
    current offsets -/
theorem step_savers_dumped {s : St} {op : Op} {k : Nat} {st : List (Vb × Doc)} {d : List Vb}
    (h : (k, SaverPc.dumped st d) ∈ (step s op).1.savers) :
    (k, SaverPc.dumped st d) ∈ s.savers ∨ st = dumpState s := by
  by_cases ht : op.touchesSavers = false
  · rw [step_savers s ht] at h; exact Or.inl h
  · cases op <;> simp [Op.touchesSavers] at ht
    case «open» =>
      simp only [step, openSession] at h
      split at h
      · exact Or.inl h
      · split at h <;> simp at h
    case crash => simp [step, crash] at h
    case svBegin k' =>
      simp only [step, svBegin] at h
      split at h
      · exact Or.inl h
      · split at h
        · exact Or.inl h
        · rcases AMap.mem_set h with h | h
          · cases h
          · exact Or.inl h
    case svDump k' =>
      simp only [step, svDump] at h
      split at h
      · split at h
        · exact Or.inl h
        · rcases AMap.mem_set h with h | h
          · injection h with h1 h2; injection h2 with h2 h3; exact Or.inr h2
          · exact Or.inl h
      · exact Or.inl h
    case svStore k' res =>
      simp only [step, svStore] at h
      split at h
      · split at h
        · rcases AMap.mem_set h with h | h
          · cases h
          · exact Or.inl h
        · exact Or.inl (mem_dropSaver h)
      · exact Or.inl h
    case svUnmark k' =>
      simp only [step, svUnmark] at h
      split at h
      · exact Or.inl (mem_dropSaver h)
      · exact Or.inl h

/-- the dump handed to `Metadata.Save` is the current offsets map -/
theorem step_saveCall {s : St} {op : Op} {st : List (Vb × Doc)} {d : List Vb}
    (h : Obsv.saveCall st d ∈ (step s op).2) : st = dumpState s := by
  cases op <;> simp only [step] at h
  case setStore => split at h <;> simp at h
  case setHigh => simp at h
  case setFlog => simp at h
  case «open» =>
    simp only [openSession] at h
    split at h
    · simp at h
    · split at h <;> simp at h
  case close => simp only [closeSession] at h; split at h <;> simp at h
  case crash => simp [crash] at h
  case ev vb e =>
    cases ho : s.observers.get? vb with
    | none => rw [evStep_of_no_obs e ho] at h; simp at h
    | some o =>
      rw [evStep_of_obs e ho] at h
      split at h
      · rename_i le _
        cases le <;> simp only [listen] at h
        case doc => split at h <;> simp [setOffset_out] at h <;> split at h <;> simp at h
        all_goals (try simp [setOffset_out] at h) <;> (try split at h) <;> simp at h
      all_goals simp at h
  case ack i =>
    split at h
    · simp at h
    · split at h
      · simp at h
      · rw [ack_out, setOffset_out] at h; split at h <;> simp at h
  case save res =>
    rw [saveAll_eq] at h
    (repeat' split at h) <;> simp at h <;> exact h.1
  case svBegin k => simp only [svBegin] at h; (repeat' split at h) <;> simp at h
  case svDump k =>
    simp only [svDump] at h
    split at h
    · split at h
      · simp at h
      · simp at h; exact h.1
    · simp at h
  case svStore k res => simp only [svStore] at h; (repeat' split at h) <;> simp at h
  case svUnmark k => simp only [svUnmark] at h; (repeat' split at h) <;> simp at h
  case persist => (repeat' split at h) <;> simp at h
  case getOffsets => simp at h
  case metrics => (repeat' split at h) <;> simp at h
  case scrape => simp only [scrape] at h; split at h <;> simp at h
  case rebalance lo hi =>
    rcases mem_rebalanceSession_out h with ⟨_, h⟩ | ⟨_, h⟩ | h | ⟨_, _, _, _, _, _, _, _, _, _, h, _⟩ <;> cases h
  case reopen vb =>
    rcases mem_reopenStream_out h with ⟨_, h⟩ | ⟨_, _, _, _, _, h, _⟩ <;> cases h

/-- whatever a step reports as made durable comes out of a dump: one a saver in flight took earlier,
    or (whole save) the current offsets, restricted to the dirty list that saver captured -/
theorem step_written {s : St} {op : Op} {w : List (Vb × Doc)} (h : Obsv.written w ∈ (step s op).2) :
    (∃ k st d, (k, SaverPc.dumped st d) ∈ s.savers ∧ ∀ q ∈ w, q ∈ st ∧ q.1 ∈ d) ∨
    (∀ q ∈ w, q ∈ dumpState s ∧ q.1 ∈ curDirty s) := by
  cases op <;> simp only [step] at h
  case setStore => split at h <;> simp at h
  case setHigh => simp at h
  case setFlog => simp at h
  case «open» =>
    simp only [openSession] at h
    split at h
    · simp at h
    · split at h <;> simp at h
  case close => simp only [closeSession] at h; split at h <;> simp at h
  case crash => simp [crash] at h
  case ev vb e =>
    cases ho : s.observers.get? vb with
    | none => rw [evStep_of_no_obs e ho] at h; simp at h
    | some o =>
      rw [evStep_of_obs e ho] at h
      split at h
      · rename_i le _
        cases le <;> simp only [listen] at h
        case doc => split at h <;> simp [setOffset_out] at h <;> split at h <;> simp at h
        all_goals (try simp [setOffset_out] at h) <;> (try split at h) <;> simp at h
      all_goals simp at h
  case ack i =>
    split at h
    · simp at h
    · split at h
      · simp at h
      · rw [ack_out, setOffset_out] at h; split at h <;> simp at h
  case save res =>
    rw [saveAll_eq] at h
    (repeat' split at h) <;> simp at h <;> (subst h; exact Or.inr fun q hq => mem_mdWrite_written hq)
  case svBegin k => simp only [svBegin] at h; (repeat' split at h) <;> simp at h
  case svDump k => simp only [svDump] at h; (repeat' split at h) <;> simp at h
  case svStore k res =>
    cases hk : s.savers.get? k with
    | none => simp [svStore, hk] at h
    | some pc =>
      cases pc with
      | wantLock g => simp [svStore, hk] at h
      | stored => simp [svStore, hk] at h
      | dumped st d =>
        rw [svStore_of_dumped res hk] at h
        refine Or.inl ⟨k, st, d, AMap.mem_of_get?_eq_some hk, ?_⟩
        split at h <;> simp at h <;> (subst h; exact fun q hq => mem_mdWrite_written hq)
  case svUnmark k => simp only [svUnmark] at h; (repeat' split at h) <;> simp at h
  case persist => (repeat' split at h) <;> simp at h
  case getOffsets => simp at h
  case metrics => (repeat' split at h) <;> simp at h
  case scrape => simp only [scrape] at h; split at h <;> simp at h
  case rebalance lo hi =>
    rcases mem_rebalanceSession_out h with ⟨_, h⟩ | ⟨_, h⟩ | h | ⟨_, _, _, _, _, _, _, _, _, _, h, _⟩ <;> cases h
  case reopen vb =>
    rcases mem_reopenStream_out h with ⟨_, h⟩ | ⟨_, _, _, _, _, h, _⟩ <;> cases h

/-- the durable store after a step: what was there, what the environment put (`setStore`),
    or what the step reported as written -/
theorem step_store_mem {s : St} {op : Op} {q : Vb × Doc} (h : q ∈ (step s op).1.store) :
    q ∈ s.store ∨ (∃ vb d, op = .setStore vb d ∧ q = (vb, d)) ∨ ∃ w, Obsv.written w ∈ (step s op).2 ∧ q ∈ w := by
  by_cases ht : op.touchesStore = false
  · rw [step_store s ht] at h; exact Or.inl h
  · cases op <;> simp [Op.touchesStore] at ht
    case setStore vb d =>
      simp only [step] at h
      split at h
      · exact Or.inl h
      · rcases AMap.mem_set h with h | h
        · exact Or.inr (Or.inl ⟨vb, d, rfl, h⟩)
        · exact Or.inl h
    case save res =>
      simp only [step] at h ⊢
      by_cases hro : s.cfg.readOnly = true
      · rw [saveAll_eq] at h
        (repeat' split at h) <;> simp [mdWrite_readOnly hro] at h <;> exact Or.inl h
      · rw [saveAll_eq] at h ⊢
        (repeat' split at h) <;> (try exact Or.inl h)
        all_goals
          simp only [] at h
          rcases mem_mdWrite_store h with h | h
          · exact Or.inl h
          · refine Or.inr (Or.inr ⟨_, ?_, h⟩)
            simp [*]
    case svStore k res =>
      simp only [step] at h ⊢
      cases hk : s.savers.get? k with
      | none => simp [svStore, hk] at h; exact Or.inl h
      | some pc =>
        cases pc with
        | wantLock g => simp [svStore, hk] at h; exact Or.inl h
        | stored => simp [svStore, hk] at h; exact Or.inl h
        | dumped st d =>
          rw [svStore_of_dumped res hk] at h ⊢
          split at h <;>
          · simp only [] at h
            rcases mem_mdWrite_store h with h | h
            · exact Or.inl h
            · refine Or.inr (Or.inr ⟨_, ?_, h⟩)
              simp [*]

/-! ## settles and notifications -/

/-- the (vBucket, offset) an op tries to settle: an acknowledgement of a context of the current
    session, or an event the observer forwards and the stream absorbs (reserved key, seqno-advanced,
    system event) -/
def settle? (s : St) : Op → Option (Vb × Offset)
  | .ack i =>
    match s.ctxs[i]? with
    | some p => if p.sess = s.sess then some (p.vb, p.off) else none
    | none => none
  | .ev vb e =>
    match s.observers.get? vb with
    | none => none
    | some o =>
      match (Obs.step s.cfg.obs o e).2 with
      | .fwd (.doc d off _ _) => if isMetaKey d.key then some (vb, off) else none
      | .fwd (.seqAdv off) => some (vb, off)
      | .fwd (.sys _ off) => some (vb, off)
      | _ => none
  | _ => none

/-- the offsets map after trying to settle -/
def applySettle (s : St) : Option (Vb × Offset) → AMap Offset
  | none => s.offsets
  | some (vb, o) => if accepts s vb o then s.offsets.set vb o else s.offsets

/-- the notification an attempted settle produces -/
def settleOut (s : St) : Option (Vb × Offset) → List (Vb × Offset)
  | none => []
  | some (vb, o) => if accepts s vb o then [(vb, o)] else []

def trackOf : Obsv → Option (Vb × Offset)
  | .track vb o => some (vb, o)
  | _ => none

/-- the `TrackOffset` calls in an observation list -/
def tracksOut (out : List Obsv) : List (Vb × Offset) := out.filterMap trackOf

theorem mem_tracksOut {out : List Obsv} {vb : Vb} {o : Offset} : (vb, o) ∈ tracksOut out ↔ Obsv.track vb o ∈ out := by
  unfold tracksOut
  rw [List.mem_filterMap]
  constructor
  · rintro ⟨a, ha, h⟩
    cases a <;> simp [trackOf] at h
    obtain ⟨rfl, rfl⟩ := h; exact ha
  · intro h; exact ⟨_, h, rfl⟩

theorem accepts_congr {s t : St} (h1 : t.cfg = s.cfg) (h2 : t.offsets = s.offsets) (vb : Vb) (o : Offset) :
    accepts t vb o = accepts s vb o := by
  unfold accepts; rw [h1, h2]

theorem setOffset_tracks (s : St) (vb : Vb) (o : Offset) (d : Bool) :
    tracksOut (setOffset s vb o d).2 = settleOut s (some (vb, o)) := by
  rw [setOffset_out]; simp only [settleOut]
  by_cases h : accepts s vb o = true <;> simp [h, tracksOut, trackOf]

theorem setOffset_applySettle (s : St) (vb : Vb) (o : Offset) (d : Bool) :
    (setOffset s vb o d).1.offsets = applySettle s (some (vb, o)) := by
  rw [setOffset_offsets]; rfl

/-- the offsets after an in-session step are the offsets after its settle (if any) -/
theorem step_offsets_eq (s : St) {op : Op} (h : inSession op = true) :
    (step s op).1.offsets = applySettle s (settle? s op) := by
  by_cases ht : op.touchesOffsets = false
  · rw [step_offsets s ht]
    cases op <;> simp [Op.touchesOffsets] at ht <;> rfl
  · cases op <;> simp [Op.touchesOffsets] at ht <;> simp [inSession] at h
    case ev vb e =>
      simp only [step, settle?]
      cases ho : s.observers.get? vb with
      | none => rw [evStep_of_no_obs e ho]; rfl
      | some o =>
        rw [evStep_of_obs e ho]
        simp only []
        generalize Obs.step s.cfg.obs o e = r
        obtain ⟨o', out⟩ := r
        cases out <;> try rfl
        rename_i le
        cases le <;> simp only [listen] <;> try rfl
        case doc d off coll t =>
          by_cases hm : isMetaKey d.key = true
          · simp only [hm, if_true, setOffset_applySettle]; rfl
          · simp only [hm]; rfl
        all_goals (rw [setOffset_applySettle]; rfl)
    case ack i =>
      simp only [step, settle?]
      cases hc : s.ctxs[i]? with
      | none => rfl
      | some p =>
        simp only []
        by_cases hs : p.sess = s.sess
        · simp only [hs, ne_eq, not_true_eq_false, if_false, if_true, ack_offsets, setOffset_applySettle]
        · simp only [hs, ne_eq, not_false_eq_true, if_true, if_false]; rfl

theorem tracksOut_map_openreq (l : List (Vb × Offset)) : tracksOut (l.map fun p => Obsv.openreq p.1 p.2) = [] := by
  induction l with
  | nil => rfl
  | cons a t ih => simp only [tracksOut] at ih; simp [tracksOut, List.filterMap_cons, trackOf, ih]

theorem tracksOut_map_closereq {α : Type} (l : List (Vb × α)) : tracksOut (l.map fun p => Obsv.closereq p.1) = [] := by
  induction l with
  | nil => rfl
  | cons a t ih => simp only [tracksOut] at ih; simp [tracksOut, List.filterMap_cons, trackOf, ih]

/-- the `TrackOffset` calls of a step are exactly the accepted settle (for every op) -/
theorem step_tracks (s : St) (op : Op) : tracksOut (step s op).2 = settleOut s (settle? s op) := by
  cases op <;> simp only [step, settle?, settleOut]
  case setStore => split <;> rfl
  case setHigh => rfl
  case setFlog => rfl
  case «open» =>
    simp only [openSession]
    split
    · rfl
    · split
      · rfl
      · exact tracksOut_map_openreq _
  case close =>
    simp only [closeSession]
    split
    · rfl
    · exact tracksOut_map_closereq _
  case crash => rfl
  case ev vb e =>
    cases ho : s.observers.get? vb with
    | none => rw [evStep_of_no_obs e ho]; rfl
    | some o =>
      rw [evStep_of_obs e ho]
      simp only []
      generalize Obs.step s.cfg.obs o e = r
      obtain ⟨o', out⟩ := r
      cases out <;> try rfl
      rename_i le
      cases le <;> simp only [listen] <;> try rfl
      case doc d off coll t =>
        by_cases hm : isMetaKey d.key = true
        · simp only [hm, if_true, setOffset_tracks]; rfl
        · simp only [hm]; rfl
      all_goals (rw [setOffset_tracks]; rfl)
  case ack i =>
    cases hc : s.ctxs[i]? with
    | none => rfl
    | some p =>
      simp only []
      by_cases hs : p.sess = s.sess
      · simp only [hs, ne_eq, not_true_eq_false, if_false, if_true, ack_out, setOffset_tracks]; rfl
      · simp only [hs, ne_eq, not_false_eq_true, if_true, if_false]; rfl
  case save res => rw [saveAll_eq]; (repeat' split) <;> rfl
  case svBegin k => simp only [svBegin]; (repeat' split) <;> rfl
  case svDump k => simp only [svDump]; (repeat' split) <;> rfl
  case svStore k res => simp only [svStore]; (repeat' split) <;> rfl
  case svUnmark k => simp only [svUnmark]; (repeat' split) <;> rfl
  case persist => (repeat' split) <;> rfl
  case getOffsets => rfl
  case metrics => (repeat' split) <;> rfl
  case scrape => simp only [scrape]; split <;> rfl
  case rebalance lo hi =>
    apply List.eq_nil_iff_forall_not_mem.2
    rintro ⟨vb, o⟩ hm
    rw [mem_tracksOut] at hm
    rcases mem_rebalanceSession_out hm with ⟨_, h⟩ | ⟨_, h⟩ | h | ⟨_, _, _, _, _, _, _, _, _, _, h, _⟩ <;> cases h
  case reopen vb =>
    apply List.eq_nil_iff_forall_not_mem.2
    rintro ⟨vb', o⟩ hm
    rw [mem_tracksOut] at hm
    rcases mem_reopenStream_out hm with ⟨_, h⟩ | ⟨_, _, _, _, _, h, _⟩ <;> cases h

/-- only in-session ops settle anything -/
theorem inSession_of_settle {s : St} {op : Op} {x : Vb × Offset} (h : settle? s op = some x) : inSession op = true := by
  cases op <;> simp [settle?] at h <;> rfl


/-! ## store entries that a write does not mention -/

theorem AMap.get?_foldl_set_of_not_mem_keys {α : Type} {w : List (Vb × α)} {m : AMap α} {x : Vb}
    (h : x ∉ AMap.keys w) : AMap.get? (w.foldl (fun m q => AMap.set m q.1 q.2) m) x = AMap.get? m x := by
  induction w generalizing m with
  | nil => rfl
  | cons q r ih =>
    have h1 : x ≠ q.1 := fun e => h (by simp [AMap.keys, e])
    have h2 : x ∉ AMap.keys r := fun e => h (by simp only [AMap.keys, List.map_cons, List.mem_cons]; exact Or.inr e)
    rw [List.foldl_cons, ih h2, AMap.get?_set_other _ _ _ _ h1]

/-- a vBucket that the call did not write keeps its stored document -/
theorem mdWrite_get?_of_not_written {s : St} {st : List (Vb × Doc)} {d : List Vb} {res : StoreRes} {x : Vb}
    (h : x ∉ AMap.keys (mdWrite s st d res).2) : (mdWrite s st d res).1.get? x = s.store.get? x := by
  unfold mdWrite at h ⊢
  split
  · rfl
  · rename_i hr
    simp only [hr, Bool.false_eq_true, if_false] at h
    exact AMap.get?_foldl_set_of_not_mem_keys h

theorem AMap.mem_keys_foldl_set_of_mem {α : Type} (w : List (Vb × α)) {m : AMap α} {x : Vb}
    (h : x ∈ AMap.keys m) : x ∈ AMap.keys (w.foldl (fun m q => AMap.set m q.1 q.2) m) := by
  induction w generalizing m with
  | nil => exact h
  | cons q r ih => exact ih ((AMap.mem_keys_set _ _ _ _).2 (Or.inr h))

/-- the store never loses a key through a write -/
theorem mdWrite_keys_mono {s : St} {st : List (Vb × Doc)} {d : List Vb} {res : StoreRes} {x : Vb}
    (h : x ∈ AMap.keys s.store) : x ∈ AMap.keys (mdWrite s st d res).1 := by
  unfold mdWrite
  split
  · exact h
  · exact AMap.mem_keys_foldl_set_of_mem _ h

/-! ## deliveries and stream requests -/

/-- the document case of `evStep` when the observer forwards -/
theorem evStep_doc_fwd {s : St} {vb : Vb} {o : Obs} {d : DocEv} {le : LEvent}
    (ho : s.observers.get? vb = some o) (hf : (Obs.step s.cfg.obs o (.doc d)).2 = .fwd le) :
    le = .doc d (Obs.mkOffset o d.seq) (Obs.collName s.cfg.obs d.coll) (d.cas / 1000000000) ∧
    Obs.inSnap o d.seq = true ∧
    evStep s vb (.doc d) =
      listen { s with observers := s.observers.set vb (Obs.step s.cfg.obs o (.doc d)).1 } vb le := by
  rcases Obs.step_fwd_cases hf with ⟨_, _, h, _⟩ | ⟨d', h, hle, _, _, _, hin⟩ | ⟨_, h, _⟩ | ⟨_, _, _, h, _⟩ | ⟨h, _⟩ <;>
    try (cases h)
  refine ⟨hle, hin, ?_⟩
  rw [evStep_of_obs _ ho, hf]

/-- a delivery comes from exactly one document event: its offset is built from that event's seqno
    and the observer's marker / branch id / end seqno at that moment, its context is appended -/
theorem step_deliver {s : St} {op : Op} {i : Nat} {vb : Vb} {d : DocEv} {off : Offset} {coll : String} {t : Nat}
    (h : Obsv.deliver i vb d off coll t ∈ (step s op).2) :
    ∃ o, op = .ev vb (.doc d) ∧ s.observers.get? vb = some o ∧ off = Obs.mkOffset o d.seq ∧
      Obs.inSnap o d.seq = true ∧ isMetaKey d.key = false ∧ i = s.ctxs.length ∧
      coll = Obs.collName s.cfg.obs d.coll ∧ t = d.cas / 1000000000 ∧
      (step s op).1.ctxs = s.ctxs ++ [⟨s.sess, vb, off⟩] ∧
      (step s op).2 = [.deliver i vb d off coll t] := by
  cases op <;> simp only [step] at h
  case setStore => split at h <;> simp at h
  case setHigh => simp at h
  case setFlog => simp at h
  case «open» =>
    simp only [openSession] at h
    split at h
    · simp at h
    · split at h <;> simp at h
  case close => simp only [closeSession] at h; split at h <;> simp at h
  case crash => simp [crash] at h
  case ev vb' e =>
    cases ho : s.observers.get? vb' with
    | none => rw [evStep_of_no_obs e ho] at h; simp at h
    | some o =>
      cases hout : (Obs.step s.cfg.obs o e).2 with
      | fwd le =>
        rcases Obs.step_fwd_cases hout with ⟨_, _, he, hle⟩ | ⟨d', he, hle, _, _, _, hin⟩ | ⟨_, he, hle⟩ |
            ⟨_, _, _, he, hle, _⟩ | ⟨he, hle⟩
        · subst he hle; rw [evStep_of_obs _ ho, hout] at h; simp [listen] at h
        · subst he
          obtain ⟨_, _, hev⟩ := evStep_doc_fwd ho hout
          simp only [step]
          rw [hev] at h ⊢
          subst hle
          by_cases hm : isMetaKey d'.key = true
          · rw [listen_doc_meta _ _ _ _ _ hm, setOffset_out] at h
            split at h <;> simp at h
          · have hm : isMetaKey d'.key = false := by simpa using hm
            rw [listen_doc_user _ _ _ _ _ hm] at h ⊢
            simp only [List.mem_singleton, Obsv.deliver.injEq] at h
            obtain ⟨rfl, rfl, rfl, rfl, rfl, rfl⟩ := h
            exact ⟨o, rfl, ho, rfl, hin, hm, rfl, rfl, rfl, rfl, rfl⟩
        · subst he hle; rw [evStep_of_obs _ ho, hout] at h
          simp only [listen, setOffset_out] at h; split at h <;> simp at h
        · subst he hle; rw [evStep_of_obs _ ho, hout] at h
          simp only [listen, setOffset_out] at h; split at h <;> simp at h
        · subst he hle; rw [evStep_of_obs _ ho, hout] at h; simp [listen] at h
      | _ => rw [evStep_of_obs e ho, hout] at h; simp at h
  case ack i =>
    split at h
    · simp at h
    · split at h
      · simp at h
      · rw [ack_out, setOffset_out] at h; split at h <;> simp at h
  case save res => rw [saveAll_eq] at h; (repeat' split at h) <;> simp at h
  case svBegin k => simp only [svBegin] at h; (repeat' split at h) <;> simp at h
  case svDump k => simp only [svDump] at h; (repeat' split at h) <;> simp at h
  case svStore k res => simp only [svStore] at h; (repeat' split at h) <;> simp at h
  case svUnmark k => simp only [svUnmark] at h; (repeat' split at h) <;> simp at h
  case persist => (repeat' split at h) <;> simp at h
  case getOffsets => simp at h
  case metrics => (repeat' split at h) <;> simp at h
  case scrape => simp only [scrape] at h; split at h <;> simp at h
  case rebalance lo hi =>
    rcases mem_rebalanceSession_out h with ⟨_, h⟩ | ⟨_, h⟩ | h | ⟨_, _, _, _, _, _, _, _, _, _, h, _⟩ <;> cases h
  case reopen vb =>
    rcases mem_reopenStream_out h with ⟨_, h⟩ | ⟨_, _, _, _, _, h, _⟩ <;> cases h

/-- a stream request is issued only by `open` and by a rebalance, one per loaded offset, that offset
    being the position the session (re)starts from; and by a reopen, for the current position of
    that vBucket. In every case the requested offset is the tracked one after the step. -/
theorem step_openreq {s : St} {op : Op} {vb : Vb} {o : Offset} (h : Obsv.openreq vb o ∈ (step s op).2) :
    ((∃ offs dirty any, op = .open ∧ s.isOpen = false ∧ load (openBase s) = some (offs, dirty, any) ∧ (vb, o) ∈ offs) ∨
     (∃ lo hi offs dirty any, op = .rebalance lo hi ∧ s.isOpen = true ∧ s.savers = [] ∧ lo ≤ hi ∧
        load (rebalBase s lo hi) = some (offs, dirty, any) ∧ (vb, o) ∈ offs ∧
        (step s op).1 = rebalDone s lo hi offs dirty any) ∨
     (op = .reopen vb ∧ s.isOpen = true ∧ s.offsets.get? vb = some o)) ∧
    (vb, o) ∈ (step s op).1.offsets := by
  cases op <;> simp only [step] at h
  case setStore => split at h <;> simp at h
  case setHigh => simp at h
  case setFlog => simp at h
  case «open» =>
    by_cases h0 : s.isOpen = true
    · rw [openSession_of_isOpen h0] at h; simp at h
    · have h0 : s.isOpen = false := by simpa using h0
      cases hl : load (openBase s) with
      | none => rw [openSession_of_load_none h0 hl] at h; simp at h
      | some r =>
        obtain ⟨offs, dirty, any⟩ := r
        simp only [step]
        rw [openSession_of_load_some h0 hl] at h ⊢
        simp only [List.mem_map, Obsv.openreq.injEq] at h
        obtain ⟨⟨v, o'⟩, hm, rfl, rfl⟩ := h
        exact ⟨Or.inl ⟨offs, dirty, any, trivial, h0, rfl, hm⟩, hm⟩
  case close => simp only [closeSession] at h; split at h <;> simp at h
  case crash => simp [crash] at h
  case ev vb' e =>
    cases ho : s.observers.get? vb' with
    | none => rw [evStep_of_no_obs e ho] at h; simp at h
    | some o =>
      rw [evStep_of_obs e ho] at h
      split at h
      · rename_i le _
        cases le <;> simp only [listen] at h
        case doc => split at h <;> simp [setOffset_out] at h <;> split at h <;> simp at h
        all_goals (try simp [setOffset_out] at h) <;> (try split at h) <;> simp at h
      all_goals simp at h
  case ack i =>
    split at h
    · simp at h
    · split at h
      · simp at h
      · rw [ack_out, setOffset_out] at h; split at h <;> simp at h
  case save res => rw [saveAll_eq] at h; (repeat' split at h) <;> simp at h
  case svBegin k => simp only [svBegin] at h; (repeat' split at h) <;> simp at h
  case svDump k => simp only [svDump] at h; (repeat' split at h) <;> simp at h
  case svStore k res => simp only [svStore] at h; (repeat' split at h) <;> simp at h
  case svUnmark k => simp only [svUnmark] at h; (repeat' split at h) <;> simp at h
  case persist => (repeat' split at h) <;> simp at h
  case getOffsets => simp at h
  case metrics => (repeat' split at h) <;> simp at h
  case scrape => simp only [scrape] at h; split at h <;> simp at h
  case rebalance lo hi =>
    rcases mem_rebalanceSession_out h with ⟨_, h⟩ | ⟨_, h⟩ | h |
      ⟨offs, dirty, any, v, o', h1, h2, h3, hl, hm, h, he⟩ <;> cases h
    simp only [step]
    exact ⟨Or.inr (Or.inl ⟨lo, hi, offs, dirty, any, rfl, h1, h2, h3, hl, hm, he⟩), by rw [he]; exact hm⟩
  case reopen vb' =>
    rcases mem_reopenStream_out h with ⟨_, h⟩ | ⟨o', _, h1, h2, _, h, _⟩ <;> cases h
    simp only [step, reopenStream_offsets]
    exact ⟨Or.inr (Or.inr ⟨trivial, h1, h2⟩), AMap.mem_of_get?_eq_some h2⟩


/-- the context list grows exactly when something is delivered, by that delivery's context -/
theorem step_ctxs_cases (s : St) (op : Op) :
    (step s op).1.ctxs = s.ctxs ∨
    ∃ i vb d off coll t, (step s op).2 = [Obsv.deliver i vb d off coll t] ∧
      (step s op).1.ctxs = s.ctxs ++ [⟨s.sess, vb, off⟩] := by
  by_cases ht : op.touchesCtxs = false
  · exact Or.inl (step_ctxs s ht)
  · cases op <;> simp [Op.touchesCtxs] at ht
    case ev vb e =>
      simp only [step]
      cases ho : s.observers.get? vb with
      | none => rw [evStep_of_no_obs e ho]; exact Or.inl rfl
      | some o =>
        cases hout : (Obs.step s.cfg.obs o e).2 with
        | fwd le =>
          rw [evStep_of_obs e ho, hout]
          simp only []
          cases le with
          | doc d off coll t =>
            by_cases hm : isMetaKey d.key = true
            · rw [listen_doc_meta _ _ _ _ _ hm]; left; simp
            · have hm : isMetaKey d.key = false := by simpa using hm
              rw [listen_doc_user _ _ _ _ _ hm]
              exact Or.inr ⟨_, _, _, _, _, _, rfl, rfl⟩
          | marker => exact Or.inl rfl
          | oso => exact Or.inl rfl
          | seqAdv off => left; simp [listen]
          | sys k off => left; simp [listen]
        | _ => rw [evStep_of_obs e ho, hout]; exact Or.inl rfl


/-! ## which ops talk to the store -/

/-- only a save (whole, or its dump micro-step) calls `Metadata.Save` -/
theorem step_saveCall_op {s : St} {op : Op} {st : List (Vb × Doc)} {d : List Vb}
    (h : Obsv.saveCall st d ∈ (step s op).2) : (∃ res, op = .save res) ∨ ∃ k, op = .svDump k := by
  cases op <;> simp only [step] at h
  case setStore => split at h <;> simp at h
  case setHigh => simp at h
  case setFlog => simp at h
  case «open» =>
    simp only [openSession] at h
    split at h
    · simp at h
    · split at h <;> simp at h
  case close => simp only [closeSession] at h; split at h <;> simp at h
  case crash => simp [crash] at h
  case ev vb e =>
    cases ho : s.observers.get? vb with
    | none => rw [evStep_of_no_obs e ho] at h; simp at h
    | some o =>
      rw [evStep_of_obs e ho] at h
      split at h
      · rename_i le _
        cases le <;> simp only [listen] at h
        case doc => split at h <;> simp [setOffset_out] at h <;> split at h <;> simp at h
        all_goals (try simp [setOffset_out] at h) <;> (try split at h) <;> simp at h
      all_goals simp at h
  case ack i =>
    split at h
    · simp at h
    · split at h
      · simp at h
      · rw [ack_out, setOffset_out] at h; split at h <;> simp at h
  case save res => exact Or.inl ⟨res, rfl⟩
  case svBegin k => simp only [svBegin] at h; (repeat' split at h) <;> simp at h
  case svDump k => exact Or.inr ⟨k, rfl⟩
  case svStore k res => simp only [svStore] at h; (repeat' split at h) <;> simp at h
  case svUnmark k => simp only [svUnmark] at h; (repeat' split at h) <;> simp at h
  case persist => (repeat' split at h) <;> simp at h
  case getOffsets => simp at h
  case metrics => (repeat' split at h) <;> simp at h
  case scrape => simp only [scrape] at h; split at h <;> simp at h
  case rebalance lo hi =>
    rcases mem_rebalanceSession_out h with ⟨_, h⟩ | ⟨_, h⟩ | h | ⟨_, _, _, _, _, _, _, _, _, _, h, _⟩ <;> cases h
  case reopen vb =>
    rcases mem_reopenStream_out h with ⟨_, h⟩ | ⟨_, _, _, _, _, h, _⟩ <;> cases h

/-- only a save (whole, or its store micro-step) reports a durable write -/
theorem step_written_op {s : St} {op : Op} {w : List (Vb × Doc)}
    (h : Obsv.written w ∈ (step s op).2) : (∃ res, op = .save res) ∨ ∃ k res, op = .svStore k res := by
  cases op <;> simp only [step] at h
  case setStore => split at h <;> simp at h
  case setHigh => simp at h
  case setFlog => simp at h
  case «open» =>
    simp only [openSession] at h
    split at h
    · simp at h
    · split at h <;> simp at h
  case close => simp only [closeSession] at h; split at h <;> simp at h
  case crash => simp [crash] at h
  case ev vb e =>
    cases ho : s.observers.get? vb with
    | none => rw [evStep_of_no_obs e ho] at h; simp at h
    | some o =>
      rw [evStep_of_obs e ho] at h
      split at h
      · rename_i le _
        cases le <;> simp only [listen] at h
        case doc => split at h <;> simp [setOffset_out] at h <;> split at h <;> simp at h
        all_goals (try simp [setOffset_out] at h) <;> (try split at h) <;> simp at h
      all_goals simp at h
  case ack i =>
    split at h
    · simp at h
    · split at h
      · simp at h
      · rw [ack_out, setOffset_out] at h; split at h <;> simp at h
  case save res => exact Or.inl ⟨res, rfl⟩
  case svBegin k => simp only [svBegin] at h; (repeat' split at h) <;> simp at h
  case svDump k => simp only [svDump] at h; (repeat' split at h) <;> simp at h
  case svStore k res => exact Or.inr ⟨k, res, rfl⟩
  case svUnmark k => simp only [svUnmark] at h; (repeat' split at h) <;> simp at h
  case persist => (repeat' split at h) <;> simp at h
  case getOffsets => simp at h
  case metrics => (repeat' split at h) <;> simp at h
  case scrape => simp only [scrape] at h; split at h <;> simp at h
  case rebalance lo hi =>
    rcases mem_rebalanceSession_out h with ⟨_, h⟩ | ⟨_, h⟩ | h | ⟨_, _, _, _, _, _, _, _, _, _, h, _⟩ <;> cases h
  case reopen vb =>
    rcases mem_reopenStream_out h with ⟨_, h⟩ | ⟨_, _, _, _, _, h, _⟩ <;> cases h

/-! ## reserved keys -/

/-- `helpers.IsMetadata` as a list-prefix statement (usable on concrete keys by `decide`) -/
theorem isMetaKey_iff (k : String) :
    isMetaKey k = true ↔ hexPrefix.toList <+: k.toList ∨ hexTxn.toList <+: k.toList := by
  unfold isMetaKey String.isPrefixOf
  simp [String.startsWith_string_iff]

/-- the dirty maps after an event: only a dirtying settle (seqno-advanced, system event) touches them -/
theorem evStep_doc_dirtyMaps (s : St) (vb : Vb) (d : DocEv) (hm : isMetaKey d.key = true) :
    (evStep s vb (.doc d)).1.dirtyMaps = s.dirtyMaps := by
  cases ho : s.observers.get? vb with
  | none => rw [evStep_of_no_obs _ ho]
  | some o =>
    cases hout : (Obs.step s.cfg.obs o (.doc d)).2 with
    | fwd le =>
      obtain ⟨hle, _, hev⟩ := evStep_doc_fwd ho hout
      rw [hev, hle, listen_doc_meta _ _ _ _ _ hm, setOffset_dirtyMaps_false]
    | _ => rw [evStep_of_obs _ ho, hout]

/-- a marker only updates the observer -/
theorem evStep_marker_frame (s : St) (vb : Vb) (a b : Nat) :
    (evStep s vb (.marker a b)).1.dirtyMaps = s.dirtyMaps ∧ (evStep s vb (.marker a b)).1.offsets = s.offsets := by
  cases ho : s.observers.get? vb with
  | none => rw [evStep_of_no_obs _ ho]; exact ⟨rfl, rfl⟩
  | some o =>
    cases hout : (Obs.step s.cfg.obs o (.marker a b)).2 with
    | fwd le =>
      rcases Obs.step_fwd_cases hout with ⟨_, _, _, hle⟩ | ⟨_, h, _⟩ | ⟨_, h, _⟩ | ⟨_, _, _, h, _⟩ | ⟨h, _⟩ <;>
        try (cases h)
      rw [evStep_of_obs _ ho, hout, hle]; exact ⟨rfl, rfl⟩
    | _ => rw [evStep_of_obs _ ho, hout]; exact ⟨rfl, rfl⟩

theorem evStep_marker_dirtyMaps (s : St) (vb : Vb) (a b : Nat) :
    (evStep s vb (.marker a b)).1.dirtyMaps = s.dirtyMaps := (evStep_marker_frame s vb a b).1

theorem evStep_marker_offsets (s : St) (vb : Vb) (a b : Nat) :
    (evStep s vb (.marker a b)).1.offsets = s.offsets := (evStep_marker_frame s vb a b).2


/-- a document with a non-reserved key that the observer forwards is delivered, with a fresh context -/
theorem step_ev_doc_user (s : St) (vb : Vb) (o : Obs) (d : DocEv) (le : LEvent)
    (hm : isMetaKey d.key = false) (ho : s.observers.get? vb = some o)
    (hf : (Obs.step s.cfg.obs o (.doc d)).2 = .fwd le) :
    (step s (.ev vb (.doc d))).2 =
      [.deliver s.ctxs.length vb d (Obs.mkOffset o d.seq) (Obs.collName s.cfg.obs d.coll) (d.cas / 1000000000)] ∧
    (step s (.ev vb (.doc d))).1.ctxs = s.ctxs ++ [⟨s.sess, vb, Obs.mkOffset o d.seq⟩] := by
  obtain ⟨hle, _, hev⟩ := evStep_doc_fwd ho hf
  simp only [step]
  rw [hev, hle, listen_doc_user _ _ _ _ _ hm]
  exact ⟨rfl, rfl⟩

/-- `isMetaKey` is false when neither reserved prefix is a list prefix (for concrete keys: `by decide`) -/
theorem isMetaKey_eq_false {k : String} (h1 : hexPrefix.toList.isPrefixOf k.toList = false)
    (h2 : hexTxn.toList.isPrefixOf k.toList = false) : isMetaKey k = false := by
  cases h : isMetaKey k with
  | false => rfl
  | true =>
    rcases (isMetaKey_iff k).1 h with h' | h'
    · rw [List.isPrefixOf_iff_prefix.2 h'] at h1; cases h1
    · rw [List.isPrefixOf_iff_prefix.2 h'] at h2; cases h2

theorem isMetaKey_eq_true {k : String}
    (h : (hexPrefix.toList.isPrefixOf k.toList || hexTxn.toList.isPrefixOf k.toList) = true) : isMetaKey k = true := by
  rw [isMetaKey_iff]
  simp only [Bool.or_eq_true] at h
  rcases h with h | h
  · exact Or.inl (List.isPrefixOf_iff_prefix.1 h)
  · exact Or.inr (List.isPrefixOf_iff_prefix.1 h)

end GoDcp
