import GoDcp.Model.WaitRace
/-!
The inductive invariant of the stop-token protocol under the scheduler restrictions
`Prompt ∧ EndsDrained ∧ StopThenClose` (`okStep`). Everything is phrased with counters over the two
thread lists, so that each transition changes a handful of naturals by one.
-/
namespace GoDcp.WaitRace

/-! ### counters -/
def wSel (s : State) : Nat := s.waits.countP (fun w => w.pc == .atSelect)
def wGC (s : State) : Nat := s.waits.countP (fun w => w.pc == .gotTok .close)
def wGE (s : State) : Nat := s.waits.countP (fun w => w.pc == .gotTok .endEv)
def wT (s : State) : Nat := s.waits.countP (fun w => w.pc == .atTest)
def wS (s : State) : Nat := s.waits.countP (fun w => w.pc == .atStop)
def eCl (s : State) : Nat := s.ends.countP (fun d => d.pc == .atClassify)
def eDec (s : State) : Nat := s.ends.countP (fun d => d.pc == .atDecrement)
def eT (s : State) : Nat := s.ends.countP (fun d => d.pc == .atTest)
def eSd (s : State) : Nat := s.ends.countP (fun d => d.pc == .atSend)

/-! ### classes of control-thread pcs -/
/-- `Open` between its flag reset and the spawn of the new `wait()` -/
def MPc.inA : MPc → Bool
  | .oResetEnd _ _ | .oSwap _ _ | .oStreams _ _ | .oSpawn _ => true
  | _ => false
/-- `Close` after `CloseEnd` -/
def MPc.inC : MPc → Bool
  | .cSetOpen _ | .cTest _ | .cSend _ => true
  | _ => false
/-- between a finished `Close` and the next `Open` -/
def MPc.inD : MPc → Bool
  | .rebArm | .idle | .oResetClose _ true | .cStart _ _ => true
  | _ => false
/-- pcs at which the observers exist -/
def MPc.hasObs : MPc → Bool
  | .rebSetBal | .cStart false _ | .cStreams _ | .cEnd _ | .oSpawn _ | .oSetOpen _ | .rebClear => true
  | _ => false
/-- pcs at which `s.observers == nil` -/
def MPc.nilObs : MPc → Bool
  | .cSetOpen _ | .cTest _ | .cSend _ | .rebArm | .oResetClose _ _ | .oResetEnd _ _ | .oSwap _ _ | .oStreams _ _ => true
  | _ => false
/-- pcs inside `Rebalance()` after `balancing = true`, or inside `rebalance()` -/
def MPc.inReb : MPc → Bool
  | .cStart false _ | .cStreams false | .cEnd false | .cSetOpen false | .cTest false | .cSend false | .rebArm
  | .oResetClose _ true | .oResetEnd _ true | .oSwap _ true | .oStreams _ true | .oSpawn true | .oSetOpen true | .rebClear => true
  | _ => false
/-- pcs inside `dcp.close()` -/
def MPc.inDcp : MPc → Bool
  | .cStart true _ | .cStreams true | .cEnd true | .cSetOpen true | .cTest true | .cSend true => true
  | _ => false
/-- pcs that can occur before the first session exists -/
def MPc.preSess : MPc → Bool
  | .idle | .oResetClose _ false | .oResetEnd _ false | .oSwap _ false | .oStreams _ false => true
  | _ => false
def MPc.isOResetClose : MPc → Bool
  | .oResetClose _ _ => true
  | _ => false
def MPc.isOResetEnd : MPc → Bool
  | .oResetEnd _ _ => true
  | _ => false
def MPc.isOSpawn : MPc → Bool
  | .oSpawn _ => true
  | _ => false
def MPc.isCSend : MPc → Bool
  | .cSend _ => true
  | _ => false
def MPc.isIdleOrDcpStart : MPc → Bool
  | .idle | .cStart true _ => true
  | _ => false
def MPc.isIdle : MPc → Bool
  | .idle => true
  | _ => false
def MPc.isFirstResetClose : MPc → Bool
  | .oResetClose _ false => true
  | _ => false

/-- the numeric view of a state: thread counters, channels, flags as 0/1, ghosts, control pc -/
structure View where
  stopClosed : Nat
  spur : Nat
  staleTok : Nat
  foreign : Nat
  wSel : Nat
  wGC : Nat
  wGE : Nat
  wT : Nat
  wS : Nat
  eCl : Nat
  eDec : Nat
  eT : Nat
  eSd : Nat
  endCh : Nat
  closeCh : Nat
  bE : Nat          -- streamFinishedWithEndEventCh
  bC : Nat          -- streamFinishedWithCloseCh
  obsNil : Nat
  endClosed : Nat
  bal : Nat
  shut : Nat
  dcp : Nat
  timer : Nat
  sess : Nat
  assigned : Nat
  finals : Nat
  running : Nat
  active : Int
  main : MPc

def view (s : State) : View where
  stopClosed := s.stopClosed
  spur := s.spurious.toNat
  staleTok := s.staleTok
  foreign := s.foreign
  wSel := wSel s
  wGC := wGC s
  wGE := wGE s
  wT := wT s
  wS := wS s
  eCl := eCl s
  eDec := eDec s
  eT := eT s
  eSd := eSd s
  endCh := s.endCh
  closeCh := s.closeCh
  bE := s.endFlag.toNat
  bC := s.closeFlag.toNat
  obsNil := s.obsNil.toNat
  endClosed := s.endClosed.toNat
  bal := s.balancing.toNat
  shut := s.shutdownReq.toNat
  dcp := s.dcpStarted.toNat
  timer := s.timerPending.toNat
  sess := s.sess
  assigned := s.assigned
  finals := s.finals
  running := s.running
  active := s.active
  main := s.main

/-- live wait goroutines -/
def View.live (v : View) : Nat := v.wSel + v.wGC + v.wGE + v.wT + v.wS
/-- holders of the (unique) END token of a session: channel, receiver, flag, or the delivery about to send it -/
def View.EC (v : View) : Nat := v.endCh + v.wGE + v.eT + v.eSd + v.bE
/-- holders of the (unique) CLOSE token of a session -/
def View.CC (v : View) : Nat := v.closeCh + v.wGC + v.bC

/-- the numeric part of the invariant -/
structure VInv (v : View) : Prop where
  b01 : v.spur ≤ 1 ∧ v.bE ≤ 1 ∧ v.bC ≤ 1 ∧ v.obsNil ≤ 1 ∧ v.endClosed ≤ 1 ∧ v.bal ≤ 1 ∧ v.shut ≤ 1 ∧ v.dcp ≤ 1 ∧ v.timer ≤ 1
  stop1 : v.stopClosed ≤ 1
  nospur : v.spur = 0
  nostale : v.staleTok = 0
  noforeign : v.foreign = 0
  live1 : v.live ≤ 1
  gate : v.endClosed = v.obsNil
  nilNoFlight : v.obsNil = 1 → v.eCl + v.eDec + v.eT + v.eSd = 0
  cnt : v.active = (v.assigned : Int) - (v.finals : Int)
  ec1 : v.EC ≤ 1
  ecFin : v.EC ≥ 1 → v.assigned ≤ v.finals
  cc1 : v.CC ≤ 1
  ccWhy : v.CC ≥ 1 → v.bal = 1 ∨ v.shut = 1
  s0 : v.sess = 0 → v.live = 0 ∧ v.CC = 0 ∧ v.EC = 0 ∧ v.obsNil = 1 ∧ v.stopClosed = 0 ∧ v.timer = 0
          ∧ v.running = 0 ∧ v.main.preSess.toNat = 1
  s0first : v.main.isFirstResetClose.toNat = 1 → v.sess = 0
  regA : v.main.inA.toNat = 1 → v.live = 0 ∧ v.CC = 0 ∧ (v.main.isOResetEnd.toNat = 0 → v.bE = 0)
          ∧ (v.main.isOSpawn.toNat = 0 → v.endCh = 0)
  ws1 : v.sess > 0 → v.main.inA.toNat = 0 → v.wSel + v.wGC + v.wGE + v.bE + v.bC = 1 ∧ v.wT + v.wS ≤ v.bE + v.bC
  nilQuiet : v.obsNil = 1 → v.endCh = 0 ∧ v.wGE = 0
  regC : v.main.inC.toNat = 1 → v.CC = 0 ∧ v.wT + v.wS = 0 ∧ v.wGC + v.wGE = 0
  sendNoFlag : v.main.isCSend.toNat = 1 → v.bE = 0
  obsNoCC : v.obsNil = 0 → v.main.inA.toNat = 0 → v.CC = 0
  regD : v.obsNil = 1 → v.sess > 0 → v.main.inD.toNat = 1 → v.bE + v.CC = 1
  hasObs : v.main.hasObs.toNat = 1 → v.obsNil = 0
  nilObs : v.main.nilObs.toNat = 1 → v.obsNil = 1
  rebBal : v.main.inReb.toNat = 1 → v.bal = 1
  dcpWhy : v.main.inDcp.toNat = 1 → v.dcp = 1 ∧ (v.shut = 1 ∨ v.stopClosed ≥ 1)
  timer : v.timer = 1 → v.bal = 1 ∧ v.obsNil = 1 ∧ v.sess > 0 ∧ v.main.isIdleOrDcpStart.toNat = 1
  idleNil : v.main.isIdle.toNat = 1 → v.obsNil = 1 → v.sess > 0 → (v.bal = 1 ∧ v.timer = 1) ∨ v.dcp = 1
  stopWhy : v.wS ≥ 1 → v.bal = 0 ∧ v.stopClosed = 0 ∧ (v.shut = 1 ∨ v.assigned ≤ v.finals)
  stopped : v.stopClosed ≥ 1 → v.live = 0 ∧ v.main.inA.toNat = 0 ∧ v.main.isOResetClose.toNat = 0

/-- the invariant: the numeric part plus the session tags of the live threads -/
structure Inv (s : State) : Prop where
  num : VInv (view s)
  wsess : ∀ w ∈ s.waits, w.pc ≠ .done → w.sess = s.sess
  esess : ∀ d ∈ s.ends, d.inFlight = true → d.sess = s.sess

/-! ### counting lemmas -/

theorem countP_set_add {α : Type} (p : α → Bool) : ∀ (l : List α) (i : Nat) (x y : α), l[i]? = some y →
    (l.set i x).countP p + (p y).toNat = l.countP p + (p x).toNat := by
  intro l
  induction l with
  | nil => intro i x y h; simp at h
  | cons a t ih =>
    intro i x y h
    cases i with
    | zero =>
      simp at h; subst h
      simp only [List.set_cons_zero, List.countP_cons]
      cases p x <;> cases p a <;> simp
    | succ i =>
      simp at h
      have := ih i x y h
      simp only [List.set_cons_succ, List.countP_cons]
      omega

theorem countP_ge_of_get {α : Type} (p : α → Bool) (l : List α) (i : Nat) (y : α) (h : l[i]? = some y) (hp : p y = true) :
    l.countP p ≥ 1 := by
  have : 0 < l.countP p := List.countP_pos_iff.mpr ⟨y, List.mem_of_getElem? h, hp⟩
  omega

/-- `Prompt` at a control step: no wait goroutine can move -/
theorem prompt_facts {s : State} (h : anyWaitEnabled s = false) :
    (view s).wGC = 0 ∧ (view s).wGE = 0 ∧ (view s).wT = 0 ∧ (view s).wS = 0 ∧ ((view s).wSel ≥ 1 → (view s).closeCh = 0 ∧ (view s).endCh = 0) := by
  show wGC s = 0 ∧ wGE s = 0 ∧ wT s = 0 ∧ wS s = 0 ∧ (wSel s ≥ 1 → s.closeCh = 0 ∧ s.endCh = 0)
  have h' := List.any_eq_false.mp h
  have z : ∀ (p : WPc → Bool), (∀ pc, p pc = true → pc ≠ .atSelect ∧ pc ≠ .done) →
      s.waits.countP (fun w => p w.pc) = 0 := by
    intro p hp
    apply List.countP_eq_zero.mpr
    intro w hw hpw
    have := h' w hw
    have hp' := hp w.pc hpw
    cases hq : w.pc <;> simp [Wait.enabled, hq] at this hp'
  refine ⟨z (· == .gotTok .close) ?_, z (· == .gotTok .endEv) ?_, z (· == .atTest) ?_, z (· == .atStop) ?_, ?_⟩
  · intro pc; cases pc <;> simp
  · intro pc; cases pc <;> simp
  · intro pc; cases pc <;> simp
  · intro pc; cases pc <;> simp
  · intro hsel
    have : 0 < s.waits.countP (fun w => w.pc == .atSelect) := by unfold wSel at hsel; omega
    obtain ⟨w, hw, hpw⟩ := List.countP_pos_iff.mp this
    have hne := h' w hw
    have hpc : w.pc = .atSelect := by simpa using hpw
    simp [Wait.enabled, hpc] at hne
    omega

/-- `EndsDrained` at `CloseEnd`: nothing is inside `listenEnd` -/
theorem drained_facts {s : State} (h : s.ends.any EndD.inFlight = false) :
    (view s).eCl = 0 ∧ (view s).eDec = 0 ∧ (view s).eT = 0 ∧ (view s).eSd = 0 := by
  show eCl s = 0 ∧ eDec s = 0 ∧ eT s = 0 ∧ eSd s = 0
  have h' := List.any_eq_false.mp h
  have z : ∀ (p : EPc → Bool), (∀ pc, p pc = true → pc = .atClassify ∨ pc = .atDecrement ∨ pc = .atTest ∨ pc = .atSend) →
      s.ends.countP (fun d => p d.pc) = 0 := by
    intro p hp
    apply List.countP_eq_zero.mpr
    intro d hd hpd
    have := h' d hd
    have hp' := hp d.pc hpd
    cases hq : d.pc <;> simp [EndD.inFlight, hq] at this hp'
  refine ⟨z (· == .atClassify) ?_, z (· == .atDecrement) ?_, z (· == .atTest) ?_, z (· == .atSend) ?_⟩ <;>
    (intro pc; cases pc <;> simp)

end GoDcp.WaitRace
