import GoDcp.Proofs.WaitRaceInv
namespace GoDcp.WaitRace

set_option linter.unusedVariables false

/-- closes one numeric preservation goal: destructure, specialise the pc classes, linear arithmetic -/
syntax "vinv_tac" : tactic
macro_rules
  | `(tactic| vinv_tac) => `(tactic| (
      (try simp only [View.live, View.EC, View.CC, MPc.inA, MPc.inC, MPc.inD, MPc.hasObs, MPc.nilObs,
        MPc.inReb, MPc.inDcp, MPc.preSess, MPc.isOResetClose, MPc.isOResetEnd, MPc.isOSpawn, MPc.isCSend, MPc.isIdleOrDcpStart,
        MPc.isFirstResetClose, MPc.isIdle, afterClose, afterOpen] at *) ;
      (try simp at *) ;
      constructor <;>
      ((try simp only [View.live, View.EC, View.CC, MPc.inA, MPc.inC, MPc.inD, MPc.hasObs, MPc.nilObs,
        MPc.inReb, MPc.inDcp, MPc.preSess, MPc.isOResetClose, MPc.isOResetEnd, MPc.isOSpawn, MPc.isCSend, MPc.isIdleOrDcpStart,
        MPc.isFirstResetClose, MPc.isIdle, afterClose, afterOpen]) <;> first | omega | (simp <;> omega))))

/-- an `oResetClose` pc is either the first `Open` or inside `rebalance()` -/
theorem mpc_resetClose (m : MPc) : m.isOResetClose.toNat = 1 → m.inReb.toNat = 1 ∨ m.isFirstResetClose.toNat = 1 := by
  cases m <;> simp [MPc.isOResetClose, MPc.inReb, MPc.isFirstResetClose]
  rename_i n r; cases r <;> simp

theorem mpc_inC_nil (m : MPc) : m.inC.toNat = 1 → m.nilObs.toNat = 1 := by
  cases m <;> simp [MPc.inC, MPc.nilObs]
theorem mpc_send_inC (m : MPc) : m.isCSend.toNat = 1 → m.inC.toNat = 1 := by
  cases m <;> simp [MPc.inC, MPc.isCSend]
theorem mpc_inA_nil (m : MPc) : m.inA.toNat = 1 → m.isOSpawn.toNat = 0 → m.nilObs.toNat = 1 := by
  cases m <;> simp [MPc.inA, MPc.isOSpawn, MPc.nilObs]

/-- numeric preservation goal for a thread step (control pc unchanged and left abstract): every field follows from
    the unconditional facts, the facts with arithmetic premises, and the same field of the old invariant -/
syntax "thread_tac" : tactic
set_option hygiene false in
macro_rules
  | `(tactic| thread_tac) => `(tactic| (
      have u1 := h.b01; have u2 := h.stop1; have u3 := h.nospur; have u4 := h.nostale; have u5 := h.noforeign
      have u6 := h.live1; have u7 := h.gate; have u8 := h.cnt; have u9 := h.ec1; have u10 := h.cc1
      have a1 := h.nilNoFlight; have a2 := h.ecFin; have a3 := h.ccWhy; have a4 := h.nilQuiet; have a5 := h.stopWhy
      have a6 := h.stopped
      simp only [View.live, View.EC, View.CC] at *
      constructor
      case b01 => simp only []; first | omega | fail "field b01"
      case stop1 => simp only []; first | omega | fail "field stop1"
      case nospur => simp only []; first | omega | fail "field nospur"
      case nostale => simp only []; first | omega | fail "field nostale"
      case noforeign => simp only []; first | omega | fail "field noforeign"
      case live1 => simp only [View.live]; first | omega | fail "field live1"
      case gate => simp only []; first | omega | fail "field gate"
      case nilNoFlight => simp only []; first | omega | fail "field nilNoFlight"
      case cnt => simp only []; first | omega | fail "field cnt"
      case ec1 => simp only [View.EC]; first | omega | fail "field ec1"
      case ecFin => simp only [View.EC]; first | omega | fail "field ecFin"
      case cc1 => simp only [View.CC]; first | omega | fail "field cc1"
      case ccWhy => simp only [View.CC]; first | omega | fail "field ccWhy"
      case s0 => intro p; have := h.s0 p; simp only [View.live, View.EC, View.CC] at *; first | omega | fail "field s0"
      case s0first => intro p; have := h.s0first p; simp only [] at *; first | omega | fail "field s0first"
      case regA => intro p; have := h.regA p; simp only [View.live, View.EC, View.CC] at *; first | omega | fail "field regA"
      case ws1 => intro p q; have := h.ws1 p q; simp only [] at *; first | omega | fail "field ws1"
      case nilQuiet => simp only []; first | omega | fail "field nilQuiet"
      case regC => intro p; have := h.regC p; simp only [View.live, View.EC, View.CC] at *; first | omega | fail "field regC"
      case sendNoFlag => intro p; have := h.sendNoFlag p; simp only [] at *; first | omega | fail "field sendNoFlag"
      case obsNoCC => intro p q; have := h.obsNoCC p q; simp only [View.CC] at *; first | omega | fail "field obsNoCC"
      case regD => intro p q r; have := h.regD p q r; simp only [View.CC] at *; first | omega | fail "field regD"
      case hasObs => intro p; have := h.hasObs p; simp only [] at *; first | omega | fail "field hasObs"
      case nilObs => intro p; have := h.nilObs p; simp only [] at *; first | omega | fail "field nilObs"
      case rebBal => intro p; have := h.rebBal p; simp only [] at *; first | omega | fail "field rebBal"
      case dcpWhy => intro p; have := h.dcpWhy p; simp only [] at *; first | omega | fail "field dcpWhy"
      case timer => intro p; have := h.timer p; simp only [] at *; first | omega | fail "field timer"
      case idleNil => intro p q r; have := h.idleNil p q r; simp only [] at *; first | omega | fail "field idleNil"
      case stopWhy => simp only []; first | omega | fail "field stopWhy"
      case stopped => simp only [View.live]; first | omega | fail "field stopped"))

theorem v_start (v : View) (h : VInv v) (n : Nat)
    (hm : v.main = .idle) (h0 : v.sess = 0) (hp : v.wGC = 0 ∧ v.wGE = 0 ∧ v.wT = 0 ∧ v.wS = 0 ∧ (v.wSel ≥ 1 → v.closeCh = 0 ∧ v.endCh = 0)) :
    VInv { v with main := .oResetClose n false } := by
  obtain ⟨stopClosed, spur, staleTok, foreign, wSel, wGC, wGE, wT, wS, eCl, eDec, eT, eSd, endCh, closeCh, bE, bC, obsNil, endClosed,
    bal, shut, dcp, timer, sess, assigned, finals, running, active, main⟩ := v
  simp only at hm; subst hm
  obtain ⟨b01, stop1, nospur, nostale, noforeign, live1, gate, nilNoFlight, cnt, ec1, ecFin, cc1, ccWhy, s0, s0first,
    regA, ws1, nilQuiet, regC, sendNoFlag, obsNoCC, regD, hasObs, nilObs, rebBal, dcpWhy, timer, idleNil, stopWhy, stopped⟩ := h
  vinv_tac

theorem v_notify (v : View) (h : VInv v) 
    (hm : v.main = .idle) (h0 : v.sess > 0) (hd : v.dcp = 0) (hb : v.bal = 0) (hp : v.wGC = 0 ∧ v.wGE = 0 ∧ v.wT = 0 ∧ v.wS = 0 ∧ (v.wSel ≥ 1 → v.closeCh = 0 ∧ v.endCh = 0)) :
    VInv { v with main := .rebSetBal } := by
  obtain ⟨stopClosed, spur, staleTok, foreign, wSel, wGC, wGE, wT, wS, eCl, eDec, eT, eSd, endCh, closeCh, bE, bC, obsNil, endClosed,
    bal, shut, dcp, timer, sess, assigned, finals, running, active, main⟩ := v
  simp only at hm; subst hm
  obtain ⟨b01, stop1, nospur, nostale, noforeign, live1, gate, nilNoFlight, cnt, ec1, ecFin, cc1, ccWhy, s0, s0first,
    regA, ws1, nilQuiet, regC, sendNoFlag, obsNoCC, regD, hasObs, nilObs, rebBal, dcpWhy, timer, idleNil, stopWhy, stopped⟩ := h
  vinv_tac

theorem v_fire (v : View) (h : VInv v) (n : Nat)
    (hm : v.main = .idle) (ht : v.timer = 1) (hst : v.stopClosed = 0) (hp : v.wGC = 0 ∧ v.wGE = 0 ∧ v.wT = 0 ∧ v.wS = 0 ∧ (v.wSel ≥ 1 → v.closeCh = 0 ∧ v.endCh = 0)) :
    VInv { v with timer := 0, main := .oResetClose n true } := by
  obtain ⟨stopClosed, spur, staleTok, foreign, wSel, wGC, wGE, wT, wS, eCl, eDec, eT, eSd, endCh, closeCh, bE, bC, obsNil, endClosed,
    bal, shut, dcp, timer, sess, assigned, finals, running, active, main⟩ := v
  simp only at hm; subst hm
  obtain ⟨b01, stop1, nospur, nostale, noforeign, live1, gate, nilNoFlight, cnt, ec1, ecFin, cc1, ccWhy, s0, s0first,
    regA, ws1, nilQuiet, regC, sendNoFlag, obsNoCC, regD, hasObs, nilObs, rebBal, dcpWhy, timer, idleNil, stopWhy, stopped⟩ := h
  vinv_tac

theorem v_shutdown (v : View) (h : VInv v) : VInv { v with shut := 1 } := by
  refine { h with b01 := ?_, ccWhy := ?_, dcpWhy := ?_, stopWhy := ?_ }
  · have := h.b01; simp only; omega
  · intro _; exact Or.inr rfl
  · intro hm; exact ⟨(h.dcpWhy hm).1, Or.inl rfl⟩
  · intro hw; have := h.stopWhy hw; exact ⟨this.1, this.2.1, Or.inl rfl⟩

theorem v_dcpClose (v : View) (h : VInv v) (c : Bool)
    (hm : v.main = .idle) (h0 : v.sess > 0) (hd : v.dcp = 0) (hc : v.shut = 1 ∨ v.stopClosed ≥ 1) (hp : v.wGC = 0 ∧ v.wGE = 0 ∧ v.wT = 0 ∧ v.wS = 0 ∧ (v.wSel ≥ 1 → v.closeCh = 0 ∧ v.endCh = 0)) :
    VInv { v with dcp := 1, main := .cStart true c } := by
  obtain ⟨stopClosed, spur, staleTok, foreign, wSel, wGC, wGE, wT, wS, eCl, eDec, eT, eSd, endCh, closeCh, bE, bC, obsNil, endClosed,
    bal, shut, dcp, timer, sess, assigned, finals, running, active, main⟩ := v
  simp only at hm; subst hm
  obtain ⟨b01, stop1, nospur, nostale, noforeign, live1, gate, nilNoFlight, cnt, ec1, ecFin, cc1, ccWhy, s0, s0first,
    regA, ws1, nilQuiet, regC, sendNoFlag, obsNoCC, regD, hasObs, nilObs, rebBal, dcpWhy, timer, idleNil, stopWhy, stopped⟩ := h
  vinv_tac

theorem v_rebSetBal (v : View) (h : VInv v) 
    (hm : v.main = .rebSetBal) (hp : v.wGC = 0 ∧ v.wGE = 0 ∧ v.wT = 0 ∧ v.wS = 0 ∧ (v.wSel ≥ 1 → v.closeCh = 0 ∧ v.endCh = 0)) :
    VInv { v with bal := 1, main := .cStart false false } := by
  obtain ⟨stopClosed, spur, staleTok, foreign, wSel, wGC, wGE, wT, wS, eCl, eDec, eT, eSd, endCh, closeCh, bE, bC, obsNil, endClosed,
    bal, shut, dcp, timer, sess, assigned, finals, running, active, main⟩ := v
  simp only at hm; subst hm
  obtain ⟨b01, stop1, nospur, nostale, noforeign, live1, gate, nilNoFlight, cnt, ec1, ecFin, cc1, ccWhy, s0, s0first,
    regA, ws1, nilQuiet, regC, sendNoFlag, obsNoCC, regD, hasObs, nilObs, rebBal, dcpWhy, timer, idleNil, stopWhy, stopped⟩ := h
  vinv_tac

theorem v_cStart (v : View) (h : VInv v) (d c : Bool)
    (hm : v.main = .cStart d c) (ho : v.obsNil = 0) (hp : v.wGC = 0 ∧ v.wGE = 0 ∧ v.wT = 0 ∧ v.wS = 0 ∧ (v.wSel ≥ 1 → v.closeCh = 0 ∧ v.endCh = 0)) :
    VInv { v with main := .cStreams d } := by
  obtain ⟨stopClosed, spur, staleTok, foreign, wSel, wGC, wGE, wT, wS, eCl, eDec, eT, eSd, endCh, closeCh, bE, bC, obsNil, endClosed,
    bal, shut, dcp, timer, sess, assigned, finals, running, active, main⟩ := v
  simp only at hm; subst hm
  obtain ⟨b01, stop1, nospur, nostale, noforeign, live1, gate, nilNoFlight, cnt, ec1, ecFin, cc1, ccWhy, s0, s0first,
    regA, ws1, nilQuiet, regC, sendNoFlag, obsNoCC, regD, hasObs, nilObs, rebBal, dcpWhy, timer, idleNil, stopWhy, stopped⟩ := h
  cases d <;> vinv_tac

theorem v_cStreams (v : View) (h : VInv v) (d : Bool)
    (hm : v.main = .cStreams d) (hp : v.wGC = 0 ∧ v.wGE = 0 ∧ v.wT = 0 ∧ v.wS = 0 ∧ (v.wSel ≥ 1 → v.closeCh = 0 ∧ v.endCh = 0)) :
    VInv { v with running := 0, main := .cEnd d } := by
  obtain ⟨stopClosed, spur, staleTok, foreign, wSel, wGC, wGE, wT, wS, eCl, eDec, eT, eSd, endCh, closeCh, bE, bC, obsNil, endClosed,
    bal, shut, dcp, timer, sess, assigned, finals, running, active, main⟩ := v
  simp only at hm; subst hm
  obtain ⟨b01, stop1, nospur, nostale, noforeign, live1, gate, nilNoFlight, cnt, ec1, ecFin, cc1, ccWhy, s0, s0first,
    regA, ws1, nilQuiet, regC, sendNoFlag, obsNoCC, regD, hasObs, nilObs, rebBal, dcpWhy, timer, idleNil, stopWhy, stopped⟩ := h
  cases d <;> vinv_tac

theorem v_cEnd (v : View) (h : VInv v) (d : Bool)
    (hm : v.main = .cEnd d) (hdr : v.eCl = 0 ∧ v.eDec = 0 ∧ v.eT = 0 ∧ v.eSd = 0) (hp : v.wGC = 0 ∧ v.wGE = 0 ∧ v.wT = 0 ∧ v.wS = 0 ∧ (v.wSel ≥ 1 → v.closeCh = 0 ∧ v.endCh = 0)) :
    VInv { v with endClosed := 1, obsNil := 1, main := .cSetOpen d } := by
  obtain ⟨stopClosed, spur, staleTok, foreign, wSel, wGC, wGE, wT, wS, eCl, eDec, eT, eSd, endCh, closeCh, bE, bC, obsNil, endClosed,
    bal, shut, dcp, timer, sess, assigned, finals, running, active, main⟩ := v
  simp only at hm; subst hm
  obtain ⟨b01, stop1, nospur, nostale, noforeign, live1, gate, nilNoFlight, cnt, ec1, ecFin, cc1, ccWhy, s0, s0first,
    regA, ws1, nilQuiet, regC, sendNoFlag, obsNoCC, regD, hasObs, nilObs, rebBal, dcpWhy, timer, idleNil, stopWhy, stopped⟩ := h
  cases d <;> vinv_tac

theorem v_cSetOpen (v : View) (h : VInv v) (d : Bool)
    (hm : v.main = .cSetOpen d) (hp : v.wGC = 0 ∧ v.wGE = 0 ∧ v.wT = 0 ∧ v.wS = 0 ∧ (v.wSel ≥ 1 → v.closeCh = 0 ∧ v.endCh = 0)) :
    VInv { v with main := .cTest d } := by
  obtain ⟨stopClosed, spur, staleTok, foreign, wSel, wGC, wGE, wT, wS, eCl, eDec, eT, eSd, endCh, closeCh, bE, bC, obsNil, endClosed,
    bal, shut, dcp, timer, sess, assigned, finals, running, active, main⟩ := v
  simp only at hm; subst hm
  obtain ⟨b01, stop1, nospur, nostale, noforeign, live1, gate, nilNoFlight, cnt, ec1, ecFin, cc1, ccWhy, s0, s0first,
    regA, ws1, nilQuiet, regC, sendNoFlag, obsNoCC, regD, hasObs, nilObs, rebBal, dcpWhy, timer, idleNil, stopWhy, stopped⟩ := h
  cases d <;> vinv_tac

theorem v_cTestSkip (v : View) (h : VInv v) (d : Bool)
    (hm : v.main = .cTest d) (he : v.bE = 1) (hp : v.wGC = 0 ∧ v.wGE = 0 ∧ v.wT = 0 ∧ v.wS = 0 ∧ (v.wSel ≥ 1 → v.closeCh = 0 ∧ v.endCh = 0)) :
    VInv { v with main := afterClose d } := by
  obtain ⟨stopClosed, spur, staleTok, foreign, wSel, wGC, wGE, wT, wS, eCl, eDec, eT, eSd, endCh, closeCh, bE, bC, obsNil, endClosed,
    bal, shut, dcp, timer, sess, assigned, finals, running, active, main⟩ := v
  simp only at hm; subst hm
  obtain ⟨b01, stop1, nospur, nostale, noforeign, live1, gate, nilNoFlight, cnt, ec1, ecFin, cc1, ccWhy, s0, s0first,
    regA, ws1, nilQuiet, regC, sendNoFlag, obsNoCC, regD, hasObs, nilObs, rebBal, dcpWhy, timer, idleNil, stopWhy, stopped⟩ := h
  cases d <;> vinv_tac

theorem v_cTestSend (v : View) (h : VInv v) (d : Bool)
    (hm : v.main = .cTest d) (he : v.bE = 0) (hp : v.wGC = 0 ∧ v.wGE = 0 ∧ v.wT = 0 ∧ v.wS = 0 ∧ (v.wSel ≥ 1 → v.closeCh = 0 ∧ v.endCh = 0)) :
    VInv { v with main := .cSend d } := by
  obtain ⟨stopClosed, spur, staleTok, foreign, wSel, wGC, wGE, wT, wS, eCl, eDec, eT, eSd, endCh, closeCh, bE, bC, obsNil, endClosed,
    bal, shut, dcp, timer, sess, assigned, finals, running, active, main⟩ := v
  simp only at hm; subst hm
  obtain ⟨b01, stop1, nospur, nostale, noforeign, live1, gate, nilNoFlight, cnt, ec1, ecFin, cc1, ccWhy, s0, s0first,
    regA, ws1, nilQuiet, regC, sendNoFlag, obsNoCC, regD, hasObs, nilObs, rebBal, dcpWhy, timer, idleNil, stopWhy, stopped⟩ := h
  cases d <;> vinv_tac

theorem v_cSend (v : View) (h : VInv v) (d : Bool)
    (hm : v.main = .cSend d) (hc : v.closeCh = 0) (hp : v.wGC = 0 ∧ v.wGE = 0 ∧ v.wT = 0 ∧ v.wS = 0 ∧ (v.wSel ≥ 1 → v.closeCh = 0 ∧ v.endCh = 0)) :
    VInv { v with closeCh := 1, main := afterClose d } := by
  obtain ⟨stopClosed, spur, staleTok, foreign, wSel, wGC, wGE, wT, wS, eCl, eDec, eT, eSd, endCh, closeCh, bE, bC, obsNil, endClosed,
    bal, shut, dcp, timer, sess, assigned, finals, running, active, main⟩ := v
  simp only at hm; subst hm
  obtain ⟨b01, stop1, nospur, nostale, noforeign, live1, gate, nilNoFlight, cnt, ec1, ecFin, cc1, ccWhy, s0, s0first,
    regA, ws1, nilQuiet, regC, sendNoFlag, obsNoCC, regD, hasObs, nilObs, rebBal, dcpWhy, timer, idleNil, stopWhy, stopped⟩ := h
  cases d <;> vinv_tac

theorem v_rebArm (v : View) (h : VInv v)
    (hm : v.main = .rebArm) :
    VInv { v with timer := 1, main := .idle } := by
  obtain ⟨stopClosed, spur, staleTok, foreign, wSel, wGC, wGE, wT, wS, eCl, eDec, eT, eSd, endCh, closeCh, bE, bC, obsNil, endClosed,
    bal, shut, dcp, timer, sess, assigned, finals, running, active, main⟩ := v
  simp only at hm; subst hm
  obtain ⟨b01, stop1, nospur, nostale, noforeign, live1, gate, nilNoFlight, cnt, ec1, ecFin, cc1, ccWhy, s0, s0first,
    regA, ws1, nilQuiet, regC, sendNoFlag, obsNoCC, regD, hasObs, nilObs, rebBal, dcpWhy, timer, idleNil, stopWhy, stopped⟩ := h
  vinv_tac

theorem v_oResetClose (v : View) (h : VInv v) (n : Nat) (r : Bool)
    (hm : v.main = .oResetClose n r) (hp : v.wGC = 0 ∧ v.wGE = 0 ∧ v.wT = 0 ∧ v.wS = 0 ∧ (v.wSel ≥ 1 → v.closeCh = 0 ∧ v.endCh = 0)) :
    VInv { v with bC := 0, staleTok := v.staleTok + v.closeCh + v.endCh, main := .oResetEnd n r } := by
  obtain ⟨stopClosed, spur, staleTok, foreign, wSel, wGC, wGE, wT, wS, eCl, eDec, eT, eSd, endCh, closeCh, bE, bC, obsNil, endClosed,
    bal, shut, dcp, timer, sess, assigned, finals, running, active, main⟩ := v
  simp only at hm; subst hm
  obtain ⟨b01, stop1, nospur, nostale, noforeign, live1, gate, nilNoFlight, cnt, ec1, ecFin, cc1, ccWhy, s0, s0first,
    regA, ws1, nilQuiet, regC, sendNoFlag, obsNoCC, regD, hasObs, nilObs, rebBal, dcpWhy, timer, idleNil, stopWhy, stopped⟩ := h
  cases r <;> vinv_tac

theorem v_oResetEnd (v : View) (h : VInv v) (n : Nat) (r : Bool)
    (hm : v.main = .oResetEnd n r) (hp : v.wGC = 0 ∧ v.wGE = 0 ∧ v.wT = 0 ∧ v.wS = 0 ∧ (v.wSel ≥ 1 → v.closeCh = 0 ∧ v.endCh = 0)) :
    VInv { v with bE := 0, main := .oSwap n r } := by
  obtain ⟨stopClosed, spur, staleTok, foreign, wSel, wGC, wGE, wT, wS, eCl, eDec, eT, eSd, endCh, closeCh, bE, bC, obsNil, endClosed,
    bal, shut, dcp, timer, sess, assigned, finals, running, active, main⟩ := v
  simp only at hm; subst hm
  obtain ⟨b01, stop1, nospur, nostale, noforeign, live1, gate, nilNoFlight, cnt, ec1, ecFin, cc1, ccWhy, s0, s0first,
    regA, ws1, nilQuiet, regC, sendNoFlag, obsNoCC, regD, hasObs, nilObs, rebBal, dcpWhy, timer, idleNil, stopWhy, stopped⟩ := h
  cases r <;> vinv_tac

theorem v_oSwap (v : View) (h : VInv v) (n : Nat) (r : Bool)
    (hm : v.main = .oSwap n r) (hp : v.wGC = 0 ∧ v.wGE = 0 ∧ v.wT = 0 ∧ v.wS = 0 ∧ (v.wSel ≥ 1 → v.closeCh = 0 ∧ v.endCh = 0)) :
    VInv { v with active := n, assigned := n, finals := 0, foreign := 0, main := .oStreams n r } := by
  obtain ⟨stopClosed, spur, staleTok, foreign, wSel, wGC, wGE, wT, wS, eCl, eDec, eT, eSd, endCh, closeCh, bE, bC, obsNil, endClosed,
    bal, shut, dcp, timer, sess, assigned, finals, running, active, main⟩ := v
  simp only at hm; subst hm
  obtain ⟨b01, stop1, nospur, nostale, noforeign, live1, gate, nilNoFlight, cnt, ec1, ecFin, cc1, ccWhy, s0, s0first,
    regA, ws1, nilQuiet, regC, sendNoFlag, obsNoCC, regD, hasObs, nilObs, rebBal, dcpWhy, timer, idleNil, stopWhy, stopped⟩ := h
  cases r <;> vinv_tac

theorem v_oStreams (v : View) (h : VInv v) (n : Nat) (r : Bool)
    (hm : v.main = .oStreams n r) (hp : v.wGC = 0 ∧ v.wGE = 0 ∧ v.wT = 0 ∧ v.wS = 0 ∧ (v.wSel ≥ 1 → v.closeCh = 0 ∧ v.endCh = 0)) :
    VInv { v with sess := v.sess + 1, endClosed := 0, obsNil := 0, running := n, main := .oSpawn r } := by
  obtain ⟨stopClosed, spur, staleTok, foreign, wSel, wGC, wGE, wT, wS, eCl, eDec, eT, eSd, endCh, closeCh, bE, bC, obsNil, endClosed,
    bal, shut, dcp, timer, sess, assigned, finals, running, active, main⟩ := v
  simp only at hm; subst hm
  obtain ⟨b01, stop1, nospur, nostale, noforeign, live1, gate, nilNoFlight, cnt, ec1, ecFin, cc1, ccWhy, s0, s0first,
    regA, ws1, nilQuiet, regC, sendNoFlag, obsNoCC, regD, hasObs, nilObs, rebBal, dcpWhy, timer, idleNil, stopWhy, stopped⟩ := h
  cases r <;> vinv_tac

theorem v_oSpawn (v : View) (h : VInv v) (r : Bool)
    (hm : v.main = .oSpawn r) (hp : v.wGC = 0 ∧ v.wGE = 0 ∧ v.wT = 0 ∧ v.wS = 0 ∧ (v.wSel ≥ 1 → v.closeCh = 0 ∧ v.endCh = 0)) :
    VInv { v with wSel := v.wSel + 1, main := .oSetOpen r } := by
  obtain ⟨stopClosed, spur, staleTok, foreign, wSel, wGC, wGE, wT, wS, eCl, eDec, eT, eSd, endCh, closeCh, bE, bC, obsNil, endClosed,
    bal, shut, dcp, timer, sess, assigned, finals, running, active, main⟩ := v
  simp only at hm; subst hm
  obtain ⟨b01, stop1, nospur, nostale, noforeign, live1, gate, nilNoFlight, cnt, ec1, ecFin, cc1, ccWhy, s0, s0first,
    regA, ws1, nilQuiet, regC, sendNoFlag, obsNoCC, regD, hasObs, nilObs, rebBal, dcpWhy, timer, idleNil, stopWhy, stopped⟩ := h
  cases r <;> vinv_tac

theorem v_oSetOpen (v : View) (h : VInv v) (r : Bool)
    (hm : v.main = .oSetOpen r) (hp : v.wGC = 0 ∧ v.wGE = 0 ∧ v.wT = 0 ∧ v.wS = 0 ∧ (v.wSel ≥ 1 → v.closeCh = 0 ∧ v.endCh = 0)) :
    VInv { v with main := afterOpen r } := by
  obtain ⟨stopClosed, spur, staleTok, foreign, wSel, wGC, wGE, wT, wS, eCl, eDec, eT, eSd, endCh, closeCh, bE, bC, obsNil, endClosed,
    bal, shut, dcp, timer, sess, assigned, finals, running, active, main⟩ := v
  simp only at hm; subst hm
  obtain ⟨b01, stop1, nospur, nostale, noforeign, live1, gate, nilNoFlight, cnt, ec1, ecFin, cc1, ccWhy, s0, s0first,
    regA, ws1, nilQuiet, regC, sendNoFlag, obsNoCC, regD, hasObs, nilObs, rebBal, dcpWhy, timer, idleNil, stopWhy, stopped⟩ := h
  cases r <;> vinv_tac

theorem v_rebClear (v : View) (h : VInv v) 
    (hm : v.main = .rebClear) (hp : v.wGC = 0 ∧ v.wGE = 0 ∧ v.wT = 0 ∧ v.wS = 0 ∧ (v.wSel ≥ 1 → v.closeCh = 0 ∧ v.endCh = 0)) :
    VInv { v with bal := 0, main := .idle } := by
  obtain ⟨stopClosed, spur, staleTok, foreign, wSel, wGC, wGE, wT, wS, eCl, eDec, eT, eSd, endCh, closeCh, bE, bC, obsNil, endClosed,
    bal, shut, dcp, timer, sess, assigned, finals, running, active, main⟩ := v
  simp only at hm; subst hm
  obtain ⟨b01, stop1, nospur, nostale, noforeign, live1, gate, nilNoFlight, cnt, ec1, ecFin, cc1, ccWhy, s0, s0first,
    regA, ws1, nilQuiet, regC, sendNoFlag, obsNoCC, regD, hasObs, nilObs, rebBal, dcpWhy, timer, idleNil, stopWhy, stopped⟩ := h
  vinv_tac

theorem v_wSelClose (v : View) (h : VInv v)
    (h1 : v.wSel ≥ 1) (h2 : v.closeCh > 0) :
    VInv { v with closeCh := v.closeCh - 1, wSel := v.wSel - 1, wGC := v.wGC + 1 } := by
  thread_tac

theorem v_wSelEnd (v : View) (h : VInv v)
    (h1 : v.wSel ≥ 1) (h2 : v.endCh > 0) :
    VInv { v with endCh := v.endCh - 1, wSel := v.wSel - 1, wGE := v.wGE + 1 } := by
  have x1 := h.nilObs; have x2 := mpc_inC_nil v.main
  thread_tac

theorem v_wGotClose (v : View) (h : VInv v)
    (h1 : v.wGC ≥ 1) :
    VInv { v with wGC := v.wGC - 1, wT := v.wT + 1, bC := 1 } := by
  thread_tac

theorem v_wGotEnd (v : View) (h : VInv v)
    (h1 : v.wGE ≥ 1) :
    VInv { v with wGE := v.wGE - 1, wT := v.wT + 1, bE := 1 } := by
  have x1 := h.regC; have x2 := mpc_send_inC v.main
  thread_tac

theorem v_wTestDone (v : View) (h : VInv v)
    (h1 : v.wT ≥ 1) (hb : v.bal = 1) :
    VInv { v with wT := v.wT - 1 } := by
  thread_tac

theorem v_wTestStop (v : View) (h : VInv v)
    (h1 : v.wT ≥ 1) (hb : v.bal = 0) :
    VInv { v with wT := v.wT - 1, wS := v.wS + 1 } := by
  have x1 := h.ws1; have x2 := h.regA; have x3 := h.s0; have x4 := Bool.toNat_le v.main.inA
  thread_tac

theorem v_wStop (v : View) (h : VInv v)
    (h1 : v.wS ≥ 1) :
    VInv { v with wS := v.wS - 1, stopClosed := v.stopClosed + 1 } := by
  have x1 := h.regA; have x2 := Bool.toNat_le v.main.inA; have x3 := h.rebBal; have x4 := h.s0first; have x5 := h.s0
  have x6 := mpc_resetClose v.main; have x7 := Bool.toNat_le v.main.isOResetClose
  have x8 := Bool.toNat_le v.main.inReb; have x9 := Bool.toNat_le v.main.isFirstResetClose
  thread_tac

theorem v_eCheckPass (v : View) (h : VInv v)
    (h1 : v.endClosed = 0) :
    VInv { v with eCl := v.eCl + 1 } := by
  thread_tac

theorem v_eClassDrop (v : View) (h : VInv v)
    (h1 : v.eCl ≥ 1) :
    VInv { v with eCl := v.eCl - 1 } := by
  thread_tac

theorem v_eClassCount (v : View) (h : VInv v)
    (h1 : v.eCl ≥ 1) :
    VInv { v with eCl := v.eCl - 1, eDec := v.eDec + 1 } := by
  thread_tac

theorem v_eDecZero (v : View) (h : VInv v)
    (h1 : v.eDec ≥ 1) (hz : v.active - 1 = 0) :
    VInv { v with eDec := v.eDec - 1, eT := v.eT + 1, active := v.active - 1, finals := v.finals + 1 } := by
  thread_tac

theorem v_eDecNonzero (v : View) (h : VInv v)
    (h1 : v.eDec ≥ 1) (hz : v.active - 1 ≠ 0) :
    VInv { v with eDec := v.eDec - 1, active := v.active - 1, finals := v.finals + 1 } := by
  thread_tac

theorem v_eTestDrop (v : View) (h : VInv v)
    (h1 : v.eT ≥ 1) (hb : v.bC = 1) :
    VInv { v with eT := v.eT - 1 } := by
  thread_tac

theorem v_eTestSend (v : View) (h : VInv v)
    (h1 : v.eT ≥ 1) (hb : v.bC = 0) :
    VInv { v with eT := v.eT - 1, eSd := v.eSd + 1 } := by
  thread_tac

theorem v_eSend (v : View) (h : VInv v)
    (h1 : v.eSd ≥ 1) (hc : v.endCh = 0) :
    VInv { v with eSd := v.eSd - 1, endCh := 1 } := by
  have x1 := h.nilObs; have x2 := mpc_inA_nil v.main
  thread_tac

theorem v_srvEnd (v : View) (h : VInv v)
    (h1 : v.running > 0) (r : Nat) :
    VInv { v with running := r } := by
  thread_tac

end GoDcp.WaitRace
