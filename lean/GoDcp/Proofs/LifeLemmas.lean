import GoDcp.Model.Life
import GoDcp.Proofs.SessionLemmas
/-!
# Invariants and frame lemmas of the life-cycle model (M3, `Model/Life.lean`)

Nothing here depends on the value 64 of the `fireDue` fuel: every statement about `fireDue` is proved for
an arbitrary fuel and instantiated by `step`.

Contents
* the observation monitor `obsStep` / `obsRun` (callback automaton of `Driver/Life.lean` `cbNext`,
  extended by the places where the other observations may occur)
* timer bookkeeping (`TimersOk`, `NoReb`, `OneReb`, `dueTimer`, `setTimer`, `armTimer`)
* the phases (`PhPre` before `Open`, `PhA` streaming, `PhB` rebalance window, `PhC` shut down; `PhM` inside the
  closing `Rebalance()`), the phase invariant `Inv`, the monitor state `code` of a phase
* the step contract `Good` (invariant again, monitor accepts the output, `dead` only with a `failstop`) for
  every sub-function and `step_good`, `run_good`
* what can be emitted where (`RebAlpha`, `CloseAlpha`, `OpAlpha`: `fireDue_alpha`, `step_alpha`)
* `Settled`, phase extraction from `Inv`
* the session data through a step (`Track`: `fireDue_track`, `step_track`)
* running states (`Running`, `Benign`: `fireDue_running`, `step_running`, `run_running`)
* sessions (`Frame`: `Open` is the only place where the range changes and the record of finally ended vBuckets
  `endedVbs` is reset; `step_frame`)
* the count: for every run `PhA.activeLe` / `PhW.activeLe` / `PhC.activeLe` (`active + |endedVbs| ≤ |vbs lo hi|`
  while open, `active ≤ 0` once closed); under the server hypothesis `EndOk` the exact count `Exact`
  (`active = |vbs lo hi| − |endedVbs|`, `endedVbs ⊆ vbs lo hi` while open; `active = 0` once closed):
  `closeCore_active_zero`, `step_exact`, `run_exact`, `window_active_zero`
-/
namespace GoDcp.Life
open GoDcp

/-! ## the observation monitor -/

/-- callback automaton `BSS ASS (BRS [BSP ASP] ARS BRE BSS ASS ARE)* [BSP ASP]`: the transition table of
    `Driver.cbNext`; 0 = before `Open`, 2 = streaming, 3..9 = inside a rebalance (6 = the window),
    10/11 = final stop -/
def cbStep : Nat → Cb → Option Nat
  | 0, .BSS => some 1 | 1, .ASS => some 2
  | 2, .BRS => some 3 | 2, .BSP => some 10 | 10, .ASP => some 11
  | 3, .BSP => some 4 | 3, .ARS => some 6 | 4, .ASP => some 5 | 5, .ARS => some 6
  | 6, .BRE => some 7 | 7, .BSS => some 8 | 8, .ASS => some 9 | 9, .ARE => some 2
  | 6, .BSP => some 10
  | _, _ => none

@[simp] theorem cbStep_0_BSS : cbStep 0 .BSS = some 1 := rfl
@[simp] theorem cbStep_1_ASS : cbStep 1 .ASS = some 2 := rfl
@[simp] theorem cbStep_2_BRS : cbStep 2 .BRS = some 3 := rfl
@[simp] theorem cbStep_2_BSP : cbStep 2 .BSP = some 10 := rfl
@[simp] theorem cbStep_10_ASP : cbStep 10 .ASP = some 11 := rfl
@[simp] theorem cbStep_3_BSP : cbStep 3 .BSP = some 4 := rfl
@[simp] theorem cbStep_4_ASP : cbStep 4 .ASP = some 5 := rfl
@[simp] theorem cbStep_5_ARS : cbStep 5 .ARS = some 6 := rfl
@[simp] theorem cbStep_6_BRE : cbStep 6 .BRE = some 7 := rfl
@[simp] theorem cbStep_7_BSS : cbStep 7 .BSS = some 8 := rfl
@[simp] theorem cbStep_8_ASS : cbStep 8 .ASS = some 9 := rfl
@[simp] theorem cbStep_9_ARE : cbStep 9 .ARE = some 2 := rfl
@[simp] theorem cbStep_6_BSP : cbStep 6 .BSP = some 10 := rfl

/-- the monitor on all observations: callbacks move the automaton; a delivery and a checkpoint write
    need the streaming state 2; open requests only inside `BSS…ASS` or while streaming (re-open after a
    transient end); close requests only inside `BSP…ASP`; `stop` only while streaming or inside /
    after the final `BSP…ASP`; a fail-stop is never accepted -/
def obsStep (p : Nat) : LObs → Option Nat
  | .cb c => cbStep p c
  | .deliver _ _ => if p = 2 then some p else none
  | .written _ _ => if p = 2 then some p else none
  | .openreq _ _ => if p = 1 ∨ p = 8 ∨ p = 2 then some p else none
  | .closereq _ => if p = 4 ∨ p = 10 then some p else none
  | .stop => if p = 2 ∨ p = 10 ∨ p = 11 then some p else none
  | .failstop _ => none
  | _ => some p

def obsRun (p : Nat) : List LObs → Option Nat
  | [] => some p
  | o :: r => (obsStep p o).bind fun q => obsRun q r

@[simp] theorem obsRun_nil (p : Nat) : obsRun p [] = some p := rfl

theorem obsRun_cons (p : Nat) (o : LObs) (r : List LObs) :
    obsRun p (o :: r) = (obsStep p o).bind fun q => obsRun q r := rfl

theorem obsRun_append (p : Nat) (a b : List LObs) :
    obsRun p (a ++ b) = (obsRun p a).bind fun q => obsRun q b := by
  induction a generalizing p with
  | nil => simp
  | cons o r ih =>
    simp only [List.cons_append, obsRun_cons]
    cases obsStep p o <;> simp [ih]

theorem obsRun_append_of {p q r : Nat} {a b : List LObs} (ha : obsRun p a = some q) (hb : obsRun q b = some r) :
    obsRun p (a ++ b) = some r := by
  rw [obsRun_append, ha]; simpa using hb

/-- observations that never move the monitor and are accepted everywhere -/
def Neutral : LObs → Prop
  | .debounced | .reassigned | .queued | .skipped | .status .. => True
  | _ => False

theorem obsRun_neutral (p : Nat) (l : List LObs) (h : ∀ o ∈ l, Neutral o) : obsRun p l = some p := by
  induction l with
  | nil => rfl
  | cons o r ih =>
    have ho := h o List.mem_cons_self
    have hr := ih fun x hx => h x (List.mem_cons_of_mem _ hx)
    cases o <;> simp [Neutral] at ho <;> simp [obsRun_cons, obsStep, hr]

/-- a monitor run that accepts has seen no fail-stop -/
theorem no_failstop_of_obsRun {p q : Nat} {l : List LObs} (h : obsRun p l = some q) (w : String) :
    LObs.failstop w ∉ l := by
  induction l generalizing p with
  | nil => simp
  | cons o r ih =>
    rw [obsRun_cons] at h
    cases hs : obsStep p o with
    | none => simp [hs] at h
    | some p' =>
      simp [hs] at h
      intro hm
      rcases List.mem_cons.1 hm with rfl | hm
      · simp [obsStep] at hs
      · exact ih h hm

theorem obsRun_openreqs (p : Nat) (hp : p = 1 ∨ p = 8 ∨ p = 2) (m : List (Nat × Nat)) :
    obsRun p (m.map fun (vb, q) => LObs.openreq vb q) = some p := by
  induction m with
  | nil => rfl
  | cons h t ih => simp [obsRun_cons, obsStep, hp, ih]

theorem obsRun_closereqs (p : Nat) (hp : p = 4 ∨ p = 10) (m : List (Nat × Nat)) :
    obsRun p (m.map fun (vb, _) => LObs.closereq vb) = some p := by
  induction m with
  | nil => rfl
  | cons h t ih => simp [obsRun_cons, obsStep, hp, ih]

theorem obsRun_writtens (m : List (Nat × Nat)) :
    obsRun 2 (m.map fun (vb, q) => LObs.written vb q) = some 2 := by
  induction m with
  | nil => rfl
  | cons h t ih => simp [obsRun_cons, obsStep, ih]

/-! ## timers -/

/-- ids are fresh below `nextTimer` and identify a timer -/
structure TimersOk (s : LSt) : Prop where
  lt : ∀ t ∈ s.timers, t.id < s.nextTimer
  uniq : ∀ t ∈ s.timers, ∀ u ∈ s.timers, t.id = u.id → t = u

/-- no pending `rebalance` (reopen) timer -/
def NoReb (s : LSt) : Prop := ∀ t ∈ s.timers, t.pending = true → t.kind = .Reb

/-- exactly one pending `rebalance` (reopen) timer, and `rebalanceTimer` points to it -/
def OneReb (s : LSt) : Prop :=
  ∃ t ∈ s.timers, s.timerPtr = some t.id ∧ t.pending = true ∧ t.kind = .reb ∧
    ∀ u ∈ s.timers, u.pending = true → u.kind = .reb → u = t

theorem findTimer_some {s : LSt} {id : Nat} {t : Timer} (h : findTimer s id = some t) :
    t ∈ s.timers ∧ t.id = id := by
  unfold findTimer at h
  exact ⟨List.mem_of_find?_eq_some h, by simpa using List.find?_some h⟩

theorem findTimer_of_mem {s : LSt} (ok : TimersOk s) {t : Timer} (ht : t ∈ s.timers) :
    findTimer s t.id = some t := by
  unfold findTimer
  cases h : s.timers.find? (·.id = t.id) with
  | none =>
    have := List.find?_eq_none.1 h t ht
    simp at this
  | some u =>
    have hu := List.mem_of_find?_eq_some h
    have hid : u.id = t.id := by simpa using List.find?_some h
    rw [ok.uniq u hu t ht hid]

theorem mem_setTimer {s : LSt} {t' u : Timer} (h : u ∈ (setTimer s t').timers) :
    (u = t' ∧ ∃ t ∈ s.timers, t.id = t'.id) ∨ (u ∈ s.timers ∧ u.id ≠ t'.id) := by
  simp only [setTimer, List.mem_map] at h
  obtain ⟨v, hv, rfl⟩ := h
  by_cases hid : v.id = t'.id
  · left; simp [hid]; exact ⟨v, hv, hid⟩
  · right; simp [hid, hv]

theorem mem_setTimer_self {s : LSt} {t t' : Timer} (ht : t ∈ s.timers) (hid : t'.id = t.id) :
    t' ∈ (setTimer s t').timers := by
  simp only [setTimer, List.mem_map]
  exact ⟨t, ht, by simp [hid]⟩

theorem mem_setTimer_other {s : LSt} {t' u : Timer} (hu : u ∈ s.timers) (hid : u.id ≠ t'.id) :
    u ∈ (setTimer s t').timers := by
  simp only [setTimer, List.mem_map]
  exact ⟨u, hu, by simp [hid]⟩

theorem TimersOk.setTimer {s : LSt} (ok : TimersOk s) {t t' : Timer} (ht : t ∈ s.timers) (hid : t'.id = t.id) :
    TimersOk (setTimer s t') := by
  constructor
  · intro u hu
    rcases mem_setTimer hu with ⟨rfl, _⟩ | ⟨hu, _⟩
    · rw [hid]; exact ok.lt t ht
    · exact ok.lt u hu
  · intro u hu v hv huv
    rcases mem_setTimer hu with ⟨rfl, _⟩ | ⟨hu, hun⟩ <;> rcases mem_setTimer hv with ⟨rfl, _⟩ | ⟨hv, hvn⟩
    · rfl
    · exact absurd huv.symm hvn
    · exact absurd huv hun
    · exact ok.uniq u hu v hv huv

theorem mem_armTimer {s : LSt} {a d : Nat} {k : TimerKind} {u : Timer} :
    u ∈ (armTimer s a k d).timers ↔ u ∈ s.timers ∨ u = ⟨s.nextTimer, a + d, k, true⟩ := by
  simp [armTimer]

theorem TimersOk.armTimer {s : LSt} (ok : TimersOk s) (a d : Nat) (k : TimerKind) :
    TimersOk (armTimer s a k d) := by
  constructor
  · intro u hu
    rcases mem_armTimer.1 hu with hu | rfl
    · have := ok.lt u hu; simp [Life.armTimer]; omega
    · simp [Life.armTimer]
  · intro u hu v hv huv
    rcases mem_armTimer.1 hu with hu | rfl <;> rcases mem_armTimer.1 hv with hv | rfl
    · exact ok.uniq u hu v hv huv
    · have := ok.lt u hu; simp at huv; omega
    · have := ok.lt v hv; simp at huv; omega
    · rfl

theorem NoReb.armReb {s : LSt} (h : NoReb s) (a d : Nat) : NoReb (armTimer s a .Reb d) := by
  intro u hu hp
  rcases mem_armTimer.1 hu with hu | rfl
  · exact h u hu hp
  · rfl

theorem NoReb.arm_reb {s : LSt} (h : NoReb s) (a d : Nat) : OneReb (armTimer s a .reb d) := by
  refine ⟨⟨s.nextTimer, a + d, .reb, true⟩, mem_armTimer.2 (Or.inr rfl), by simp [armTimer], rfl, rfl, ?_⟩
  intro u hu hp hk
  rcases mem_armTimer.1 hu with hu | rfl
  · have := h u hu hp; rw [this] at hk; cases hk
  · rfl

/-- re-arming (`Reset`) or touching a timer without changing `pending`/`kind` keeps `NoReb` -/
theorem NoReb.setTimer {s : LSt} (h : NoReb s) {t' : Timer} (ht : t'.pending = true → t'.kind = .Reb) :
    NoReb (setTimer s t') := by
  intro u hu hp
  rcases mem_setTimer hu with ⟨rfl, _⟩ | ⟨hu, _⟩
  · exact ht hp
  · exact h u hu hp

/-- `Reset` of the pending reopen timer -/
theorem OneReb.reset {s : LSt} (h : OneReb s) (ok : TimersOk s) {t : Timer} {id d : Nat}
    (hp : s.timerPtr = some id) (hf : findTimer s id = some t) :
    OneReb (setTimer s { t with deadline := d }) := by
  obtain ⟨r, hr, hptr, hpend, hkind, huniq⟩ := h
  have ⟨htm, htid⟩ := findTimer_some hf
  have hid : id = r.id := by rw [hp] at hptr; exact Option.some.inj hptr
  have htr : t = r := ok.uniq t htm r hr (by rw [htid, hid])
  subst htr
  refine ⟨{ t with deadline := d }, mem_setTimer_self htm rfl, by simpa [Life.setTimer] using hptr, hpend, hkind, ?_⟩
  intro u hu hup huk
  rcases mem_setTimer hu with ⟨rfl, _⟩ | ⟨hu, hne⟩
  · rfl
  · exact absurd (congrArg Timer.id (huniq u hu hup huk)) hne

/-- a `Rebalance` timer fires: the pending reopen timer is untouched -/
theorem OneReb.fire_Reb {s : LSt} (h : OneReb s) (ok : TimersOk s) {t : Timer} (ht : t ∈ s.timers)
    (hk : t.kind = .Reb) : OneReb (setTimer s { t with pending := false }) := by
  obtain ⟨r, hr, hptr, hpend, hkind, huniq⟩ := h
  have hne : r.id ≠ t.id := by
    intro e
    have := ok.uniq r hr t ht e
    subst this; rw [hk] at hkind; cases hkind
  refine ⟨r, mem_setTimer_other hr hne, by simpa [Life.setTimer] using hptr, hpend, hkind, ?_⟩
  intro u hu hup huk
  rcases mem_setTimer hu with ⟨rfl, _⟩ | ⟨hu, _⟩
  · simp at hup
  · exact huniq u hu hup huk

/-- the reopen timer fires: no reopen timer is pending any more -/
theorem OneReb.fire_reb {s : LSt} (h : OneReb s) {t : Timer} (ht : t ∈ s.timers) (hp : t.pending = true)
    (hk : t.kind = .reb) : NoReb (setTimer s { t with pending := false }) := by
  obtain ⟨r, hr, hptr, hpend, hkind, huniq⟩ := h
  have htr := huniq t ht hp hk
  subst htr
  intro u hu hup
  rcases mem_setTimer hu with ⟨rfl, _⟩ | ⟨hu, hne⟩
  · simp at hup
  · cases huk : u.kind with
    | Reb => rfl
    | reb => exact absurd (congrArg Timer.id (huniq u hu hup huk)) hne

theorem NoReb.fire {s : LSt} (h : NoReb s) (t : Timer) : NoReb (Life.setTimer s { t with pending := false }) :=
  NoReb.setTimer h (by simp)

theorem foldl_best_mem {f : Option Timer → Timer → Option Timer}
    (hf : ∀ b t, f b t = some t ∨ f b t = b) (l : List Timer) (b : Option Timer) (t : Timer)
    (h : l.foldl f b = some t) : b = some t ∨ t ∈ l := by
  induction l generalizing b with
  | nil => left; simpa using h
  | cons x r ih =>
    simp only [List.foldl_cons] at h
    rcases ih _ h with hb | hm
    · rcases hf b x with e | e
      · rw [e] at hb; right; simp [Option.some.inj hb]
      · rw [e] at hb; left; exact hb
    · right; exact List.mem_cons_of_mem _ hm

theorem dueTimer_some {s : LSt} {upto : Nat} {t : Timer} (h : dueTimer s upto = some t) :
    t ∈ s.timers ∧ t.pending = true ∧ t.deadline ≤ upto := by
  unfold dueTimer at h
  have := foldl_best_mem (f := fun best t => match best with
      | none => some t
      | some b => if t.deadline < b.deadline || (t.deadline = b.deadline && t.id < b.id) then some t else some b)
    (by intro b t; cases b with
        | none => left; rfl
        | some b => simp only; split <;> simp) _ none t h
  rcases this with h | h
  · cases h
  · simpa using List.mem_filter.1 h

theorem dueTimer_none {s : LSt} {upto : Nat} (h : dueTimer s upto = none) :
    ∀ t ∈ s.timers, t.pending = true → upto < t.deadline := by
  unfold dueTimer at h
  intro t ht hp
  apply Nat.lt_of_not_le
  intro hlt
  have hmem : t ∈ s.timers.filter fun t => t.pending && t.deadline ≤ upto := by
    simp [List.mem_filter, ht, hp]; omega
  generalize (s.timers.filter fun t => t.pending && t.deadline ≤ upto) = l at h hmem
  cases l with
  | nil => simp at hmem
  | cons x r =>
    simp only [List.foldl_cons] at h
    have : ∀ (l : List Timer) (b : Timer), l.foldl (fun best t => match best with
      | none => some t
      | some b => if t.deadline < b.deadline || (t.deadline = b.deadline && t.id < b.id) then some t else some b)
        (some b) ≠ none := by
      intro l
      induction l with
      | nil => simp
      | cons y r ih => intro b; simp only [List.foldl_cons]; split <;> exact ih _
    exact this r x h

/-! ## the phases -/

/-- before `Open` -/
structure PhPre (s : LSt) : Prop where
  everOpened : s.everOpened = false
  isOpen : s.isOpen = false
  obsNil : s.obsNil = true
  closedObs : s.closedObs = true
  balancing : s.balancing = false
  lockHeld : s.lockHeld = false
  queued : s.queuedCalls = 0
  noReb : NoReb s
  stop : s.stopClosed = false
  pos : s.pos = []
  cwc : s.closeWithCancel = false

/-- phase A: streaming -/
structure PhA (s : LSt) : Prop where
  everOpened : s.everOpened = true
  isOpen : s.isOpen = true
  obsNil : s.obsNil = false
  closedObs : s.closedObs = false
  balancing : s.balancing = false
  lockHeld : s.lockHeld = false
  queued : s.queuedCalls = 0
  noReb : NoReb s
  cwc : s.closeWithCancel = false
  fwc : s.finishedWithClose = false
  fwe : s.finishedWithEnd = true → s.stopClosed = true
  keys : AMap.keys s.pos = vbs s.lo s.hi
  next : ∀ vb, s.nextSeq.get? vb = (s.pos.get? vb).map (· + 1)
  dirtyFlag : s.anyDirty = false → s.dirty = []
  -- the session count, as far as it holds for EVERY run: a vBucket is recorded once as finally ended, and every
  -- recorded one has decremented the count (equality and `endedVbs ⊆ vbs lo hi` need the server hypothesis: `Exact`)
  endedNodup : s.endedVbs.Nodup
  activeLe : s.active + (s.endedVbs.length : Int) ≤ ((vbs s.lo s.hi).length : Int)

/-- the part of the rebalance window that holds from the end of `Close` on -/
structure PhW (s : LSt) : Prop where
  everOpened : s.everOpened = true
  isOpen : s.isOpen = false
  obsNil : s.obsNil = true
  closedObs : s.closedObs = true
  balancing : s.balancing = true
  lockHeld : s.lockHeld = true
  pos : s.pos = []
  cwc : s.closeWithCancel = false
  -- every stream the server still had has answered the close with its `End` (exactly 0 under `Exact`)
  activeLe : s.active ≤ 0

/-- phase B: the rebalance window (closed, lock held, exactly one reopen timer pending, pointed to) -/
def PhB (s : LSt) : Prop := PhW s ∧ OneReb s

/-- inside the first `Rebalance()` of a window, between `Close` and `AfterFunc` -/
def PhM (s : LSt) : Prop := PhW s ∧ NoReb s

/-- phase C: shut down from the streaming phase -/
structure PhC (s : LSt) : Prop where
  everOpened : s.everOpened = true
  isOpen : s.isOpen = false
  obsNil : s.obsNil = true
  closedObs : s.closedObs = true
  balancing : s.balancing = false
  lockHeld : s.lockHeld = false
  queued : s.queuedCalls = 0
  noReb : NoReb s
  stop : s.stopClosed = true
  pos : s.pos = []
  activeLe : s.active ≤ 0

/-- the phase invariant -/
inductive Inv (s : LSt) : Prop
  | dead (h : s.dead = true)
  | pre (hd : s.dead = false) (ok : TimersOk s) (h : PhPre s)
  | A (hd : s.dead = false) (ok : TimersOk s) (h : PhA s)
  | B (hd : s.dead = false) (ok : TimersOk s) (h : PhB s)
  | C (hd : s.dead = false) (ok : TimersOk s) (h : PhC s)

/-- the monitor state that belongs to a phase -/
def code (s : LSt) : Nat :=
  if s.balancing then 6 else if s.isOpen then 2 else if s.everOpened then 11 else 0

theorem PhPre.code {s : LSt} (h : PhPre s) : code s = 0 := by simp [Life.code, h.balancing, h.isOpen, h.everOpened]
theorem PhA.code {s : LSt} (h : PhA s) : code s = 2 := by simp [Life.code, h.balancing, h.isOpen]
theorem PhW.code {s : LSt} (h : PhW s) : code s = 6 := by simp [Life.code, h.balancing]
theorem PhC.code {s : LSt} (h : PhC s) : code s = 11 := by simp [Life.code, h.balancing, h.isOpen, h.everOpened]

/-- contract of a complete sub-step from an invariant state: the invariant holds again, the monitor
    accepts the output and lands in the state of the new phase unless the step fail-stopped, and
    `dead` is raised exactly together with a `failstop` observation -/
structure Good (s : LSt) (o : List LObs) (s' : LSt) : Prop where
  inv : Inv s'
  run : s'.dead = false → obsRun (code s) o = some (code s')
  fs : s'.dead = true → s.dead = true ∨ ∃ w, LObs.failstop w ∈ o
  mono : s.dead = true → s'.dead = true

theorem Good.refl {s : LSt} (h : Inv s) : Good s [] s := ⟨h, fun _ => rfl, fun h => Or.inl h, id⟩

theorem Good.trans {s s1 s2 : LSt} {o1 o2 : List LObs} (h1 : Good s o1 s1) (h2 : Good s1 o2 s2) :
    Good s (o1 ++ o2) s2 := by
  refine ⟨h2.inv, ?_, ?_, fun h => h2.mono (h1.mono h)⟩
  · intro hd
    have hd1 : s1.dead = false := by
      cases h : s1.dead with
      | false => rfl
      | true => rw [h2.mono h] at hd; cases hd
    exact obsRun_append_of (h1.run hd1) (h2.run hd)
  · intro hd
    rcases h2.fs hd with h | ⟨w, hw⟩
    · rcases h1.fs h with h | ⟨w, hw⟩
      · exact Or.inl h
      · exact Or.inr ⟨w, List.mem_append_left _ hw⟩
    · exact Or.inr ⟨w, List.mem_append_right _ hw⟩

/-! ## `Open` -/

theorem mem_vbs {lo hi x : Nat} : x ∈ vbs lo hi ↔ lo ≤ x ∧ x ≤ hi := by
  simp only [vbs, List.mem_map, List.mem_range]
  constructor
  · rintro ⟨a, ha, rfl⟩; omega
  · intro h; exact ⟨x - lo, by omega, by omega⟩

theorem vbs_nodup (lo hi : Nat) : (vbs lo hi).Nodup := by
  unfold vbs
  exact List.Pairwise.map _ (fun a b h => by omega) List.nodup_range

/-! ## counting the streams the server still has -/

theorem filter_ne_length {m : List Nat} {a : Nat} (hm : m.Nodup) (ha : a ∈ m) :
    (m.filter (fun x => x != a)).length + 1 = m.length := by
  induction m with
  | nil => simp at ha
  | cons x r ih =>
    simp only [List.nodup_cons] at hm
    by_cases hx : x = a
    · subst hx
      have : r.filter (fun y => y != x) = r := by
        apply List.filter_eq_self.2
        intro y hy
        have : y ≠ x := fun e => hm.1 (e ▸ hy)
        simpa using this
      simp [this]
    · have har : a ∈ r := by
        rcases List.mem_cons.1 ha with e | e
        · exact absurd e.symm hx
        · exact e
      simp [hx, ih hm.2 har]

theorem filter_ne_length_le {m : List Nat} (a : Nat) (hm : m.Nodup) :
    m.length ≤ (m.filter (fun x => x != a)).length + 1 := by
  by_cases ha : a ∈ m
  · have := filter_ne_length hm ha; omega
  · have : m.filter (fun x => x != a) = m := by
      apply List.filter_eq_self.2
      intro y hy
      have : y ≠ a := fun e => ha (e ▸ hy)
      simpa using this
    rw [this]; omega

theorem filter_notin_cons (a : Nat) (r l : List Nat) :
    l.filter (fun x => !(a :: r).contains x) = (l.filter (fun x => !r.contains x)).filter (fun x => x != a) := by
  rw [List.filter_filter]
  apply List.filter_congr
  intro x _
  by_cases hxa : x = a <;> simp [hxa]

/-- distinct elements `e` of a duplicate-free list `l`: the rest has `|l| − |e|` elements -/
theorem filter_notin_length (e l : List Nat) (he : e.Nodup) (hsub : ∀ x ∈ e, x ∈ l) (hl : l.Nodup) :
    (l.filter (fun x => !e.contains x)).length + e.length = l.length := by
  induction e generalizing l with
  | nil => simp
  | cons a r ih =>
    simp only [List.nodup_cons] at he
    have hrl : ∀ x ∈ r, x ∈ l := fun x hx => hsub x (List.mem_cons_of_mem _ hx)
    have ih' := ih l he.2 hrl hl
    have hnd : (l.filter (fun x => !r.contains x)).Nodup := List.Nodup.sublist List.filter_sublist hl
    have ha : a ∈ l.filter (fun x => !r.contains x) := by
      simp [List.mem_filter, hsub a List.mem_cons_self, he.1]
    have := filter_ne_length hnd ha
    rw [filter_notin_cons, List.length_cons]
    omega

/-- any `e`: at most `|e|` elements of a duplicate-free list are removed -/
theorem filter_notin_length_le (e l : List Nat) (hl : l.Nodup) :
    l.length ≤ (l.filter (fun x => !e.contains x)).length + e.length := by
  induction e with
  | nil =>
    have : l.filter (fun x => !([] : List Nat).contains x) = l := List.filter_eq_self.2 (by simp)
    rw [this]; simp
  | cons a r ih =>
    have hnd : (l.filter (fun x => !r.contains x)).Nodup := List.Nodup.sublist List.filter_sublist hl
    have := filter_ne_length_le a hnd
    rw [filter_notin_cons, List.length_cons]
    omega

/-- the offsets entries whose vBucket stream the server still has: only these answer `CloseStream` with an `End` -/
def live (s : LSt) : List (Nat × Nat) := s.pos.filter fun (vb, _) => !s.endedVbs.contains vb

theorem live_length (s : LSt) :
    (live s).length = ((AMap.keys s.pos).filter fun vb => !s.endedVbs.contains vb).length := by
  unfold live AMap.keys
  rw [List.filter_map, List.length_map]
  rfl

/-- every run: the count never exceeds the number of streams the server still has -/
theorem PhA.active_le_live {s : LSt} (h : PhA s) : s.active ≤ ((live s).length : Int) := by
  have := filter_notin_length_le s.endedVbs (vbs s.lo s.hi) (vbs_nodup _ _)
  have h2 := h.activeLe
  rw [live_length, h.keys]
  omega

theorem doOpen_out (s : LSt) :
    (doOpen s).2 = [.cb .BSS] ++ ((vbs s.memLo s.memHi).map fun vb => LObs.openreq vb ((s.store.get? vb).getD 0))
      ++ [.cb .ASS] := by
  simp [doOpen, List.map_map, Function.comp_def]

theorem obsRun_doOpen (s : LSt) (p p1 p2 : Nat) (h1 : cbStep p .BSS = some p1) (hp1 : p1 = 1 ∨ p1 = 8)
    (h2 : cbStep p1 .ASS = some p2) : obsRun p (doOpen s).2 = some p2 := by
  have hreq := obsRun_openreqs p1 (by omega) ((vbs s.memLo s.memHi).map fun vb => (vb, (s.store.get? vb).getD 0))
  simp only [doOpen]
  refine obsRun_append_of (obsRun_append_of (q := p1) ?_ hreq) ?_
  · simp [obsRun_cons, obsStep, h1]
  · simp [obsRun_cons, obsStep, h2]

/-- the data part of phase A right after `Open` -/
theorem doOpen_data (s : LSt) :
    AMap.keys (doOpen s).1.pos = vbs (doOpen s).1.lo (doOpen s).1.hi ∧
    (∀ vb, (doOpen s).1.nextSeq.get? vb = ((doOpen s).1.pos.get? vb).map (· + 1)) := by
  constructor
  · simp [doOpen, AMap.keys, List.map_map, Function.comp_def]
  · intro vb
    simp only [doOpen]
    exact AMap.get?_mapVal (fun _ q => q + 1) _ vb

/-! ## `Close` -/

/-- `Close` on a non-nil observers map -/
def closeCore (s : LSt) (cancel : Bool) : LSt × List LObs :=
  let n : Int := (live s).length
  let act := s.active - n
  let s1 := { s with closeWithCancel := cancel, closedObs := true, active := act }
  let (s2, o2) :=
    if act = 0 && !s1.finishedWithClose then
      let (w, o) := waitFires { s1 with finishedWithEnd := true }
      (w, o)
    else (s1, [])
  let s3 := { s2 with obsNil := true, pos := [], dirty := [], isOpen := false }
  let (s4, o4) :=
    if !s3.finishedWithEnd then
      let (w, o) := waitFires { s3 with finishedWithClose := true }
      (w, o)
    else (s3, [])
  (s4, [.cb .BSP] ++ s.pos.map (fun (vb, _) => .closereq vb) ++ o2 ++ [.cb .ASP] ++ o4)

theorem doClose_eq (s : LSt) (cancel : Bool) :
    doClose s cancel = if s.obsNil then none else some (closeCore s cancel) := by
  unfold doClose closeCore
  split <;> rfl

/-! what `Close` leaves alone and what it sets -/
@[simp] theorem closeCore_delay (s : LSt) (c : Bool) : (closeCore s c).1.delay = s.delay := by
  simp only [closeCore, waitFires]; (repeat' split) <;> rfl
@[simp] theorem closeCore_dynamic (s : LSt) (c : Bool) : (closeCore s c).1.dynamic = s.dynamic := by
  simp only [closeCore, waitFires]; (repeat' split) <;> rfl
@[simp] theorem closeCore_auto (s : LSt) (c : Bool) : (closeCore s c).1.auto = s.auto := by
  simp only [closeCore, waitFires]; (repeat' split) <;> rfl
@[simp] theorem closeCore_now (s : LSt) (c : Bool) : (closeCore s c).1.now = s.now := by
  simp only [closeCore, waitFires]; (repeat' split) <;> rfl
@[simp] theorem closeCore_memLo (s : LSt) (c : Bool) : (closeCore s c).1.memLo = s.memLo := by
  simp only [closeCore, waitFires]; (repeat' split) <;> rfl
@[simp] theorem closeCore_memHi (s : LSt) (c : Bool) : (closeCore s c).1.memHi = s.memHi := by
  simp only [closeCore, waitFires]; (repeat' split) <;> rfl
@[simp] theorem closeCore_store (s : LSt) (c : Bool) : (closeCore s c).1.store = s.store := by
  simp only [closeCore, waitFires]; (repeat' split) <;> rfl
@[simp] theorem closeCore_everOpened (s : LSt) (c : Bool) : (closeCore s c).1.everOpened = s.everOpened := by
  simp only [closeCore, waitFires]; (repeat' split) <;> rfl
@[simp] theorem closeCore_lo (s : LSt) (c : Bool) : (closeCore s c).1.lo = s.lo := by
  simp only [closeCore, waitFires]; (repeat' split) <;> rfl
@[simp] theorem closeCore_hi (s : LSt) (c : Bool) : (closeCore s c).1.hi = s.hi := by
  simp only [closeCore, waitFires]; (repeat' split) <;> rfl
@[simp] theorem closeCore_anyDirty (s : LSt) (c : Bool) : (closeCore s c).1.anyDirty = s.anyDirty := by
  simp only [closeCore, waitFires]; (repeat' split) <;> rfl
@[simp] theorem closeCore_balancing (s : LSt) (c : Bool) : (closeCore s c).1.balancing = s.balancing := by
  simp only [closeCore, waitFires]; (repeat' split) <;> rfl
@[simp] theorem closeCore_lockHeld (s : LSt) (c : Bool) : (closeCore s c).1.lockHeld = s.lockHeld := by
  simp only [closeCore, waitFires]; (repeat' split) <;> rfl
@[simp] theorem closeCore_queuedCalls (s : LSt) (c : Bool) : (closeCore s c).1.queuedCalls = s.queuedCalls := by
  simp only [closeCore, waitFires]; (repeat' split) <;> rfl
@[simp] theorem closeCore_timers (s : LSt) (c : Bool) : (closeCore s c).1.timers = s.timers := by
  simp only [closeCore, waitFires]; (repeat' split) <;> rfl
@[simp] theorem closeCore_timerPtr (s : LSt) (c : Bool) : (closeCore s c).1.timerPtr = s.timerPtr := by
  simp only [closeCore, waitFires]; (repeat' split) <;> rfl
@[simp] theorem closeCore_nextTimer (s : LSt) (c : Bool) : (closeCore s c).1.nextTimer = s.nextTimer := by
  simp only [closeCore, waitFires]; (repeat' split) <;> rfl
@[simp] theorem closeCore_rebalances (s : LSt) (c : Bool) : (closeCore s c).1.rebalances = s.rebalances := by
  simp only [closeCore, waitFires]; (repeat' split) <;> rfl
@[simp] theorem closeCore_nextSeq (s : LSt) (c : Bool) : (closeCore s c).1.nextSeq = s.nextSeq := by
  simp only [closeCore, waitFires]; (repeat' split) <;> rfl
@[simp] theorem closeCore_dead (s : LSt) (c : Bool) : (closeCore s c).1.dead = s.dead := by
  simp only [closeCore, waitFires]; (repeat' split) <;> rfl
@[simp] theorem closeCore_isOpen (s : LSt) (c : Bool) : (closeCore s c).1.isOpen = false := by
  simp only [closeCore, waitFires]; (repeat' split) <;> rfl
@[simp] theorem closeCore_obsNil (s : LSt) (c : Bool) : (closeCore s c).1.obsNil = true := by
  simp only [closeCore, waitFires]; (repeat' split) <;> rfl
@[simp] theorem closeCore_closedObs (s : LSt) (c : Bool) : (closeCore s c).1.closedObs = true := by
  simp only [closeCore, waitFires]; (repeat' split) <;> rfl
@[simp] theorem closeCore_pos (s : LSt) (c : Bool) : (closeCore s c).1.pos = [] := by
  simp only [closeCore, waitFires]; (repeat' split) <;> rfl
@[simp] theorem closeCore_dirty (s : LSt) (c : Bool) : (closeCore s c).1.dirty = [] := by
  simp only [closeCore, waitFires]; (repeat' split) <;> rfl
@[simp] theorem closeCore_closeWithCancel (s : LSt) (c : Bool) : (closeCore s c).1.closeWithCancel = c := by
  simp only [closeCore, waitFires]; (repeat' split) <;> rfl
@[simp] theorem closeCore_endedVbs (s : LSt) (c : Bool) : (closeCore s c).1.endedVbs = s.endedVbs := by
  simp only [closeCore, waitFires]; (repeat' split) <;> rfl
/-- only the streams the server still has answer `CloseStream` with an `End`: the count drops by the number of
    offsets entries whose vBucket has not finally ended -/
@[simp] theorem closeCore_active (s : LSt) (c : Bool) :
    (closeCore s c).1.active = s.active - ((live s).length : Int) := by
  simp only [closeCore, waitFires]; (repeat' split) <;> rfl

/-- shape of the output of `Close`; `stop` needs `!balancing` -/
theorem closeCore_out (s : LSt) (c : Bool) :
    ∃ o2 o4, (closeCore s c).2 = [.cb .BSP] ++ s.pos.map (fun (vb, _) => LObs.closereq vb) ++ o2 ++ [.cb .ASP] ++ o4 ∧
      (o2 = [] ∨ (o2 = [.stop] ∧ s.balancing = false)) ∧ (o4 = [] ∨ (o4 = [.stop] ∧ s.balancing = false)) := by
  simp only [closeCore, waitFires]
  (repeat' split) <;> refine ⟨_, _, rfl, ?_, ?_⟩ <;> simp_all

/-- `stopCh` after `Close` -/
theorem closeCore_stop_balancing (s : LSt) (c : Bool) (hb : s.balancing = true) :
    (closeCore s c).1.stopClosed = s.stopClosed := by
  simp only [closeCore, waitFires]
  (repeat' split) <;> simp_all

set_option linter.unusedVariables false in
theorem closeCore_stop_streaming (s : LSt) (c : Bool) (hb : s.balancing = false)
    (hc : s.finishedWithClose = false) (he : s.finishedWithEnd = true → s.stopClosed = true) :
    (closeCore s c).1.stopClosed = true := by
  simp only [closeCore, waitFires]
  (repeat' split) <;> simp_all

theorem obsRun_close_rebalance (s : LSt) (c : Bool) (hb : s.balancing = true) :
    obsRun 3 (closeCore s c).2 = some 5 := by
  obtain ⟨o2, o4, ho, h2, h4⟩ := closeCore_out s c
  have e2 : o2 = [] := by rcases h2 with h | ⟨_, h⟩; exact h; rw [hb] at h; cases h
  have e4 : o4 = [] := by rcases h4 with h | ⟨_, h⟩; exact h; rw [hb] at h; cases h
  subst e2 e4
  rw [ho]
  simp [obsRun_append, obsRun_cons, obsStep, obsRun_closereqs 4 (by omega)]

theorem obsRun_close_final (s : LSt) (c : Bool) (p : Nat) (hp : cbStep p .BSP = some 10) :
    obsRun p (closeCore s c).2 = some 11 := by
  obtain ⟨o2, o4, ho, h2, h4⟩ := closeCore_out s c
  rw [ho]
  rcases h2 with rfl | ⟨rfl, _⟩ <;> rcases h4 with rfl | ⟨rfl, _⟩ <;>
    simp [obsRun_append, obsRun_cons, obsStep, hp, obsRun_closereqs 10 (by omega)]

/-! ## `Rebalance()` -/

theorem PhW.congr {s s' : LSt} (h : PhW s) (e1 : s'.everOpened = s.everOpened) (e2 : s'.isOpen = s.isOpen)
    (e3 : s'.obsNil = s.obsNil) (e4 : s'.closedObs = s.closedObs) (e5 : s'.balancing = s.balancing)
    (e6 : s'.lockHeld = s.lockHeld) (e8 : s'.pos = s.pos)
    (e9 : s'.closeWithCancel = s.closeWithCancel) (e10 : s'.active = s.active) : PhW s' :=
  ⟨e1 ▸ h.everOpened, e2 ▸ h.isOpen, e3 ▸ h.obsNil, e4 ▸ h.closedObs, e5 ▸ h.balancing, e6 ▸ h.lockHeld,
   e8 ▸ h.pos, e9 ▸ h.cwc, e10 ▸ h.activeLe⟩

theorem rebalanceLocked_streaming (s : LSt) (a : Nat) (hn : s.obsNil = false) (hb : s.balancing = false)
    (hd : s.dead = false) :
    rebalanceLocked s a =
      (armTimer (closeCore { s with lockHeld := true, balancing := true } false).1 a .reb (if s.dynamic then 0 else s.delay),
       [.cb .BRS] ++ (closeCore { s with lockHeld := true, balancing := true } false).2 ++ [.cb .ARS]) := by
  simp [rebalanceLocked, hb, doClose_eq, hn, hd]

theorem rebalanceLocked_closed (s : LSt) (a : Nat) (hn : s.obsNil = true) (hb : s.balancing = false) :
    rebalanceLocked s a =
      ({ s with lockHeld := true, balancing := true, dead := true }, [.cb .BRS, .failstop "nil-observers"]) := by
  simp [rebalanceLocked, hb, doClose_eq, hn]

theorem TimersOk_after_close {s : LSt} (c : Bool) (ok : TimersOk s) : TimersOk (closeCore s c).1 :=
  ⟨fun t ht => by simp at ht ⊢; exact ok.lt t ht, fun t ht u hu => by simp at ht hu; exact ok.uniq t ht u hu⟩

/-- the window right after `Close` inside a `Rebalance()` that started from a streaming state -/
theorem PhM_after_close {s : LSt} (he : s.everOpened = true) (hn : NoReb s)
    (hle : s.active ≤ ((live s).length : Int)) :
    PhM (closeCore { s with lockHeld := true, balancing := true } false).1 := by
  refine ⟨⟨by simp [he], by simp, by simp, by simp, by simp, by simp, by simp, by simp, ?_⟩, ?_⟩
  · rw [closeCore_active]
    have : live { s with lockHeld := true, balancing := true } = live s := rfl
    rw [this]
    show s.active - ((live s).length : Int) ≤ 0
    omega
  · intro t ht; simp at ht; exact hn t ht

theorem PhB_of_PhM_arm {s : LSt} (h : PhM s) (a d : Nat) : PhB (armTimer s a .reb d) :=
  ⟨h.1.congr rfl rfl rfl rfl rfl rfl rfl rfl rfl, h.2.arm_reb a d⟩

/-- `Rebalance()` that gets the lock on a streaming stream: close, arm the reopen timer; window reached -/
theorem rebalanceLocked_from_streaming {s : LSt} (a : Nat) (ok : TimersOk s) (hd : s.dead = false)
    (he : s.everOpened = true) (hn : s.obsNil = false) (hb : s.balancing = false) (hnr : NoReb s)
    (hle : s.active ≤ ((live s).length : Int)) :
    PhB (rebalanceLocked s a).1 ∧ TimersOk (rebalanceLocked s a).1 ∧ (rebalanceLocked s a).1.dead = false ∧
      obsRun 2 (rebalanceLocked s a).2 = some 6 ∧ (rebalanceLocked s a).1.queuedCalls = s.queuedCalls := by
  rw [rebalanceLocked_streaming s a hn hb hd]
  have hm := PhM_after_close he hnr hle
  have hok := TimersOk_after_close false (s := { s with lockHeld := true, balancing := true }) ⟨ok.lt, ok.uniq⟩
  have hrun := obsRun_close_rebalance { s with lockHeld := true, balancing := true } false rfl
  have hdead : (closeCore { s with lockHeld := true, balancing := true } false).1.dead = false := by simp [hd]
  have hq : (closeCore { s with lockHeld := true, balancing := true } false).1.queuedCalls = s.queuedCalls := by simp
  generalize closeCore { s with lockHeld := true, balancing := true } false = c at *
  refine ⟨PhB_of_PhM_arm hm _ _, hok.armTimer _ _ _, ?_, ?_, ?_⟩
  · simpa [armTimer] using hdead
  · simp [obsRun_append, obsRun_cons, obsStep, hrun]
  · simpa [armTimer] using hq

theorem debounce_not_balancing {s : LSt} (a : Nat) (hb : s.balancing = false) : debounce s a = none := by
  simp [debounce, hb]

theorem debounce_no_ptr {s : LSt} (a : Nat) (hp : s.timerPtr = none) : debounce s a = none := by
  simp [debounce, hp]

theorem debounce_no_timer {s : LSt} (a id : Nat) (hp : s.timerPtr = some id) (hf : findTimer s id = none) :
    debounce s a = none := by
  simp [debounce, hp, hf]

theorem debounce_pending {s : LSt} (a id : Nat) {t : Timer} (hb : s.balancing = true) (hp : s.timerPtr = some id)
    (hf : findTimer s id = some t) (hpend : t.pending = true) :
    debounce s a = some (setTimer s { t with deadline := a + s.delay }, [.debounced]) := by
  simp [debounce, hb, hp, hf, hpend]

theorem debounce_fired {s : LSt} (a id : Nat) {t : Timer} (hb : s.balancing = true) (hp : s.timerPtr = some id)
    (hf : findTimer s id = some t) (hpend : t.pending = false) :
    debounce s a = some (armTimer s a .Reb s.delay, [.reassigned]) := by
  simp [debounce, hb, hp, hf, hpend]

/-- the debounce branch inside the window: `Stop` succeeds, `Reset(delay)` -/
theorem debounce_window {s : LSt} (a : Nat) (ok : TimersOk s) (h : PhB s) :
    ∃ t ∈ s.timers, s.timerPtr = some t.id ∧ t.pending = true ∧ t.kind = .reb ∧
      debounce s a = some (setTimer s { t with deadline := a + s.delay }, [.debounced]) ∧
      PhB (setTimer s { t with deadline := a + s.delay }) ∧ TimersOk (setTimer s { t with deadline := a + s.delay }) := by
  obtain ⟨t, ht, hptr, hpend, hkind, huniq⟩ := h.2
  have hf := findTimer_of_mem ok ht
  refine ⟨t, ht, hptr, hpend, hkind, ?_, ⟨h.1.congr rfl rfl rfl rfl rfl rfl rfl rfl rfl, ?_⟩, ok.setTimer ht rfl⟩
  · exact debounce_pending a t.id h.1.balancing hptr hf hpend
  · exact OneReb.reset h.2 ok hptr hf

/-- one notification that arrives while the lock is held by a `Rebalance()` that is inside `Close` -/
def absorb (s : LSt) (a : Nat) : LSt × List LObs :=
  match debounce s a with
  | some r => r
  | none => ({ s with queuedCalls := s.queuedCalls + 1 }, [.queued])

theorem duringClose_succ (s : LSt) (a k : Nat) :
    duringClose s a (k + 1) = ((duringClose (absorb s a).1 a k).1, (absorb s a).2 ++ (duringClose (absorb s a).1 a k).2) := by
  simp only [duringClose, absorb]
  cases debounce s a <;> rfl

/-- it is absorbed by the old timer (`Reset`, or re-arm with `Rebalance` as callback) or queues on the lock -/
theorem absorb_PhM {s : LSt} (a : Nat) (ok : TimersOk s) (hd : s.dead = false) (h : PhM s) :
    PhM (absorb s a).1 ∧ TimersOk (absorb s a).1 ∧ (absorb s a).1.dead = false ∧ (∀ o ∈ (absorb s a).2, Neutral o) := by
  have hq : PhM { s with queuedCalls := s.queuedCalls + 1 } ∧ TimersOk { s with queuedCalls := s.queuedCalls + 1 } :=
    ⟨⟨h.1.congr rfl rfl rfl rfl rfl rfl rfl rfl rfl, h.2⟩, ⟨ok.lt, ok.uniq⟩⟩
  rcases hp : s.timerPtr with _ | id
  · rw [absorb, debounce_no_ptr a hp]
    exact ⟨hq.1, hq.2, hd, by simp [Neutral]⟩
  · rcases hf : findTimer s id with _ | t
    · rw [absorb, debounce_no_timer a id hp hf]
      exact ⟨hq.1, hq.2, hd, by simp [Neutral]⟩
    · have ⟨htm, _⟩ := findTimer_some hf
      rcases hpend : t.pending with _ | _
      · rw [absorb, debounce_fired a id h.1.balancing hp hf hpend]
        exact ⟨⟨h.1.congr rfl rfl rfl rfl rfl rfl rfl rfl rfl, h.2.armReb _ _⟩, ok.armTimer _ _ _, hd,
          by simp [Neutral]⟩
      · rw [absorb, debounce_pending a id h.1.balancing hp hf hpend]
        refine ⟨⟨h.1.congr rfl rfl rfl rfl rfl rfl rfl rfl rfl, NoReb.setTimer h.2 ?_⟩, ok.setTimer htm rfl, hd,
          by simp [Neutral]⟩
        intro _; exact h.2 t htm hpend

theorem duringClose_PhM {s : LSt} (a k : Nat) (ok : TimersOk s) (hd : s.dead = false) (h : PhM s) :
    PhM (duringClose s a k).1 ∧ TimersOk (duringClose s a k).1 ∧ (duringClose s a k).1.dead = false ∧
      (∀ o ∈ (duringClose s a k).2, Neutral o) := by
  induction k generalizing s with
  | zero => exact ⟨h, ok, hd, by simp [duringClose]⟩
  | succ k ih =>
    obtain ⟨h1, h2, h3, h4⟩ := absorb_PhM a ok hd h
    obtain ⟨i1, i2, i3, i4⟩ := ih h2 h3 h1
    rw [duringClose_succ]
    refine ⟨i1, i2, i3, ?_⟩
    intro o ho
    rcases List.mem_append.1 ho with ho | ho
    · exact h4 o ho
    · exact i4 o ho

/-! ## complete sub-steps -/

theorem obsStep_neutral {o : LObs} (p : Nat) (h : Neutral o) : obsStep p o = some p := by
  cases o <;> simp [Neutral] at h <;> rfl

theorem obsRun_filter (f : LObs → Bool) (l : List LObs) (p : Nat) (h : ∀ x ∈ l, f x = false → Neutral x) :
    obsRun p (l.filter f) = obsRun p l := by
  induction l generalizing p with
  | nil => rfl
  | cons x r ih =>
    have ihr := fun q => ih q fun y hy => h y (List.mem_cons_of_mem _ hy)
    cases hx : f x with
    | true => simp [hx, obsRun_cons, ihr]
    | false => simp [hx, obsRun_cons, ihr, obsStep_neutral p (h x List.mem_cons_self hx)]

/-- the silent outcomes of a timer-driven `Rebalance()` -/
def silent : LObs → Bool := fun x => x != .debounced && x != .reassigned

theorem Good.filter {s s' : LSt} {o : List LObs} (h : Good s o s') : Good s (o.filter silent) s' := by
  refine ⟨h.inv, ?_, ?_, h.mono⟩
  · intro hd
    rw [obsRun_filter]
    · exact h.run hd
    · intro x _ hx
      cases x <;> simp [silent] at hx <;> simp [Neutral]
  · intro hd
    rcases h.fs hd with h | ⟨w, hw⟩
    · exact Or.inl h
    · exact Or.inr ⟨w, List.mem_filter.2 ⟨hw, by simp [silent]⟩⟩

theorem Good.of_dead {s s' : LSt} {o : List LObs} (hd : s'.dead = true) (w : String) (hw : LObs.failstop w ∈ o) :
    Good s o s' :=
  ⟨.dead hd, fun h => (by rw [hd] at h; cases h), fun _ => Or.inr ⟨w, hw⟩, fun _ => hd⟩

/-- a sub-step between live states -/
theorem Good.of_live {s s' : LSt} {o : List LObs} (hd : s.dead = false) (hd' : s'.dead = false) (hi : Inv s')
    (hrun : obsRun (code s) o = some (code s')) : Good s o s' :=
  ⟨hi, fun _ => hrun, fun h => (by rw [hd'] at h; cases h), fun h => (by rw [hd] at h; cases h)⟩

theorem callRebalance_streaming {s : LSt} (a : Nat) (hb : s.balancing = false) (hl : s.lockHeld = false) :
    callRebalance s a = rebalanceLocked s a := by
  simp [callRebalance, debounce_not_balancing a hb, hl]

/-- one `Rebalance()` call from a live state of the invariant -/
theorem callRebalance_good {s : LSt} (a : Nat) (h : Inv s) (hd : s.dead = false) :
    Good s (callRebalance s a).2 (callRebalance s a).1 := by
  cases h with
  | dead hx => rw [hd] at hx; cases hx
  | pre _ ok h =>
    rw [callRebalance_streaming a h.balancing h.lockHeld, rebalanceLocked_closed s a h.obsNil h.balancing]
    exact Good.of_dead rfl "nil-observers" (by simp)
  | C _ ok h =>
    rw [callRebalance_streaming a h.balancing h.lockHeld, rebalanceLocked_closed s a h.obsNil h.balancing]
    exact Good.of_dead rfl "nil-observers" (by simp)
  | A _ ok h =>
    rw [callRebalance_streaming a h.balancing h.lockHeld]
    obtain ⟨hB, hok, hd', hrun, _⟩ := rebalanceLocked_from_streaming a ok hd h.everOpened h.obsNil h.balancing h.noReb h.active_le_live
    exact Good.of_live hd hd' (.B hd' hok hB) (by rw [h.code, hB.1.code]; exact hrun)
  | B _ ok h =>
    obtain ⟨t, _, _, _, _, hdb, hB, hok⟩ := debounce_window a ok h
    simp only [callRebalance, hdb]
    exact Good.of_live hd hd (.B hd hok hB) (by rw [h.1.code, hB.1.code]; rfl)

theorem Good.of_code {s s1 s' : LSt} {o : List LObs} (h : Good s1 o s') (hc : code s = code s1)
    (hd : s.dead = s1.dead) : Good s o s' :=
  ⟨h.inv, fun x => hc ▸ h.run x, fun x => hd ▸ h.fs x, fun x => h.mono (hd ▸ x)⟩

theorem notifyOverlapped_streaming (s : LSt) (k : Nat) (hb : s.balancing = false) (hl : s.lockHeld = false)
    (hn : s.obsNil = false) :
    notifyOverlapped s k =
      (armTimer (duringClose (closeCore { s with lockHeld := true, balancing := true } false).1 s.now k).1 s.now .reb
          (if (duringClose (closeCore { s with lockHeld := true, balancing := true } false).1 s.now k).1.dynamic then 0
           else (duringClose (closeCore { s with lockHeld := true, balancing := true } false).1 s.now k).1.delay),
       [.cb .BRS] ++ (closeCore { s with lockHeld := true, balancing := true } false).2 ++
         (duringClose (closeCore { s with lockHeld := true, balancing := true } false).1 s.now k).2 ++ [.cb .ARS]) := by
  simp [notifyOverlapped, debounce_not_balancing s.now hb, hl, hb, doClose_eq, hn]

theorem notifyOverlapped_closed (s : LSt) (k : Nat) (hb : s.balancing = false) (hl : s.lockHeld = false)
    (hn : s.obsNil = true) :
    notifyOverlapped s k =
      ({ s with lockHeld := true, balancing := true, dead := true }, [.cb .BRS, .failstop "nil-observers"]) := by
  simp [notifyOverlapped, debounce_not_balancing s.now hb, hl, hb, doClose_eq, hn]

/-- a notification whose `Close` is overlapped by `k` more notifications -/
theorem notifyOverlapped_good {s : LSt} (k : Nat) (h : Inv s) (hd : s.dead = false) :
    Good s (notifyOverlapped s k).2 (notifyOverlapped s k).1 := by
  cases h with
  | dead hx => rw [hd] at hx; cases hx
  | pre _ ok h =>
    rw [notifyOverlapped_closed s k h.balancing h.lockHeld h.obsNil]
    exact Good.of_dead rfl "nil-observers" (by simp)
  | C _ ok h =>
    rw [notifyOverlapped_closed s k h.balancing h.lockHeld h.obsNil]
    exact Good.of_dead rfl "nil-observers" (by simp)
  | A _ ok h =>
    rw [notifyOverlapped_streaming s k h.balancing h.lockHeld h.obsNil]
    have hm := PhM_after_close h.everOpened h.noReb h.active_le_live
    have hok := TimersOk_after_close false (s := { s with lockHeld := true, balancing := true }) ⟨ok.lt, ok.uniq⟩
    have hrun := obsRun_close_rebalance { s with lockHeld := true, balancing := true } false rfl
    have hdead : (closeCore { s with lockHeld := true, balancing := true } false).1.dead = false := by simp [hd]
    generalize closeCore { s with lockHeld := true, balancing := true } false = c at *
    obtain ⟨hm2, hok2, hd2, hneu⟩ := duringClose_PhM s.now k hok hdead hm
    generalize duringClose c.1 s.now k = r at *
    have hB := PhB_of_PhM_arm hm2 s.now (if r.1.dynamic then 0 else r.1.delay)
    refine Good.of_live hd (by simpa [armTimer] using hd2) (.B (by simpa [armTimer] using hd2) (hok2.armTimer _ _ _) hB) ?_
    rw [h.code, hB.1.code]
    simp [obsRun_append, obsRun_cons, obsStep, hrun, obsRun_neutral 5 r.2 hneu]
  | B _ ok h =>
    obtain ⟨t, _, _, _, _, hdb, hB, hok⟩ := debounce_window s.now ok h
    simp only [notifyOverlapped, hdb]
    exact Good.of_live hd hd (.B hd hok hB) (by rw [h.1.code, hB.1.code]; rfl)

/-- the streaming phase right after an `Open` -/
theorem PhA_of_open (s : LSt) (r q : Nat) (hq : q = 0) (hc : s.closeWithCancel = false) (hn : NoReb s) :
    PhA { (doOpen s).1 with rebalances := r, balancing := false, lockHeld := false, queuedCalls := q } where
  everOpened := rfl
  isOpen := rfl
  obsNil := rfl
  closedObs := rfl
  balancing := rfl
  lockHeld := rfl
  queued := hq
  noReb := hn
  cwc := hc
  fwc := rfl
  fwe := fun h => by simp [doOpen] at h
  keys := (doOpen_data s).1
  next := (doOpen_data s).2
  dirtyFlag := fun _ => rfl
  endedNodup := List.nodup_nil
  activeLe := by simp [doOpen]

/-- the stream object right after the reopen in `rebalance()`, with `q` calls still queued on the lock -/
def reopened (s : LSt) (q : Nat) : LSt :=
  { (doOpen s).1 with rebalances := s.rebalances + 1, balancing := false, lockHeld := false, queuedCalls := q }

/-- a fresh session: the server has every requested stream -/
theorem reopened_active_live (s : LSt) (q : Nat) : (reopened s q).active = ((live (reopened s q)).length : Int) := by
  have : live (reopened s q) = (reopened s q).pos := by
    unfold live
    exact List.filter_eq_self.2 (fun p _ => by simp [reopened, doOpen])
  rw [this]
  simp [reopened, doOpen]

theorem rebalanceFires_queued (s : LSt) (a : Nat) (hq : s.queuedCalls > 0) :
    rebalanceFires s a = ((rebalanceLocked (reopened s (s.queuedCalls - 1)) a).1,
      [.cb .BRE] ++ (doOpen s).2 ++ [.cb .ARE] ++ (rebalanceLocked (reopened s (s.queuedCalls - 1)) a).2) := by
  simp [rebalanceFires, reopened, doOpen, hq]

theorem rebalanceFires_plain (s : LSt) (a : Nat) (hq : s.queuedCalls = 0) :
    rebalanceFires s a = (reopened s s.queuedCalls, [.cb .BRE] ++ (doOpen s).2 ++ [.cb .ARE]) := by
  simp [rebalanceFires, reopened, doOpen, hq]

/-- `rebalance()` (the reopen timer callback), then at most one queued `Rebalance()` call gets the lock -/
theorem rebalanceFires_good {s : LSt} (a : Nat) (ok : TimersOk s) (hd : s.dead = false) (h : PhM s) :
    Good s (rebalanceFires s a).2 (rebalanceFires s a).1 := by
  have hopen : obsRun 6 ([.cb .BRE] ++ (doOpen s).2 ++ [.cb .ARE]) = some 2 := by
    have := obsRun_doOpen s 7 8 9 rfl (Or.inr rfl) rfl
    simp [obsRun_append, obsRun_cons, obsStep, this]
  by_cases hq : s.queuedCalls > 0
  · rw [rebalanceFires_queued s a hq]
    obtain ⟨hB, hok, hd', hrun, _⟩ := rebalanceLocked_from_streaming
      (s := reopened s (s.queuedCalls - 1)) a ⟨ok.lt, ok.uniq⟩ hd rfl rfl rfl h.2
      (Int.le_of_eq (reopened_active_live _ _))
    refine Good.of_live hd hd' (.B hd' hok hB) ?_
    rw [h.1.code, hB.1.code]
    exact obsRun_append_of hopen hrun
  · have hq0 : s.queuedCalls = 0 := by omega
    rw [rebalanceFires_plain s a hq0]
    have hA := PhA_of_open s (s.rebalances + 1) s.queuedCalls hq0 h.1.cwc h.2
    refine Good.of_live hd hd (.A hd ⟨ok.lt, ok.uniq⟩ hA) ?_
    rw [h.1.code]
    exact hopen.trans (congrArg some hA.code.symm)

/-! ## timers firing -/

/-- one timer fires: `Stop` would report false from now on; its callback runs -/
def fireOne (s : LSt) (t : Timer) : LSt × List LObs :=
  match t.kind with
  | .reb => rebalanceFires (setTimer s { t with pending := false }) t.deadline
  | .Reb => ((callRebalance (setTimer s { t with pending := false }) t.deadline).1,
             (callRebalance (setTimer s { t with pending := false }) t.deadline).2.filter silent)

theorem fireDue_zero (upto : Nat) (s : LSt) : fireDue upto 0 s = (s, []) := rfl

theorem fireDue_succ (upto fuel : Nat) (s : LSt) :
    fireDue upto (fuel + 1) s =
      if s.dead then (s, []) else
      match dueTimer s upto with
      | none => (s, [])
      | some t => ((fireDue upto fuel (fireOne s t).1).1, (fireOne s t).2 ++ (fireDue upto fuel (fireOne s t).1).2) := by
  cases hd : s.dead with
  | true => simp [fireDue, hd]
  | false =>
    cases hdue : dueTimer s upto with
    | none => simp [fireDue, hd, hdue]
    | some t =>
      cases hk : t.kind <;> simp only [fireDue, fireOne, hd, hdue, hk] <;> rfl

theorem fireOne_Reb (s : LSt) {t : Timer} (hk : t.kind = .Reb) :
    fireOne s t = ((callRebalance (setTimer s { t with pending := false }) t.deadline).1,
             (callRebalance (setTimer s { t with pending := false }) t.deadline).2.filter silent) := by
  simp only [fireOne, hk]

theorem fireOne_reb (s : LSt) {t : Timer} (hk : t.kind = .reb) :
    fireOne s t = rebalanceFires (setTimer s { t with pending := false }) t.deadline := by
  simp only [fireOne, hk]

theorem fireOne_good {s : LSt} {t : Timer} (h : Inv s) (hd : s.dead = false) (ht : t ∈ s.timers)
    (hp : t.pending = true) : Good s (fireOne s t).2 (fireOne s t).1 := by
  have ok' : ∀ ok : TimersOk s, TimersOk (setTimer s { t with pending := false }) := fun ok => ok.setTimer ht rfl
  have hReb : Inv (setTimer s { t with pending := false }) → t.kind = .Reb →
      Good s (fireOne s t).2 (fireOne s t).1 := by
    intro hi hk
    rw [fireOne_Reb s hk]
    exact (Good.of_code (s := s) (callRebalance_good t.deadline hi hd) rfl rfl).filter
  cases h with
  | dead hx => rw [hd] at hx; cases hx
  | pre _ ok h => exact hReb (.pre hd (ok' ok) { h with noReb := h.noReb.fire t }) (h.noReb t ht hp)
  | A _ ok h => exact hReb (.A hd (ok' ok) { h with noReb := h.noReb.fire t }) (h.noReb t ht hp)
  | C _ ok h => exact hReb (.C hd (ok' ok) { h with noReb := h.noReb.fire t }) (h.noReb t ht hp)
  | B _ ok h =>
    cases hk : t.kind with
    | Reb => exact hReb (.B hd (ok' ok) ⟨h.1.congr rfl rfl rfl rfl rfl rfl rfl rfl rfl, h.2.fire_Reb ok ht hk⟩) hk
    | reb =>
      rw [fireOne_reb s hk]
      exact Good.of_code (s := s) (rebalanceFires_good t.deadline (ok' ok) hd
        ⟨h.1.congr rfl rfl rfl rfl rfl rfl rfl rfl rfl, h.2.fire_reb ht hp hk⟩) rfl rfl

/-- every fuel: firing due timers keeps the invariant and the monitor accepts what they emit -/
theorem fireDue_good (upto fuel : Nat) {s : LSt} (h : Inv s) :
    Good s (fireDue upto fuel s).2 (fireDue upto fuel s).1 := by
  induction fuel generalizing s with
  | zero => exact Good.refl h
  | succ fuel ih =>
    rw [fireDue_succ]
    cases hd : s.dead with
    | true => exact Good.refl h
    | false =>
      simp only [Bool.false_eq_true, if_false]
      cases hdue : dueTimer s upto with
      | none => exact Good.refl h
      | some t =>
        obtain ⟨ht, hp, _⟩ := dueTimer_some hdue
        have g1 := fireOne_good h hd ht hp
        exact g1.trans (ih g1.inv)

/-! ## congruence of the phases (only the fields they mention matter) -/

theorem NoReb.congr {s s' : LSt} (h : NoReb s) (e : s'.timers = s.timers) : NoReb s' :=
  fun t ht => h t (e ▸ ht)

theorem OneReb.congr {s s' : LSt} (h : OneReb s) (e : s'.timers = s.timers) (ep : s'.timerPtr = s.timerPtr) :
    OneReb s' := by
  obtain ⟨t, ht, hp, r⟩ := h
  exact ⟨t, e ▸ ht, ep ▸ hp, r.1, r.2.1, fun u hu => r.2.2 u (e ▸ hu)⟩

theorem TimersOk.congr {s s' : LSt} (h : TimersOk s) (e : s'.timers = s.timers) (en : s'.nextTimer = s.nextTimer) :
    TimersOk s' :=
  ⟨fun t ht => en ▸ h.lt t (e ▸ ht), fun t ht u hu => h.uniq t (e ▸ ht) u (e ▸ hu)⟩

theorem PhPre.congr {s s' : LSt} (h : PhPre s) (e1 : s'.everOpened = s.everOpened) (e2 : s'.isOpen = s.isOpen)
    (e3 : s'.obsNil = s.obsNil) (e4 : s'.closedObs = s.closedObs) (e5 : s'.balancing = s.balancing)
    (e6 : s'.lockHeld = s.lockHeld) (e7 : s'.queuedCalls = s.queuedCalls) (e8 : s'.timers = s.timers)
    (e9 : s'.stopClosed = s.stopClosed) (e10 : s'.pos = s.pos) (e11 : s'.closeWithCancel = s.closeWithCancel) :
    PhPre s' :=
  ⟨e1 ▸ h.everOpened, e2 ▸ h.isOpen, e3 ▸ h.obsNil, e4 ▸ h.closedObs, e5 ▸ h.balancing, e6 ▸ h.lockHeld,
   e7 ▸ h.queued, h.noReb.congr e8, e9 ▸ h.stop, e10 ▸ h.pos, e11 ▸ h.cwc⟩

theorem PhC.congr {s s' : LSt} (h : PhC s) (e1 : s'.everOpened = s.everOpened) (e2 : s'.isOpen = s.isOpen)
    (e3 : s'.obsNil = s.obsNil) (e4 : s'.closedObs = s.closedObs) (e5 : s'.balancing = s.balancing)
    (e6 : s'.lockHeld = s.lockHeld) (e7 : s'.queuedCalls = s.queuedCalls) (e8 : s'.timers = s.timers)
    (e9 : s'.stopClosed = s.stopClosed) (e10 : s'.pos = s.pos) (e11 : s'.active = s.active) : PhC s' :=
  ⟨e1 ▸ h.everOpened, e2 ▸ h.isOpen, e3 ▸ h.obsNil, e4 ▸ h.closedObs, e5 ▸ h.balancing, e6 ▸ h.lockHeld,
   e7 ▸ h.queued, h.noReb.congr e8, e9 ▸ h.stop, e10 ▸ h.pos, e11 ▸ h.activeLe⟩

/-- the control part of phase A is kept; the data part is supplied -/
theorem PhA.congr {s s' : LSt} (h : PhA s) (e1 : s'.everOpened = s.everOpened) (e2 : s'.isOpen = s.isOpen)
    (e3 : s'.obsNil = s.obsNil) (e4 : s'.closedObs = s.closedObs) (e5 : s'.balancing = s.balancing)
    (e6 : s'.lockHeld = s.lockHeld) (e7 : s'.queuedCalls = s.queuedCalls) (e8 : s'.timers = s.timers)
    (e9 : s'.closeWithCancel = s.closeWithCancel) (e10 : s'.finishedWithClose = s.finishedWithClose)
    (fwe : s'.finishedWithEnd = true → s'.stopClosed = true)
    (keys : AMap.keys s'.pos = vbs s'.lo s'.hi)
    (next : ∀ vb, s'.nextSeq.get? vb = (s'.pos.get? vb).map (· + 1))
    (dirtyFlag : s'.anyDirty = false → s'.dirty = [])
    (endedNodup : s'.endedVbs.Nodup)
    (activeLe : s'.active + (s'.endedVbs.length : Int) ≤ ((vbs s'.lo s'.hi).length : Int)) : PhA s' :=
  ⟨e1 ▸ h.everOpened, e2 ▸ h.isOpen, e3 ▸ h.obsNil, e4 ▸ h.closedObs, e5 ▸ h.balancing, e6 ▸ h.lockHeld,
   e7 ▸ h.queued, h.noReb.congr e8, e9 ▸ h.cwc, e10 ▸ h.fwc, fwe, keys, next, dirtyFlag, endedNodup, activeLe⟩

/-- all fields the invariant and the monitor state depend on are unchanged -/
structure SameCtl (s s' : LSt) : Prop where
  everOpened : s'.everOpened = s.everOpened
  isOpen : s'.isOpen = s.isOpen
  obsNil : s'.obsNil = s.obsNil
  closedObs : s'.closedObs = s.closedObs
  balancing : s'.balancing = s.balancing
  lockHeld : s'.lockHeld = s.lockHeld
  queuedCalls : s'.queuedCalls = s.queuedCalls
  timers : s'.timers = s.timers
  timerPtr : s'.timerPtr = s.timerPtr
  nextTimer : s'.nextTimer = s.nextTimer
  closeWithCancel : s'.closeWithCancel = s.closeWithCancel
  finishedWithClose : s'.finishedWithClose = s.finishedWithClose
  finishedWithEnd : s'.finishedWithEnd = s.finishedWithEnd
  stopClosed : s'.stopClosed = s.stopClosed
  pos : s'.pos = s.pos
  lo : s'.lo = s.lo
  hi : s'.hi = s.hi
  nextSeq : s'.nextSeq = s.nextSeq
  anyDirty : s'.anyDirty = s.anyDirty
  dirty : s'.dirty = s.dirty
  active : s'.active = s.active
  endedVbs : s'.endedVbs = s.endedVbs
  dead : s'.dead = s.dead

theorem code_congr {s s' : LSt} (e : SameCtl s s') : code s' = code s := by
  simp [code, e.balancing, e.isOpen, e.everOpened]

theorem Inv.congr {s s' : LSt} (h : Inv s) (e : SameCtl s s') : Inv s' := by
  cases h with
  | dead hx => exact .dead (e.dead ▸ hx)
  | pre hd ok h =>
    exact .pre (e.dead ▸ hd) (ok.congr e.timers e.nextTimer)
      (h.congr e.everOpened e.isOpen e.obsNil e.closedObs e.balancing e.lockHeld e.queuedCalls e.timers e.stopClosed
        e.pos e.closeWithCancel)
  | C hd ok h =>
    exact .C (e.dead ▸ hd) (ok.congr e.timers e.nextTimer)
      (h.congr e.everOpened e.isOpen e.obsNil e.closedObs e.balancing e.lockHeld e.queuedCalls e.timers e.stopClosed
        e.pos e.active)
  | B hd ok h =>
    exact .B (e.dead ▸ hd) (ok.congr e.timers e.nextTimer)
      ⟨h.1.congr e.everOpened e.isOpen e.obsNil e.closedObs e.balancing e.lockHeld e.pos e.closeWithCancel e.active,
       h.2.congr e.timers e.timerPtr⟩
  | A hd ok h =>
    refine .A (e.dead ▸ hd) (ok.congr e.timers e.nextTimer)
      (h.congr e.everOpened e.isOpen e.obsNil e.closedObs e.balancing e.lockHeld e.queuedCalls e.timers
        e.closeWithCancel e.finishedWithClose ?_ ?_ ?_ ?_ ?_ ?_)
    · rw [e.finishedWithEnd, e.stopClosed]; exact h.fwe
    · rw [e.pos, e.lo, e.hi]; exact h.keys
    · rw [e.pos, e.nextSeq]; exact h.next
    · rw [e.anyDirty, e.dirty]; exact h.dirtyFlag
    · rw [e.endedVbs]; exact h.endedNodup
    · rw [e.active, e.endedVbs, e.lo, e.hi]; exact h.activeLe

/-- a sub-step that touches only configuration / environment / counters and emits neutral observations -/
theorem Good.env {s s' : LSt} {o : List LObs} (h : Inv s) (e : SameCtl s s') (ho : ∀ x ∈ o, Neutral x) :
    Good s o s' :=
  ⟨h.congr e, fun _ => by rw [code_congr e]; exact obsRun_neutral _ _ ho,
   fun hd => Or.inl (e.dead ▸ hd), fun hd => e.dead ▸ hd⟩

/-! ## stream ends -/

theorem listenEnd_closed (s : LSt) (vb : Nat) (c : EndCause) (h : s.closedObs = true) : listenEnd s vb c = (s, []) := by
  simp [listenEnd, h]

/-- `listenEnd` records a finally ended vBucket once -/
def endedAdd (e : List Nat) (vb : Nat) : List Nat := if e.contains vb then e else e ++ [vb]

theorem endedAdd_of_not_mem {e : List Nat} {vb : Nat} (h : vb ∉ e) : endedAdd e vb = e ++ [vb] := by
  simp [endedAdd, h]

theorem endedAdd_of_mem {e : List Nat} {vb : Nat} (h : vb ∈ e) : endedAdd e vb = e := by
  simp [endedAdd, h]

theorem mem_endedAdd {e : List Nat} {vb x : Nat} : x ∈ endedAdd e vb ↔ x ∈ e ∨ x = vb := by
  by_cases h : vb ∈ e
  · rw [endedAdd_of_mem h]
    constructor
    · exact Or.inl
    · rintro (hx | rfl); exact hx; exact h
  · rw [endedAdd_of_not_mem h]; simp

theorem endedAdd_nodup {e : List Nat} (vb : Nat) (h : e.Nodup) : (endedAdd e vb).Nodup := by
  by_cases hm : vb ∈ e
  · rw [endedAdd_of_mem hm]; exact h
  · rw [endedAdd_of_not_mem hm, List.nodup_append]
    exact ⟨h, by simp, by intro a ha b hb; simp at hb; subst hb; intro e'; subst e'; exact hm ha⟩

theorem endedAdd_length_le (e : List Nat) (vb : Nat) : (endedAdd e vb).length ≤ e.length + 1 := by
  unfold endedAdd; split <;> simp

/-- a final end on a streaming stream: the count drops; the last one produces the token that the prompt
    `wait()` goroutine turns into `close(stopCh)` (not balancing) -/
theorem listenEnd_final_A {s : LSt} (vb : Nat) {c : EndCause} (h : PhA s) (hc : c ≠ .transient) :
    listenEnd s vb c =
      if s.active - 1 = 0 then
        (if s.stopClosed then
           ({ s with active := s.active - 1, endedVbs := endedAdd s.endedVbs vb, finishedWithEnd := true }, [])
         else ({ s with active := s.active - 1, endedVbs := endedAdd s.endedVbs vb, finishedWithEnd := true,
                        stopClosed := true }, [.stop]))
      else ({ s with active := s.active - 1, endedVbs := endedAdd s.endedVbs vb }, []) := by
  cases c <;> simp [listenEnd, waitFires, endedAdd, h.closedObs, h.fwc, h.balancing] at hc ⊢ <;>
    (repeat' split) <;> simp_all

theorem listenEnd_transient_A {s : LSt} (vb : Nat) (h : PhA s) :
    listenEnd s vb .transient =
      match s.pos.get? vb with
      | some q => (s, [.openreq vb q])
      | none => ({ s with dead := true }, [.failstop "reopen-gave-up"]) := by
  have h1 := h.closedObs
  have h2 := h.cwc
  unfold listenEnd
  rw [h1, h2]
  rfl

theorem listenEnd_good {s : LSt} (vb : Nat) (c : EndCause) (h : Inv s) (hd : s.dead = false) :
    Good s (listenEnd s vb c).2 (listenEnd s vb c).1 := by
  cases h with
  | dead hx => rw [hd] at hx; cases hx
  | pre _ ok h => rw [listenEnd_closed s vb c h.closedObs]; exact Good.refl (.pre hd ok h)
  | B _ ok h => rw [listenEnd_closed s vb c h.1.closedObs]; exact Good.refl (.B hd ok h)
  | C _ ok h => rw [listenEnd_closed s vb c h.closedObs]; exact Good.refl (.C hd ok h)
  | A _ ok h =>
    by_cases hc : c = .transient
    · subst hc
      rw [listenEnd_transient_A vb h]
      cases hq : s.pos.get? vb with
      | none => exact Good.of_dead rfl "reopen-gave-up" (by simp)
      | some q => exact Good.of_live hd hd (.A hd ok h) (by rw [h.code]; rfl)
    · rw [listenEnd_final_A vb h hc]
      have hn : (endedAdd s.endedVbs vb).Nodup := endedAdd_nodup vb h.endedNodup
      have hle : s.active - 1 + ((endedAdd s.endedVbs vb).length : Int) ≤ ((vbs s.lo s.hi).length : Int) := by
        have h1 := endedAdd_length_le s.endedVbs vb
        have h2 := h.activeLe
        omega
      by_cases h0 : s.active - 1 = 0
      · rw [if_pos h0]
        by_cases hst : s.stopClosed = true
        · rw [if_pos hst]
          have hA : PhA { s with active := s.active - 1, endedVbs := endedAdd s.endedVbs vb, finishedWithEnd := true } :=
            h.congr rfl rfl rfl rfl rfl rfl rfl rfl rfl rfl (fun _ => hst) h.keys h.next h.dirtyFlag hn hle
          exact Good.of_live hd hd (.A hd ⟨ok.lt, ok.uniq⟩ hA) (by rw [h.code]; exact congrArg some hA.code.symm)
        · rw [if_neg hst]
          have hA : PhA { s with active := s.active - 1, endedVbs := endedAdd s.endedVbs vb, finishedWithEnd := true,
                                 stopClosed := true } :=
            h.congr rfl rfl rfl rfl rfl rfl rfl rfl rfl rfl (fun _ => rfl) h.keys h.next h.dirtyFlag hn hle
          exact Good.of_live hd hd (.A hd ⟨ok.lt, ok.uniq⟩ hA) (by rw [h.code]; exact congrArg some hA.code.symm)
      · rw [if_neg h0]
        have hA : PhA { s with active := s.active - 1, endedVbs := endedAdd s.endedVbs vb } :=
          h.congr rfl rfl rfl rfl rfl rfl rfl rfl rfl rfl h.fwe h.keys h.next h.dirtyFlag hn hle
        exact Good.of_live hd hd (.A hd ⟨ok.lt, ok.uniq⟩ hA) (by rw [h.code]; exact congrArg some hA.code.symm)

/-! ## events -/

theorem evStep_closed (s : LSt) (vb : Nat) (h : s.closedObs = true) : evStep s vb = (s, []) := by
  simp [evStep, h]

theorem PhA.inRange_of_next {s : LSt} (h : PhA s) {vb q : Nat} (hq : s.nextSeq.get? vb = some q) :
    s.lo ≤ vb ∧ vb ≤ s.hi ∧ AMap.has s.pos vb = true := by
  have hn := h.next vb
  rw [hq] at hn
  cases hp : s.pos.get? vb with
  | none => rw [hp] at hn; cases hn
  | some q' =>
    have hk : vb ∈ AMap.keys s.pos := (AMap.get?_isSome_iff_mem_keys s.pos vb).1 (by rw [hp]; rfl)
    rw [h.keys] at hk
    have := mem_vbs.1 hk
    exact ⟨this.1, this.2, by simp [AMap.has, hp]⟩

/-- the stream object after one delivered and acknowledged event -/
def delivered (s : LSt) (vb q : Nat) : LSt :=
  { s with nextSeq := s.nextSeq.set vb (q + 1), pos := s.pos.set vb q,
           dirty := if s.dirty.contains vb then s.dirty else s.dirty ++ [vb], anyDirty := true }

/-- one event on a streaming stream: delivered, acknowledged, position and dirty mark set -/
theorem evStep_A {s : LSt} (vb : Nat) (h : PhA s) :
    evStep s vb =
      match s.nextSeq.get? vb with
      | none => (s, [])
      | some q => (delivered s vb q, [.deliver vb q]) := by
  cases hq : s.nextSeq.get? vb with
  | none =>
    have h1 := h.closedObs
    simp only [evStep, hq]
    rw [h1]; rfl
  | some q =>
    obtain ⟨h1, h2, _⟩ := h.inRange_of_next hq
    have h3 := h.closedObs
    have hin : inRange { s with nextSeq := s.nextSeq.set vb (q + 1) } vb = true := by simp [inRange, h1, h2]
    simp only [evStep, hq, hin, delivered]
    rw [h3]; rfl

theorem evStep_good {s : LSt} (vb : Nat) (h : Inv s) (hd : s.dead = false) :
    Good s (evStep s vb).2 (evStep s vb).1 := by
  cases h with
  | dead hx => rw [hd] at hx; cases hx
  | pre _ ok h => rw [evStep_closed s vb h.closedObs]; exact Good.refl (.pre hd ok h)
  | B _ ok h => rw [evStep_closed s vb h.1.closedObs]; exact Good.refl (.B hd ok h)
  | C _ ok h => rw [evStep_closed s vb h.closedObs]; exact Good.refl (.C hd ok h)
  | A _ ok h =>
    rw [evStep_A vb h]
    rcases hq : s.nextSeq.get? vb with _ | q
    · exact Good.refl (.A hd ok h)
    · obtain ⟨_, _, hhas⟩ := h.inRange_of_next hq
      have hA : PhA (delivered s vb q) := by
        refine h.congr rfl rfl rfl rfl rfl rfl rfl rfl rfl rfl h.fwe ?_ ?_ (fun hx => by cases hx) h.endedNodup h.activeLe
        · exact (AMap.keys_set_of_has q hhas).trans h.keys
        · intro vb'
          show (s.nextSeq.set vb (q + 1)).get? vb' = ((s.pos.set vb q).get? vb').map (· + 1)
          rw [AMap.get?_set, AMap.get?_set]
          by_cases e : vb' = vb
          · simp [e]
          · simp [e, h.next vb']
      exact Good.of_live hd hd (.A hd ⟨ok.lt, ok.uniq⟩ hA) (by rw [h.code]; exact congrArg some hA.code.symm)

/-! ## saves -/

theorem saveStep_fields (s : LSt) :
    SameCtl s { (saveStep s).1 with dirty := s.dirty, anyDirty := s.anyDirty } := by
  unfold saveStep
  split <;> constructor <;> rfl

theorem saveStep_dirtyFlag (s : LSt) (h : s.anyDirty = false → s.dirty = []) :
    (saveStep s).1.anyDirty = false → (saveStep s).1.dirty = [] := by
  unfold saveStep
  split
  · simpa using h
  · intro _; rfl

theorem saveStep_out_nil (s : LSt) (h : s.pos = []) : (saveStep s).2 = [] := by
  unfold saveStep
  split <;> simp [h]

theorem saveStep_out (s : LSt) : ∃ w : List (Nat × Nat), (saveStep s).2 = w.map fun (vb, q) => LObs.written vb q := by
  unfold saveStep
  split
  · exact ⟨[], rfl⟩
  · exact ⟨_, rfl⟩

theorem saveStep_good {s : LSt} (h : Inv s) (hd : s.dead = false) : Good s (saveStep s).2 (saveStep s).1 := by
  have e := saveStep_fields s
  have hd' : (saveStep s).1.dead = false := e.dead.trans hd
  have hok : ∀ ok : TimersOk s, TimersOk (saveStep s).1 := fun ok => ok.congr e.timers e.nextTimer
  cases h with
  | dead hx => rw [hd] at hx; cases hx
  | pre _ ok h =>
    have hP := h.congr (s' := (saveStep s).1) e.everOpened e.isOpen e.obsNil e.closedObs e.balancing e.lockHeld
      e.queuedCalls e.timers e.stopClosed e.pos e.closeWithCancel
    exact Good.of_live hd hd' (.pre hd' (hok ok) hP) (by rw [saveStep_out_nil s h.pos, h.code]; exact congrArg some hP.code.symm)
  | C _ ok h =>
    have hP := h.congr (s' := (saveStep s).1) e.everOpened e.isOpen e.obsNil e.closedObs e.balancing e.lockHeld
      e.queuedCalls e.timers e.stopClosed e.pos e.active
    exact Good.of_live hd hd' (.C hd' (hok ok) hP) (by rw [saveStep_out_nil s h.pos, h.code]; exact congrArg some hP.code.symm)
  | B _ ok h =>
    have hP := h.1.congr (s' := (saveStep s).1) e.everOpened e.isOpen e.obsNil e.closedObs e.balancing e.lockHeld
      e.pos e.closeWithCancel e.active
    exact Good.of_live hd hd' (.B hd' (hok ok) ⟨hP, h.2.congr e.timers e.timerPtr⟩)
      (by rw [saveStep_out_nil s h.1.pos, h.1.code]; exact congrArg some hP.code.symm)
  | A _ ok h =>
    have hP : PhA (saveStep s).1 := by
      refine h.congr e.everOpened e.isOpen e.obsNil e.closedObs e.balancing e.lockHeld
        e.queuedCalls e.timers e.closeWithCancel e.finishedWithClose ?_ ?_ ?_ (saveStep_dirtyFlag s h.dirtyFlag) ?_ ?_
      · have e1 := e.finishedWithEnd; have e2 := e.stopClosed
        simp only at e1 e2; rw [e1, e2]; exact h.fwe
      · have e1 := e.pos; have e2 := e.lo; have e3 := e.hi
        simp only at e1 e2 e3; rw [e1, e2, e3]; exact h.keys
      · have e1 := e.pos; have e2 := e.nextSeq
        simp only at e1 e2; rw [e1, e2]; exact h.next
      · have e1 := e.endedVbs
        simp only at e1; rw [e1]; exact h.endedNodup
      · have e1 := e.endedVbs; have e2 := e.active; have e3 := e.lo; have e4 := e.hi
        simp only at e1 e2 e3 e4; rw [e1, e2, e3, e4]; exact h.activeLe
    obtain ⟨w, hw⟩ := saveStep_out s
    exact Good.of_live hd hd' (.A hd' (hok ok) hP) (by rw [hw, h.code]; exact (obsRun_writtens w).trans (congrArg some hP.code.symm))

/-! ## shutdown -/

/-- `stream.Close(cancel)` as called by `dcp.close` -/
def closeOp (s : LSt) (c : Bool) : LSt × List LObs :=
  match doClose s c with
  | some r => r
  | none => ({ s with dead := true }, [.cb .BSP, .failstop "nil-observers"])

/-- the final save of `dcp.close` in auto mode -/
def finalSave (s : LSt) : LSt × List LObs := if s.auto then saveStep s else (s, [])

theorem stepCore_shutdown (s : LSt) (c : Bool) :
    stepCore s (.shutdown c) = ((closeOp (finalSave s).1 c).1, (finalSave s).2 ++ (closeOp (finalSave s).1 c).2) := by
  simp only [stepCore, closeOp, finalSave]
  generalize (if s.auto then saveStep s else (s, [])) = sv
  obtain ⟨s1, o1⟩ := sv
  simp only
  cases doClose s1 c with
  | none => rfl
  | some r => rfl

theorem closeOp_open (s : LSt) (c : Bool) (h : s.obsNil = false) : closeOp s c = closeCore s c := by
  simp [closeOp, doClose_eq, h]

theorem closeOp_nil (s : LSt) (c : Bool) (h : s.obsNil = true) :
    closeOp s c = ({ s with dead := true }, [.cb .BSP, .failstop "nil-observers"]) := by
  simp [closeOp, doClose_eq, h]

theorem PhC_of_close {s : LSt} (c : Bool) (h : PhA s) : PhC (closeCore s c).1 :=
  ⟨by simp [h.everOpened], by simp, by simp, by simp, by simp [h.balancing], by simp [h.lockHeld],
   by simp [h.queued], h.noReb.congr (by simp), closeCore_stop_streaming s c h.balancing h.fwc h.fwe, by simp,
   by have := h.active_le_live; rw [closeCore_active]; omega⟩

theorem closeOp_good {s : LSt} (c : Bool) (h : Inv s) (hd : s.dead = false) :
    Good s (closeOp s c).2 (closeOp s c).1 := by
  cases h with
  | dead hx => rw [hd] at hx; cases hx
  | pre _ ok h => rw [closeOp_nil s c h.obsNil]; exact Good.of_dead rfl "nil-observers" (by simp)
  | B _ ok h => rw [closeOp_nil s c h.1.obsNil]; exact Good.of_dead rfl "nil-observers" (by simp)
  | C _ ok h => rw [closeOp_nil s c h.obsNil]; exact Good.of_dead rfl "nil-observers" (by simp)
  | A _ ok h =>
    rw [closeOp_open s c h.obsNil]
    have hC := PhC_of_close c h
    have hd' : (closeCore s c).1.dead = false := by simp [hd]
    exact Good.of_live hd hd' (.C hd' (TimersOk_after_close c ok) hC)
      (by rw [h.code]; exact (obsRun_close_final s c 2 rfl).trans (congrArg some hC.code.symm))

theorem finalSave_good {s : LSt} (h : Inv s) (hd : s.dead = false) : Good s (finalSave s).2 (finalSave s).1 := by
  unfold finalSave
  cases s.auto
  · exact Good.refl h
  · exact saveStep_good h hd

theorem finalSave_dead (s : LSt) : (finalSave s).1.dead = s.dead := by
  unfold finalSave
  cases s.auto
  · rfl
  · exact (saveStep_fields s).dead

/-! ## one op -/

theorem SameCtl.refl (s : LSt) : SameCtl s s := by constructor <;> rfl

/-- `Open` is called once, on a stream that was never opened (`dcp.Start`) -/
def OpenOk (s : LSt) (op : LOp) : Prop := op = .open → s.everOpened = false

theorem stepCore_good {s : LSt} (op : LOp) (h : Inv s) (hd : s.dead = false) (hopen : OpenOk s op) :
    Good s (stepCore s op).2 (stepCore s op).1 := by
  cases op with
  | member lo hi => exact Good.env h (by constructor <;> rfl) (by simp [stepCore])
  | setStore vb q => exact Good.env h (by constructor <;> rfl) (by simp [stepCore])
  | «open» =>
    have he := hopen rfl
    cases h with
    | dead hx => rw [hd] at hx; cases hx
    | A _ _ h => rw [h.everOpened] at he; cases he
    | B _ _ h => rw [h.1.everOpened] at he; cases he
    | C _ _ h => rw [h.everOpened] at he; cases he
    | pre _ ok h =>
      have hA : PhA (doOpen s).1 :=
        PhA_of_open s s.rebalances s.queuedCalls h.queued h.cwc h.noReb |>.congr
          rfl rfl rfl rfl h.balancing h.lockHeld rfl rfl rfl rfl (fun hx => by simp [doOpen] at hx)
          (doOpen_data s).1 (doOpen_data s).2 (fun _ => rfl) List.nodup_nil (by simp [doOpen])
      exact Good.of_live hd hd (.A hd ⟨ok.lt, ok.uniq⟩ hA)
        (by rw [h.code]; exact (obsRun_doOpen s 0 1 2 rfl (Or.inl rfl) rfl).trans (congrArg some hA.code.symm))
  | notify => exact callRebalance_good s.now h hd
  | notifyApi =>
    simp only [stepCore]
    by_cases ho : s.isOpen = true
    · rw [if_pos ho]; exact callRebalance_good s.now h hd
    · rw [if_neg ho]; exact Good.env h (SameCtl.refl s) (by simp [Neutral])
  | notifyDuringClose k => exact notifyOverlapped_good k h hd
  | tick d =>
    have g := fireDue_good (s.now + d) 64 h
    have g2 : Good (fireDue (s.now + d) 64 s).1 [] { (fireDue (s.now + d) 64 s).1 with now := s.now + d } :=
      Good.env g.inv (by constructor <;> rfl) (by simp)
    have := g.trans g2
    simpa [stepCore] using this
  | endEv vb c => exact listenEnd_good vb c h hd
  | ev vb => exact evStep_good vb h hd
  | save => exact saveStep_good h hd
  | shutdown c =>
    rw [stepCore_shutdown]
    have g := finalSave_good h hd
    exact g.trans (closeOp_good c g.inv ((finalSave_dead s).trans hd))
  | query => exact Good.env h (SameCtl.refl s) (by simp [stepCore, Neutral])

/-- once `stopCh` is closed `dcp.Start` only runs `close()`: every op but shutdown / query is dropped -/
def ignored (s : LSt) (op : LOp) : Bool :=
  s.stopClosed && !(match op with | .shutdown _ => true | .query => true | _ => false)

theorem step_eq (s : LSt) (op : LOp) :
    step s op =
      if s.dead then (s, []) else
      if ignored s op then (s, []) else
      ((fireDue (stepCore s op).1.now 64 (stepCore s op).1).1,
       (stepCore s op).2 ++ (fireDue (stepCore s op).1.now 64 (stepCore s op).1).2) := by
  unfold step ignored
  by_cases hd : s.dead = true
  · rw [if_pos hd, if_pos hd]
  · rw [if_neg hd, if_neg hd]
    generalize (s.stopClosed && !(match op with | .shutdown _ => true | .query => true | _ => false)) = b
    by_cases hi : b = true
    · rw [if_pos hi]
    · rw [if_neg hi]

/-- **the invariant is preserved by every op** (every timer firing included), the monitor accepts the
    step's observations from the state of the old phase to that of the new one unless the step
    fail-stops, and `dead` is raised only together with a `failstop` observation -/
theorem step_good {s : LSt} (op : LOp) (h : Inv s) (hopen : OpenOk s op) :
    Good s (step s op).2 (step s op).1 := by
  rw [step_eq]
  by_cases hd : s.dead = true
  · rw [if_pos hd]; exact Good.refl h
  · rw [if_neg hd]
    by_cases hi : ignored s op = true
    · rw [if_pos hi]; exact Good.refl h
    · rw [if_neg hi]
      have hd' : s.dead = false := by simpa using hd
      have g := stepCore_good op h hd' hopen
      exact g.trans (fireDue_good _ 64 g.inv)

/-! ## runs -/

theorem run_nil (s : LSt) : run s [] = s := rfl
theorem run_cons (s : LSt) (op : LOp) (r : List LOp) : run s (op :: r) = run (step s op).1 r := rfl
theorem runTrace_nil (s : LSt) : runTrace s [] = [] := rfl
theorem runTrace_cons (s : LSt) (op : LOp) (r : List LOp) :
    runTrace s (op :: r) = (step s op).2 :: runTrace (step s op).1 r := rfl

theorem run_append (s : LSt) (a b : List LOp) : run s (a ++ b) = run (run s a) b := by
  simp [run, List.foldl_append]

theorem runTrace_append (s : LSt) (a b : List LOp) :
    runTrace s (a ++ b) = runTrace s a ++ runTrace (run s a) b := by
  induction a generalizing s with
  | nil => rfl
  | cons op r ih => simp [runTrace_cons, run_cons, ih]

theorem runTrace_length (s : LSt) (ops : List LOp) : (runTrace s ops).length = ops.length := by
  induction ops generalizing s with
  | nil => rfl
  | cons op r ih => simp [runTrace_cons, ih]

/-- `Open` only ever on a never-opened stream, along the whole run -/
def OpsOk (s : LSt) : List LOp → Prop
  | [] => True
  | op :: r => OpenOk s op ∧ OpsOk (step s op).1 r

/-- no `Open` in the op list -/
def NoOpen (ops : List LOp) : Prop := ∀ op ∈ ops, op ≠ .open

theorem OpsOk_of_NoOpen (s : LSt) {ops : List LOp} (h : NoOpen ops) : OpsOk s ops := by
  induction ops generalizing s with
  | nil => trivial
  | cons op r ih =>
    exact ⟨fun e => absurd e (h op List.mem_cons_self), ih _ fun o ho => h o (List.mem_cons_of_mem _ ho)⟩

theorem OpsOk_open {s : LSt} (h : s.everOpened = false) {ops : List LOp} (hn : NoOpen ops) : OpsOk s (.open :: ops) :=
  ⟨fun _ => h, OpsOk_of_NoOpen _ hn⟩

theorem OpsOk_append {s : LSt} {a b : List LOp} (h : OpsOk s (a ++ b)) : OpsOk s a ∧ OpsOk (run s a) b := by
  induction a generalizing s with
  | nil => exact ⟨trivial, h⟩
  | cons op r ih => exact ⟨⟨h.1, (ih h.2).1⟩, (ih h.2).2⟩

theorem OpsOk_take {s : LSt} {ops : List LOp} (h : OpsOk s ops) (n : Nat) : OpsOk s (ops.take n) := by
  have := List.take_append_drop n ops
  rw [← this] at h
  exact (OpsOk_append h).1

/-- **the run theorem**: the invariant holds after every run; the monitor accepts the whole trace and ends
    in the state of the final phase unless a fail-stop happened; `dead` only together with a `failstop` -/
theorem run_good {s : LSt} {ops : List LOp} (h : Inv s) (hok : OpsOk s ops) :
    Good s (runTrace s ops).flatten (run s ops) := by
  induction ops generalizing s with
  | nil => exact Good.refl h
  | cons op r ih =>
    have g := step_good op h hok.1
    rw [runTrace_cons, run_cons, List.flatten_cons]
    exact g.trans (ih g.inv hok.2)

/-- a state before `Open` (any configuration, membership, stored checkpoints) -/
theorem Inv.of_pre {s : LSt} (hd : s.dead = false) (ok : TimersOk s) (h : PhPre s) : Inv s := .pre hd ok h

/-- the literal initial states of the harness -/
theorem initial_pre (delay : Nat) (dynamic auto : Bool) (lo hi : Nat) (store : AMap Nat) :
    let s0 : LSt := { delay := delay, dynamic := dynamic, auto := auto, memLo := lo, memHi := hi, store := store }
    s0.dead = false ∧ TimersOk s0 ∧ PhPre s0 := by
  refine ⟨rfl, ⟨by simp, by simp⟩, ⟨rfl, rfl, rfl, rfl, rfl, rfl, rfl, ?_, rfl, rfl, rfl⟩⟩
  intro t ht; simp at ht

theorem dead_step (s : LSt) (op : LOp) (h : s.dead = true) : step s op = (s, []) := by
  rw [step_eq, if_pos h]

theorem dead_run (s : LSt) (ops : List LOp) (h : s.dead = true) : run s ops = s := by
  induction ops with
  | nil => rfl
  | cons op r ih => rw [run_cons, dead_step s op h]; exact ih

/-! ## what a rebalance can emit (every state, no invariant needed) -/

/-- observations of the rebalance machinery: callbacks, open / close requests, the debounce outcomes,
    a fail-stop – never `stop`, a delivery or a checkpoint write -/
def RebAlpha : LObs → Prop
  | .cb _ | .openreq .. | .closereq _ | .failstop _ | .queued | .debounced | .reassigned => True
  | _ => False

/-- observations of a `Rebalance()` that gets the lock: its own brackets and those of `Close`, close requests,
    a fail-stop – never a bracket of `Open` or of the reopen -/
def CloseAlpha : LObs → Prop
  | .cb .BRS | .cb .ARS | .cb .BSP | .cb .ASP | .closereq _ | .failstop _ => True
  | _ => False

theorem CloseAlpha.noASS {x : LObs} (h : CloseAlpha x) : x ≠ .cb .ASS := by
  intro e; subst e; exact h

theorem Neutral.noASS {x : LObs} (h : Neutral x) : x ≠ .cb .ASS := by
  intro e; subst e; exact h

theorem CloseAlpha.reb {x : LObs} (h : CloseAlpha x) : RebAlpha x := by
  cases x <;> simp_all [CloseAlpha, RebAlpha]

theorem closeCore_alpha (s : LSt) (c : Bool) (hb : s.balancing = true) : ∀ x ∈ (closeCore s c).2, CloseAlpha x := by
  obtain ⟨o2, o4, ho, h2, h4⟩ := closeCore_out s c
  have e2 : o2 = [] := by rcases h2 with h | ⟨_, h⟩; exact h; rw [hb] at h; cases h
  have e4 : o4 = [] := by rcases h4 with h | ⟨_, h⟩; exact h; rw [hb] at h; cases h
  subst e2 e4
  rw [ho]
  intro x hx
  simp only [List.append_nil, List.mem_append, List.mem_cons, List.mem_map, List.not_mem_nil, or_false] at hx
  rcases hx with (rfl | ⟨p, _, rfl⟩) | rfl <;> simp [CloseAlpha]

theorem rebalanceLocked_alpha' (s : LSt) (a : Nat) : ∀ x ∈ (rebalanceLocked s a).2, CloseAlpha x := by
  have hc := closeCore_alpha { s with lockHeld := true, balancing := true } false rfl
  have key : ∀ (r : LSt × List LObs) (d : Nat), (∀ x ∈ r.2, CloseAlpha x) →
      ∀ x ∈ (if r.1.dead then (r.1, [LObs.cb .BRS] ++ r.2)
              else (armTimer r.1 a .reb d, [LObs.cb .BRS] ++ r.2 ++ [LObs.cb .ARS])).2, CloseAlpha x := by
    intro r d hr x hx
    split at hx
    · simp only [List.mem_append, List.mem_cons, List.not_mem_nil, or_false] at hx
      rcases hx with rfl | hx
      · simp [CloseAlpha]
      · exact hr x hx
    · simp only [List.mem_append, List.mem_cons, List.not_mem_nil, or_false] at hx
      rcases hx with (rfl | hx) | rfl
      · simp [CloseAlpha]
      · exact hr x hx
      · simp [CloseAlpha]
  by_cases hb : s.balancing = true
  · have e : rebalanceLocked s a =
        (if ({ s with lockHeld := true }, ([] : List LObs)).1.dead
          then (({ s with lockHeld := true }, ([] : List LObs)).1, [LObs.cb .BRS] ++ ({ s with lockHeld := true }, ([] : List LObs)).2)
          else (armTimer ({ s with lockHeld := true }, ([] : List LObs)).1 a .reb (if s.dynamic then 0 else s.delay),
                [LObs.cb .BRS] ++ ({ s with lockHeld := true }, ([] : List LObs)).2 ++ [LObs.cb .ARS])) := by
      simp [rebalanceLocked, hb]
    rw [e]
    exact key _ _ (by simp)
  · have hb' : s.balancing = false := by simpa using hb
    by_cases hn : s.obsNil = true
    · rw [rebalanceLocked_closed s a hn hb']
      intro x hx
      simp only [List.mem_cons, List.not_mem_nil, or_false] at hx
      rcases hx with rfl | rfl <;> simp [CloseAlpha]
    · have hn' : s.obsNil = false := by simpa using hn
      have e : rebalanceLocked s a =
          (if (closeCore { s with lockHeld := true, balancing := true } false).1.dead
            then ((closeCore { s with lockHeld := true, balancing := true } false).1,
                  [LObs.cb .BRS] ++ (closeCore { s with lockHeld := true, balancing := true } false).2)
            else (armTimer (closeCore { s with lockHeld := true, balancing := true } false).1 a .reb
                    (if s.dynamic then 0 else s.delay),
                  [LObs.cb .BRS] ++ (closeCore { s with lockHeld := true, balancing := true } false).2 ++ [LObs.cb .ARS])) := by
        simp [rebalanceLocked, hb', doClose_eq, hn']
      rw [e]
      exact key _ _ hc

theorem rebalanceLocked_alpha (s : LSt) (a : Nat) : ∀ x ∈ (rebalanceLocked s a).2, RebAlpha x :=
  fun x hx => (rebalanceLocked_alpha' s a x hx).reb

theorem debounce_alpha {s : LSt} {a : Nat} {r : LSt × List LObs} (h : debounce s a = some r) :
    r.2 = [.debounced] ∨ r.2 = [.reassigned] := by
  simp only [debounce] at h
  (repeat' split at h) <;> first | (cases h; first | exact Or.inl rfl | exact Or.inr rfl) | cases h

theorem callRebalance_alpha (s : LSt) (a : Nat) : ∀ x ∈ (callRebalance s a).2, RebAlpha x := by
  unfold callRebalance
  cases hdb : debounce s a with
  | some r => rcases debounce_alpha hdb with h | h <;> simp [h, RebAlpha]
  | none =>
    simp only
    split
    · simp [RebAlpha]
    · exact rebalanceLocked_alpha s a

theorem absorb_alpha (s : LSt) (a : Nat) : ∀ x ∈ (absorb s a).2, Neutral x := by
  unfold absorb
  cases hdb : debounce s a with
  | some r => rcases debounce_alpha hdb with h | h <;> simp [h, Neutral]
  | none => simp [Neutral]

theorem duringClose_alpha (s : LSt) (a k : Nat) : ∀ x ∈ (duringClose s a k).2, Neutral x := by
  induction k generalizing s with
  | zero => simp [duringClose]
  | succ k ih =>
    rw [duringClose_succ]
    intro x hx
    rcases List.mem_append.1 hx with hx | hx
    · exact absorb_alpha s a x hx
    · exact ih _ x hx

theorem absorb_alpha' (s : LSt) (a : Nat) : ∀ x ∈ (absorb s a).2, RebAlpha x := by
  unfold absorb
  cases hdb : debounce s a with
  | some r => rcases debounce_alpha hdb with h | h <;> simp [h, RebAlpha]
  | none => simp [RebAlpha]

theorem duringClose_alpha' (s : LSt) (a k : Nat) : ∀ x ∈ (duringClose s a k).2, RebAlpha x := by
  induction k generalizing s with
  | zero => simp [duringClose]
  | succ k ih =>
    rw [duringClose_succ]
    intro x hx
    rcases List.mem_append.1 hx with hx | hx
    · exact absorb_alpha' s a x hx
    · exact ih _ x hx

theorem notifyOverlapped_alpha (s : LSt) (k : Nat) : ∀ x ∈ (notifyOverlapped s k).2, RebAlpha x := by
  cases hdb : debounce s s.now with
  | some r =>
    have e : notifyOverlapped s k = r := by simp [notifyOverlapped, hdb]
    rw [e]
    rcases debounce_alpha hdb with h | h <;> simp [h, RebAlpha]
  | none =>
    by_cases hl : s.lockHeld = true
    · have e : notifyOverlapped s k = ({ s with queuedCalls := s.queuedCalls + 1 }, [.queued]) := by
        simp [notifyOverlapped, hdb, hl]
      rw [e]; simp [RebAlpha]
    · by_cases hb : s.balancing = true
      · have e : notifyOverlapped s k = rebalanceLocked s s.now := by simp [notifyOverlapped, hdb, hl, hb]
        rw [e]; exact rebalanceLocked_alpha s s.now
      · have hl' : s.lockHeld = false := by simpa using hl
        have hb' : s.balancing = false := by simpa using hb
        by_cases hn : s.obsNil = true
        · rw [notifyOverlapped_closed s k hb' hl' hn]
          intro x hx
          simp only [List.mem_cons, List.not_mem_nil, or_false] at hx
          rcases hx with rfl | rfl <;> simp [RebAlpha]
        · rw [notifyOverlapped_streaming s k hb' hl' (by simpa using hn)]
          have hc := closeCore_alpha { s with lockHeld := true, balancing := true } false rfl
          have hk := duringClose_alpha' (closeCore { s with lockHeld := true, balancing := true } false).1 s.now k
          intro x hx
          simp only [List.mem_append, List.mem_cons, List.not_mem_nil, or_false] at hx
          rcases hx with ((rfl | hx) | hx) | rfl
          · simp [RebAlpha]
          · exact (hc x hx).reb
          · exact hk x hx
          · simp [RebAlpha]

theorem doOpen_alpha (s : LSt) : ∀ x ∈ (doOpen s).2, RebAlpha x := by
  rw [doOpen_out]
  intro x hx
  simp only [List.mem_append, List.mem_cons, List.mem_map, List.not_mem_nil, or_false] at hx
  rcases hx with (rfl | ⟨p, _, rfl⟩) | rfl <;> simp [RebAlpha]

theorem rebalanceFires_alpha (s : LSt) (a : Nat) : ∀ x ∈ (rebalanceFires s a).2, RebAlpha x := by
  have ho := doOpen_alpha s
  by_cases hq : s.queuedCalls > 0
  · rw [rebalanceFires_queued s a hq]
    have hl := rebalanceLocked_alpha (reopened s (s.queuedCalls - 1)) a
    intro x hx
    simp only [List.mem_append, List.mem_cons, List.not_mem_nil, or_false] at hx
    rcases hx with ((rfl | hx) | rfl) | hx
    · simp [RebAlpha]
    · exact ho x hx
    · simp [RebAlpha]
    · exact hl x hx
  · rw [rebalanceFires_plain s a (by omega)]
    intro x hx
    simp only [List.mem_append, List.mem_cons, List.not_mem_nil, or_false] at hx
    rcases hx with (rfl | hx) | rfl
    · simp [RebAlpha]
    · exact ho x hx
    · simp [RebAlpha]

theorem fireOne_alpha (s : LSt) (t : Timer) : ∀ x ∈ (fireOne s t).2, RebAlpha x := by
  cases hk : t.kind with
  | reb => rw [fireOne_reb s hk]; exact rebalanceFires_alpha _ _
  | Reb =>
    rw [fireOne_Reb s hk]
    intro x hx
    exact callRebalance_alpha _ _ x (List.mem_filter.1 hx).1

theorem fireDue_alpha (upto fuel : Nat) (s : LSt) : ∀ x ∈ (fireDue upto fuel s).2, RebAlpha x := by
  induction fuel generalizing s with
  | zero => simp [fireDue_zero]
  | succ fuel ih =>
    rw [fireDue_succ]
    split
    · simp
    · split
      · simp
      · intro x hx
        rcases List.mem_append.1 hx with hx | hx
        · exact fireOne_alpha _ _ x hx
        · exact ih _ x hx

/-! ## which op can emit what (every state, no invariant needed) -/

/-- origin of the observations that are not produced by the rebalance machinery -/
def OpAlpha (s : LSt) (op : LOp) : LObs → Prop
  | .stop => (∃ vb c, op = .endEv vb c ∧ s.closedObs = false) ∨ (∃ c, op = .shutdown c)
  | .deliver vb q => op = .ev vb ∧ s.closedObs = false ∧ s.nextSeq.get? vb = some q
  | .written _ _ => op = .save ∨ ∃ c, op = .shutdown c
  | .skipped => op = .notifyApi
  | .status .. => op = .query
  | _ => True

theorem RebAlpha.op {x : LObs} (h : RebAlpha x) (s : LSt) (op : LOp) : OpAlpha s op x := by
  cases x <;> simp_all [RebAlpha, OpAlpha]

theorem listenEnd_alpha (s : LSt) (vb : Nat) (c : EndCause) :
    ∀ x ∈ (listenEnd s vb c).2, (x = .stop ∧ s.closedObs = false) ∨ (∃ q, x = .openreq vb q) ∨ ∃ w, x = .failstop w := by
  intro x hx
  simp only [listenEnd, waitFires] at hx
  (repeat' split at hx) <;> simp_all

theorem evStep_alpha (s : LSt) (vb : Nat) :
    ∀ x ∈ (evStep s vb).2, ∃ q, x = .deliver vb q ∧ s.closedObs = false ∧ s.nextSeq.get? vb = some q := by
  intro x hx
  simp only [evStep] at hx
  (repeat' split at hx) <;> simp_all

theorem closeOp_alpha (s : LSt) (c : Bool) : ∀ x ∈ (closeOp s c).2, CloseAlpha x ∨ x = .stop := by
  by_cases hn : s.obsNil = true
  · rw [closeOp_nil s c hn]
    intro x hx
    simp only [List.mem_cons, List.not_mem_nil, or_false] at hx
    rcases hx with rfl | rfl <;> simp [CloseAlpha]
  · rw [closeOp_open s c (by simpa using hn)]
    obtain ⟨o2, o4, ho, h2, h4⟩ := closeCore_out s c
    rw [ho]
    intro x hx
    simp only [List.mem_append, List.mem_cons, List.mem_map, List.not_mem_nil, or_false] at hx
    rcases hx with (((rfl | ⟨p, _, rfl⟩) | hx) | rfl) | hx
    · simp [CloseAlpha]
    · simp [CloseAlpha]
    · rcases h2 with rfl | ⟨rfl, _⟩ <;> simp_all
    · simp [CloseAlpha]
    · rcases h4 with rfl | ⟨rfl, _⟩ <;> simp_all

theorem finalSave_out (s : LSt) : ∃ w : List (Nat × Nat), (finalSave s).2 = w.map fun (vb, q) => LObs.written vb q := by
  unfold finalSave
  cases s.auto
  · exact ⟨[], rfl⟩
  · exact saveStep_out s

theorem stepCore_tick_out (s : LSt) (d : Nat) : (stepCore s (.tick d)).2 = (fireDue (s.now + d) 64 s).2 := rfl

theorem stepCore_alpha (s : LSt) (op : LOp) : ∀ x ∈ (stepCore s op).2, OpAlpha s op x := by
  intro x hx
  cases op with
  | member lo hi => simp [stepCore] at hx
  | setStore vb q => simp [stepCore] at hx
  | «open» => exact (doOpen_alpha s x hx).op s _
  | notify => exact (callRebalance_alpha s s.now x hx).op s _
  | notifyApi =>
    simp only [stepCore] at hx
    split at hx
    · exact (callRebalance_alpha s s.now x hx).op s _
    · simp at hx; subst hx; simp [OpAlpha]
  | notifyDuringClose k => exact (notifyOverlapped_alpha s k x hx).op s _
  | tick d => rw [stepCore_tick_out] at hx; exact (fireDue_alpha _ _ s x hx).op s _
  | endEv vb c =>
    rcases listenEnd_alpha s vb c x hx with ⟨rfl, h⟩ | ⟨q, rfl⟩ | ⟨w, rfl⟩
    · exact Or.inl ⟨vb, c, rfl, h⟩
    · trivial
    · trivial
  | ev vb =>
    obtain ⟨q, rfl, h1, h2⟩ := evStep_alpha s vb x hx
    exact ⟨rfl, h1, h2⟩
  | save =>
    obtain ⟨w, hw⟩ := saveStep_out s
    simp only [stepCore, hw, List.mem_map] at hx
    obtain ⟨p, _, rfl⟩ := hx
    exact Or.inl rfl
  | shutdown c =>
    rw [stepCore_shutdown] at hx
    obtain ⟨w, hw⟩ := finalSave_out s
    rcases List.mem_append.1 hx with hx | hx
    · rw [hw, List.mem_map] at hx
      obtain ⟨p, _, rfl⟩ := hx
      exact Or.inr ⟨c, rfl⟩
    · rcases closeOp_alpha _ c x hx with h | rfl
      · exact h.reb.op s _
      · exact Or.inr ⟨c, rfl⟩
  | query => simp [stepCore] at hx; subst hx; simp [OpAlpha]

/-- **origin of observations**: `stop` only in an end-event step on an open observer or in a shutdown
    step; a delivery only in an event step on an open observer; a checkpoint write only in a save or
    shutdown step -/
theorem step_alpha (s : LSt) (op : LOp) : ∀ x ∈ (step s op).2, OpAlpha s op x := by
  intro x hx
  rw [step_eq] at hx
  split at hx
  · simp at hx
  · split at hx
    · simp at hx
    · rcases List.mem_append.1 hx with hx | hx
      · exact stepCore_alpha s op x hx
      · exact (fireDue_alpha _ _ _ x hx).op s op

/-! ## settled states, phase extraction -/

/-- no timer is due: every `step` ends like this unless the `fireDue` fuel ran out -/
def Settled (s : LSt) : Prop := dueTimer s s.now = none

theorem dueTimer_congr {s s' : LSt} (upto : Nat) (e : s'.timers = s.timers) : dueTimer s' upto = dueTimer s upto := by
  unfold dueTimer; rw [e]

theorem fireDue_of_none (upto fuel : Nat) (s : LSt) (h : dueTimer s upto = none) : fireDue upto fuel s = (s, []) := by
  cases fuel with
  | zero => rfl
  | succ fuel => rw [fireDue_succ, h]; split <;> rfl

theorem fireDue_of_dead (upto fuel : Nat) (s : LSt) (h : s.dead = true) : fireDue upto fuel s = (s, []) := by
  cases fuel with
  | zero => rfl
  | succ fuel => rw [fireDue_succ, if_pos h]

/-- a live invariant state with an open stream is in phase A -/
theorem Inv.phA {s : LSt} (h : Inv s) (hd : s.dead = false) (ho : s.isOpen = true) : PhA s := by
  cases h with
  | dead hx => rw [hd] at hx; cases hx
  | pre _ _ h => rw [h.isOpen] at ho; cases ho
  | B _ _ h => rw [h.1.isOpen] at ho; cases ho
  | C _ _ h => rw [h.isOpen] at ho; cases ho
  | A _ _ h => exact h

/-- a live invariant state that is balancing is in phase B -/
theorem Inv.phB {s : LSt} (h : Inv s) (hd : s.dead = false) (hb : s.balancing = true) : PhB s := by
  cases h with
  | dead hx => rw [hd] at hx; cases hx
  | pre _ _ h => rw [h.balancing] at hb; cases hb
  | A _ _ h => rw [h.balancing] at hb; cases hb
  | C _ _ h => rw [h.balancing] at hb; cases hb
  | B _ _ h => exact h

theorem Inv.timersOk {s : LSt} (h : Inv s) (hd : s.dead = false) : TimersOk s := by
  cases h with
  | dead hx => rw [hd] at hx; cases hx
  | pre _ ok _ => exact ok
  | A _ ok _ => exact ok
  | B _ ok _ => exact ok
  | C _ ok _ => exact ok

theorem finalSave_fields (s : LSt) : SameCtl s { (finalSave s).1 with dirty := s.dirty, anyDirty := s.anyDirty } := by
  unfold finalSave
  cases s.auto
  · exact SameCtl.refl s
  · exact saveStep_fields s

theorem finalSave_timers (s : LSt) : (finalSave s).1.timers = s.timers := (finalSave_fields s).timers
theorem finalSave_obsNil (s : LSt) : (finalSave s).1.obsNil = s.obsNil := (finalSave_fields s).obsNil
theorem finalSave_isOpen (s : LSt) : (finalSave s).1.isOpen = s.isOpen := (finalSave_fields s).isOpen
theorem finalSave_pos (s : LSt) : (finalSave s).1.pos = s.pos := (finalSave_fields s).pos

theorem finalSave_now (s : LSt) : (finalSave s).1.now = s.now := by
  unfold finalSave saveStep
  cases s.auto
  · rfl
  · simp only [if_true]; split <;> rfl

theorem finalSave_out_nil (s : LSt) (h : s.pos = []) : (finalSave s).2 = [] := by
  unfold finalSave
  cases s.auto
  · rfl
  · exact saveStep_out_nil s h

theorem ignored_shutdown (s : LSt) (c : Bool) : ignored s (.shutdown c) = false := by simp [ignored]
theorem ignored_query (s : LSt) : ignored s .query = false := by simp [ignored]

theorem step_of_live {s : LSt} {op : LOp} (hd : s.dead = false) (hi : ignored s op = false) :
    step s op = ((fireDue (stepCore s op).1.now 64 (stepCore s op).1).1,
       (stepCore s op).2 ++ (fireDue (stepCore s op).1.now 64 (stepCore s op).1).2) := by
  rw [step_eq, hd, hi]; rfl

/-! ## tracking the session data (`active`, `lo`, `hi`, `pos`) through a step -/

/-- no open request and no delivery -/
def Quiet (l : List LObs) : Prop := ∀ x ∈ l, ∀ vb q, x ≠ LObs.openreq vb q ∧ x ≠ LObs.deliver vb q

theorem Quiet.nil : Quiet [] := by intro x hx; simp at hx

theorem Quiet.append {a b : List LObs} (ha : Quiet a) (hb : Quiet b) : Quiet (a ++ b) := by
  intro x hx
  rcases List.mem_append.1 hx with h | h
  · exact ha x h
  · exact hb x h

/-- what a sub-step does to the session data, seen from a live open end state: either a (re)open happened
    (`ASS` observed) and the end state is fresh – `active` = number of vBuckets of the range, the open
    requests of exactly the current positions are in the output, followed by no further request or
    delivery – or no open happened, the start state was live and open too, the range is the same,
    `active` dropped by `δ`, the positions were transformed by `π`, and the only requests / deliveries
    observed are the prefix `w` -/
def Track (δ : Int) (π : AMap Nat → AMap Nat) (w : List LObs) (s : LSt) (o : List LObs) (s' : LSt) : Prop :=
  s'.dead = false → s'.isOpen = true →
    (LObs.cb .ASS ∈ o ∧ s'.active = ((vbs s'.lo s'.hi).length : Int) ∧
      ∃ o1 tl, o = o1 ++ s'.pos.map (fun (vb, q) => LObs.openreq vb q) ++ tl ∧ Quiet tl) ∨
    (LObs.cb .ASS ∉ o ∧ s.dead = false ∧ s.isOpen = true ∧ s'.lo = s.lo ∧ s'.hi = s.hi ∧
      s'.active = s.active - δ ∧ s'.pos = π s.pos ∧ ∃ rest, o = w ++ rest ∧ Quiet rest)

theorem Track.refl (s : LSt) : Track 0 id [] s [] s := by
  intro hd ho
  exact Or.inr ⟨by simp, hd, ho, rfl, rfl, by simp, rfl, [], rfl, Quiet.nil⟩

theorem Track.of_closed {δ : Int} {π : AMap Nat → AMap Nat} {w : List LObs} {s s' : LSt} {o : List LObs}
    (h : s'.dead = true ∨ s'.isOpen = false) : Track δ π w s o s' := by
  intro hd ho
  rcases h with h | h
  · rw [hd] at h; cases h
  · rw [ho] at h; cases h

theorem Track.trans {δ : Int} {π : AMap Nat → AMap Nat} {w : List LObs} {s s1 s2 : LSt} {o1 o2 : List LObs}
    (h1 : Track δ π w s o1 s1) (h2 : Track 0 id [] s1 o2 s2) : Track δ π w s (o1 ++ o2) s2 := by
  intro hd ho
  rcases h2 hd ho with ⟨hass, ha, o', tl, ho', htl⟩ | ⟨hass, hd1, ho1, hlo, hhi, hact, hpos, r2, hr2, hq2⟩
  · exact Or.inl ⟨List.mem_append_right _ hass, ha, o1 ++ o', tl, by rw [ho']; simp, htl⟩
  · simp only [List.nil_append] at hr2
    subst hr2
    rcases h1 hd1 ho1 with ⟨hass1, ha, o', tl, ho', htl⟩ | ⟨hass1, hd0, ho0, hlo0, hhi0, hact0, hpos0, r1, hr1, hq1⟩
    · refine Or.inl ⟨List.mem_append_left _ hass1, ?_, o', tl ++ o2, ?_, htl.append hq2⟩
      · rw [hact, hlo, hhi, ha]; simp
      · rw [ho', hpos]; simp
    · refine Or.inr ⟨?_, hd0, ho0, hlo.trans hlo0, hhi.trans hhi0, ?_, ?_, r1 ++ o2, ?_, hq1.append hq2⟩
      · intro hx
        rcases List.mem_append.1 hx with hx | hx
        · exact hass1 hx
        · exact hass hx
      · rw [hact, hact0]; simp
      · rw [hpos, hpos0]; rfl
      · rw [hr1]; simp

theorem PhB.isOpen {s : LSt} (h : PhB s) : s.isOpen = false := h.1.isOpen

/-- a `Rebalance()` call never leaves the stream open -/
theorem callRebalance_lands {s : LSt} (a : Nat) (h : Inv s) (hd : s.dead = false) :
    (callRebalance s a).1.dead = true ∨ (callRebalance s a).1.isOpen = false := by
  cases h with
  | dead hx => rw [hd] at hx; cases hx
  | pre _ ok h =>
    rw [callRebalance_streaming a h.balancing h.lockHeld, rebalanceLocked_closed s a h.obsNil h.balancing]
    exact Or.inl rfl
  | C _ ok h =>
    rw [callRebalance_streaming a h.balancing h.lockHeld, rebalanceLocked_closed s a h.obsNil h.balancing]
    exact Or.inl rfl
  | A _ ok h =>
    rw [callRebalance_streaming a h.balancing h.lockHeld]
    exact Or.inr (rebalanceLocked_from_streaming a ok hd h.everOpened h.obsNil h.balancing h.noReb h.active_le_live).1.isOpen
  | B _ ok h =>
    obtain ⟨t, _, _, _, _, hdb, hB, hok⟩ := debounce_window a ok h
    simp only [callRebalance, hdb]
    exact Or.inr hB.isOpen

theorem notifyOverlapped_lands {s : LSt} (k : Nat) (h : Inv s) (hd : s.dead = false) :
    (notifyOverlapped s k).1.dead = true ∨ (notifyOverlapped s k).1.isOpen = false := by
  have g := notifyOverlapped_good k h hd
  cases h with
  | dead hx => rw [hd] at hx; cases hx
  | pre _ ok h => rw [notifyOverlapped_closed s k h.balancing h.lockHeld h.obsNil]; exact Or.inl rfl
  | C _ ok h => rw [notifyOverlapped_closed s k h.balancing h.lockHeld h.obsNil]; exact Or.inl rfl
  | A _ ok h =>
    -- the end state is live and balancing, hence in the window
    cases hx : (notifyOverlapped s k).1.dead with
    | true => exact Or.inl rfl
    | false =>
      right
      have hb : (notifyOverlapped s k).1.balancing = true := by
        rw [notifyOverlapped_streaming s k h.balancing h.lockHeld h.obsNil]
        have hm := PhM_after_close h.everOpened h.noReb h.active_le_live
        have hok := TimersOk_after_close false (s := { s with lockHeld := true, balancing := true }) ⟨ok.lt, ok.uniq⟩
        have hdead : (closeCore { s with lockHeld := true, balancing := true } false).1.dead = false := by simp [hd]
        exact (duringClose_PhM s.now k hok hdead hm).1.1.balancing
      exact (g.inv.phB hx hb).isOpen
  | B _ ok h =>
    obtain ⟨t, _, _, _, _, hdb, hB, hok⟩ := debounce_window s.now ok h
    simp only [notifyOverlapped, hdb]
    exact Or.inr hB.isOpen

/-- the reopen in `rebalance()` starts a fresh session -/
theorem reopened_track (s s0 : LSt) (q : Nat) :
    Track 0 id [] s0 ([.cb .BRE] ++ (doOpen s).2 ++ [.cb .ARE]) (reopened s q) := by
  intro _ _
  refine Or.inl ⟨by simp [doOpen], rfl, [.cb .BRE, .cb .BSS], [.cb .ASS, .cb .ARE], ?_, ?_⟩
  · simp [doOpen, reopened]
  · intro x hx vb q; simp at hx; rcases hx with rfl | rfl <;> simp

theorem fireOne_track {s : LSt} {t : Timer} (h : Inv s) (hd : s.dead = false) (ht : t ∈ s.timers)
    (hp : t.pending = true) : Track 0 id [] s (fireOne s t).2 (fireOne s t).1 := by
  have ok' : ∀ ok : TimersOk s, TimersOk (setTimer s { t with pending := false }) := fun ok => ok.setTimer ht rfl
  have hReb : Inv (setTimer s { t with pending := false }) → t.kind = .Reb →
      Track 0 id [] s (fireOne s t).2 (fireOne s t).1 := by
    intro hi hk
    rw [fireOne_Reb s hk]
    exact Track.of_closed (callRebalance_lands t.deadline hi hd)
  cases h with
  | dead hx => rw [hd] at hx; cases hx
  | pre _ ok h => exact hReb (.pre hd (ok' ok) { h with noReb := h.noReb.fire t }) (h.noReb t ht hp)
  | A _ ok h => exact hReb (.A hd (ok' ok) { h with noReb := h.noReb.fire t }) (h.noReb t ht hp)
  | C _ ok h => exact hReb (.C hd (ok' ok) { h with noReb := h.noReb.fire t }) (h.noReb t ht hp)
  | B _ ok h =>
    cases hk : t.kind with
    | Reb => exact hReb (.B hd (ok' ok) ⟨h.1.congr rfl rfl rfl rfl rfl rfl rfl rfl rfl, h.2.fire_Reb ok ht hk⟩) hk
    | reb =>
      rw [fireOne_reb s hk]
      by_cases hq : (setTimer s { t with pending := false }).queuedCalls > 0
      · rw [rebalanceFires_queued _ _ hq]
        exact Track.of_closed (Or.inr (rebalanceLocked_from_streaming
          (s := reopened (setTimer s { t with pending := false }) ((setTimer s { t with pending := false }).queuedCalls - 1))
          t.deadline ⟨(ok' ok).lt, (ok' ok).uniq⟩ hd rfl rfl rfl (h.2.fire_reb ht hp hk)
          (Int.le_of_eq (reopened_active_live _ _))).1.isOpen)
      · rw [rebalanceFires_plain _ _ (by omega)]
        exact reopened_track _ _ _

theorem fireDue_track (upto fuel : Nat) {s : LSt} (h : Inv s) :
    Track 0 id [] s (fireDue upto fuel s).2 (fireDue upto fuel s).1 := by
  induction fuel generalizing s with
  | zero => exact Track.refl s
  | succ fuel ih =>
    rw [fireDue_succ]
    cases hd : s.dead with
    | true => exact Track.refl s
    | false =>
      simp only [Bool.false_eq_true, if_false]
      cases hdue : dueTimer s upto with
      | none => exact Track.refl s
      | some t =>
        obtain ⟨ht, hp, _⟩ := dueTimer_some hdue
        exact (fireOne_track h hd ht hp).trans (ih (fireOne_good h hd ht hp).inv)

/-- does this step process a final (non-transient) stream end on an open observer? -/
def countsEnd (s : LSt) (op : LOp) : Bool :=
  match op with
  | .endEv _ c => c != .transient && !s.closedObs && !s.stopClosed && !s.dead
  | _ => false

/-- the decrement of the active count by a step that stays in the session -/
def dOf (s : LSt) (op : LOp) : Int := if countsEnd s op then 1 else 0

/-- the event a step delivers (and the consumer acknowledges) -/
def evOf (s : LSt) (op : LOp) : Option (Nat × Nat) :=
  match op with
  | .ev vb => if !s.closedObs && !s.stopClosed && !s.dead then (s.nextSeq.get? vb).map fun q => (vb, q) else none
  | _ => none

/-- what a step that stays in the session does to the positions -/
def piOf (s : LSt) (op : LOp) : AMap Nat → AMap Nat :=
  match evOf s op with
  | some (vb, q) => fun m => m.set vb q
  | none => id

/-- the request / delivery a step that stays in the session emits -/
def wOf (s : LSt) (op : LOp) : List LObs :=
  match op with
  | .ev _ => (match evOf s op with | some (vb, q) => [.deliver vb q] | none => [])
  | .endEv vb .transient =>
    if !s.closedObs && !s.stopClosed && !s.dead then
      (match s.pos.get? vb with | some q => [.openreq vb q] | none => [])
    else []
  | _ => []

theorem Track.same {s s' : LSt} {o : List LObs} (hdead : s'.dead = s.dead) (hopen : s'.isOpen = s.isOpen)
    (hlo : s'.lo = s.lo) (hhi : s'.hi = s.hi) (hact : s'.active = s.active) (hpos : s'.pos = s.pos)
    (hq : Quiet o) (hass : LObs.cb .ASS ∉ o) : Track 0 id [] s o s' := by
  intro hd ho
  exact Or.inr ⟨hass, hdead ▸ hd, hopen ▸ ho, hlo, hhi, by rw [hact]; simp, hpos, o, rfl, hq⟩

theorem doOpen_track {δ : Int} {π : AMap Nat → AMap Nat} {w : List LObs} (s s0 : LSt) :
    Track δ π w s0 (doOpen s).2 (doOpen s).1 := by
  intro _ _
  refine Or.inl ⟨by simp [doOpen], rfl, [.cb .BSS], [.cb .ASS], ?_, ?_⟩
  · simp [doOpen]
  · intro x hx vb q; simp at hx; subst hx; simp

theorem saveStep_active (s : LSt) : (saveStep s).1.active = s.active := by
  unfold saveStep; split <;> rfl

theorem Quiet.writtens (w : List (Nat × Nat)) : Quiet (w.map fun (vb, q) => LObs.written vb q) := by
  intro x hx vb q
  simp only [List.mem_map] at hx
  obtain ⟨p, _, rfl⟩ := hx
  simp

theorem ignored_false_stop {s : LSt} {op : LOp} (h : ignored s op = false)
    (hop : (∀ c, op ≠ .shutdown c) ∧ op ≠ .query) : s.stopClosed = false := by
  cases op <;> simp_all [ignored]

theorem stepCore_track {s : LSt} (op : LOp) (h : Inv s) (hd : s.dead = false) (hig : ignored s op = false)
    (hopen : OpenOk s op) :
    Track (dOf s op) (piOf s op) (wOf s op) s (stepCore s op).2 (stepCore s op).1 := by
  cases op with
  | member lo hi => exact Track.same rfl rfl rfl rfl rfl rfl Quiet.nil (by simp [stepCore])
  | setStore vb q => exact Track.same rfl rfl rfl rfl rfl rfl Quiet.nil (by simp [stepCore])
  | «open» => exact doOpen_track s s
  | notify => exact Track.of_closed (callRebalance_lands s.now h hd)
  | notifyApi =>
    simp only [stepCore]
    by_cases ho : s.isOpen = true
    · rw [if_pos ho]; exact Track.of_closed (callRebalance_lands s.now h hd)
    · rw [if_neg ho]
      exact Track.same rfl rfl rfl rfl rfl rfl (by intro x hx vb q; simp at hx; subst hx; simp) (by simp)
  | notifyDuringClose k => exact Track.of_closed (notifyOverlapped_lands k h hd)
  | tick d =>
    have t1 := fireDue_track (s.now + d) 64 h
    have t2 : Track 0 id [] (fireDue (s.now + d) 64 s).1 [] { (fireDue (s.now + d) 64 s).1 with now := s.now + d } :=
      Track.same rfl rfl rfl rfl rfl rfl Quiet.nil (by simp)
    have := t1.trans t2
    have e1 : dOf s (.tick d) = 0 := rfl
    have e2 : piOf s (.tick d) = id := rfl
    have e3 : wOf s (.tick d) = [] := rfl
    rw [e1, e2, e3]
    simpa [stepCore] using this
  | endEv vb c =>
    have hst : s.stopClosed = false := ignored_false_stop hig (by simp)
    have hclosed : s.closedObs = true → Track (dOf s (.endEv vb c)) (piOf s (.endEv vb c)) (wOf s (.endEv vb c)) s
        (stepCore s (.endEv vb c)).2 (stepCore s (.endEv vb c)).1 := by
      intro hc
      have e1 : dOf s (.endEv vb c) = 0 := by simp [dOf, countsEnd, hc]
      have e2 : wOf s (.endEv vb c) = [] := by cases c <;> simp [wOf, hc]
      rw [e1, e2]
      show Track 0 id [] s (listenEnd s vb c).2 (listenEnd s vb c).1
      rw [listenEnd_closed s vb c hc]
      exact Track.refl s
    cases h with
    | dead hx => rw [hd] at hx; cases hx
    | pre _ _ h => exact hclosed h.closedObs
    | B _ _ h => exact hclosed h.1.closedObs
    | C _ _ h => exact hclosed h.closedObs
    | A _ ok h =>
      show Track _ _ _ s (listenEnd s vb c).2 (listenEnd s vb c).1
      by_cases hc : c = .transient
      · subst hc
        rw [listenEnd_transient_A vb h]
        have e1 : dOf s (.endEv vb .transient) = 0 := by simp [dOf, countsEnd]
        rw [e1]
        rcases hq : s.pos.get? vb with _ | q
        · exact Track.of_closed (Or.inl rfl)
        · have e2 : wOf s (.endEv vb .transient) = [.openreq vb q] := by simp [wOf, h.closedObs, hst, hd, hq]
          rw [e2]
          intro hd' ho'
          exact Or.inr ⟨by simp, hd, ho', rfl, rfl, by simp, rfl, [], rfl, Quiet.nil⟩
      · have e1 : dOf s (.endEv vb c) = 1 := by simp [dOf, countsEnd, hc, h.closedObs, hst, hd]
        have e2 : wOf s (.endEv vb c) = [] := by cases c <;> simp [wOf] at hc ⊢
        rw [e1, e2, listenEnd_final_A vb h hc]
        intro hd' ho'
        split
        · split
          · exact Or.inr ⟨by simp, hd, h.isOpen, rfl, rfl, rfl, rfl, [], rfl, Quiet.nil⟩
          · exact Or.inr ⟨by simp, hd, h.isOpen, rfl, rfl, rfl, rfl, [.stop], rfl,
              by intro x hx vb q; simp at hx; subst hx; simp⟩
        · exact Or.inr ⟨by simp, hd, h.isOpen, rfl, rfl, rfl, rfl, [], rfl, Quiet.nil⟩
  | ev vb =>
    have hst : s.stopClosed = false := ignored_false_stop hig (by simp)
    have hclosed : s.closedObs = true → Track (dOf s (.ev vb)) (piOf s (.ev vb)) (wOf s (.ev vb)) s
        (stepCore s (.ev vb)).2 (stepCore s (.ev vb)).1 := by
      intro hc
      have e0 : evOf s (.ev vb) = none := by simp [evOf, hc]
      have e1 : piOf s (.ev vb) = id := by simp [piOf, e0]
      have e2 : wOf s (.ev vb) = [] := by simp [wOf, e0]
      rw [e1, e2]
      show Track 0 id [] s (evStep s vb).2 (evStep s vb).1
      rw [evStep_closed s vb hc]
      exact Track.refl s
    cases h with
    | dead hx => rw [hd] at hx; cases hx
    | pre _ _ h => exact hclosed h.closedObs
    | B _ _ h => exact hclosed h.1.closedObs
    | C _ _ h => exact hclosed h.closedObs
    | A _ ok h =>
      show Track _ _ _ s (evStep s vb).2 (evStep s vb).1
      rw [evStep_A vb h]
      rcases hq : s.nextSeq.get? vb with _ | q
      · have e0 : evOf s (.ev vb) = none := by simp [evOf, hq]
        have e1 : piOf s (.ev vb) = id := by simp [piOf, e0]
        have e2 : wOf s (.ev vb) = [] := by simp [wOf, e0]
        rw [e1, e2]
        exact Track.refl s
      · have e0 : evOf s (.ev vb) = some (vb, q) := by simp [evOf, hq, h.closedObs, hst, hd]
        have e1 : piOf s (.ev vb) = fun m => m.set vb q := by simp [piOf, e0]
        have e2 : wOf s (.ev vb) = [.deliver vb q] := by simp [wOf, e0]
        rw [e1, e2]
        intro hd' ho'
        exact Or.inr ⟨by simp, hd, h.isOpen, rfl, rfl, by simp [dOf, countsEnd, delivered], rfl, [], rfl, Quiet.nil⟩
  | save =>
    have e := saveStep_fields s
    obtain ⟨w, hw⟩ := saveStep_out s
    refine Track.same (s' := (saveStep s).1) e.dead e.isOpen e.lo e.hi (saveStep_active s) e.pos ?_ ?_
    · show Quiet (saveStep s).2; rw [hw]; exact Quiet.writtens w
    · show LObs.cb .ASS ∉ (saveStep s).2; rw [hw]; simp
  | shutdown c =>
    rw [stepCore_shutdown]
    refine Track.of_closed ?_
    by_cases hn : (finalSave s).1.obsNil = true
    · rw [closeOp_nil _ c hn]; exact Or.inl rfl
    · rw [closeOp_open _ c (by simpa using hn)]; exact Or.inr (by simp)
  | query =>
    exact Track.same rfl rfl rfl rfl rfl rfl (by intro x hx vb q; simp [stepCore] at hx; subst hx; simp)
      (by simp [stepCore])

/-- **session data through one op** -/
theorem step_track {s : LSt} (op : LOp) (h : Inv s) (hopen : OpenOk s op) :
    Track (dOf s op) (piOf s op) (wOf s op) s (step s op).2 (step s op).1 := by
  rw [step_eq]
  by_cases hd : s.dead = true
  · rw [if_pos hd]
    intro hd' _; rw [hd] at hd'; cases hd'
  · rw [if_neg hd]
    have hd' : s.dead = false := by simpa using hd
    by_cases hi : ignored s op = true
    · rw [if_pos hi]
      have hst : s.stopClosed = true := by simp [ignored] at hi; exact hi.1
      have e1 : dOf s op = 0 := by cases op <;> simp [dOf, countsEnd, hst]
      have e0 : evOf s op = none := by cases op <;> simp [evOf, hst]
      have e2 : piOf s op = id := by simp [piOf, e0]
      have e3 : wOf s op = [] := by
        cases op with
        | endEv vb c => cases c <;> simp [wOf, hst]
        | ev vb => simp [wOf, e0]
        | _ => rfl
      rw [e1, e2, e3]
      exact Track.refl s
    · rw [if_neg hi]
      have hi' : ignored s op = false := by simpa using hi
      have g := stepCore_good op h hd' hopen
      exact (stepCore_track op h hd' hi' hopen).trans (fireDue_track _ 64 g.inv)

/-! ## running states: opened, not shut down, not fail-stopped -/

/-- the stream was opened, `Close()` was not called and no fail-stop happened: phase A or phase B -/
def Running (s : LSt) : Prop := s.dead = false ∧ (s.isOpen = true ∨ s.balancing = true)

theorem Running.cases {s : LSt} (hr : Running s) (h : Inv s) : PhA s ∨ PhB s := by
  rcases hr.2 with ho | hb
  · exact Or.inl (h.phA hr.1 ho)
  · exact Or.inr (h.phB hr.1 hb)

theorem PhA.running {s : LSt} (h : PhA s) (hd : s.dead = false) : Running s := ⟨hd, Or.inl h.isOpen⟩
theorem PhB.running {s : LSt} (h : PhB s) (hd : s.dead = false) : Running s := ⟨hd, Or.inr h.1.balancing⟩

theorem Running.congr {s s' : LSt} (h : Running s) (e1 : s'.dead = s.dead) (e2 : s'.isOpen = s.isOpen)
    (e3 : s'.balancing = s.balancing) : Running s' := ⟨e1 ▸ h.1, by rw [e2, e3]; exact h.2⟩

theorem callRebalance_running {s : LSt} (a : Nat) (h : Inv s) (hr : Running s) : Running (callRebalance s a).1 := by
  have ok := h.timersOk hr.1
  rcases hr.cases h with hA | hB
  · rw [callRebalance_streaming a hA.balancing hA.lockHeld]
    obtain ⟨hB', _, hd', _⟩ := rebalanceLocked_from_streaming a ok hr.1 hA.everOpened hA.obsNil hA.balancing hA.noReb hA.active_le_live
    exact hB'.running hd'
  · obtain ⟨t, _, _, _, _, hdb, hB', _⟩ := debounce_window a ok hB
    simp only [callRebalance, hdb]
    exact hB'.running hr.1

theorem notifyOverlapped_running {s : LSt} (k : Nat) (h : Inv s) (hr : Running s) :
    Running (notifyOverlapped s k).1 := by
  have ok := h.timersOk hr.1
  rcases hr.cases h with hA | hB
  · rw [notifyOverlapped_streaming s k hA.balancing hA.lockHeld hA.obsNil]
    have hm := PhM_after_close hA.everOpened hA.noReb hA.active_le_live
    have hok := TimersOk_after_close false (s := { s with lockHeld := true, balancing := true }) ⟨ok.lt, ok.uniq⟩
    have hdead : (closeCore { s with lockHeld := true, balancing := true } false).1.dead = false := by simp [hr.1]
    obtain ⟨hm2, _, hd2, _⟩ := duringClose_PhM s.now k hok hdead hm
    exact ⟨hd2, Or.inr hm2.1.balancing⟩
  · obtain ⟨t, _, _, _, _, hdb, hB', _⟩ := debounce_window s.now ok hB
    simp only [notifyOverlapped, hdb]
    exact hB'.running hr.1

theorem fireOne_running {s : LSt} {t : Timer} (h : Inv s) (hr : Running s) (ht : t ∈ s.timers)
    (hp : t.pending = true) : Running (fireOne s t).1 := by
  have ok := h.timersOk hr.1
  have ok' : TimersOk (setTimer s { t with pending := false }) := ok.setTimer ht rfl
  have hr1 : Running (setTimer s { t with pending := false }) := hr.congr rfl rfl rfl
  rcases hr.cases h with hA | hB
  · have hk := hA.noReb t ht hp
    rw [fireOne_Reb s hk]
    exact callRebalance_running t.deadline (.A hr.1 ok' { hA with noReb := hA.noReb.fire t }) hr1
  · cases hk : t.kind with
    | Reb =>
      rw [fireOne_Reb s hk]
      exact callRebalance_running t.deadline
        (.B hr.1 ok' ⟨hB.1.congr rfl rfl rfl rfl rfl rfl rfl rfl rfl, hB.2.fire_Reb ok ht hk⟩) hr1
    | reb =>
      rw [fireOne_reb s hk]
      by_cases hq : (setTimer s { t with pending := false }).queuedCalls > 0
      · rw [rebalanceFires_queued _ _ hq]
        obtain ⟨hB', _, hd', _⟩ := rebalanceLocked_from_streaming
          (s := reopened (setTimer s { t with pending := false }) ((setTimer s { t with pending := false }).queuedCalls - 1))
          t.deadline ⟨ok'.lt, ok'.uniq⟩ hr.1 rfl rfl rfl (hB.2.fire_reb ht hp hk)
          (Int.le_of_eq (reopened_active_live _ _))
        exact hB'.running hd'
      · rw [rebalanceFires_plain _ _ (by omega)]
        exact ⟨hr.1, Or.inl rfl⟩

/-- timers never kill a running client and never shut it down -/
theorem fireDue_running (upto fuel : Nat) {s : LSt} (h : Inv s) (hr : Running s) : Running (fireDue upto fuel s).1 := by
  induction fuel generalizing s with
  | zero => exact hr
  | succ fuel ih =>
    rw [fireDue_succ, hr.1]
    simp only [Bool.false_eq_true, if_false]
    cases hdue : dueTimer s upto with
    | none => exact hr
    | some t =>
      obtain ⟨ht, hp, _⟩ := dueTimer_some hdue
      exact ih (fireOne_good h hr.1 ht hp).inv (fireOne_running h hr ht hp)

/-- the ops under which a running client keeps running: no `Open`, no shutdown, and transient ends only for
    vBuckets of the current session -/
def Benign (s : LSt) (op : LOp) : Prop :=
  op ≠ .open ∧ (∀ c, op ≠ .shutdown c) ∧
  (∀ vb, op = .endEv vb .transient → s.isOpen = true → s.lo ≤ vb ∧ vb ≤ s.hi)

theorem stepCore_running {s : LSt} (op : LOp) (h : Inv s) (hr : Running s) (hb : Benign s op) :
    Running (stepCore s op).1 := by
  cases op with
  | member lo hi => exact hr.congr rfl rfl rfl
  | setStore vb q => exact hr.congr rfl rfl rfl
  | query => exact hr
  | «open» => exact absurd rfl hb.1
  | shutdown c => exact absurd rfl (hb.2.1 c)
  | notify => exact callRebalance_running s.now h hr
  | notifyApi =>
    simp only [stepCore]
    split
    · exact callRebalance_running s.now h hr
    · exact hr
  | notifyDuringClose k => exact notifyOverlapped_running k h hr
  | tick d => exact (fireDue_running (s.now + d) 64 h hr).congr rfl rfl rfl
  | endEv vb c =>
    show Running (listenEnd s vb c).1
    rcases hr.cases h with hA | hB
    · by_cases hc : c = .transient
      · subst hc
        rw [listenEnd_transient_A vb hA]
        have hin := hb.2.2 vb rfl hA.isOpen
        have : ∃ q, s.pos.get? vb = some q := by
          have hk : vb ∈ AMap.keys s.pos := by rw [hA.keys]; exact mem_vbs.2 hin
          have := (AMap.get?_isSome_iff_mem_keys s.pos vb).2 hk
          cases hq : s.pos.get? vb with
          | none => rw [hq] at this; cases this
          | some q => exact ⟨q, rfl⟩
        obtain ⟨q, hq⟩ := this
        rw [hq]; exact hr
      · rw [listenEnd_final_A vb hA hc]
        split
        · split <;> exact hr.congr rfl rfl rfl
        · exact hr.congr rfl rfl rfl
    · rw [listenEnd_closed s vb c hB.1.closedObs]; exact hr
  | ev vb =>
    show Running (evStep s vb).1
    rcases hr.cases h with hA | hB
    · rw [evStep_A vb hA]
      split
      · exact hr
      · exact hr.congr rfl rfl rfl
    · rw [evStep_closed s vb hB.1.closedObs]; exact hr
  | save =>
    have e := saveStep_fields s
    exact hr.congr (s' := (saveStep s).1) e.dead e.isOpen e.balancing

/-- **a running client keeps running** under every benign op: no notification, no passing of time, no stream
    end of an assigned vBucket, no event, no save fail-stops it or closes it for good -/
theorem step_running {s : LSt} (op : LOp) (h : Inv s) (hr : Running s) (hb : Benign s op) :
    Running (step s op).1 := by
  rw [step_eq, hr.1]
  simp only [Bool.false_eq_true, if_false]
  split
  · exact hr
  · have g := stepCore_good op h hr.1 (fun e => absurd e hb.1)
    exact fireDue_running _ 64 g.inv (stepCore_running op h hr hb)

/-- benign along the whole run -/
def BenignRun (s : LSt) : List LOp → Prop
  | [] => True
  | op :: r => Benign s op ∧ BenignRun (step s op).1 r

theorem BenignRun.opsOk {s : LSt} {ops : List LOp} (h : BenignRun s ops) : OpsOk s ops := by
  induction ops generalizing s with
  | nil => trivial
  | cons op r ih => exact ⟨fun e => absurd e h.1.1, ih h.2⟩

theorem run_running {s : LSt} {ops : List LOp} (h : Inv s) (hr : Running s) (hb : BenignRun s ops) :
    Running (run s ops) := by
  induction ops generalizing s with
  | nil => exact hr
  | cons op r ih =>
    rw [run_cons]
    exact ih (step_good op h (fun e => absurd e hb.1.1)).inv (step_running op h hr hb.1) hb.2

/-- `Open` on a state before `Open` starts a running client -/
theorem open_running {s : LSt} (hd : s.dead = false) (ok : TimersOk s) (hpre : PhPre s) :
    Running (step s .open).1 ∧ Inv (step s .open).1 := by
  have g := step_good .open (.pre hd ok hpre) (fun _ => hpre.everOpened)
  refine ⟨?_, g.inv⟩
  have hig : ignored s .open = false := by simp [ignored, hpre.stop]
  rw [step_of_live hd hig]
  have hA : PhA (doOpen s).1 :=
    PhA_of_open s s.rebalances s.queuedCalls hpre.queued hpre.cwc hpre.noReb |>.congr
      rfl rfl rfl rfl hpre.balancing hpre.lockHeld rfl rfl rfl rfl (fun hx => by simp [doOpen] at hx)
      (doOpen_data s).1 (doOpen_data s).2 (fun _ => rfl) List.nodup_nil (by simp [doOpen])
  have g1 := stepCore_good .open (.pre hd ok hpre) hd (fun _ => hpre.everOpened)
  exact fireDue_running _ 64 g1.inv (hA.running hd)

/-! ## sessions: the range and the record of finally ended vBuckets through a step (every state) -/

/-- the data of a session and what decides its phase -/
structure SameData (s s' : LSt) : Prop where
  dead : s'.dead = s.dead
  isOpen : s'.isOpen = s.isOpen
  everOpened : s'.everOpened = s.everOpened
  active : s'.active = s.active
  lo : s'.lo = s.lo
  hi : s'.hi = s.hi
  endedVbs : s'.endedVbs = s.endedVbs

theorem SameData.refl (s : LSt) : SameData s s := ⟨rfl, rfl, rfl, rfl, rfl, rfl, rfl⟩

theorem SameData.trans {s s1 s2 : LSt} (h1 : SameData s s1) (h2 : SameData s1 s2) : SameData s s2 :=
  ⟨h2.dead.trans h1.dead, h2.isOpen.trans h1.isOpen, h2.everOpened.trans h1.everOpened, h2.active.trans h1.active,
   h2.lo.trans h1.lo, h2.hi.trans h1.hi, h2.endedVbs.trans h1.endedVbs⟩

theorem debounce_data {s : LSt} {a : Nat} {r : LSt × List LObs} (h : debounce s a = some r) : SameData s r.1 := by
  simp only [debounce] at h
  (repeat' split at h) <;> first | (cases h; exact ⟨rfl, rfl, rfl, rfl, rfl, rfl, rfl⟩) | cases h

theorem absorb_data (s : LSt) (a : Nat) : SameData s (absorb s a).1 := by
  unfold absorb
  cases hdb : debounce s a with
  | some r => exact debounce_data hdb
  | none => exact ⟨rfl, rfl, rfl, rfl, rfl, rfl, rfl⟩

theorem duringClose_data (s : LSt) (a k : Nat) : SameData s (duringClose s a k).1 := by
  induction k generalizing s with
  | zero => exact SameData.refl s
  | succ k ih => rw [duringClose_succ]; exact (absorb_data s a).trans (ih _)

/-- `Close` keeps the range and the record -/
theorem closeCore_sess (s : LSt) (c : Bool) :
    (closeCore s c).1.lo = s.lo ∧ (closeCore s c).1.hi = s.hi ∧ (closeCore s c).1.endedVbs = s.endedVbs :=
  ⟨by simp, by simp, by simp⟩

theorem rebalanceLocked_sess (s : LSt) (a : Nat) :
    (rebalanceLocked s a).1.lo = s.lo ∧ (rebalanceLocked s a).1.hi = s.hi ∧
      (rebalanceLocked s a).1.endedVbs = s.endedVbs := by
  by_cases hb : s.balancing = true
  · simp only [rebalanceLocked, hb]
    simp only [Bool.not_true, Bool.false_eq_true, if_false]
    split <;> exact ⟨rfl, rfl, rfl⟩
  · have hb' : s.balancing = false := by simpa using hb
    by_cases hn : s.obsNil = true
    · rw [rebalanceLocked_closed s a hn hb']; exact ⟨rfl, rfl, rfl⟩
    · by_cases hd : s.dead = true
      · have e : rebalanceLocked s a =
            ((closeCore { s with lockHeld := true, balancing := true } false).1,
             [LObs.cb .BRS] ++ (closeCore { s with lockHeld := true, balancing := true } false).2) := by
          simp [rebalanceLocked, hb', doClose_eq, hn, hd]
        rw [e]; exact closeCore_sess _ _
      · rw [rebalanceLocked_streaming s a (by simpa using hn) hb' (by simpa using hd)]
        exact closeCore_sess _ _

/-- what a `Rebalance()` call can emit: never a bracket of `Open` -/
theorem callRebalance_noASS (s : LSt) (a : Nat) : LObs.cb .ASS ∉ (callRebalance s a).2 := by
  intro hx
  unfold callRebalance at hx
  cases hdb : debounce s a with
  | some r => rw [hdb] at hx; rcases debounce_alpha hdb with h | h <;> simp [h] at hx
  | none =>
    rw [hdb] at hx
    simp only at hx
    split at hx
    · simp at hx
    · exact (rebalanceLocked_alpha' s a _ hx).noASS rfl

theorem notifyOverlapped_noASS (s : LSt) (k : Nat) : LObs.cb .ASS ∉ (notifyOverlapped s k).2 := by
  intro hx
  cases hdb : debounce s s.now with
  | some r =>
    have e : notifyOverlapped s k = r := by simp [notifyOverlapped, hdb]
    rw [e] at hx
    rcases debounce_alpha hdb with h | h <;> simp [h] at hx
  | none =>
    by_cases hl : s.lockHeld = true
    · have e : notifyOverlapped s k = ({ s with queuedCalls := s.queuedCalls + 1 }, [.queued]) := by
        simp [notifyOverlapped, hdb, hl]
      rw [e] at hx; simp at hx
    · by_cases hb : s.balancing = true
      · have e : notifyOverlapped s k = rebalanceLocked s s.now := by simp [notifyOverlapped, hdb, hl, hb]
        rw [e] at hx; exact (rebalanceLocked_alpha' s s.now _ hx).noASS rfl
      · have hl' : s.lockHeld = false := by simpa using hl
        have hb' : s.balancing = false := by simpa using hb
        by_cases hn : s.obsNil = true
        · rw [notifyOverlapped_closed s k hb' hl' hn] at hx; simp at hx
        · rw [notifyOverlapped_streaming s k hb' hl' (by simpa using hn)] at hx
          have hc := closeCore_alpha { s with lockHeld := true, balancing := true } false rfl
          have hk := duringClose_alpha (closeCore { s with lockHeld := true, balancing := true } false).1 s.now k
          simp only [List.mem_append, List.mem_cons, List.not_mem_nil, or_false] at hx
          rcases hx with ((hx | hx) | hx) | hx
          · cases hx
          · exact (hc _ hx).noASS rfl
          · exact (hk _ hx).noASS rfl
          · cases hx

theorem callRebalance_sess (s : LSt) (a : Nat) :
    (callRebalance s a).1.lo = s.lo ∧ (callRebalance s a).1.hi = s.hi ∧ (callRebalance s a).1.endedVbs = s.endedVbs := by
  unfold callRebalance
  cases hdb : debounce s a with
  | some r => have := debounce_data hdb; exact ⟨this.lo, this.hi, this.endedVbs⟩
  | none =>
    simp only
    split
    · exact ⟨rfl, rfl, rfl⟩
    · exact rebalanceLocked_sess s a

theorem notifyOverlapped_sess (s : LSt) (k : Nat) :
    (notifyOverlapped s k).1.lo = s.lo ∧ (notifyOverlapped s k).1.hi = s.hi ∧
      (notifyOverlapped s k).1.endedVbs = s.endedVbs := by
  cases hdb : debounce s s.now with
  | some r =>
    have e : notifyOverlapped s k = r := by simp [notifyOverlapped, hdb]
    rw [e]
    have := debounce_data hdb; exact ⟨this.lo, this.hi, this.endedVbs⟩
  | none =>
    by_cases hl : s.lockHeld = true
    · have e : notifyOverlapped s k = ({ s with queuedCalls := s.queuedCalls + 1 }, [.queued]) := by
        simp [notifyOverlapped, hdb, hl]
      rw [e]; exact ⟨rfl, rfl, rfl⟩
    · by_cases hb : s.balancing = true
      · have e : notifyOverlapped s k = rebalanceLocked s s.now := by simp [notifyOverlapped, hdb, hl, hb]
        rw [e]; exact rebalanceLocked_sess s s.now
      · have hl' : s.lockHeld = false := by simpa using hl
        have hb' : s.balancing = false := by simpa using hb
        by_cases hn : s.obsNil = true
        · rw [notifyOverlapped_closed s k hb' hl' hn]; exact ⟨rfl, rfl, rfl⟩
        · rw [notifyOverlapped_streaming s k hb' hl' (by simpa using hn)]
          have h1 := closeCore_sess { s with lockHeld := true, balancing := true } false
          have h2 := duringClose_data (closeCore { s with lockHeld := true, balancing := true } false).1 s.now k
          exact ⟨h2.lo.trans h1.1, h2.hi.trans h1.2.1, h2.endedVbs.trans h1.2.2⟩

/-- a sub-step either contains no `Open` – range and record of finally ended vBuckets are untouched – or it
    contains one (`ASS`) and ends with an empty record: `Open` is the only place where a session starts -/
def Frame (s : LSt) (o : List LObs) (s' : LSt) : Prop :=
  (LObs.cb .ASS ∉ o ∧ s'.lo = s.lo ∧ s'.hi = s.hi ∧ s'.endedVbs = s.endedVbs) ∨
  (LObs.cb .ASS ∈ o ∧ s'.endedVbs = [])

theorem Frame.refl (s : LSt) : Frame s [] s := Or.inl ⟨by simp, rfl, rfl, rfl⟩

theorem Frame.same {s s' : LSt} {o : List LObs} (hass : LObs.cb .ASS ∉ o)
    (h : s'.lo = s.lo ∧ s'.hi = s.hi ∧ s'.endedVbs = s.endedVbs) : Frame s o s' := Or.inl ⟨hass, h⟩

theorem Frame.trans {s s1 s2 : LSt} {o1 o2 : List LObs} (h1 : Frame s o1 s1) (h2 : Frame s1 o2 s2) :
    Frame s (o1 ++ o2) s2 := by
  rcases h2 with ⟨n2, l2, i2, e2⟩ | ⟨m2, e2⟩
  · rcases h1 with ⟨n1, l1, i1, e1⟩ | ⟨m1, e1⟩
    · refine Or.inl ⟨?_, l2.trans l1, i2.trans i1, e2.trans e1⟩
      intro hx
      rcases List.mem_append.1 hx with hx | hx
      · exact n1 hx
      · exact n2 hx
    · exact Or.inr ⟨List.mem_append_left _ m1, e2.trans e1⟩
  · exact Or.inr ⟨List.mem_append_right _ m2, e2⟩

theorem rebalanceFires_frame (s : LSt) (a : Nat) :
    LObs.cb .ASS ∈ (rebalanceFires s a).2 ∧ (rebalanceFires s a).1.endedVbs = [] := by
  by_cases hq : s.queuedCalls > 0
  · rw [rebalanceFires_queued s a hq]
    refine ⟨by simp [doOpen], ?_⟩
    exact (rebalanceLocked_sess _ a).2.2
  · rw [rebalanceFires_plain s a (by omega)]
    exact ⟨by simp [doOpen], rfl⟩

theorem fireOne_frame (s : LSt) (t : Timer) : Frame s (fireOne s t).2 (fireOne s t).1 := by
  cases hk : t.kind with
  | reb => rw [fireOne_reb s hk]; exact Or.inr (rebalanceFires_frame _ _)
  | Reb =>
    rw [fireOne_Reb s hk]
    refine Frame.same ?_ (callRebalance_sess (setTimer s { t with pending := false }) t.deadline)
    intro hx
    exact callRebalance_noASS _ _ (List.mem_filter.1 hx).1

theorem fireDue_frame (upto fuel : Nat) (s : LSt) : Frame s (fireDue upto fuel s).2 (fireDue upto fuel s).1 := by
  induction fuel generalizing s with
  | zero => exact Frame.refl s
  | succ fuel ih =>
    rw [fireDue_succ]
    split
    · exact Frame.refl s
    · split
      · exact Frame.refl s
      · exact (fireOne_frame s _).trans (ih _)

/-- the record after a step that stays in the session -/
def endedOf (s : LSt) (op : LOp) : List Nat :=
  match op with
  | .endEv vb _ => if countsEnd s op then endedAdd s.endedVbs vb else s.endedVbs
  | _ => s.endedVbs

theorem listenEnd_noASS (s : LSt) (vb : Nat) (c : EndCause) : LObs.cb .ASS ∉ (listenEnd s vb c).2 := by
  intro hx
  rcases listenEnd_alpha s vb c _ hx with ⟨h, _⟩ | ⟨q, h⟩ | ⟨w, h⟩ <;> cases h

theorem evStep_sess (s : LSt) (vb : Nat) :
    (evStep s vb).1.lo = s.lo ∧ (evStep s vb).1.hi = s.hi ∧ (evStep s vb).1.endedVbs = s.endedVbs := by
  simp only [evStep]
  (repeat' split) <;> exact ⟨rfl, rfl, rfl⟩

theorem evStep_noASS (s : LSt) (vb : Nat) : LObs.cb .ASS ∉ (evStep s vb).2 := by
  intro hx
  obtain ⟨q, h, _⟩ := evStep_alpha s vb _ hx
  cases h

theorem closeOp_noASS (s : LSt) (c : Bool) : LObs.cb .ASS ∉ (closeOp s c).2 := by
  intro hx
  rcases closeOp_alpha s c _ hx with h | h
  · exact h.noASS rfl
  · cases h

theorem closeOp_sess (s : LSt) (c : Bool) :
    (closeOp s c).1.lo = s.lo ∧ (closeOp s c).1.hi = s.hi ∧ (closeOp s c).1.endedVbs = s.endedVbs := by
  by_cases hn : s.obsNil = true
  · rw [closeOp_nil s c hn]; exact ⟨rfl, rfl, rfl⟩
  · rw [closeOp_open s c (by simpa using hn)]; exact closeCore_sess s c

theorem writtens_noASS (w : List (Nat × Nat)) : LObs.cb .ASS ∉ w.map fun (vb, q) => LObs.written vb q := by
  intro hx
  simp only [List.mem_map] at hx
  obtain ⟨p, _, h⟩ := hx
  cases h

/-- the record of a final end on a streaming stream -/
theorem listenEnd_sess {s : LSt} (vb : Nat) (c : EndCause) (h : Inv s) (hd : s.dead = false)
    (hst : s.stopClosed = false) :
    (listenEnd s vb c).1.lo = s.lo ∧ (listenEnd s vb c).1.hi = s.hi ∧
      (listenEnd s vb c).1.endedVbs = endedOf s (.endEv vb c) := by
  have hclosed : s.closedObs = true → ((listenEnd s vb c).1.lo = s.lo ∧ (listenEnd s vb c).1.hi = s.hi ∧
      (listenEnd s vb c).1.endedVbs = endedOf s (.endEv vb c)) := fun hc => by
    rw [listenEnd_closed s vb c hc]
    exact ⟨rfl, rfl, by simp [endedOf, countsEnd, hc]⟩
  cases h with
  | dead hx => rw [hd] at hx; cases hx
  | pre _ _ h => exact hclosed h.closedObs
  | B _ _ h => exact hclosed h.1.closedObs
  | C _ _ h => exact hclosed h.closedObs
  | A _ _ h =>
    by_cases hc : c = .transient
    · subst hc
      rw [listenEnd_transient_A vb h]
      have e : endedOf s (.endEv vb .transient) = s.endedVbs := by simp [endedOf, countsEnd]
      rw [e]
      split <;> exact ⟨rfl, rfl, rfl⟩
    · have e : endedOf s (.endEv vb c) = endedAdd s.endedVbs vb := by
        simp [endedOf, countsEnd, hc, h.closedObs, hst, hd]
      rw [e, listenEnd_final_A vb h hc]
      split
      · split <;> exact ⟨rfl, rfl, rfl⟩
      · exact ⟨rfl, rfl, rfl⟩

/-- `Frame` with the record a step that stays in the session leaves -/
def FrameOp (s : LSt) (op : LOp) (o : List LObs) (s' : LSt) : Prop :=
  (LObs.cb .ASS ∉ o ∧ s'.lo = s.lo ∧ s'.hi = s.hi ∧ s'.endedVbs = endedOf s op) ∨
  (LObs.cb .ASS ∈ o ∧ s'.endedVbs = [])

theorem FrameOp.then {s s1 s2 : LSt} {op : LOp} {o1 o2 : List LObs} (h1 : FrameOp s op o1 s1) (h2 : Frame s1 o2 s2) :
    FrameOp s op (o1 ++ o2) s2 := by
  rcases h2 with ⟨n2, l2, i2, e2⟩ | ⟨m2, e2⟩
  · rcases h1 with ⟨n1, l1, i1, e1⟩ | ⟨m1, e1⟩
    · refine Or.inl ⟨?_, l2.trans l1, i2.trans i1, e2.trans e1⟩
      intro hx
      rcases List.mem_append.1 hx with hx | hx
      · exact n1 hx
      · exact n2 hx
    · exact Or.inr ⟨List.mem_append_left _ m1, e2.trans e1⟩
  · exact Or.inr ⟨List.mem_append_right _ m2, e2⟩

theorem stepCore_frame {s : LSt} (op : LOp) (h : Inv s) (hd : s.dead = false) (hig : ignored s op = false) :
    FrameOp s op (stepCore s op).2 (stepCore s op).1 := by
  cases op with
  | member lo hi => exact Or.inl ⟨by simp [stepCore], rfl, rfl, rfl⟩
  | setStore vb q => exact Or.inl ⟨by simp [stepCore], rfl, rfl, rfl⟩
  | query => exact Or.inl ⟨by simp [stepCore], rfl, rfl, rfl⟩
  | «open» => exact Or.inr ⟨by simp [stepCore, doOpen], rfl⟩
  | notify => exact Or.inl ⟨callRebalance_noASS s s.now, callRebalance_sess s s.now⟩
  | notifyApi =>
    simp only [stepCore]
    split
    · exact Or.inl ⟨callRebalance_noASS s s.now, callRebalance_sess s s.now⟩
    · exact Or.inl ⟨by simp, rfl, rfl, rfl⟩
  | notifyDuringClose k => exact Or.inl ⟨notifyOverlapped_noASS s k, notifyOverlapped_sess s k⟩
  | tick d =>
    rcases fireDue_frame (s.now + d) 64 s with ⟨n, l, i, e⟩ | ⟨m, e⟩
    · exact Or.inl ⟨n, l, i, e⟩
    · exact Or.inr ⟨m, e⟩
  | endEv vb c =>
    exact Or.inl ⟨listenEnd_noASS s vb c, listenEnd_sess vb c h hd (ignored_false_stop hig (by simp))⟩
  | ev vb => exact Or.inl ⟨evStep_noASS s vb, evStep_sess s vb⟩
  | save =>
    have e := saveStep_fields s
    obtain ⟨w, hw⟩ := saveStep_out s
    refine Or.inl ⟨?_, e.lo, e.hi, e.endedVbs⟩
    show LObs.cb .ASS ∉ (saveStep s).2
    rw [hw]; exact writtens_noASS w
  | shutdown c =>
    rw [stepCore_shutdown]
    have e := finalSave_fields s
    obtain ⟨w, hw⟩ := finalSave_out s
    have hc := closeOp_sess (finalSave s).1 c
    refine Or.inl ⟨?_, hc.1.trans e.lo, hc.2.1.trans e.hi, hc.2.2.trans e.endedVbs⟩
    intro hx
    rcases List.mem_append.1 hx with hx | hx
    · rw [hw] at hx; exact writtens_noASS w hx
    · exact closeOp_noASS _ c hx

/-- **sessions through one op**: a step either contains no `Open` – the range stays and the record of finally ended
    vBuckets grows by the vBucket of a counted final end, if it is new – or contains one and ends with an empty
    record -/
theorem step_frame {s : LSt} (op : LOp) (h : Inv s) : FrameOp s op (step s op).2 (step s op).1 := by
  rw [step_eq]
  by_cases hd : s.dead = true
  · rw [if_pos hd]
    refine Or.inl ⟨by simp, rfl, rfl, ?_⟩
    cases op <;> simp [endedOf, countsEnd, hd]
  · rw [if_neg hd]
    have hd' : s.dead = false := by simpa using hd
    by_cases hi : ignored s op = true
    · rw [if_pos hi]
      have hst : s.stopClosed = true := by simp [ignored] at hi; exact hi.1
      refine Or.inl ⟨by simp, rfl, rfl, ?_⟩
      cases op <;> simp [endedOf, countsEnd, hst]
    · rw [if_neg hi]
      exact (stepCore_frame op h hd' (by simpa using hi)).then (fireDue_frame _ 64 _)

/-! ## the exact session count under the server hypothesis -/

/-- **the data invariant of a session** (it needs the server hypothesis `EndOk`: `listenEnd` decrements the count
    for EVERY non-transient end it sees, also for a vBucket that has already ended or is not assigned). While the
    stream is open the active count is the number of assigned vBuckets minus the number of recorded final ends and
    every recorded vBucket is assigned (duplicate-free: `PhA.endedNodup`); after a `Close` – in the rebalance
    window and after a shutdown – the count is exactly 0. -/
def Exact (s : LSt) : Prop :=
  s.dead = false →
    (s.isOpen = true →
      s.active = ((vbs s.lo s.hi).length : Int) - (s.endedVbs.length : Int) ∧
      ∀ vb ∈ s.endedVbs, vb ∈ vbs s.lo s.hi) ∧
    (s.isOpen = false → s.everOpened = true → s.active = 0)

theorem Exact.of_dead {s : LSt} (h : s.dead = true) : Exact s := fun hd => by rw [h] at hd; cases hd

theorem Exact.congr {s s' : LSt} (h : Exact s) (e : SameData s s') : Exact s' := by
  intro hd
  have := h (e.dead ▸ hd)
  rw [e.isOpen, e.everOpened, e.active, e.lo, e.hi, e.endedVbs]
  exact this

/-- right after an `Open` -/
theorem Exact.fresh {s : LSt} (ho : s.isOpen = true) (ha : s.active = ((vbs s.lo s.hi).length : Int))
    (he : s.endedVbs = []) : Exact s := by
  intro _
  refine ⟨fun _ => ⟨by rw [ha, he]; simp, by rw [he]; simp⟩, fun hc => ?_⟩
  rw [ho] at hc; cases hc

theorem Exact.zero {s : LSt} (ho : s.isOpen = false) (ha : s.active = 0) : Exact s := by
  intro _
  refine ⟨fun hc => ?_, fun _ _ => ha⟩
  rw [ho] at hc; cases hc

/-- before the first `Open` nothing is claimed -/
theorem PhPre.exact {s : LSt} (h : PhPre s) : Exact s := by
  intro _
  refine ⟨fun hc => ?_, fun _ he => ?_⟩
  · rw [h.isOpen] at hc; cases hc
  · rw [h.everOpened] at he; cases he

/-- under the exact count, the server still has exactly `active` streams of the session -/
theorem PhA.exact_live {s : LSt} (h : PhA s) (hx : Exact s) (hd : s.dead = false) :
    s.active = ((live s).length : Int) := by
  obtain ⟨ha, hsub⟩ := (hx hd).1 h.isOpen
  have := filter_notin_length s.endedVbs (vbs s.lo s.hi) h.endedNodup hsub (vbs_nodup _ _)
  rw [live_length, h.keys, ha]
  omega

/-- … which are the assigned vBuckets that have not finally ended -/
theorem PhA.exact_unfinished {s : LSt} (h : PhA s) (hx : Exact s) (hd : s.dead = false) :
    s.active = (((vbs s.lo s.hi).filter fun vb => !s.endedVbs.contains vb).length : Int) := by
  rw [h.exact_live hx hd, live_length, h.keys]

/-- contract of a sub-step for the exact count: it is kept, and every (re)open re-establishes it -/
def Keeps (s : LSt) (o : List LObs) (s' : LSt) : Prop := (Exact s ∨ LObs.cb .ASS ∈ o) → Exact s'

theorem Keeps.refl (s : LSt) : Keeps s [] s := fun h => h.resolve_right (by simp)

theorem Keeps.of_exact {s s' : LSt} {o : List LObs} (h : Exact s') : Keeps s o s' := fun _ => h

theorem Keeps.trans {s s1 s2 : LSt} {o1 o2 : List LObs} (h1 : Keeps s o1 s1) (h2 : Keeps s1 o2 s2) :
    Keeps s (o1 ++ o2) s2 := by
  rintro (hx | hx)
  · exact h2 (Or.inl (h1 (Or.inl hx)))
  · rcases List.mem_append.1 hx with hx | hx
    · exact h2 (Or.inl (h1 (Or.inr hx)))
    · exact h2 (Or.inr hx)

theorem Keeps.same {s s' : LSt} {o : List LObs} (hass : LObs.cb .ASS ∉ o) (e : SameData s s') : Keeps s o s' :=
  fun h => (h.resolve_right hass).congr e

theorem Keeps.of_noASS {s s' : LSt} {o : List LObs} (hass : LObs.cb .ASS ∉ o) (h : Exact s → Exact s') : Keeps s o s' :=
  fun hx => h (hx.resolve_right hass)

/-- **`Close` brings the count to exactly 0** whatever subset of the assigned vBuckets had finally ended before:
    only the streams the server still has answer with an `End` -/
theorem closeCore_active_zero {s : LSt} (c : Bool) (h : PhA s) (hx : Exact s) (hd : s.dead = false) :
    (closeCore s c).1.active = 0 := by
  rw [closeCore_active, h.exact_live hx hd]; omega

/-- the same for the `Close` inside `Rebalance()` -/
theorem closeCore_active_zero_reb {s : LSt} (c : Bool) (h : PhA s) (hx : Exact s) (hd : s.dead = false) :
    (closeCore { s with lockHeld := true, balancing := true } c).1.active = 0 := by
  rw [closeCore_active]
  show s.active - ((live s).length : Int) = 0
  rw [h.exact_live hx hd]; omega

theorem rebalanceLocked_exact {s : LSt} (a : Nat) (h : PhA s) (hx : Exact s) (hd : s.dead = false) :
    Exact (rebalanceLocked s a).1 := by
  rw [rebalanceLocked_streaming s a h.obsNil h.balancing hd]
  exact Exact.zero (by simp [armTimer]) (by simpa [armTimer] using closeCore_active_zero_reb false h hx hd)

theorem callRebalance_keeps {s : LSt} (a : Nat) (h : Inv s) (hd : s.dead = false) :
    Keeps s (callRebalance s a).2 (callRebalance s a).1 := by
  refine Keeps.of_noASS (callRebalance_noASS s a) fun hx => ?_
  cases h with
  | dead hx => rw [hd] at hx; cases hx
  | pre _ ok h =>
    rw [callRebalance_streaming a h.balancing h.lockHeld, rebalanceLocked_closed s a h.obsNil h.balancing]
    exact Exact.of_dead rfl
  | C _ ok h =>
    rw [callRebalance_streaming a h.balancing h.lockHeld, rebalanceLocked_closed s a h.obsNil h.balancing]
    exact Exact.of_dead rfl
  | A _ ok h =>
    rw [callRebalance_streaming a h.balancing h.lockHeld]
    exact rebalanceLocked_exact a h hx hd
  | B _ ok h =>
    obtain ⟨t, _, _, _, _, hdb, _, _⟩ := debounce_window a ok h
    simp only [callRebalance, hdb]
    exact hx.congr ⟨rfl, rfl, rfl, rfl, rfl, rfl, rfl⟩

theorem notifyOverlapped_keeps {s : LSt} (k : Nat) (h : Inv s) (hd : s.dead = false) :
    Keeps s (notifyOverlapped s k).2 (notifyOverlapped s k).1 := by
  refine Keeps.of_noASS (notifyOverlapped_noASS s k) fun hx => ?_
  cases h with
  | dead hx => rw [hd] at hx; cases hx
  | pre _ ok h => rw [notifyOverlapped_closed s k h.balancing h.lockHeld h.obsNil]; exact Exact.of_dead rfl
  | C _ ok h => rw [notifyOverlapped_closed s k h.balancing h.lockHeld h.obsNil]; exact Exact.of_dead rfl
  | A _ ok h =>
    rw [notifyOverlapped_streaming s k h.balancing h.lockHeld h.obsNil]
    have e := duringClose_data (closeCore { s with lockHeld := true, balancing := true } false).1 s.now k
    refine Exact.zero ?_ ?_
    · show (duringClose _ s.now k).1.isOpen = false
      rw [e.isOpen]; simp
    · show (duringClose _ s.now k).1.active = 0
      rw [e.active]; exact closeCore_active_zero_reb false h hx hd
  | B _ ok h =>
    obtain ⟨t, _, _, _, _, hdb, _, _⟩ := debounce_window s.now ok h
    simp only [notifyOverlapped, hdb]
    exact hx.congr ⟨rfl, rfl, rfl, rfl, rfl, rfl, rfl⟩

/-- the reopen in `rebalance()` starts an exact session, whatever the count was; a queued `Rebalance()` that gets
    the lock at once closes it again: every requested stream answers, the count is 0 -/
theorem rebalanceFires_exact (s : LSt) (a : Nat) (hd : s.dead = false) : Exact (rebalanceFires s a).1 := by
  by_cases hq : s.queuedCalls > 0
  · rw [rebalanceFires_queued s a hq, rebalanceLocked_streaming (reopened s (s.queuedCalls - 1)) a rfl rfl hd]
    refine Exact.zero (by simp [armTimer]) ?_
    show (closeCore _ false).1.active = 0
    rw [closeCore_active]
    show (reopened s (s.queuedCalls - 1)).active - ((live (reopened s (s.queuedCalls - 1))).length : Int) = 0
    rw [reopened_active_live]; omega
  · rw [rebalanceFires_plain s a (by omega)]
    exact Exact.fresh rfl rfl rfl

theorem fireOne_keeps {s : LSt} {t : Timer} (h : Inv s) (hd : s.dead = false) (ht : t ∈ s.timers)
    (hp : t.pending = true) : Keeps s (fireOne s t).2 (fireOne s t).1 := by
  have ok' : ∀ ok : TimersOk s, TimersOk (setTimer s { t with pending := false }) := fun ok => ok.setTimer ht rfl
  have hReb : Inv (setTimer s { t with pending := false }) → t.kind = .Reb →
      Keeps s (fireOne s t).2 (fireOne s t).1 := by
    intro hi hk
    rw [fireOne_Reb s hk]
    have hn : LObs.cb .ASS ∉ (callRebalance (setTimer s { t with pending := false }) t.deadline).2.filter silent :=
      fun hx => callRebalance_noASS _ _ (List.mem_filter.1 hx).1
    refine Keeps.of_noASS hn fun hx => ?_
    exact callRebalance_keeps t.deadline hi hd (Or.inl (hx.congr ⟨rfl, rfl, rfl, rfl, rfl, rfl, rfl⟩))
  cases h with
  | dead hx => rw [hd] at hx; cases hx
  | pre _ ok h => exact hReb (.pre hd (ok' ok) { h with noReb := h.noReb.fire t }) (h.noReb t ht hp)
  | A _ ok h => exact hReb (.A hd (ok' ok) { h with noReb := h.noReb.fire t }) (h.noReb t ht hp)
  | C _ ok h => exact hReb (.C hd (ok' ok) { h with noReb := h.noReb.fire t }) (h.noReb t ht hp)
  | B _ ok h =>
    cases hk : t.kind with
    | Reb => exact hReb (.B hd (ok' ok) ⟨h.1.congr rfl rfl rfl rfl rfl rfl rfl rfl rfl, h.2.fire_Reb ok ht hk⟩) hk
    | reb =>
      rw [fireOne_reb s hk]
      exact Keeps.of_exact (rebalanceFires_exact _ _ hd)

theorem fireDue_keeps (upto fuel : Nat) {s : LSt} (h : Inv s) :
    Keeps s (fireDue upto fuel s).2 (fireDue upto fuel s).1 := by
  induction fuel generalizing s with
  | zero => exact Keeps.refl s
  | succ fuel ih =>
    rw [fireDue_succ]
    cases hd : s.dead with
    | true => exact Keeps.refl s
    | false =>
      simp only [Bool.false_eq_true, if_false]
      cases hdue : dueTimer s upto with
      | none => exact Keeps.refl s
      | some t =>
        obtain ⟨ht, hp, _⟩ := dueTimer_some hdue
        exact (fireOne_keeps h hd ht hp).trans (ih (fireOne_good h hd ht hp).inv)

/-- **server hypothesis for one op**: a non-transient end that is counted belongs to an assigned vBucket whose stream
    has not finally ended in this session -/
def EndFits (s : LSt) (op : LOp) : Prop :=
  ∀ vb c, op = .endEv vb c → countsEnd s op = true → vb ∈ vbs s.lo s.hi ∧ vb ∉ s.endedVbs

theorem listenEnd_keeps {s : LSt} (vb : Nat) (c : EndCause) (h : Inv s) (hd : s.dead = false)
    (hst : s.stopClosed = false) (hf : EndFits s (.endEv vb c)) :
    Keeps s (listenEnd s vb c).2 (listenEnd s vb c).1 := by
  refine Keeps.of_noASS (listenEnd_noASS s vb c) fun hx => ?_
  cases h with
  | dead hx => rw [hd] at hx; cases hx
  | pre _ _ h => rw [listenEnd_closed s vb c h.closedObs]; exact hx
  | B _ _ h => rw [listenEnd_closed s vb c h.1.closedObs]; exact hx
  | C _ _ h => rw [listenEnd_closed s vb c h.closedObs]; exact hx
  | A _ _ h =>
    by_cases hc : c = .transient
    · subst hc
      rw [listenEnd_transient_A vb h]
      split
      · exact hx
      · exact Exact.of_dead rfl
    · obtain ⟨hin, hnew⟩ := hf vb c rfl (by simp [countsEnd, hc, h.closedObs, hst, hd])
      obtain ⟨ha, hsub⟩ := (hx hd).1 h.isOpen
      have key : Exact { s with active := s.active - 1, endedVbs := endedAdd s.endedVbs vb } := by
        intro _
        refine ⟨fun _ => ⟨?_, ?_⟩, fun hc' => ?_⟩
        · show s.active - 1 = ((vbs s.lo s.hi).length : Int) - ((endedAdd s.endedVbs vb).length : Int)
          rw [endedAdd_of_not_mem hnew, ha]; simp; omega
        · intro v hv
          rcases mem_endedAdd.1 hv with hv | rfl
          · exact hsub v hv
          · exact hin
        · have : s.isOpen = false := hc'
          rw [h.isOpen] at this; cases this
      rw [listenEnd_final_A vb h hc]
      split
      · split <;> exact key.congr ⟨rfl, rfl, rfl, rfl, rfl, rfl, rfl⟩
      · exact key

theorem stepCore_keeps {s : LSt} (op : LOp) (h : Inv s) (hd : s.dead = false) (hig : ignored s op = false)
    (hopen : OpenOk s op) (hf : EndFits s op) : Keeps s (stepCore s op).2 (stepCore s op).1 := by
  cases op with
  | member lo hi => exact Keeps.same (by simp [stepCore]) ⟨rfl, rfl, rfl, rfl, rfl, rfl, rfl⟩
  | setStore vb q => exact Keeps.same (by simp [stepCore]) ⟨rfl, rfl, rfl, rfl, rfl, rfl, rfl⟩
  | query => exact Keeps.same (by simp [stepCore]) ⟨rfl, rfl, rfl, rfl, rfl, rfl, rfl⟩
  | «open» => exact Keeps.of_exact (Exact.fresh rfl rfl rfl)
  | notify => exact callRebalance_keeps s.now h hd
  | notifyApi =>
    simp only [stepCore]
    split
    · exact callRebalance_keeps s.now h hd
    · exact Keeps.same (by simp) (SameData.refl s)
  | notifyDuringClose k => exact notifyOverlapped_keeps k h hd
  | tick d =>
    have g := fireDue_keeps (s.now + d) 64 h
    intro hx
    exact (g hx).congr ⟨rfl, rfl, rfl, rfl, rfl, rfl, rfl⟩
  | endEv vb c => exact listenEnd_keeps vb c h hd (ignored_false_stop hig (by simp)) hf
  | ev vb =>
    refine Keeps.of_noASS (evStep_noASS s vb) fun hx => ?_
    show Exact (evStep s vb).1
    cases h with
    | dead hx => rw [hd] at hx; cases hx
    | pre _ _ h => rw [evStep_closed s vb h.closedObs]; exact hx
    | B _ _ h => rw [evStep_closed s vb h.1.closedObs]; exact hx
    | C _ _ h => rw [evStep_closed s vb h.closedObs]; exact hx
    | A _ _ h =>
      rw [evStep_A vb h]
      split
      · exact hx
      · exact hx.congr ⟨rfl, rfl, rfl, rfl, rfl, rfl, rfl⟩
  | save =>
    obtain ⟨w, hw⟩ := saveStep_out s
    have e := saveStep_fields s
    refine Keeps.same (s' := (saveStep s).1) ?_ ⟨e.dead, e.isOpen, e.everOpened, e.active, e.lo, e.hi, e.endedVbs⟩
    show LObs.cb .ASS ∉ (saveStep s).2
    rw [hw]; exact writtens_noASS w
  | shutdown c =>
    rw [stepCore_shutdown]
    obtain ⟨w, hw⟩ := finalSave_out s
    have hn : LObs.cb .ASS ∉ (finalSave s).2 ++ (closeOp (finalSave s).1 c).2 := by
      intro hx
      rcases List.mem_append.1 hx with hx | hx
      · rw [hw] at hx; exact writtens_noASS w hx
      · exact closeOp_noASS _ c hx
    refine Keeps.of_noASS hn fun hx => ?_
    have g := finalSave_good h hd
    have hd1 : (finalSave s).1.dead = false := (finalSave_dead s).trans hd
    have e := finalSave_fields s
    have hx1 : Exact (finalSave s).1 :=
      hx.congr (s' := (finalSave s).1) ⟨e.dead, e.isOpen, e.everOpened, e.active, e.lo, e.hi, e.endedVbs⟩
    by_cases hnil : (finalSave s).1.obsNil = true
    · rw [closeOp_nil _ c hnil]; exact Exact.of_dead rfl
    · have hnil' : (finalSave s).1.obsNil = false := by simpa using hnil
      rw [closeOp_open _ c hnil']
      have hA1 : PhA (finalSave s).1 := by
        cases g.inv with
        | dead hx' => rw [hd1] at hx'; cases hx'
        | pre _ _ h' => rw [h'.obsNil] at hnil'; cases hnil'
        | B _ _ h' => rw [h'.1.obsNil] at hnil'; cases hnil'
        | C _ _ h' => rw [h'.obsNil] at hnil'; cases hnil'
        | A _ _ h' => exact h'
      exact Exact.zero (by simp) (closeCore_active_zero c hA1 hx1 hd1)

/-- the hypothesis as it is used: the end fits, or the step reopens anyway (then the new session is exact whatever
    the old count was) -/
def EndOk (s : LSt) (op : LOp) : Prop := EndFits s op ∨ LObs.cb .ASS ∈ (step s op).2

theorem EndFits.of_not_end {s : LSt} {op : LOp} (h : ∀ vb c, op ≠ .endEv vb c) : EndFits s op :=
  fun vb c e => absurd e (h vb c)

/-- **the exact count is kept by every op** that satisfies the server hypothesis -/
theorem step_exact {s : LSt} (op : LOp) (h : Inv s) (hopen : OpenOk s op) (hx : Exact s) (he : EndOk s op) :
    Exact (step s op).1 := by
  by_cases hd : s.dead = true
  · rw [dead_step s op hd]; exact hx
  · have hd' : s.dead = false := by simpa using hd
    by_cases hi : ignored s op = true
    · rw [step_eq, if_neg hd, if_pos hi]; exact hx
    · have hi' : ignored s op = false := by simpa using hi
      have g := stepCore_good op h hd' hopen
      have hfd := fireDue_keeps (stepCore s op).1.now 64 g.inv
      rcases he with hf | hass
      · rw [step_of_live hd' hi']
        exact hfd (Or.inl (stepCore_keeps op h hd' hi' hopen hf (Or.inl hx)))
      · rw [step_of_live hd' hi'] at hass ⊢
        rcases List.mem_append.1 hass with h1 | h2
        · -- the op itself (re)opens: it is not a stream end
          have hf : EndFits s op := by
            intro vb c e
            subst e
            exact absurd h1 (listenEnd_noASS s vb c)
          exact hfd (Or.inl (stepCore_keeps op h hd' hi' hopen hf (Or.inl hx)))
        · exact hfd (Or.inr h2)

/-- the hypothesis along a run -/
def EndsOk (s : LSt) : List LOp → Prop
  | [] => True
  | op :: r => EndOk s op ∧ EndsOk (step s op).1 r

/-- **the run theorem for the exact count** -/
theorem run_exact {s : LSt} {ops : List LOp} (h : Inv s) (hok : OpsOk s ops) (hx : Exact s) (he : EndsOk s ops) :
    Exact (run s ops) := by
  induction ops generalizing s with
  | nil => exact hx
  | cons op r ih =>
    rw [run_cons]
    exact ih (step_good op h hok.1).inv hok.2 (step_exact op h hok.1 hx he.1) he.2

/-- **`window_active_zero`.** In the rebalance window (phase B) the active count is exactly 0 under the exact count … -/
theorem window_active_zero {s : LSt} (hW : PhW s) (hx : Exact s) (hd : s.dead = false) : s.active = 0 :=
  (hx hd).2 hW.isOpen hW.everOpened

/-- … and never positive in ANY reachable window state (`PhW.activeLe`: no server hypothesis): an end that was counted
    twice, or for an unassigned vBucket, leaves the count negative for the rest of the window -/
theorem window_active_nonpos {s : LSt} (h : Inv s) (hd : s.dead = false) (hb : s.balancing = true) : s.active ≤ 0 :=
  (h.phB hd hb).1.activeLe

end GoDcp.Life
