/-!
Shared basics of the stream models: offsets, checkpoint documents and
association-list maps keyed by vBucket id (the model of Go maps /
`ConcurrentSwissMap`; per-key atomicity of the real map is trusted).
Core Lean only.
-/
namespace GoDcp

abbrev Vb := Nat

/-- `models.Offset` with its `*SnapshotMarker` flattened (value copy). -/
structure Offset where
  uuid : Nat
  seq : Nat
  ss : Nat
  se : Nat
  latest : Nat
deriving DecidableEq, Repr, Inhabited

/-- `models.CheckpointDocument` (the four persisted fields). -/
structure Doc where
  uuid : Nat
  seq : Nat
  ss : Nat
  se : Nat
deriving DecidableEq, Repr, Inhabited

/-- checkpoint.go Save: document built from an offset -/
def Offset.toDoc (o : Offset) : Doc := ⟨o.uuid, o.seq, o.ss, o.se⟩

/-- checkpoint.go Load: offset built from a document and the end seqno -/
def Doc.toOffset (d : Doc) (latest : Nat) : Offset := ⟨d.uuid, d.seq, d.ss, d.se, latest⟩

def Doc.zero : Doc := ⟨0, 0, 0, 0⟩

/-- association-list map -/
abbrev AMap (α : Type) := List (Vb × α)

namespace AMap
variable {α : Type}

def get? : AMap α → Vb → Option α
  | [], _ => none
  | (k, v) :: r, x => if k = x then some v else get? r x

/-- replace in place or append (keeps insertion order, keys stay unique) -/
def set : AMap α → Vb → α → AMap α
  | [], x, a => [(x, a)]
  | (k, v) :: r, x, a => if k = x then (k, a) :: r else (k, v) :: set r x a

def has (m : AMap α) (x : Vb) : Bool := (get? m x).isSome

def keys (m : AMap α) : List Vb := m.map (·.1)

theorem get?_set_same (m : AMap α) (x : Vb) (a : α) : get? (set m x a) x = some a := by
  induction m with
  | nil => simp [set, get?]
  | cons h t ih =>
    obtain ⟨k, v⟩ := h
    by_cases hk : k = x <;> simp [set, get?, hk, ih]

theorem get?_set_other (m : AMap α) (x y : Vb) (a : α) (h : y ≠ x) :
    get? (set m x a) y = get? m y := by
  induction m with
  | nil => simp [set, get?]; intro h'; exact absurd h'.symm h
  | cons hd t ih =>
    obtain ⟨k, v⟩ := hd
    by_cases hk : k = x
    · subst hk; simp [set, get?, Ne.symm h]
    · by_cases hk' : k = y
      · subst hk'; simp [set, get?, hk]
      · simp [set, get?, hk, hk', ih]

theorem get?_set (m : AMap α) (x y : Vb) (a : α) :
    get? (set m x a) y = if y = x then some a else get? m y := by
  by_cases h : y = x
  · subst h; simp [get?_set_same]
  · simp [h, get?_set_other m x y a h]

end AMap

/-- insertion sort of (vb, x) pairs by vb – canonical order for observations -/
def insertBy {α : Type} (k : α → Nat) (a : α) : List α → List α
  | [] => [a]
  | b :: r => if k a ≤ k b then a :: b :: r else b :: insertBy k a r

def sortBy {α : Type} (k : α → Nat) (l : List α) : List α := l.foldr (insertBy k) []

end GoDcp
