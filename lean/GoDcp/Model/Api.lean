import GoDcp.Model.Session
/-!
The HTTP endpoints of `api/api.go` that read or drive the stream, as functions of the session model
(`Model/Session.lean`). Each one is defined THROUGH the model function the corresponding direct call is
modelled by, so that everything proved about `getOffsets` / `scrape` / `rebalance` transfers:

* `GET /states/offset` (`offset`, l.77-83): `if !s.stream.IsOpen() { "offset could not get, stream is not open" }`
  else the first component of `s.stream.GetOffsets()` as JSON;
* `GET <metric path>`: the registered `metric.NewMetricCollector` gathered through the prometheus
  handler, i.e. `metricCollector.Collect` = `scrape`;
* `GET /rebalance` (`rebalance`, l.85-91): `if !s.stream.IsOpen() { "rebalance skipped, stream is not open" }`
  else `s.stream.Rebalance()` (completed by its delayed `rebalance()`, as in the `rebalance` op);
* `GET /status` (`status`, l.69-75): `client.Ping()` failed → the error (HTTP 500), else "OK".
-/
namespace GoDcp.Api
open GoDcp

/-- the offsets part of a `GetOffsets()` observation -/
def posPart : List Obsv → List (Vb × Offset)
  | [.pos offs _ _] => offs
  | _ => []

/-- `GET /states/offset`: `none` = the "stream is not open" answer -/
def apiOffsets (s : St) : Option (List (Vb × Offset)) :=
  if s.isOpen then some (posPart (step s .getOffsets).2) else none

/-- `GET <metric path>` -/
def apiMetrics (s : St) : Obsv := scrape s

/-- `GET /rebalance`: `none` = "rebalance skipped, stream is not open" (nothing is called) -/
def apiRebalance (s : St) (lo hi : Vb) : St × Option (List Obsv) :=
  if s.isOpen then ((step s (.rebalance lo hi)).1, some (step s (.rebalance lo hi)).2) else (s, none)

/-- `GET /status`: true = 200 "OK" -/
def apiStatus (pingFails : Bool) : Bool := !pingFails

/-- the sequence number the offsets endpoint shows for a vBucket (0 when absent / closed) -/
def apiSeq (out : Option (List (Vb × Offset))) (vb : Vb) : Nat :=
  match out with
  | some offs => ((AMap.get? offs vb).map (·.seq)).getD 0
  | none => 0

/-! ### consumer calls in flight (`hold-next` … `release` of the harness)

`waitAndForward` hands the event to `consumer.ConsumeEvent` and comes back whenever the consumer does;
`stream.Close` does not wait for listener calls in flight. The model's `ev` is atomic at ENTRY: when a
consumer call returns is not part of the session state, and the counters and gauges the model predicts
must therefore not depend on it. The harness markers are no-ops on every model state. -/

/-- an op list with the harness's markers in it -/
inductive Marked (α : Type)
  | op (o : α)
  | holdNext     -- the next consumer call will be kept in flight
  | release      -- the call in flight returns now
deriving Repr

/-- the markers taken out -/
def Marked.strip {α : Type} : List (Marked α) → List α
  | [] => []
  | .op o :: r => o :: strip r
  | .holdNext :: r => strip r
  | .release :: r => strip r

/-- one marked op on any model state: a marker leaves it alone -/
def stepMarked {σ α : Type} (step : σ → α → σ) (s : σ) : Marked α → σ
  | .op o => step s o
  | .holdNext => s
  | .release => s

def runMarked {σ α : Type} (step : σ → α → σ) (s : σ) (l : List (Marked α)) : σ :=
  l.foldl (stepMarked step) s

end GoDcp.Api
