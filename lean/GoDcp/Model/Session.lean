import GoDcp.Model.Observer
/-!
M2 — one stream session under the L1 fakes: `stream.Open` (with
`checkpoint.Load`), `listen` / `waitAndForward` / `setOffset` / the `Ack`
closure, `checkpoint.Save` cut into its shared-memory steps, `stream.Close`,
and a crash (everything but the metadata store is lost).

The metadata store modelled here is the harness's in-memory `metadata.Metadata`
fake with the couchbase back end's write policy (only vBuckets marked dirty are
written, one document per vBucket, a save may fail after any subset of the
per-vBucket writes), optionally behind the real read-only wrapper.

Go maps are association lists. `dirtyOffsets` is *replaced* (not cleared) by
`UnmarkDirtyOffsets`, and `checkpoint.Save` captures the map pointer when it
reads the flag; map identity therefore matters and is modelled by generation
numbers (`dirtyMaps`, `curGen`).
-/
namespace GoDcp

structure Cfg where
  lo : Vb := 0
  hi : Vb := 0
  finite : Bool := false
  resetLatest : Bool := false
  readOnly : Bool := false
  obs : ObsCfg := {}
deriving Repr, Inhabited

def maxU64 : Nat := 18446744073709551615

/-- `offset.InitializeLatestSeqNo` -/
def initLatest (finite : Bool) (vbSeq : Nat) : Nat := if finite then vbSeq else maxU64

/-- a `ListenerContext` handed to the consumer: the `Ack` closure captures (vbID, offset) -/
structure Pending where
  sess : Nat
  vb : Vb
  off : Offset
deriving DecidableEq, Repr, Inhabited

/-- result the (fake) metadata store gives to one `Metadata.Save` call -/
inductive StoreRes
  | ok
  | fail                          -- rejected / timed out, nothing written
  | part (written : List Vb)   -- these per-vBucket writes landed, then an error
deriving DecidableEq, Repr, Inhabited

/-- program counter of one `checkpoint.Save` invocation -/
inductive SaverPc
  | wantLock (gen : Nat)                                   -- flag was up; captured dirty-map pointer
  | dumped (state : List (Vb × Doc)) (dirty : List Vb)     -- holds saveLock, inside `metadata.Save`
  | stored                                                 -- store returned nil; before `UnmarkDirtyOffsets`
deriving DecidableEq, Repr, Inhabited

structure St where
  cfg : Cfg := {}
  -- durable / environment
  store : AMap Doc := []
  high : AMap Nat := []
  flog : AMap Nat := []            -- head vbUUID of each vBucket's failover log
  -- volatile (one stream object)
  sess : Nat := 0
  isOpen : Bool := false
  everOpened : Bool := false       -- a stream object exists (range is set)
  offsets : AMap Offset := []
  dirtyMaps : AMap (List Vb) := [(0, [])]
  curGen : Nat := 0
  nextGen : Nat := 1
  anyDirty : Bool := false
  observers : AMap Obs := []       -- the observer objects (the client keeps them after Close)
  obsNil : Bool := true            -- `s.observers == nil`
  ctxs : List Pending := []
  savers : AMap SaverPc := []
  lockHeld : Bool := false
deriving Repr, Inhabited

inductive Op
  | setStore (vb : Vb) (d : Doc)
  | setHigh (vb : Vb) (n : Nat)
  | setFlog (vb : Vb) (u : Nat)
  | open
  | close
  | crash
  | ev (vb : Vb) (e : SrvEv)
  | ack (i : Nat)
  | save (res : StoreRes)                   -- a whole quiescent save (all micro steps in a row)
  | svBegin (k : Nat)
  | svDump (k : Nat)
  | svStore (k : Nat) (res : StoreRes)
  | svUnmark (k : Nat)
  | persist (vb : Vb) (seq : Nat)
  | getOffsets
  | metrics (vb : Vb)
  | scrape
  | rebalance (lo hi : Vb)                 -- a completed rebalance of the SAME stream object: Close(false), new range, Open
  | reopen (vb : Vb)                       -- transient stream end: `reopenStream` from the current position
deriving Repr, Inhabited

/-- one vBucket's metric families at a scrape (`metric/collector.go`) -/
structure ScrapeRow where
  vb : Vb
  cur : Nat
  ss : Nat
  se : Nat
  lag : Nat
  nmut : Nat
  ndel : Nat
  nexp : Nat
  persist : Nat
deriving DecidableEq, Repr, Inhabited

inductive Obsv
  | ok
  | bad (why : String)                      -- op not applicable in this state (generator error)
  | openreq (vb : Vb) (o : Offset)
  | closereq (vb : Vb)
  | deliver (i : Nat) (vb : Vb) (d : DocEv) (off : Offset) (coll : String) (t : Nat)
  | track (vb : Vb) (o : Offset)
  | saveCall (state : List (Vb × Doc)) (dirty : List Vb)   -- arguments of `Metadata.Save`
  | written (docs : List (Vb × Doc))                        -- what that call made durable
  | saveErr
  | nowrite                                                 -- "no need to save checkpoint"
  | flag (b : Bool)
  | failstop (why : String)
  | blocked
  | drop (why : String)
  | stale
  | pos (offs : List (Vb × Offset)) (dirty : List Vb) (any : Bool)
  | counters (m d e : Nat)
  | scrape (rows : List ScrapeRow) (totalLag : Nat)
  | scrapeClosed
deriving Repr, Inhabited

/-! ### stream.go -/

def inRange (c : Cfg) (vb : Vb) : Bool := c.lo ≤ vb && vb ≤ c.hi

def curDirty (s : St) : List Vb := (s.dirtyMaps.get? s.curGen).getD []

def markDirty (s : St) (vb : Vb) : St :=
  let d := curDirty s
  if d.contains vb then s else { s with dirtyMaps := s.dirtyMaps.set s.curGen (d ++ [vb]) }

/-- `setOffset` -/
def setOffset (s : St) (vb : Vb) (o : Offset) (dirty : Bool) : St × List Obsv :=
  if inRange s.cfg vb then
    match s.offsets.get? vb with
    | some cur =>
      if cur.seq > o.seq then (s, [])
      else
        let s1 := { s with offsets := s.offsets.set vb o }
        (if dirty then markDirty s1 vb else s1, [.track vb o])
    | none =>
      let s1 := { s with offsets := s.offsets.set vb o }
      (if dirty then markDirty s1 vb else s1, [.track vb o])
  else (s, [])

def hexPrefix : String := "5f636f6e6e6563746f723a6362676f3a"   -- "_connector:cbgo:"
def hexTxn : String := "5f74786e3a"                              -- "_txn:"

/-- `helpers.IsMetadata` on a hex-encoded key (hex encoding preserves byte prefixes) -/
def isMetaKey (hexKey : String) : Bool := hexPrefix.isPrefixOf hexKey || hexTxn.isPrefixOf hexKey

/-- `listen` + `waitAndForward` -/
def listen (s : St) (vb : Vb) : LEvent → St × List Obsv
  | .doc d off coll t =>
    if isMetaKey d.key then setOffset s vb off false
    else
      let i := s.ctxs.length
      ({ s with ctxs := s.ctxs ++ [⟨s.sess, vb, off⟩] }, [.deliver i vb d off coll t])
  | .seqAdv off => setOffset s vb off true
  | .sys _ off => setOffset s vb off true
  | .marker => (s, [])
  | .oso => (s, [])

/-- the `Ack` closure: `setOffset(vbID, offset, true); anyDirtyOffset = true` -/
def ack (s : St) (p : Pending) : St × List Obsv :=
  let (s1, out) := setOffset s p.vb p.off true
  ({ s1 with anyDirty := true }, out)

/-! ### checkpoint.go -/

def vbRange (c : Cfg) : List Vb := (List.range (c.hi + 1 - c.lo)).map (· + c.lo)

/-- fake `Metadata.Load` (per-vBucket documents): (docs for the assigned vBuckets, exist) -/
def mdLoad (s : St) : List (Vb × Doc) × Bool :=
  let vbs := vbRange s.cfg
  (vbs.map fun vb => (vb, (s.store.get? vb).getD Doc.zero), vbs.any fun vb => s.store.has vb)

/-- `checkpoint.Load`; `none` = panic ("checkpoint seqNo bigger then vBucket latest seqNo") -/
def load (s : St) : Option (AMap Offset × List Vb × Bool) :=
  let (docs, exist) := mdLoad s
  let highOf := fun vb => (s.high.get? vb).getD 0
  if !exist && s.cfg.resetLatest then
    let offs := docs.map fun (vb, _) =>
      let cur := highOf vb
      (vb, (⟨(s.flog.get? vb).getD 0, cur, cur, cur, initLatest s.cfg.finite cur⟩ : Offset))
    let dirty := (docs.filter fun (vb, _) => highOf vb ≠ 0).map (·.1)
    some (offs, dirty, !dirty.isEmpty)
  else if docs.any (fun (vb, d) => d.seq > highOf vb) then none
  else
    some (docs.map fun (vb, d) => (vb, d.toOffset (initLatest s.cfg.finite (highOf vb))), [], false)

/-- fake `Metadata.Save` with the couchbase write policy; read-only wrapper writes nothing -/
def mdWrite (s : St) (state : List (Vb × Doc)) (dirty : List Vb) (res : StoreRes) :
    AMap Doc × List (Vb × Doc) :=
  if s.cfg.readOnly then (s.store, []) else
  let cand := state.filter fun (vb, _) => dirty.contains vb
  let w := match res with
    | .ok => cand
    | .fail => []
    | .part ws => cand.filter fun (vb, _) => ws.contains vb
  (w.foldl (fun m (vb, d) => m.set vb d) s.store, w)

def storeSucceeds (s : St) : StoreRes → Bool
  | .ok => true
  | _ => s.cfg.readOnly

def dumpState (s : St) : List (Vb × Doc) := s.offsets.map fun (vb, o) => (vb, o.toDoc)

/-- `Save`: `GetOffsets()` + flag test -/
def svBegin (s : St) (k : Nat) : St × List Obsv :=
  if s.savers.has k then (s, [.bad "saver exists"]) else
  if !s.anyDirty then (s, [.flag false])
  else ({ s with savers := s.savers.set k (.wantLock s.curGen) }, [.flag true])

/-- `saveLock.Lock()`, the two `Range` dumps, entry into `metadata.Save` -/
def svDump (s : St) (k : Nat) : St × List Obsv :=
  match s.savers.get? k with
  | some (.wantLock g) =>
    if s.lockHeld then (s, [.bad "lock held"]) else
    let state := dumpState s
    let dirty := (s.dirtyMaps.get? g).getD []
    ({ s with savers := s.savers.set k (.dumped state dirty), lockHeld := true }, [.saveCall state dirty])
  | _ => (s, [.bad "saver not waiting for lock"])

def dropSaver (s : St) (k : Nat) : AMap SaverPc := s.savers.filter fun (k', _) => k' ≠ k

/-- `metadata.Save` returns -/
def svStore (s : St) (k : Nat) (res : StoreRes) : St × List Obsv :=
  match s.savers.get? k with
  | some (.dumped state dirty) =>
    let (store', w) := mdWrite s state dirty res
    if storeSucceeds s res then
      ({ s with store := store', savers := s.savers.set k .stored }, [.written w])
    else
      ({ s with store := store', savers := dropSaver s k, lockHeld := false }, [.written w, .saveErr])
  | _ => (s, [.bad "saver not in store call"])

/-- `UnmarkDirtyOffsets` and return (lock released) -/
def svUnmark (s : St) (k : Nat) : St × List Obsv :=
  match s.savers.get? k with
  | some .stored =>
    ({ s with anyDirty := false, curGen := s.nextGen, nextGen := s.nextGen + 1,
              dirtyMaps := s.dirtyMaps.set s.nextGen [],
              savers := dropSaver s k, lockHeld := false }, [.ok])
  | _ => (s, [.bad "saver not before unmark"])

def freshSaver (s : St) : Nat := (s.savers.foldl (fun m (k, _) => max m (k + 1)) 1000)

/-- a whole save with nothing interleaved -/
def saveAll (s : St) (res : StoreRes) : St × List Obsv :=
  if s.lockHeld then (s, [.bad "lock held"]) else
  let k := freshSaver s
  let (s1, o1) := svBegin s k
  match o1 with
  | [.flag true] =>
    let (s2, o2) := svDump s1 k
    let (s3, o3) := svStore s2 k res
    -- behind the read-only wrapper the store is never called: nothing observable
    let out := if s.cfg.readOnly then [.nowrite] else o2 ++ o3
    if storeSucceeds s res then
      let (s4, _) := svUnmark s3 k
      (s4, out)
    else (s3, out)
  | _ => (s1, [.nowrite])

/-! ### life cycle -/

/-- `stream.Open` on a fresh stream object -/
def openSession (s : St) : St × List Obsv :=
  if s.isOpen then (s, [.bad "already open"]) else
  let s0 : St := { cfg := s.cfg, store := s.store, high := s.high, flog := s.flog, sess := s.sess + 1,
                   ctxs := s.ctxs }
  match load s0 with
  | none => ({ s0 with everOpened := false }, [.failstop "checkpoint-ahead"])
  | some (offs, dirty, any) =>
    let obs : AMap Obs := offs.map fun (vb, o) =>
      (vb, ({ latest := o.latest, uuid := (s.flog.get? vb).getD 0 } : Obs))
    ({ s0 with isOpen := true, everOpened := true, offsets := offs, dirtyMaps := [(0, dirty)],
               anyDirty := any, observers := obs, obsNil := false },
     offs.map fun (vb, o) => .openreq vb o)

/-- `stream.Close` -/
def closeSession (s : St) : St × List Obsv :=
  if !s.isOpen then (s, [.bad "not open"]) else
  ({ s with isOpen := false, offsets := [], dirtyMaps := s.dirtyMaps.set s.nextGen [],
            curGen := s.nextGen, nextGen := s.nextGen + 1,
            observers := s.observers.map (fun (vb, o) => (vb, o.close.closeEnd)), obsNil := true },
   s.offsets.map fun (vb, _) => .closereq vb)

/-- `stream.Rebalance` followed by its delayed `rebalance()`: the same stream object is closed
    (`Close(false)`) and opened again on the range the discovery now derives. Unlike a restart the
    object survives: contexts handed out before stay callable (`sess` is unchanged), their `Ack`
    closures now see the new `vbIDRange` and the offsets loaded from the store. -/
def rebalanceSession (s : St) (lo hi : Vb) : St × List Obsv :=
  if !s.isOpen then (s, [.bad "not open"]) else
  if !s.savers.isEmpty then (s, [.bad "saver in flight"]) else
  if lo > hi then (s, [.bad "empty range"]) else
  let (s1, o1) := closeSession s
  let s2 := { s1 with cfg := { s1.cfg with lo := lo, hi := hi } }
  match load s2 with
  | none => ({ s2 with everOpened := false }, o1 ++ [.failstop "checkpoint-ahead"])
  | some (offs, dirty, any) =>
    let obs : AMap Obs := offs.map fun (vb, o) =>
      (vb, ({ latest := o.latest, uuid := (s.flog.get? vb).getD 0 } : Obs))
    ({ s2 with isOpen := true, offsets := offs, dirtyMaps := s2.dirtyMaps.set s2.curGen dirty,
               anyDirty := any, observers := obs, obsNil := false },
     o1 ++ offs.map fun (vb, o) => .openreq vb o)

/-- `listenEnd` with a transient cause → `reopenStream`: the vBucket is requested again from its
    current position on the same observer; the accepting response sets the observer's vbUUID to
    the (possibly new) head of the failover log -/
def reopenStream (s : St) (vb : Vb) : St × List Obsv :=
  if !s.isOpen then (s, [.bad "not open"]) else
  match s.offsets.get? vb, s.observers.get? vb with
  | some o, some ob =>
    ({ s with observers := s.observers.set vb (ob.setUuid ((s.flog.get? vb).getD 0)) }, [.openreq vb o])
  | _, _ => (s, [.bad "vb not streamed"])

/-- the process dies: only the durable store (and the server side) survive -/
def crash (s : St) : St × List Obsv :=
  ({ cfg := s.cfg, store := s.store, high := s.high, flog := s.flog, sess := s.sess + 1, ctxs := s.ctxs }, [.ok])

def evStep (s : St) (vb : Vb) (e : SrvEv) : St × List Obsv :=
    match s.observers.get? vb with
    | none => (s, [.bad "no observer for vb"])
    | some o =>
      let (o', out) := Obs.step s.cfg.obs o e
      let s1 := { s with observers := s.observers.set vb o' }
      match out with
      | .fwd le => listen s1 vb le
      | .blocked => (s1, [.blocked])
      | .dropCatchup => (s1, [.drop "catchup"])
      | .dropSkip => (s1, [.drop "skip"])
      | .dropClosed => (s1, [.drop "closed"])
      | .failstop => (s1, [.failstop "snapshot"])

/-- `lag` as `collector.go` computes it on `uint64`: `if seqNo > offset.SeqNo { lag = seqNo - offset.SeqNo }` -/
def lagOf (high seq : Nat) : Nat := if high > seq then high - seq else 0

/-- `metricCollector.Collect`: per-vBucket gauges and counters, and the total lag -/
def scrapeRows (s : St) : List ScrapeRow :=
  s.offsets.map fun (vb, o) =>
    let ob := (s.observers.get? vb).getD {}
    { vb, cur := o.seq, ss := o.ss, se := o.se, lag := lagOf ((s.high.get? vb).getD 0) o.seq,
      nmut := ob.nMut, ndel := ob.nDel, nexp := ob.nExp, persist := ob.persist }

def scrape (s : St) : Obsv :=
  if s.obsNil then .scrapeClosed else
  let rows := scrapeRows s
  .scrape rows (rows.foldl (fun acc r => acc + r.lag) 0)

def step (s : St) : Op → St × List Obsv
  | .setStore vb d => if s.isOpen then (s, [.bad "open"]) else ({ s with store := s.store.set vb d }, [.ok])
  | .setHigh vb n => ({ s with high := s.high.set vb n }, [.ok])
  | .setFlog vb u => ({ s with flog := s.flog.set vb u }, [.ok])   -- a failover may happen while streaming
  | .open => openSession s
  | .close => closeSession s
  | .crash => crash s
  | .ev vb e => evStep s vb e
  | .ack i =>
    match s.ctxs[i]? with
    | none => (s, [.bad "no such context"])
    | some p => if p.sess ≠ s.sess then (s, [.stale]) else ack s p
  | .save res => saveAll s res
  | .svBegin k => svBegin s k
  | .svDump k => svDump s k
  | .svStore k res => svStore s k res
  | .svUnmark k => svUnmark s k
  | .persist vb seq =>
    if s.obsNil then (s, [.ok])      -- `dispatchPersistSeqNo` with `observers == nil`
    else
      match s.observers.get? vb with
      | none => (s, [.ok])
      | some o => ({ s with observers := s.observers.set vb (o.setPersist seq) }, [.ok])
  | .getOffsets => (s, [.pos s.offsets (curDirty s) s.anyDirty])
  | .metrics vb =>
    if s.obsNil then (s, [.bad "closed"]) else
    match s.observers.get? vb with
    | none => (s, [.bad "no observer"])
    | some o => (s, [.counters o.nMut o.nDel o.nExp])
  | .scrape => (s, [scrape s])
  | .rebalance lo hi => rebalanceSession s lo hi
  | .reopen vb => reopenStream s vb

def run (s : St) (ops : List Op) : St := ops.foldl (fun s op => (step s op).1) s

/-- state and the whole observation trace -/
def runTrace (s : St) : List Op → St × List (List Obsv)
  | [] => (s, [])
  | op :: r =>
    let (s1, o) := step s op
    let (s2, os) := runTrace s1 r
    (s2, o :: os)

end GoDcp
