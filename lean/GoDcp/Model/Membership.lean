/-
M5 membership protocols (property C10).  Core Lean only.

Go sources mirrored here (line numbers of the current tree, i.e. after the repair of
finding F8, commit 23681a3 "fix: break ties between equal cluster join times by instance id"):

* `membership/membership.go`            `Model`, `Model.IsChanged` (l.22-34)
* `couchbase/membership.go`             `cbMembership`: `register` (l.62-108), `createIndex`
                                        (l.110-114), `heartbeat` (l.130-147), `isAlive`
                                        (l.149-157), `monitor` (l.160-247), `updateIndex`
                                        (l.249-263), `rebalance` (l.265-293), `Close` (l.320-328)
* `servicediscovery/service_discovery.go` `StartHeartbeat` (l.113-155), `StartMonitor`
                                        (l.161-187), `GetAll` (l.193-213), `SetInfo` (l.215-228)
* `servicediscovery/rpc_server.go`      `Handler.Rebalance` (l.53-59)
* `api/api.go`                          `info` (l.93-113)
* `membership/static_membership.go`, `membership/dynamic_membership.go`,
  `kubernetes/ha_membership.go`, `kubernetes/stateful_set_membership.go`

Conventions: instance ids (Go strings: the full document key
`_connector:cbgo:<group>:instance:<uuid>`) and follower names are `Nat`s.  Equality is
used on them everywhere; the ORDER of ids is used in exactly one place, the tie-break
of the repaired `monitor` comparator, where Go compares the strings with `<` (bytewise
lexicographic order).  The model uses `<` on `Nat` for it: the natural numbers stand for
the id strings under any order embedding (strings ↦ their rank in lexicographic order);
the theorems use only that this is a strict total order, so they hold for the string
order as well.  Join / heartbeat times are `Int` (`int64` UnixNano, wrap-around is not
modelled).  A Go map is an association list plus an
explicit *iteration order* parameter wherever the code ranges over the map.
-/
namespace GoDcp.Membership

abbrev Id := Nat
/-- an entry of the index document / of `services`: (id, clusterJoinTime) -/
abbrev Entry := Id × Int

/-! ## (o) `Model.IsChanged` and the guarded publish -/

/-- `(s *Model) IsChanged(other *Model)`: `other == nil` → true, else
    `s.MemberNumber != other.MemberNumber || s.TotalMembers != other.TotalMembers` -/
def isChanged {α : Type} [DecidableEq α] (new : α × α) : Option (α × α) → Bool
  | none => true
  | some o => decide (new.1 ≠ o.1) || decide (new.2 ≠ o.2)

/-- the guard used by `serviceDiscovery.SetInfo` (l.215-228) and `api.info`
    (l.99-110): `if newInfo.IsChanged(cur) { cur = newInfo; bus.Publish(newInfo) }`.
    Result: (info in effect afterwards, was an event published) -/
def setInfo {α : Type} [DecidableEq α] (cur : Option (α × α)) (new : α × α) : Option (α × α) × Bool :=
  if isChanged new cur then (some new, true) else (cur, false)

/-- a sequence of `SetInfo` / `PUT /membership/info` requests: the published events, oldest first -/
def setInfoRun {α : Type} [DecidableEq α] : Option (α × α) → List (α × α) → List (α × α)
  | _, [] => []
  | cur, n :: r =>
    let (cur', pub) := setInfo cur n
    if pub then n :: setInfoRun cur' r else setInfoRun cur' r

/-! ## (i) numbering by join order

`monitor` l.178-189 (current tree):

    ids := make([]string, 0, len(all))
    for k := range all { ids = append(ids, k) }          -- Go map iteration: ARBITRARY order
    sort.SliceStable(ids, func(i, j int) bool {
        if all[ids[i]] != all[ids[j]] { return all[ids[i]] < all[ids[j]] }
        return ids[i] < ids[j]                           -- tie-break added by commit 23681a3
    })

The list handed to the sort is the iteration order.  A stable sort with a strict
comparison `less` = insertion of every element *before* the first element that
is not `less` than it (elements that compare equal keep their iteration order).

Before commit 23681a3 the comparator was `all[ids[i]] < all[ids[j]]` alone
(`sortJT`, `rankNumberingPreFix`: finding F8, fixed).  `sortJT` is also the order
`serviceDiscovery.GetAll` still uses (section iii). -/

def insJT (x : Entry) : List Entry → List Entry
  | [] => [x]
  | y :: r => if y.2 < x.2 then y :: insJT x r else x :: y :: r

/-- `sort.SliceStable` on join time only: the comparator of `monitor` BEFORE commit 23681a3,
    and the key of `serviceDiscovery.GetAll` -/
def sortJT : List Entry → List Entry
  | [] => []
  | x :: r => insJT x (sortJT r)

/-- the comparator of `monitor` l.183-189 as it is now: join time, then id
    (`if all[a] != all[b] { return all[a] < all[b] }; return a < b`; the ids are compared as Go
    strings – `<` on `Nat` stands for that order, see the conventions at the top) -/
def lessJTId (a b : Entry) : Bool :=
  if a.2 ≠ b.2 then decide (a.2 < b.2) else decide (a.1 < b.1)

def insJTId (x : Entry) : List Entry → List Entry
  | [] => [x]
  | y :: r => if lessJTId y x then y :: insJTId x r else x :: y :: r

/-- `sort.SliceStable(ids, less)` with the repaired comparator `lessJTId` -/
def sortJTId : List Entry → List Entry
  | [] => []
  | x :: r => insJTId x (sortJTId r)

def ids (l : List Entry) : List Id := l.map Prod.fst

/-- `rebalance` l.266-273: index of the first element whose ID is `self` (0-based) -/
def pos (self : Id) : List Id → Option Nat
  | [] => none
  | x :: r => if x = self then some 0 else (pos self r).map (· + 1)

/-- (MemberNumber, TotalMembers) that `self` derives from the entries `init`
    given in iteration order (the code as it is now: sorted by join time, then id);
    `none` = `panic("cant find self in cluster")` -/
def rankNumbering (init : List Entry) (self : Id) : Option (Nat × Nat) :=
  (pos self (ids (sortJTId init))).map fun i => (i + 1, (sortJTId init).length)

/-- the numbering BEFORE commit 23681a3 (stable sort on join time only): kept for the
    refutation `rank_numbering_tie_refuted` (finding F8, fixed) -/
def rankNumberingPreFix (init : List Entry) (self : Id) : Option (Nat × Nat) :=
  (pos self (ids (sortJT init))).map fun i => (i + 1, (sortJT init).length)

/-! ## (ii) couchbase membership: the shared bucket and the member loops -/

/-- instance document `{type, heartbeatTime, clusterJoinTime}` -/
structure InstDoc where
  hb : Int
  jt : Int
deriving DecidableEq, Repr

/-- `config.CouchbaseMembership` (the two durations `isAlive` uses, in ns) -/
structure Cfg where
  hbInterval : Int
  tolerance : Int
deriving Repr

/-- `isAlive` l.149-157: `time.Now().UnixNano() - heartbeatTime < heartbeatInterval + tolerance` -/
def isAlive (c : Cfg) (now hb : Int) : Bool := decide (now - hb < c.hbInterval + c.tolerance)

/-- where a member's monitor goroutine stands -/
inductive Pc
  | idle                                          -- sleeping between rounds (or about to retry)
  | pending (filtered : List Entry) (cas : Nat)    -- l.234 reached with a change: before `updateIndex(…, data.Cas)`
  | crashed                                       -- `panic(err)` in `rebalance` l.275-278: the process is gone
  | stopped                                       -- `Close()`, process exit or partition: loops no longer act
deriving DecidableEq, Repr

/-- `cbMembership` fields (plus two ghost fields) -/
structure Member where
  jt : Int                               -- clusterJoinTime
  info : Option (Nat × Nat) := none      -- h.info (written by the bus listener; delivery modelled as immediate)
  last : List Id := []                   -- lastActiveInstances (ids only are compared); nil = []
  pc : Pc := .idle
  rounds : Nat := 0                      -- ghost: monitor rounds that ran to completion
  events : List (Nat × Nat) := []        -- ghost: `membershipChanged` events published, oldest first
deriving Repr

/-- the bucket (index document with its CAS, instance documents) and all members -/
structure State where
  index : List Entry := []               -- body of `…:instance:all` (a JSON object: order carries no meaning)
  cas : Nat := 0
  docs : Id → Option InstDoc := fun _ => none
  mem : Id → Option Member := fun _ => none

def State.setMem (s : State) (m : Id) (mb : Member) : State :=
  { s with mem := fun j => if j = m then some mb else s.mem j }

def State.setDoc (s : State) (m : Id) (d : Option InstDoc) : State :=
  { s with docs := fun j => if j = m then d else s.docs j }

/-- dict-set of one path of the index document (`createIndex`) -/
def upsert (e : Entry) : List Entry → List Entry
  | [] => [e]
  | y :: r => if y.1 = e.1 then e :: r else y :: upsert e r

/-- `monitor` l.164-232: the index read in iteration order `iter`, sorted (join time, then id), every
    instance document fetched (`KeyNotFound` → skipped) and tested with
    `isAlive` at the observer's clock reading `nows id`; the surviving
    `Instance` values carry the document's own `clusterJoinTime` -/
def view (c : Cfg) (docs : Id → Option InstDoc) (nows : Id → Int) (iter : List Entry) : List Entry :=
  (sortJTId iter).filterMap fun e =>
    match docs e.1 with
    | none => none
    | some d => if isAlive c (nows e.1) d.hb then some (e.1, d.jt) else none

/-- `isClusterChanged` l.116-128: different length or an id differs at some position -/
def clusterChanged (last : List Id) (cur : List Entry) : Bool := decide (last ≠ ids cur)

/-- `rebalance` l.265-293 -/
def rebalance (m : Id) (mb : Member) (f : List Entry) : Member :=
  match pos m (ids f) with
  | none => { mb with pc := .crashed }
  | some i =>
    let ni : Nat × Nat := (i + 1, f.length)
    if isChanged ni mb.info then
      { mb with info := some ni, events := mb.events ++ [ni], last := ids f, pc := .idle, rounds := mb.rounds + 1 }
    else
      { mb with last := ids f, pc := .idle, rounds := mb.rounds + 1 }

/-- first half of a monitor round of member `m`: everything up to l.234.
    Reading the index and the instance documents is one step: if the index is
    written in between, the CAS of the second half fails and the round has no
    effect, so nothing is lost by the merge.  No change → the round is over. -/
def readStep (c : Cfg) (s : State) (m : Id) (iter : List Entry) (nows : Id → Int) : State :=
  match s.mem m with
  | none => s
  | some mb =>
    match mb.pc with
    | .idle =>
      let f := view c s.docs nows iter
      if clusterChanged mb.last f then s.setMem m { mb with pc := .pending f s.cas }
      else s.setMem m { mb with rounds := mb.rounds + 1 }
    | _ => s

/-- second half, l.235-245: `updateIndex(filtered, data.Cas)`; success → the
    index is replaced (join times taken from the instance documents) and
    `rebalance` runs; `ErrCasMismatch` → `h.monitor()` starts over -/
def casStep (s : State) (m : Id) : State :=
  match s.mem m with
  | none => s
  | some mb =>
    match mb.pc with
    | .pending f cas =>
      if cas = s.cas then
        ({ s with index := f, cas := s.cas + 1 }).setMem m (rebalance m mb f)
      else s.setMem m { mb with pc := .idle }
    | _ => s

/-- `heartbeat` l.130-147: `UpdateDocument` (set-doc without mkdoc: fails when
    the document has expired) -/
def heartbeatStep (s : State) (m : Id) (now : Int) : State :=
  match s.mem m with
  | none => s
  | some mb =>
    match mb.pc, s.docs m with
    | .crashed, _ | .stopped, _ | _, none => s
    | _, some _ => s.setDoc m (some { hb := now, jt := mb.jt })

/-- `register` first half, l.66-72 `createIndex(now)`: dict-set `index[id] = now` (mkdoc) -/
def register1 (s : State) (m : Id) (now : Int) : State :=
  ({ s with index := upsert (m, now) s.index, cas := s.cas + 1 }).setMem m { jt := now }

/-- `register` second half, l.74-102: instance document written with heartbeatTime = clusterJoinTime = now -/
def register2 (s : State) (m : Id) : State :=
  match s.mem m with
  | none => s
  | some mb => s.setDoc m (some { hb := mb.jt, jt := mb.jt })

/-- `Close()` l.320-328 (nothing is removed from the bucket), and likewise a
    killed or partitioned process -/
def stopStep (s : State) (m : Id) : State :=
  match s.mem m with
  | none => s
  | some mb => s.setMem m { mb with pc := .stopped }

inductive Action
  | register1 (m : Id) (now : Int)
  | register2 (m : Id)
  | heartbeat (m : Id) (now : Int)
  | read (m : Id) (iter : List Entry) (nows : Id → Int)
  | cas (m : Id)
  | stop (m : Id)
  | expire (m : Id)                      -- the TTL of m's instance document fires

def step (c : Cfg) (s : State) : Action → State
  | .register1 m now => register1 s m now
  | .register2 m => register2 s m
  | .heartbeat m now => heartbeatStep s m now
  | .read m iter nows => readStep c s m iter nows
  | .cas m => casStep s m
  | .stop m => stopStep s m
  | .expire m => s.setDoc m none

def run (c : Cfg) (s : State) : List Action → State
  | [] => s
  | a :: r => run c (step c s a) r

/-! ## (iii) service discovery (leader-assigned numbering)

`services` is a concurrent swiss map name ↦ `Service{ClusterJoinTime}`.
`GetAll` ranges over it (arbitrary order = `iter`) and sorts with `sort.Sort`
on `ClusterJoinTime` (not stable; every outcome of an unstable sort of an
arbitrarily ordered list is the outcome of the stable sort for some other
order, and for ≤ 12 elements Go's pdqsort *is* this insertion sort). -/

/-- heartbeat loop body l.138-152: every follower is pinged, those whose ping
    fails are removed (and their client closed) -/
def sdHeartbeat (svcs : List Entry) (pingFails : Id → Bool) : List Entry :=
  svcs.filter fun s => !pingFails s.1

/-- `GetAll` l.193-213 -/
def sdGetAll (iter : List Entry) : List Id := ids (sortJT iter)

/-- `for index, name := range names { Rebalance(index+2, totalMembers) }` l.179-185,
    `k` = the number handed to the head of the list -/
def sdAssignFrom (total : Nat) : Nat → List Id → List (Id × (Nat × Nat))
  | _, [] => []
  | k, n :: r => (n, (k, total)) :: sdAssignFrom total (k + 1) r

/-- one leader round l.171-185: `totalMembers = len(names)+1`, `SetInfo(1,total)`,
    followers 2.. in `GetAll` order.  Result: leader's (number,total) and the
    `Rebalance` arguments per follower -/
def sdRound (iter : List Entry) : (Nat × Nat) × List (Id × (Nat × Nat)) :=
  let names := sdGetAll iter
  let total := names.length + 1
  ((1, total), sdAssignFrom total 2 names)

/-! ## (iv) static, stateful-set, dynamic / HA -/

/-- `NewStaticMembership`: the configured pair, unchecked -/
def staticInfo (memberNumber totalMembers : Int) : Int × Int := (memberNumber, totalMembers)

/-- dynamic / HA membership: `GetInfo` = the last model delivered on the bus
    (`none` = still blocking on the first one) -/
def busInfo (events : List (Int × Int)) : Option (Int × Int) := events.getLast?

def digit? (c : Char) : Option Nat :=
  if '0' ≤ c ∧ c ≤ '9' then some (c.toNat - '0'.toNat) else none

def digits? : List Char → Option Nat
  | [] => none
  | cs => cs.foldlM (fun acc c => (digit? c).map fun d => acc * 10 + d) 0

/-- `strconv.Atoi` on a string without '-' in it except possibly in front
    (optional sign, at least one decimal digit, int64 range) -/
def atoi? (cs : List Char) : Option Int :=
  match cs with
  | '+' :: r => (digits? r).bind fun n => if n < 2 ^ 63 then some (n : Int) else none
  | '-' :: r => (digits? r).bind fun n => if n ≤ 2 ^ 63 then some (-(n : Int)) else none
  | r => (digits? r).bind fun n => if n < 2 ^ 63 then some (n : Int) else none

/-- text after the last '-' ; `none` = no '-' in the host name -/
def afterLastDash (cs : List Char) : Option (List Char) :=
  let rec go : List Char → Option (List Char) → Option (List Char)
    | [], acc => acc
    | c :: r, acc => if c = '-' then go r (some r) else go r acc
  go cs none

inductive SsOut
  | info (memberNumber totalMembers : Int)
  | panic
deriving DecidableEq, Repr

/-- int64 addition `podOrdinal + 1` -/
def succ64 (n : Int) : Int := if n = 2 ^ 63 - 1 then -(2 ^ 63) else n + 1

/-- `NewStatefulSetMembership` with `getPodOrdinalFromHostname`: ordinal = Atoi
    of the text after the last '-', member number = ordinal+1, panic when there
    is no '-', when Atoi fails, or when the number exceeds `totalMembers` -/
def statefulSet (hostname : String) (totalMembers : Int) : SsOut :=
  match afterLastDash hostname.toList with
  | none => .panic
  | some rest =>
    match atoi? rest with
    | none => .panic
    | some ord =>
      let k := succ64 ord
      if k > totalMembers then .panic else .info k totalMembers

end GoDcp.Membership
