/-
M4 pure core: the `${VAR}` substitution of `newDcpConfig` (dcp.go l.364-391).

    envPattern := regexp.MustCompile(`\${([^}]+)}`)
    matches := envPattern.FindAllStringSubmatch(string(file), -1)   // on the ORIGINAL file
    for _, match := range matches {
        envVar := match[1]
        if value, exists := os.LookupEnv(envVar); exists {
            updatedFile := strings.ReplaceAll(string(file), "${"+envVar+"}", value)
            file = []byte(updatedFile)                               // on the CURRENT file
        }
    }

Text is `List Char`.  Not modelled: the two `yaml.Unmarshal` calls around it
(the first one parses the file BEFORE substitution and makes the function fail
when a placeholder stands where YAML needs a non-string, e.g. `port: ${P}`).
-/
namespace GoDcp.EnvSubst

/-- `FindAllStringSubmatch` for `\${([^}]+)}`: the captured names of the
    leftmost, non-overlapping matches, in order.  State `none` = scanning for
    `${`; `some acc` = inside a candidate, `acc` = name so far (reversed).
    A candidate is closed by the FIRST `}` (`[^}]+` cannot cross it); an empty
    name is no match; a candidate that reaches the end of the text is no match
    (and then no later position can match either: every match needs a `}`). -/
def scan : Option (List Char) → List Char → List (List Char)
  | none, [] => []
  | none, '$' :: '{' :: r => scan (some []) r
  | none, _ :: r => scan none r
  | some _, [] => []
  | some acc, c :: r =>
    if c = '}' then (if acc.isEmpty then scan none r else acc.reverse :: scan none r)
    else scan (some (c :: acc)) r

def findAll (file : List Char) : List (List Char) := scan none file

/-- `strings.ReplaceAll(s, old, new)` for non-empty `old`: leftmost
    non-overlapping occurrences.  `skip` = characters of a matched occurrence
    still to be dropped. -/
def replaceGo (old new : List Char) : Nat → List Char → List Char
  | _, [] => []
  | skip + 1, _ :: r => replaceGo old new skip r
  | 0, c :: r =>
    if old.isPrefixOf (c :: r) then new ++ replaceGo old new (old.length - 1) r
    else c :: replaceGo old new 0 r

def replaceAll (s old new : List Char) : List Char := replaceGo old new 0 s

/-- "${" + name + "}" -/
def placeholder (name : List Char) : List Char := '$' :: '{' :: (name ++ ['}'])

abbrev Env := List (List Char × List Char)

/-- os.LookupEnv -/
def lookupEnv (env : Env) (name : List Char) : Option (List Char) := env.lookup name

/-- one iteration of the `for _, match := range matches` loop -/
def substStep (env : Env) (file name : List Char) : List Char :=
  match lookupEnv env name with
  | some v => replaceAll file (placeholder name) v
  | none => file

/-- the text handed to the second `yaml.Unmarshal` -/
def substEnv (env : Env) (file : List Char) : List Char :=
  (findAll file).foldl (substStep env) file

end GoDcp.EnvSubst
