/-
M4 pure core: `couchbase/version.go` (type `Version`, `Equal`/`Higher`/`Lower`,
`nodeVersionFromString`) and the three places where the version gates a
protocol feature (`dcp.go newDcp`, `stream/stream.go NewStream`).

Go `int` fields are modelled as `Int` (unbounded: a superset of int64, the
comparison operators agree on the common range).  Go strings are byte strings;
the model works on `List Char` where every `Char` stands for one byte (the
driver decodes bytes to `Char.ofNat byte`).  All characters the parser
inspects (`.`, `-`, `+`, `0`..`9`) are ASCII, so for valid UTF-8 text the
character view and the byte view split at the same places.

`strconv.Atoi` is modelled for a 64-bit `int` (`strconv.IntSize = 64`; the
harness reports the real value with `ver-intsize`).
-/
namespace GoDcp.Version

/-- `type Version struct { Major, Minor, Patch, Build int }` (version.go l.11-16) -/
structure Version where
  major : Int
  minor : Int
  patch : Int
  build : Int
  deriving DecidableEq, Repr, Inhabited

/-- `SrvVer550 = &Version{5, 5, 0, 0}` (version.go l.19) -/
def srvVer550 : Version := ⟨5, 5, 0, 0⟩
/-- `SrvVer650 = &Version{6, 5, 0, 0}` (version.go l.20) -/
def srvVer650 : Version := ⟨6, 5, 0, 0⟩
/-- `SrvVer720 = &Version{7, 2, 0, 0}` (version.go l.21) -/
def srvVer720 : Version := ⟨7, 2, 0, 0⟩

/-- `func (v *Version) Equal(ov *Version) bool` (version.go l.24-30) -/
def equal (v ov : Version) : Bool :=
  if v.major == ov.major && v.minor == ov.minor &&
     v.patch == ov.patch && v.build == ov.build then true
  else false

/-- `func (v *Version) Higher(ov *Version) bool` (version.go l.32-58), branch by branch -/
def higher (v ov : Version) : Bool :=
  if v.major > ov.major then true
  else if v.major < ov.major then false
  else if v.minor > ov.minor then true
  else if v.minor < ov.minor then false
  else if v.patch > ov.patch then true
  else if v.patch < ov.patch then false
  else if v.build > ov.build then true
  else if v.build < ov.build then false
  else false

/-- `func (v *Version) Lower(ov *Version) bool { return !v.Higher(ov) && !v.Equal(ov) }`
    (version.go l.60-62) -/
def lower (v ov : Version) : Bool := !higher v ov && !equal v ov

/-! ### the gates -/

/-- `dcp.go newDcp` l.279: `version.Higher(couchbase.SrvVer650) || version.Equal(couchbase.SrvVer650)`
    → `useExpiryOpcode = true` -/
def gateExpiry (v : Version) : Bool := higher v srvVer650 || equal v srvVer650

/-- `dcp.go newDcp` l.283: `bucketInfo.IsMagma() && (version.Higher(couchbase.SrvVer720) ||
    version.Equal(couchbase.SrvVer720))` → `useChangeStreams = true` -/
def gateChangeStreams (isMagma : Bool) (v : Version) : Bool :=
  isMagma && (higher v srvVer720 || equal v srvVer720)

/-- `stream/stream.go NewStream` l.501: `version.Lower(couchbase.SrvVer550)` →
    `streamEndNotSupportedData` is allocated (serial stream closing) -/
def gateSerialClose (v : Version) : Bool := lower v srvVer550

/-! ### `strings.Split` with a one-byte separator -/

/-- `strings.Split(s, sep)` for a single-byte `sep`: cuts at every occurrence,
    `n` occurrences give `n+1` pieces (possibly empty); never returns an empty
    slice (`Split("", ".") = [""]`). -/
def split (sep : Char) : List Char → List (List Char)
  | [] => [[]]
  | c :: cs =>
    if c = sep then [] :: split sep cs
    else match split sep cs with
      | [] => [[c]]            -- not reachable (see `split_ne_nil`)
      | h :: t => (c :: h) :: t

/-! ### `strconv.Atoi` (Go 1.21+, 64-bit int) -/

/-- kind of error returned by `strconv.Atoi` -/
inductive NumErr where
  | none      -- err == nil
  | syntax    -- strconv.ErrSyntax
  | range     -- strconv.ErrRange
  deriving DecidableEq, Repr

/-- `(int, error)` as returned by `strconv.Atoi` -/
structure AtoiRes where
  val : Int
  err : NumErr
  deriving DecidableEq, Repr

/-- `1<<64 - 1`, `maxVal` in `strconv.ParseUint(s, 10, 64)` -/
def uintMax : Nat := 18446744073709551615
/-- `1 << 63`, `cutoff` in `strconv.ParseInt(s, 10, 0)` with `IntSize = 64` -/
def intCutoff : Nat := 9223372036854775808

/-- outcome of the digit loop of `strconv.ParseUint` -/
inductive UScan where
  | ok (n : Nat)
  | syntax        -- a byte that is not `0`..`9`: `return 0, syntaxError`
  | range         -- `n*10 + d` exceeds `maxVal`: `return maxVal, rangeError` at once,
                  -- the remaining bytes are NOT looked at
  deriving DecidableEq, Repr

/-- the loop of `ParseUint(s, 10, 64)` (strconv/atoi.go): left to right, `n = n*10 + d`;
    `n >= cutoff` or `n1 > maxVal` is exactly `10*n + d > maxVal`.  Letters,
    `_`, blanks and every other byte are syntax errors in base 10.  The fast path
    of `Atoi` (fewer than 19 bytes) runs the same loop without the range test,
    which cannot trigger for such lengths. -/
def scanU : List Char → Nat → UScan
  | [], n => .ok n
  | c :: cs, n =>
    if c.isDigit then
      let n1 := 10 * n + (c.toNat - 48)
      if n1 > uintMax then .range else scanU cs n1
    else .syntax

/-- `ParseInt` after the sign has been picked off: `ParseUint(body)`, then the
    signed range test (`!neg && un >= 1<<63` → `MaxInt64`, ErrRange;
    `neg && un > 1<<63` → `MinInt64`, ErrRange).  On ErrRange from `ParseUint`
    `un = maxVal`, which falls into the same two tests.  An empty body (`""`,
    `"+"`, `"-"`) and every other syntax error give value 0. -/
def atoiBody (neg : Bool) (body : List Char) : AtoiRes :=
  if body.isEmpty then ⟨0, .syntax⟩
  else match scanU body 0 with
    | .syntax => ⟨0, .syntax⟩
    | .range => if neg then ⟨-(intCutoff : Int), .range⟩ else ⟨(intCutoff : Int) - 1, .range⟩
    | .ok un =>
      if !neg && un ≥ intCutoff then ⟨(intCutoff : Int) - 1, .range⟩
      else if neg && un > intCutoff then ⟨-(intCutoff : Int), .range⟩
      else ⟨if neg then -(un : Int) else (un : Int), .none⟩

/-- `strconv.Atoi(s)`: empty → syntax error; ONE optional leading `+` or `-`
    is accepted (so `+7` and `-7` are valid integers), then `atoiBody`. -/
def atoi (s : List Char) : AtoiRes :=
  match s with
  | [] => ⟨0, .syntax⟩
  | c :: rest =>
    if c = '+' then atoiBody false rest
    else if c = '-' then atoiBody true rest
    else atoiBody false (c :: rest)

/-! ### `nodeVersionFromString` -/

/-- `(*Version, error)` of `nodeVersionFromString`; the three error texts are
    distinct, `errNoMajor` is the `lenSplit == 0` branch (dead code). -/
inductive ParseRes where
  | ok (v : Version)
  | errNoMajor     -- "must provide at least a major version"
  | errMajor       -- "major version is not a valid integer"
  | errMinor       -- "minor version is not a valid integer"
  | errPatch       -- "patch version is not a valid integer"
  deriving DecidableEq, Repr

/-- `nodeVersionFromString` (version.go l.64-108), statement by statement.
    Noteworthy, all as coded:
    * only `vSplit[0..2]` are read: anything after a third `.` is ignored;
    * `nodeBuild[1]` cannot contain `-`, so `buildEdition` always has length 1;
    * a build that `Atoi` rejects is NOT an error: `Build` keeps the value `Atoi`
      returned beside the error (0 for a syntax error, Max/MinInt64 for an
      out-of-range number) and `(&nodeVersion, nil)` is returned. -/
def parse (version : List Char) : ParseRes :=
  let vSplit := split '.' version                       -- l.65
  match vSplit with
  | [] => .errNoMajor                                   -- l.67-69 (lenSplit == 0)
  | s0 :: rest0 =>
    let a0 := atoi s0                                   -- l.73
    if a0.err ≠ .none then .errMajor                    -- l.74-76
    else match rest0 with
    | [] => .ok ⟨a0.val, 0, 0, 0⟩                        -- l.77-79 (lenSplit == 1)
    | s1 :: rest1 =>
      let a1 := atoi s1                                 -- l.81
      if a1.err ≠ .none then .errMinor                  -- l.82-84
      else match rest1 with
      | [] => .ok ⟨a0.val, a1.val, 0, 0⟩                 -- l.85-87 (lenSplit == 2)
      | s2 :: _ =>
        match split '-' s2 with                         -- l.89 nodeBuild
        | [] => .errPatch                               -- not reachable (index panic in Go terms; `split_ne_nil`)
        | b0 :: restB =>
          let a2 := atoi b0                             -- l.90
          if a2.err ≠ .none then .errPatch              -- l.91-93
          else match restB with
          | [] => .ok ⟨a0.val, a1.val, a2.val, 0⟩        -- l.94-96 (len(nodeBuild) == 1)
          | b1 :: _ =>
            match split '-' b1 with                     -- l.98 buildEdition
            | [] => .ok ⟨a0.val, a1.val, a2.val, 0⟩      -- not reachable
            | e0 :: _ =>
              let a3 := atoi e0                         -- l.99: Build is assigned even when err != nil
              .ok ⟨a0.val, a1.val, a2.val, a3.val⟩       -- l.100-107: all three exits return (&nodeVersion, nil)

/-- the parser on a `String` -/
def parseStr (s : String) : ParseRes := parse s.toList

/-! ### rendering (the inverse direction, used in statements and by the driver) -/

/-- decimal digits of a natural number, as `fmt.Sprintf("%d", n)` prints them -/
def dec (n : Nat) : List Char := Nat.toDigits 10 n

/-- `M.m.p-b-edition`, the format of `implementationVersion` (e.g. `7.2.0-5325-enterprise`) -/
def render (M m p b : Nat) (edition : List Char) : List Char :=
  dec M ++ '.' :: (dec m ++ '.' :: (dec p ++ '-' :: (dec b ++ '-' :: edition)))

/-- the shorter forms: 1 = `M`, 2 = `M.m`, 3 = `M.m.p`, 4 = `M.m.p-b`, else the full form -/
def renderForm (form : Nat) (M m p b : Nat) (edition : List Char) : List Char :=
  match form with
  | 1 => dec M
  | 2 => dec M ++ '.' :: dec m
  | 3 => dec M ++ '.' :: (dec m ++ '.' :: dec p)
  | 4 => dec M ++ '.' :: (dec m ++ '.' :: (dec p ++ '-' :: dec b))
  | _ => render M m p b edition

/-- what the form denotes: omitted components are 0 -/
def formValue (form : Nat) (M m p b : Nat) : Version :=
  match form with
  | 1 => ⟨M, 0, 0, 0⟩
  | 2 => ⟨M, m, 0, 0⟩
  | 3 => ⟨M, m, p, 0⟩
  | _ => ⟨M, m, p, b⟩

/-- the same text built with string interpolation -/
def renderStr (M m p b : Nat) (edition : String) : String :=
  s!"{M}.{m}.{p}-{b}-{edition}"

end GoDcp.Version
