import GoDcp.Model.Membership
/-!
`PUT /membership/info` (`api/api.go` `info`, l.93-113): the API object remembers the last info it
accepted (`s.membershipInfo`, nil at first) and publishes `MembershipChanged` on the bus only when the
request differs from it:

    newInfo := &membership.Model{MemberNumber: req.MemberNumber, TotalMembers: req.TotalMembers}
    if newInfo.IsChanged(s.membershipInfo) { s.membershipInfo = newInfo; s.bus.Publish(..., newInfo) }

`IsChanged` (`membership/membership.go` l.23-34) is `Membership.isChanged` (nil ↦ true), the guarded
update is `Membership.setInfo`; both are reused here. Member number and group size are Go `int`s taken
from the JSON body as they come (zero and negative values included), hence `Int`.
A body that does not parse is answered with 400 before any of this runs (l.95-97): no state change.
-/
namespace GoDcp.ApiInfo
open GoDcp.Membership

/-- (memberNumber, totalMembers) -/
abbrev Info := Int × Int

/-- `api.membershipInfo`: `none` = nil (no request accepted yet by this API object) -/
abbrev St := Option Info

/-- one well-formed PUT: (info remembered afterwards, was an event published) -/
def put (cur : St) (req : Info) : St × Bool := setInfo cur req

/-- the remembered info after a sequence of well-formed PUTs -/
def runSt : St → List Info → St
  | cur, [] => cur
  | cur, r :: rest => runSt (put cur r).1 rest

/-- the publish flag of every PUT of a sequence, in order -/
def pubFlags : St → List Info → List Bool
  | _, [] => []
  | cur, r :: rest => (put cur r).2 :: pubFlags (put cur r).1 rest

/-- the events on the bus, oldest first -/
def published (cur : St) (reqs : List Info) : List Info :=
  ((reqs.zip (pubFlags cur reqs)).filter (·.2)).map (·.1)

end GoDcp.ApiInfo
