import GoDcp.Model.Observer
/-!
M4 — rollback mitigation (`couchbase/rollback_mitigation.go`) and its coupling
to the observer gate (`couchbase/observer.go`, already modelled in
`Model/Observer.lean`) through `stream.dispatchPersistSeqNo`.

* `Replica`, `Table`            one `[]*vbUUIDAndSeqNo` row of `persistedSeqNos`
* `getMinSeqNo`                 the decision function (two loops of the Go code)
* `isOutdated`, `report`        the body of the observe callback for one answer
* `Rm`                          the instance: table, `closed`, `activeGroupID`;
                                `Rm.callback` = the whole callback (guard, error
                                classes, update, dispatch), `Rm.reconfigure`
                                = `reconfigure` (`reset` + `markAbsentInstances`)
* `Gate`                        the observer with the events that currently spin in
                                `waitRollbackMitigation` (one goroutine each)
* `Sys`                         table + gate + the `observers == nil` window of
                                `stream.dispatchPersistSeqNo`, with two ghost fields
                                (`hist`: every table value so far, `disp`: every value
                                handed to `SetPersistSeqNo` so far)

"Every copy listed in the cluster map" = the entries of the row that are not
`absent`: `markAbsentInstances` sets `absent` exactly for the replica indices
whose `VbucketToServer` answer is `ErrInvalidReplica` or a negative server
index (`-1` in the vBucket map); absent entries are never polled and are
skipped by `getMinSeqNo`.
Core Lean only.
-/
namespace GoDcp
namespace MinSeqNo

/-- `vbUUIDAndSeqNo` (rollback_mitigation.go:31-35); `reset` creates zero values -/
structure Replica where
  uuid : Nat := 0
  seq : Nat := 0
  absent : Bool := false
deriving DecidableEq, Repr, Inhabited

/-- the slice stored under one vbID in `persistedSeqNos`: index 0 = active copy, 1.. = replicas -/
abbrev Table := List Replica

/-- second loop of `getMinSeqNo` (lines 152-166), running from `startIndex+1`:
    `u` = `vbUUID` of the start entry, `m` = running `minSeqNo` -/
def scan (u : Nat) : Nat → List Replica → Nat
  | m, [] => m
  | m, r :: rs =>
    if r.absent then scan u m rs            -- `continue`
    else if u ≠ r.uuid then 0               -- "vbUUID mismatch" → `return 0`
    else scan u (if m > r.seq then r.seq else m) rs

/-- `getMinSeqNo` (lines 133-169): the first loop skips absent entries (`startIndex`);
    none present → "all replicas absent" → 0; else `scan` from the entry after it -/
def getMinSeqNo : Table → Nat
  | [] => 0
  | r :: rs => if r.absent then getMinSeqNo rs else scan r.uuid r.seq rs

/-- `IsOutdated` (lines 54-59): an absent entry is never outdated -/
def isOutdated (e : Replica) (uuid seq : Nat) : Bool :=
  if !e.absent then e.uuid != uuid || e.seq != seq else false

/-- the successful branch of the observe callback (lines 329-351) for replica index
    `idx` answering `(uuid, seq)`: update + dispatch `getMinSeqNo` only when outdated;
    `len(replicas) > replica` false → only a log line -/
def report (t : Table) (idx uuid seq : Nat) : Table × Option Nat :=
  match t[idx]? with
  | none => (t, none)
  | some e =>
    if isOutdated e uuid seq then
      let t' := t.set idx { e with uuid := uuid, seq := seq }
      (t', some (getMinSeqNo t'))
    else (t, none)

/-- `reset` (lines 355-377) for one vBucket: `replicas+1` zero entries -/
def resetTable (numReplicas : Nat) : Table := List.replicate (numReplicas + 1) {}

/-- `markAbsentInstances` (lines 171-197) for one vBucket: `absentIdx` = the indices whose
    `VbucketToServer` answer is `ErrInvalidReplica` or `< 0` -/
def markAbsent (t : Table) (absentIdx : List Nat) : Table :=
  absentIdx.foldl (fun t i => match t[i]? with
    | some e => t.set i { e with absent := true }
    | none => t) t

/-- error classes of the callback (lines 313-327) -/
inductive ObsErr | timeout | tmpfail | busy | other
deriving DecidableEq, Repr, Inhabited

/-- what one invocation of the callback does -/
inductive CbOut
  | ignored                  -- closed / stale group / ignored error class / not outdated / no such replica
  | dispatch (m : Nat)       -- `persistSeqNoDispatcher(vb, m)`
  | failstop                 -- `panic(err)`
deriving DecidableEq, Repr, Inhabited

/-- one vBucket's share of a `rollbackMitigation` value -/
structure Rm where
  table : Table := []
  closed : Bool := false
  gid : Nat := 0
deriving DecidableEq, Repr, Inhabited

namespace Rm

/-- `reconfigure` (lines 280-302): `activeGroupID++`, `reset`, `markAbsentInstances` -/
def reconfigure (r : Rm) (numReplicas : Nat) (absentIdx : List Nat) : Rm :=
  { r with gid := r.gid + 1, table := markAbsent (resetTable numReplicas) absentIdx }

/-- `Stop` (line 425) -/
def stop (r : Rm) : Rm := { r with closed := true }

/-- the callback of `observe` (lines 305-352); `g` = the group id captured by the poll
    round that sent the request, `ans` = error class or `(uuid, persistSeqNo)` -/
def callback (r : Rm) (g idx : Nat) (ans : ObsErr ⊕ (Nat × Nat)) : Rm × CbOut :=
  if r.closed || r.gid != g then (r, .ignored) else
  match ans with
  | .inl .timeout => (r, .ignored)
  | .inl .tmpfail => (r, .ignored)
  | .inl .busy => (r, .ignored)
  | .inl .other => (r, .failstop)
  | .inr (u, s) =>
    match report r.table idx u s with
    | (t', some m) => ({ r with table := t' }, .dispatch m)
    | (t', none) => ({ r with table := t' }, .ignored)

end Rm

/-! ### the gate: an observer plus the events spinning in `waitRollbackMitigation` -/

/-- observer configuration of the gate model: rollback mitigation enabled, no skip window -/
def gcfg : ObsCfg := { rmEnabled := true }

/-- the seqno `canForward` is called with (observer.go: marker → `StartSeqNo`; OSO snapshot
    does not pass through `canForward`) -/
def gateSeq : SrvEv → Option Nat
  | .marker s _ => some s
  | .doc d => some d.seq
  | .seqAdv q => some q
  | .sys _ q _ => some q
  | .oso => none

structure Gate where
  obs : Obs := {}
  /-- (arrival number, event) of every call currently inside `waitRollbackMitigation` -/
  waiting : List (Nat × SrvEv) := []
  /-- every call that has returned: arrival number, event, outcome (never `.blocked`) -/
  log : List (Nat × SrvEv × ObsOut) := []
  next : Nat := 0
deriving Repr, Inhabited

namespace Gate

/-- a new server event enters its observer callback (own goroutine): it either runs to
    completion or starts spinning -/
def arrive (g : Gate) (e : SrvEv) : Gate :=
  match Obs.step gcfg g.obs e with
  | (_, .blocked) => { g with waiting := g.waiting ++ [(g.next, e)], next := g.next + 1 }
  | (o', out) => { g with obs := o', log := g.log ++ [(g.next, e, out)], next := g.next + 1 }

/-- one iteration of the loop in `waitRollbackMitigation` for the waiting call `id`
    (and, when `checkPersistSeqNo` succeeds, the rest of the callback) -/
def poll (g : Gate) (id : Nat) : Gate :=
  match g.waiting.lookup id with
  | none => g
  | some e =>
    match Obs.step gcfg g.obs e with
    | (_, .blocked) => g
    | (o', out) => { g with obs := o', waiting := g.waiting.filter (·.1 != id), log := g.log ++ [(id, e, out)] }

/-- every waiting call polls once, in arrival order: the calls whose gate is now open run
    to completion (returned as the third component), the others keep spinning -/
def drain (o : Obs) : List (Nat × SrvEv) → Obs × List (Nat × SrvEv) × List (Nat × SrvEv × ObsOut)
  | [] => (o, [], [])
  | (i, e) :: rest =>
    match Obs.step gcfg o e with
    | (_, .blocked) => let (o', w, f) := drain o rest; (o', (i, e) :: w, f)
    | (o1, out) => let (o', w, f) := drain o1 rest; (o', w, (i, e, out) :: f)

/-- = `poll` of every waiting arrival number in turn (`Props/C07.pollAll_eq_polls`) -/
def pollAll (g : Gate) : Gate :=
  let (o, w, f) := drain g.obs g.waiting
  { g with obs := o, waiting := w, log := g.log ++ f }

/-- `SetPersistSeqNo` -/
def persist (g : Gate) (p : Nat) : Gate := { g with obs := g.obs.setPersist p }

/-- `Close` -/
def close (g : Gate) : Gate := { g with obs := g.obs.close }

/-- keeps the calls that reached the listener -/
def fwdOnly : Nat × SrvEv × ObsOut → Option (Nat × SrvEv)
  | (i, e, .fwd _) => some (i, e)
  | _ => none

/-- arrival numbers of events handed to the listener -/
def delivered (g : Gate) : List (Nat × SrvEv) := g.log.filterMap fwdOnly

end Gate

/-! ### table + gate + `stream.dispatchPersistSeqNo` -/

inductive Act
  | report (idx uuid seq : Nat)       -- a successful OBSERVE_SEQNO answer reaches the callback
  | attach                            -- `stream.Open` has stored the observers (stream.go:251-261)
  | arrive (e : SrvEv)
  | poll (id : Nat)
  | close                             -- `observer.Close`
deriving Repr, Inhabited

structure Sys where
  table : Table := []
  /-- `s.observers != nil` and the vBucket is in it (stream.go:329-335); dispatches before that are dropped -/
  attached : Bool := true
  gate : Gate := {}
  /-- ghost: the table after every step so far (oldest first) -/
  hist : List Table := []
  /-- ghost: every value passed to `SetPersistSeqNo` so far -/
  disp : List Nat := []
deriving Repr, Inhabited

namespace Sys

def step (σ : Sys) : Act → Sys
  | .report i u s =>
    match report σ.table i u s with
    | (t', some m) =>
      if σ.attached then
        { σ with table := t', gate := σ.gate.persist m, hist := σ.hist ++ [t'], disp := σ.disp ++ [m] }
      else { σ with table := t', hist := σ.hist ++ [t'] }
    | (t', none) => { σ with table := t', hist := σ.hist ++ [t'] }
  | .attach => { σ with attached := true, hist := σ.hist ++ [σ.table] }
  | .arrive e => { σ with gate := σ.gate.arrive e, hist := σ.hist ++ [σ.table] }
  | .poll id => { σ with gate := σ.gate.poll id, hist := σ.hist ++ [σ.table] }
  | .close => { σ with gate := σ.gate.close, hist := σ.hist ++ [σ.table] }

def run (σ : Sys) (acts : List Act) : Sys := acts.foldl step σ

/-- start state for a row of `n` entries of which `absentIdx` are not in the cluster map -/
def init (numReplicas : Nat) (absentIdx : List Nat) (attached : Bool := true) : Sys :=
  let t := markAbsent (resetTable numReplicas) absentIdx
  { table := t, attached := attached, hist := [t] }

end Sys

/-- all listed (non-absent) copies carry one vbUUID and have persisted at least `s` -/
def Covered (t : Table) (s : Nat) : Prop :=
  ∃ u, ∀ r ∈ t, r.absent = false → r.uuid = u ∧ s ≤ r.seq

/-- decidable version of `Covered` (for the run-time monitor) -/
def coveredB (t : Table) (s : Nat) : Bool :=
  match t.filter (fun r => !r.absent) with
  | [] => true
  | r :: rs => (r :: rs).all fun x => x.uuid == r.uuid && s ≤ x.seq

/-! ### the two script interpreters used by the driver (`rm-script`, `gate-script`) -/

/-- `isConfigSnapshotNewerThan` (rollback_mitigation.go:97-112) on what `getRevEpochAndID` (lines 78-86) reads out of
    the two snapshots: `old` / `new` = (revEpoch, revID) of `r.configSnapshot` / of the snapshot `configWatch` fetched.
        if newEpoch < oldEpoch { return false }
        else if newEpoch == oldEpoch { if newRevID == oldRevID { return false } else if newRevID < oldRevID { return false } }
        return true -/
def isNewer (old new : Nat × Nat) : Bool :=
  if new.1 < old.1 then false
  else if new.1 == old.1 then
    if new.2 == old.2 then false
    else if new.2 < old.2 then false
    else true
  else true

/-- steps of harness stream `c07rm` for ONE vBucket (one table) -/
inductive RmStep
  | start (order : List Nat)                   -- `Start()` / pure config bump: reset, then every listed copy reports, in `order`
  | remap (absentIdx : List Nat) (order : List Nat)   -- new vBucket map row, then as `start`
  /-- the cluster publishes a config with revision (revEpoch `e`, rev `r`) whose row of this vBucket is `absentIdx`;
      `configWatch` adopts it only when it is newer than the one in use (`isNewer`), then as `start` -/
  | config (e r : Nat) (absentIdx : List Nat) (order : List Nat)
  | change (idx uuid seq : Nat)                -- one copy's answer changes (transient TMPFAIL/BUSY/timeout are retried below the callback)
  | idle
  | stop
deriving Repr, Inhabited

inductive RmObs
  | many (l : List Nat)     -- dispatches of a (re)start, in order
  | one (m : Nat)
  | nothing
  | stopped
deriving DecidableEq, Repr, Inhabited

structure RmSim where
  /-- what the cluster would answer per replica index -/
  truth : List (Nat × Nat)
  numReplicas : Nat
  absentIdx : List Nat
  rm : Rm := {}
  started : Bool := false
  /-- (revEpoch, rev) of the config the cluster published last (the harness starts every cluster at (2,100)) -/
  pub : Nat × Nat := (2, 100)
  /-- (revEpoch, rev) of `r.configSnapshot`, the config the mitigation works with -/
  use : Nat × Nat := (2, 100)
  /-- counterfactual used by the monitor only: an instance that never adopts a `config` step (keeps the OLD copy layout) -/
  stale : Bool := false
deriving Repr, Inhabited

namespace RmSim

/-- reports of the listed copies in `order`; collects (table after the update, dispatched value) -/
def reports (s : RmSim) (order : List Nat) : RmSim × List (Table × Nat) :=
  order.foldl (fun (acc : RmSim × List (Table × Nat)) i =>
    let (u, q) := acc.1.truth.getD i (0, 0)
    match acc.1.rm.callback acc.1.rm.gid i (.inr (u, q)) with
    | (rm', .dispatch m) => ({ acc.1 with rm := rm' }, acc.2 ++ [(rm'.table, m)])
    | (rm', _) => ({ acc.1 with rm := rm' }, acc.2)) (s, [])

/-- the cluster publishes revision `p` with the row `ab`.  `Start()` takes whatever config there is
    (`waitFirstConfig`, lines 379-413); afterwards `configWatch` (lines 88-95) calls `reconfigure` only for a snapshot
    that `isConfigSnapshotNewerThan` accepts (`acc`) – otherwise nothing happens: no reset, the OLD layout stays -/
def publish (s : RmSim) (p : Nat × Nat) (ab : List Nat) (order : List Nat) (acc : Bool) : RmSim × List (Table × Nat) :=
  if s.rm.closed then ({ s with absentIdx := ab, pub := p }, []) else
  if !s.started || acc then
    ({ s with absentIdx := ab, pub := p, use := p, rm := s.rm.reconfigure s.numReplicas ab, started := true } : RmSim).reports order
  else ({ s with absentIdx := ab, pub := p }, [])

/-- one script step: new state, the dispatches it causes (with the table each was computed
    from), and whether the step is the `Stop()` call.  `start` (after the first) and `remap` publish the next rev of the
    current epoch, `config` an arbitrary revision. -/
def step (s : RmSim) : RmStep → RmSim × List (Table × Nat)
  | .start order =>
    if !s.started then s.publish s.pub s.absentIdx order true
    else s.publish (s.pub.1, s.pub.2 + 1) s.absentIdx order (isNewer s.use (s.pub.1, s.pub.2 + 1))
  | .remap ab order => s.publish (s.pub.1, s.pub.2 + 1) ab order (isNewer s.use (s.pub.1, s.pub.2 + 1))
  | .config e r ab order => s.publish (e, r) ab order (!s.stale && isNewer s.use (e, r))
  | .change i u q =>
    let s1 := { s with truth := s.truth.set i (u, q) }
    if !s.started then (s1, []) else s1.reports [i]
  | .idle => (s, [])
  | .stop => ({ s with rm := s.rm.stop }, [])

/-- shape of the observation line of a step -/
def obsOf : RmStep → List Nat → RmObs
  | .start _, l => .many l
  | .remap _ _, l => .many l
  | .config _ _ _ _, l => .many l
  | .change _ _ _, [] => .nothing
  | .change _ _ _, m :: _ => .one m
  | .idle, _ => .nothing
  | .stop, _ => .stopped

/-- per step: the dispatch events and the table after the step -/
def run : RmSim → List RmStep → List (List (Table × Nat) × Table)
  | _, [] => []
  | s, a :: as => let (s', evs) := s.step a; (evs, s'.rm.table) :: run s' as

def observe (s : RmSim) (steps : List RmStep) : List RmObs :=
  (steps.zip (run s steps)).map fun (a, evs, _) => obsOf a (evs.map (·.2))

end RmSim

/-- steps of harness stream `c07gate` -/
inductive GStep
  | arrive (e : SrvEv)
  | persist (p : Nat)
  | close
deriving Repr, Inhabited

/-- outcome letter of one finished call -/
inductive GRes | delivered | droppedClosed | dropped | failstop
deriving DecidableEq, Repr, Inhabited

def GRes.ofOut : ObsOut → GRes
  | .fwd _ => .delivered
  | .dropClosed => .droppedClosed
  | .failstop => .failstop
  | _ => .dropped

inductive GObs
  | done (r : GRes)                    -- the arriving call returned at once
  | waiting
  | released (l : List (Nat × GRes))   -- calls that returned because of this step, by arrival number
deriving DecidableEq, Repr, Inhabited

namespace Gate

/-- entries appended to the log by a step -/
def newLog (before after : Gate) : List (Nat × GRes) :=
  (after.log.drop before.log.length).map fun p => (p.1, GRes.ofOut p.2.2)

def script (g : Gate) : GStep → Gate × GObs
  | .arrive e =>
    let g' := g.arrive e
    match newLog g g' with
    | (_, r) :: _ => (g', .done r)
    | [] => (g', .waiting)
  | .persist p =>
    let g' := (g.persist p).pollAll
    (g', .released (newLog g g'))
  | .close =>
    let g' := g.close.pollAll
    (g', .released (newLog g g'))

def runScript : Gate → List GStep → List GObs
  | _, [] => []
  | g, a :: as => let (g', o) := g.script a; o :: runScript g' as

end Gate

end MinSeqNo
end GoDcp
