import GoDcp.Model.Session
/-!
C15 — start-up of a whole client (`dcp.Start` → `stream.Open` → `checkpoint.Load`
→ `openAllStreams`) as a decision function over everything that can go wrong
before the first event is delivered.  `checkpoint.Load` is NOT re-modelled: this is
`GoDcp.load` (Model/Session.lean) plus the guards around it.

dcp.go Start l.95-106          switch { IsCouchbaseMetadata → NewCBMetadata; IsFileMetadata → NewFSMetadata;
                                        default → panic("invalid metadata type") }
stream/vbucket_discovery.go    NewVBucketDiscovery l.85-100: switch on Dcp.Group.Membership.Type over the five
                               known types; default → panic("unknown membership")
stream/checkpoint.go Load      l.120-126 metadata.Load error → panic(err)   (cbMetadata.Load panics by itself, inside
                                         its per-vBucket goroutine, on anything but KEY_ENOENT: metadata.go l.107-112)
                               l.128-132 client.GetVBucketSeqNos error → panic(err)
                               l.138-171 no checkpoint at all && autoReset == latest: per vBucket
                                         GetFailOverLogs error → panic(err)
                               l.173-197 doc.Checkpoint.SeqNo > latestSeqNo → panic("checkpoint seqNo bigger …")
stream/stream.go               openAllStreams l.348-364: one goroutine per vBucket, OpenStream error → panic(err)

Every one of these panics is raised in a goroutine the caller of `Start` does not
own (errgroup / `go func` / concurrent-swiss-map's Range goroutine / openAllStreams),
or in `Start` itself: the process terminates.  That is the fail-stop; `Exit.fail`.

Finding F7 enters here: `client.GetVBucketSeqNos` drops the callback's error
(client.go l.560-575), so on a server error status `Load` sees an EMPTY seqno map
and no error (`SeqAnswer.errSwallowed`): every vBucket's high seqno reads as 0.
Core Lean only.
-/
namespace GoDcp.Startup
open GoDcp

/-- how the GET_ALL_VB_SEQNOS round of `checkpoint.Load` ends -/
inductive SeqAnswer
  | ok                 -- the server's high seqnos
  | errPropagated      -- error status, handed back by the client (the repaired client)
  | errSwallowed       -- error status, dropped by the client: (empty map, nil)   [F7, the code as it is]
  deriving DecidableEq, Repr

structure Case where
  /-- `config.Metadata.Type` after `ApplyDefaults` ("" has become "couchbase") -/
  metaType : String
  /-- `config.Dcp.Group.Membership.Type` after `ApplyDefaults` ("" has become "couchbase") -/
  memberType : String
  /-- assignment, modes, stored checkpoints, server high seqnos, failover-log heads -/
  st : St
  /-- `Metadata.Load` fails for an assigned vBucket with something else than "no such document" -/
  loadErr : Bool := false
  seq : SeqAnswer := .ok
  /-- vBuckets whose failover-log query is answered with an error status -/
  flogErr : List Vb := []
  /-- vBuckets whose DCP_STREAM_REQ is answered with an error status (not ROLLBACK) -/
  openErr : List Vb := []
  deriving Repr

inductive Exit
  /-- `Start` reached "dcp stream started": one stream request per assigned vBucket was accepted -/
  | running (reqs : List (Vb × Offset))
  /-- the process terminated; `cls` names the guard -/
  | fail (cls : String)
  deriving DecidableEq, Repr

def knownMetadata (t : String) : Bool := t == "couchbase" || t == "file"

/-- membership/membership.go: the five type constants -/
def knownMembership (t : String) : Bool :=
  t == "static" || t == "couchbase" || t == "kubernetesStatefulSet" || t == "kubernetesHa" || t == "dynamic"

/-- what `checkpoint.Load` sees as the server's high seqnos -/
def seenState (c : Case) : St :=
  match c.seq with
  | .errSwallowed => { c.st with high := [] }
  | _ => c.st

/-- `!exist && AutoReset == "latest"` (checkpoint.go l.138) -/
def latestBranch (s : St) : Bool := !(mdLoad s).2 && s.cfg.resetLatest

def start (c : Case) : Exit :=
  if !knownMetadata c.metaType then .fail "invalid-metadata-type"
  else if !knownMembership c.memberType then .fail "unknown-membership"
  else if c.loadErr then .fail "load-error"
  else if c.seq = .errPropagated then .fail "seqno-error"
  else
    let s := seenState c
    if latestBranch s && (vbRange s.cfg).any c.flogErr.contains then .fail "failover-error"
    else match load s with
      | none => .fail "checkpoint-ahead"
      | some (offs, _, _) =>
        if offs.any (fun p => c.openErr.contains p.1) then .fail "open-error"
        else .running offs

/-- can the consumer see an event before the process stops?  `stream.Open` creates every observer
    (stream.go l.236-246) and `openAllStreams` then opens the vBuckets concurrently, one goroutine each;
    nothing holds delivery back until all of them are open.  A vBucket whose request has been accepted
    delivers at once, while the answer for a sibling is still outstanding.  `lateErr`: the failing answer
    arrives after the siblings' first events; `traffic`: the server has something to send. -/
def deliversBeforeStop (c : Case) (lateErr traffic : Bool) : Bool :=
  match start c with
  | .fail cls => cls == "open-error" && lateErr && traffic && (vbRange c.st.cfg).any (fun vb => !c.openErr.contains vb)
  | .running _ => false

/-- the true high seqno of the server (whatever the client made of the answer) -/
def trueHigh (c : Case) (vb : Vb) : Nat := (c.st.high.get? vb).getD 0

end GoDcp.Startup
