import GoDcp.Model.Session
/-!
C15 — start-up of a whole client (`dcp.Start` → `stream.Open` → `checkpoint.Load`
→ `openAllStreams`) as a decision function over everything that can go wrong
before the first event is delivered.  `checkpoint.Load` is NOT re-modelled: this is
`GoDcp.load` (Model/Session.lean) plus the guards around it.

dcp.go Start l.95-106          switch { IsCouchbaseMetadata → NewCBMetadata; IsFileMetadata → NewFSMetadata;
                                        default → panic("invalid metadata type") }
stream/vbucket_discovery.go    NewVBucketDiscovery l.85-100: switch on Dcp.Group.Membership.Type over the five
                               known types; default → panic("unknown membership")
stream/checkpoint.go Load      l.120-126 metadata.Load error → panic(err)   (cbMetadata.Load panics by itself, inside
                                         its per-vBucket goroutine, on anything but KEY_ENOENT: metadata.go l.107-112)
                               l.128-132 client.GetVBucketSeqNos error → panic(err)
                               l.138-171 no checkpoint at all && autoReset == latest: per vBucket
                                         GetFailOverLogs error → panic(err)
                               l.173-197 doc.Checkpoint.SeqNo > latestSeqNo → panic("checkpoint seqNo bigger …")
stream/stream.go               openAllStreams l.348-364: one goroutine per vBucket, OpenStream error → panic(err)
                               listenEnd l.190-219: an end with ErrSocketClosed / ErrDCPBackfillFailed / ErrDCPStreamStateChanged /
                                         ErrDCPStreamTooSlow / ErrDCPStreamDisconnected → `go s.reopenStream(vbID)` – whatever
                                         `s.open` says, i.e. also while `Open` is still inside `openAllStreams`
                               reopenStream l.168-188: `openStream(vbID)` (same offset map entry, same observer) up to 5 times,
                                         1 s apart; the 5th failure → panic(err)

Every one of these panics is raised in a goroutine the caller of `Start` does not
own (errgroup / `go func` / concurrent-swiss-map's Range goroutine / openAllStreams),
or in `Start` itself: the process terminates.  That is the fail-stop; `Exit.fail`.

Finding F7 enters here: `client.GetVBucketSeqNos` drops the callback's error
(client.go l.560-575), so on a server error status `Load` sees an EMPTY seqno map
and no error (`SeqAnswer.errSwallowed`): every vBucket's high seqno reads as 0.

A PARTIAL answer (`SeqAnswer.missing`: status success, but no entry for some assigned
vBucket – e.g. one that is active on no node at that moment) is no error for the client:
`seqNoMap.Load(vbID)` of the missing key yields (0, false) and both branches of `Load`
drop the flag (`latestSeqNo, _ :=` l.141 / l.175).  The missing vBucket therefore reads
as high seqno 0: a stored seqno > 0 panics, none / 0 starts from 0.
Core Lean only.
-/
namespace GoDcp.Startup
open GoDcp

/-- how the GET_ALL_VB_SEQNOS round of `checkpoint.Load` ends -/
inductive SeqAnswer
  | ok                 -- the server's high seqnos
  | errPropagated      -- error status, handed back by the client (the repaired client)
  | errSwallowed       -- error status, dropped by the client: (empty map, nil)   [F7, the code as it is]
  | missing (vbs : List Vb)       -- PARTIAL answer: status success, no entry for these vBuckets
  deriving DecidableEq, Repr

structure Case where
  /-- `config.Metadata.Type` after `ApplyDefaults` ("" has become "couchbase") -/
  metaType : String
  /-- `config.Dcp.Group.Membership.Type` after `ApplyDefaults` ("" has become "couchbase") -/
  memberType : String
  /-- assignment, modes, stored checkpoints, server high seqnos, failover-log heads -/
  st : St
  /-- `Metadata.Load` fails for an assigned vBucket with something else than "no such document" -/
  loadErr : Bool := false
  seq : SeqAnswer := .ok
  /-- vBuckets whose failover-log query is answered with an error status -/
  flogErr : List Vb := []
  /-- vBuckets whose DCP_STREAM_REQ is answered with an error status (not ROLLBACK) -/
  openErr : List Vb := []
  /-- vBuckets whose accepted stream the server ends with one of the re-openable statuses of
      listenEnd l.208-212 (during `openAllStreams` or afterwards: the code does not distinguish) -/
  ended : List Vb := []
  /-- vBuckets whose every LATER stream request (the re-open attempts) is answered with an error status -/
  reopenErr : List Vb := []
  deriving Repr

inductive Exit
  /-- `Start` reached "dcp stream started": one stream request per assigned vBucket was accepted -/
  | running (reqs : List (Vb × Offset))
  /-- the process terminated; `cls` names the guard -/
  | fail (cls : String)
  deriving DecidableEq, Repr

def knownMetadata (t : String) : Bool := t == "couchbase" || t == "file"

/-- membership/membership.go: the five type constants -/
def knownMembership (t : String) : Bool :=
  t == "static" || t == "couchbase" || t == "kubernetesStatefulSet" || t == "kubernetesHa" || t == "dynamic"

/-- what `checkpoint.Load` sees as the server's high seqnos -/
def seenState (c : Case) : St :=
  match c.seq with
  | .errSwallowed => { c.st with high := [] }
  | .missing vbs => { c.st with high := c.st.high.filter fun p => !vbs.contains p.1 }
  | _ => c.st

/-- `!exist && AutoReset == "latest"` (checkpoint.go l.138) -/
def latestBranch (s : St) : Bool := !(mdLoad s).2 && s.cfg.resetLatest

def start (c : Case) : Exit :=
  if !knownMetadata c.metaType then .fail "invalid-metadata-type"
  else if !knownMembership c.memberType then .fail "unknown-membership"
  else if c.loadErr then .fail "load-error"
  else if c.seq = .errPropagated then .fail "seqno-error"
  else
    let s := seenState c
    if latestBranch s && (vbRange s.cfg).any c.flogErr.contains then .fail "failover-error"
    else match load s with
      | none => .fail "checkpoint-ahead"
      | some (offs, _, _) =>
        if offs.any (fun p => c.openErr.contains p.1) then .fail "open-error"
        -- reopenStream: the ended stream is requested again; all 5 attempts refused → panic(err)
        else if offs.any (fun p => c.ended.contains p.1 && c.reopenErr.contains p.1) then .fail "reopen-gave-up"
        else .running offs

/-- reopenStream l.169: `retry := 5` -/
def reopenAttempts : Nat := 5

/-- the second round of stream requests of a running session: every ended vBucket is requested again,
    with the entry of the SAME offset map (`openStream` l.336-345; nothing was delivered in between) -/
def reRequests (c : Case) (offs : List (Vb × Offset)) : List (Vb × Offset) :=
  offs.filter fun p => c.ended.contains p.1

/-- accepted stream requests of a running session for `vb` (first round + re-open) -/
def requestsOf (c : Case) (offs : List (Vb × Offset)) (vb : Vb) : Nat :=
  (offs.filter fun p => p.1 == vb).length + ((reRequests c offs).filter fun p => p.1 == vb).length

/-- STREAM_ENDs the server pushed for `vb` -/
def endsOf (c : Case) (vb : Vb) : Nat := if c.ended.contains vb then 1 else 0

/-- streams of `vb` that are still open on the server: accepted − ended -/
def liveStreams (c : Case) (offs : List (Vb × Offset)) (vb : Vb) : Nat := requestsOf c offs vb - endsOf c vb

/-- can the consumer see an event before the process stops?  `stream.Open` creates every observer
    (stream.go l.236-246) and `openAllStreams` then opens the vBuckets concurrently, one goroutine each;
    nothing holds delivery back until all of them are open.  A vBucket whose request has been accepted
    delivers at once, while the answer for a sibling is still outstanding.  `lateErr`: the failing answer
    arrives after the siblings' first events; `traffic`: the server has something to send. -/
def deliversBeforeStop (c : Case) (lateErr traffic : Bool) : Bool :=
  match start c with
  | .fail cls => cls == "open-error" && lateErr && traffic && (vbRange c.st.cfg).any (fun vb => !c.openErr.contains vb)
  | .running _ => false

/-- the true high seqno of the server (whatever the client made of the answer) -/
def trueHigh (c : Case) (vb : Vb) : Nat := (c.st.high.get? vb).getD 0

/-- the high seqno the server REPORTED to this client: nothing (= 0, the client's reading) for a vBucket
    left out of a partial answer, the true one otherwise -/
def reportedHigh (c : Case) (vb : Vb) : Nat :=
  match c.seq with
  | .missing vbs => if vbs.contains vb then 0 else trueHigh c vb
  | _ => trueHigh c vb

/-! ## the FILE back end when the file exists

metadata/file_metadata.go Load l.31-52: `os.ReadFile` succeeds → `state.UnmarshalJSON(file)`, `exist = true`: the
file's whole map AS IT IS, whatever vBuckets it names; `vbIds` (the assignment) is only used when the file does
not exist (then: one empty document per ASSIGNED vBucket, `exist = false` – that case is `mdLoad` / `start` above).

The harness writes the file iff the case has stored documents, so "the file exists" = the metadata type is
`file` and `st.store` is non-empty; `st.store` then IS the file's map (keys = the vBuckets the file names; an
association list is read through `AMap.get?`, i.e. as the map it stands for).
-/

/-- the file back end found its file (file_metadata.go l.32 `err == nil`) -/
def fileExists (c : Case) : Bool := c.metaType == "file" && !c.st.store.isEmpty

/-- the vBuckets the file names: assigned or not -/
def fileKeys (s : St) : List Vb := s.store.map (·.1)

/-- the document the file holds for `vb` -/
def fileDoc (s : St) (vb : Vb) : Doc := (s.store.get? vb).getD Doc.zero

/-- `latestSeqNo, _ := seqNoMap.Load(vbID)` (checkpoint.go l.175): absent = 0 -/
def seenHigh (s : St) (vb : Vb) : Nat := (s.high.get? vb).getD 0

/-- `checkpoint.Load` behind an existing file: `exist = true`, so never the auto-reset branch (l.138);
    l.173-197 `dump.Range` walks EVERY vBucket of the file: `doc.Checkpoint.SeqNo > latestSeqNo` → panic (`none`),
    otherwise one offset per vBucket OF THE FILE.  The assignment (`s.vbIds`) is not looked at. -/
def loadFile (s : St) : Option (AMap Offset) :=
  if (fileKeys s).any (fun vb => (fileDoc s vb).seq > seenHigh s vb) then none
  else some ((fileKeys s).map fun vb => (vb, (fileDoc s vb).toOffset (initLatest s.cfg.finite (seenHigh s vb))))

/-- assigned vBuckets the file does not name -/
def fileMissing (s : St) : List Vb := (vbRange s.cfg).filter fun vb => !s.store.has vb

/-- the offset `openStream` never reads (the not-found guard fires first) -/
def noOffset : Offset := Doc.zero.toOffset 0

/-- start-up behind an existing file, line by line:
    dcp.go Start / NewVBucketDiscovery            type switches (as in `start`)
    checkpoint.go Load l.120-132                  load error, seqno error (as in `start`)
    checkpoint.go Load l.138                      `!exist && …` is false: no failover-log query, no reset to latest
    checkpoint.go Load l.173-197                  `loadFile`: the ahead-check over ALL stored vBuckets
    stream.go Open l.236-246                      observers for exactly the vBuckets of the offset map
    stream.go openAllStreams(vbIDs) l.348-364     walks the ASSIGNED vBuckets; openStream l.336-341
                                                  `s.offsets.Load(vbID)` !exist → "vbID: %d not found on offset map"
                                                  → "error while open stream" → panic;
                                                  l.344 client.OpenStream error → the same panic
    stream.go reopenStream l.168-188              as in `start` -/
def startFile (c : Case) : Exit :=
  if !knownMetadata c.metaType then .fail "invalid-metadata-type"
  else if !knownMembership c.memberType then .fail "unknown-membership"
  else if c.loadErr then .fail "load-error"
  else if c.seq = .errPropagated then .fail "seqno-error"
  else
    let s := seenState c
    match loadFile s with
    | none => .fail "checkpoint-ahead"
    | some offs =>
      if (vbRange s.cfg).any (fun vb => !offs.has vb) then .fail "open-error"
      else if (vbRange s.cfg).any c.openErr.contains then .fail "open-error"
      else if (vbRange s.cfg).any (fun vb => c.ended.contains vb && c.reopenErr.contains vb) then .fail "reopen-gave-up"
      else .running ((vbRange s.cfg).map fun vb => (vb, (offs.get? vb).getD noOffset))

/-- start-up for every back end: the file back end with its file present, `start` otherwise
    (couchbase back end; file back end without a file: `vbIds` decides, exactly `mdLoad`) -/
def startAny (c : Case) : Exit := if fileExists c then startFile c else start c

/-- the offset map (and with it the observer map, stream.go l.236-246) of the session `startAny` describes
    when the file exists: one entry per vBucket of the FILE – also for vBuckets outside the assignment -/
def fileSessionOffsets (c : Case) : AMap Offset := (loadFile (seenState c)).getD []

/-- `deliversBeforeStop` for every back end.  An assigned vBucket the file does not name fails inside
    `openStream` before anything is sent: that panic is prompt, whatever the server does for the siblings. -/
def deliversBeforeStopAny (c : Case) (lateErr traffic : Bool) : Bool :=
  if fileExists c then
    match startFile c with
    | .fail cls => cls == "open-error" && (fileMissing (seenState c)).isEmpty && lateErr && traffic &&
                   (vbRange c.st.cfg).any (fun vb => !c.openErr.contains vb)
    | .running _ => false
  else deliversBeforeStop c lateErr traffic

end GoDcp.Startup
