import GoDcp.Model.Membership
/-!
Leader-assigned (kubernetesHa) membership END TO END (property C10).  Core Lean only.

`Model/Membership.lean` section (iii) models one leader round of `serviceDiscovery` in isolation
(`sdHeartbeat`, `sdGetAll`, `sdRound`).  This file puts those definitions into a labelled transition
system over SEVERAL instances, each = one process running

* `servicediscovery/service_discovery.go`  `Add` (l.48-50), `Remove` (l.52-58), `RemoveAll` (l.60-72),
                                           `BeLeader`/`DontBeLeader` (l.74-80), `AssignLeader` (l.82-84),
                                           `RemoveLeader` (l.86-94), `ReassignLeader` (l.96-108),
                                           `StartHeartbeat` loop body (l.114-149), `StartMonitor` loop body
                                           (l.164-183), `GetAll` (l.191-211), `SetInfo` (l.213-226)
* `servicediscovery/rpc_client.go`         `connect` (l.32-50), `Close` (l.52-64), `Reconnect` (l.70-73),
                                           `Ping` / `Register` / `Rebalance` (l.75-113), `NewClient` (l.115-128)
* `servicediscovery/rpc_server.go`         `Handler.Ping` (l.30-36), `Handler.Register` (l.38-53),
                                           `Handler.Rebalance` (l.55-61)
* `stream/leader_election.go`              `OnBecomeLeader` (l.42-45), `OnResignLeader` (l.47-50),
                                           `OnBecomeFollower` (l.52-74)
* `kubernetes/leader_elector.go`           the three client-go callbacks (l.33-57) incl. the `role` label
* `kubernetes/ha_membership.go`            `GetInfo` = the last model published on the bus (`info`)
* client-go `tools/leaderelection` v0.29.4 `Run` (one shot: acquire loop, then renew loop, then RETURN),
                                           `maybeReportTransition`, `release` - as ENVIRONMENT actions.

Granularity: one action = one election callback, one heartbeat-loop body, one monitor-loop body, or one
environment event (process start / death, connection loss, lease transition).  The heartbeat body can also
be taken in its three parts (`hbFollow`, `hbPing`, `hbRemove`): between the ping pass and the remove pass
of l.134-148 the names to remove are held in a local slice, and `Remove` is BY NAME.

Conventions: instance = its index (`Nat`) = its identity name = its IP.  A client object
(`rpc_client.go client`) is its target plus `broken` (the TCP connection under it is gone: every call on
it fails; set when the peer process dies or the connection is cut).  `connected` of the Go struct is only
read by `Close` and is not observable, so it is not modelled.  A Go panic inside a callback goroutine
kills the process: modelled as the death of the instance (`kill`).
-/
namespace GoDcp.HaMembership
open GoDcp.Membership

/-- `rpc_client.go client`: target identity, and whether the connection under it is gone -/
structure Client where
  target : Id
  broken : Bool := false
deriving DecidableEq, Repr

/-- `servicediscovery.Service{Client, Name, ClusterJoinTime}` as stored by `Handler.Register` -/
structure Svc where
  name : Id
  jt : Int
  conn : Client
deriving DecidableEq, Repr

/-- where the client-go elector of an instance stands (`LeaderElector.Run`) -/
inductive El
  | watching        -- in `acquire`: polls the lease, reports holders through `OnNewLeader`
  | leading         -- in `renew`
  | stopped         -- `Run` returned (lease lost or released): go-dcp never starts it again
deriving DecidableEq, Repr

/-- the pod label `role` written by `leader_elector.go` -/
inductive Role
  | unset | leader | follower
deriving DecidableEq, Repr

/-- one process: `serviceDiscovery` fields + `haMembership.info` + its elector -/
structure Inst where
  alive : Bool := false
  jt : Int := 0                          -- `Identity.ClusterJoinTime` of this incarnation
  amLeader : Bool := false               -- `amILeader`
  leader : Option Client := none         -- `leaderService` (its Name / ClusterJoinTime are never read)
  services : List Svc := []              -- `services` (a map: names are distinct; list order = iteration order)
  info : Option (Nat × Nat) := none      -- `serviceDiscovery.info` = last bus event = `haMembership.GetInfo()`
  pending : List Id := []                -- `needToBeRemove` between ping pass and remove pass
  el : El := .watching
  reported : Option (Id × Int) := none   -- client-go `reportedLeader` (identity string = name/IP + join time)
  role : Role := .unset
deriving Repr

structure State where
  n : Nat := 0                           -- instance slots `0..n-1`
  insts : Id → Inst := fun _ => {}
  holder : Option (Id × Int) := none     -- `HolderIdentity` of the lease record (none = "" or no record)
  blocked : List (Id × Id) := []         -- pairs between which no NEW connection can be made (partition)
  fresh : Bool := false                  -- ghost: the lease holder ran a complete monitor round and nothing changed since

def State.upd (s : State) (i : Id) (f : Inst → Inst) : State :=
  { s with insts := fun j => if j = i then f (s.insts j) else s.insts j }

/-- every action that changes anything ends the "monitor round since the last change" -/
def nf (s : State) : State := { s with fresh := false }

def blockedB (s : State) (a b : Id) : Bool :=
  s.blocked.any fun p => (p.1 == a && p.2 == b) || (p.1 == b && p.2 == a)

/-- `rpc.Dial("tcp", target.IP:port)` issued by `a` towards `b` (`connect` l.32-50; the 3 x 1 s retry
    is inside the action) -/
def canDial (s : State) (a b : Id) : Bool := (s.insts b).alive && !blockedB s a b

/-- `Add` l.48-50: `s.services.Store(service.Name, service)` - an existing entry of the same name is
    REPLACED (its old client is neither closed nor looked at) -/
def addSvc (v : Svc) : List Svc → List Svc
  | [] => [v]
  | x :: r => if x.name = v.name then v :: r else x :: addSvc v r

def brk (t : Id) (c : Client) : Client := if c.target = t then { c with broken := true } else c

/-- every connection of this process to `t` is gone -/
def Inst.breakTo (t : Id) (x : Inst) : Inst :=
  { x with leader := x.leader.map (brk t), services := x.services.map fun v => { v with conn := brk t v.conn } }

/-- the process `i` is gone (silent death, or a panic in one of its goroutines): every connection to it is gone -/
def kill (s : State) (i : Id) : State :=
  nf { s with insts := fun j => if j = i then { s.insts j with alive := false } else (s.insts j).breakTo i }

/-- process start (also a restart under the same name / IP): fresh process state, `haMembership.info = nil`;
    connections to a previous incarnation are gone -/
def start (s : State) (i : Id) (jt : Int) : State :=
  if i < s.n then
    nf { s with insts := fun j => if j = i then { alive := true, jt := jt } else (s.insts j).breakTo i }
  else s

/-- the connections between `a` and `b` (both directions) are lost; both processes keep running -/
def cut (s : State) (a b : Id) : State :=
  nf { s with insts := fun j =>
    if j = a then (s.insts j).breakTo b else if j = b then (s.insts j).breakTo a else s.insts j }

def block (s : State) (a b : Id) : State := { cut s a b with blocked := (a, b) :: s.blocked }

def unblock (s : State) (a b : Id) : State :=
  nf { s with blocked := s.blocked.filter fun p => !((p.1 == a && p.2 == b) || (p.1 == b && p.2 == a)) }

/-- `client.Register()` of `a` over a working connection to `b` = `Handler.Register` in `b` (rpc_server.go
    l.38-53; the handler does NOT look at `amILeader`): `NewClient(port, me, payload.Identity)` dials BACK
    to `a`; on success `Add(NewService(client, a.Name, a.ClusterJoinTime))`.  `none` = the rpc returned an error -/
def registerAt (s : State) (a b : Id) : Option State :=
  if (s.insts b).alive && canDial s b a then
    some (s.upd b fun x =>
      { x with services := addSvc { name := a, jt := (s.insts a).jt, conn := { target := a } } x.services })
  else none

/-! ### election callbacks (leader_elector.go l.33-57 → leader_election.go l.42-74) and lease transitions -/

/-- client-go `acquire` succeeded for `i` (`tryAcquireOrRenew`): the record names `i`; `maybeReportTransition`
    reports `i` to itself (`OnNewLeader(self)` returns at `myIdentity.Equal`, l.48-50).  The `OnStartedLeading`
    callback is a separate goroutine: action `lead`. -/
def acquire (s : State) (i : Id) : State :=
  let x := s.insts i
  if !x.alive || x.el != .watching then s
  else nf { (s.upd i fun x => { x with el := .leading, reported := some (i, x.jt) }) with holder := some (i, x.jt) }

/-- `OnStartedLeading`: `AddLabel("role","leader")`, `OnBecomeLeader` = `BeLeader(); RemoveLeader()`
    (`services` is NOT touched: followers that registered before this callback ran stay registered) -/
def lead (s : State) (i : Id) : State :=
  if !(s.insts i).alive then s
  else nf (s.upd i fun x => { x with role := .leader, amLeader := true, leader := none })

/-- `maybeReportTransition` + `OnNewLeader(holder)` in instance `i`: only when the observed holder differs
    from the last reported one and the elector still runs.  `OnBecomeFollower` l.52-74:
    `DontBeLeader(); RemoveAll(); RemoveLeader(); NewClient(leader)` (error → return, NOTHING is retried),
    `AssignLeader`, `Register()` (error → `panic`). An EMPTY holder (lease released) makes
    `models.NewIdentityFromStr("")` panic. -/
def observe (s : State) (i : Id) : State :=
  let x := s.insts i
  if !x.alive || x.el == .stopped then s
  else if x.reported = s.holder then s
  else match s.holder with
    | none => kill s i
    | some h =>
      let s0 := s.upd i fun x => { x with reported := some h }
      if h.1 = i then nf s0
      else
        let s1 := s0.upd i fun x => { x with role := .follower, amLeader := false, services := [], leader := none }
        if !canDial s1 i h.1 then nf s1
        else
          let s2 := s1.upd i fun x => { x with leader := some { target := h.1 } }
          match registerAt s2 i h.1 with
          | some s3 => nf s3
          | none => kill s2 i

/-- the renew loop of `i` gave up (`renewDeadline` exceeded) or its context was cancelled: `Run` RETURNS
    (the elector never runs again), `OnStoppedLeading` = `RemoveLabel("role")`, `OnResignLeader` =
    `DontBeLeader(); RemoveAll()`.  `release` = `ReleaseOnCancel` wrote an empty holder. -/
def lose (s : State) (i : Id) (release : Bool) : State :=
  let x := s.insts i
  if !x.alive || x.el != .leading then s
  else
    let s1 := s.upd i fun x => { x with el := .stopped, role := .unset, amLeader := false, services := [] }
    nf { s1 with holder := if release && s.holder == some (i, x.jt) then none else s.holder }

/-! ### heartbeat loop body, service_discovery.go l.114-149 -/

/-- l.117-133 of the current tree, i.e. AFTER commit 39ec43d "fix: keep the leader service after a failed re-register so
    a follower retries on the next heartbeat" (finding F17, fixed): `if leaderService != nil { Ping(); on error
    ReassignLeader() = Reconnect() then Register(); on error: the leader service is KEPT }` (only a service that was
    replaced meanwhile is closed - `tempLeaderService != s.leaderService` cannot happen inside one atomic step).
    A failed `Reconnect` leaves the client as it was (still broken); a `Reconnect` that worked has put a new connection
    into the client even if `Register` failed afterwards.  The next body pings again, so a follower whose re-register
    failed retries every period until the leader is reachable. -/
def hbFollow (s : State) (i : Id) : State :=
  match (s.insts i).leader with
  | none => s
  | some c =>
    if !c.broken then s
    else if !canDial s i c.target then s
    else
      let s1 := s.upd i fun x => { x with leader := some { c with broken := false } }
      match registerAt s1 i c.target with
      | some s2 => nf s2
      | none => nf s1

/-- the follower part of the heartbeat body BEFORE commit 39ec43d (finding F17): a failed `ReassignLeader` ended in
    `RemoveLeader()`, and NOTHING re-established `leaderService` except the next `OnBecomeFollower` (a leader change).
    Kept for the refutation `Props/C10HaRefute ha_orphan_follower_refuted`. -/
def hbFollowOld (s : State) (i : Id) : State :=
  match (s.insts i).leader with
  | none => s
  | some c =>
    if !c.broken then s
    else if !canDial s i c.target then nf (s.upd i fun x => { x with leader := none })
    else
      let s1 := s.upd i fun x => { x with leader := some { c with broken := false } }
      match registerAt s1 i c.target with
      | some s2 => nf s2
      | none => nf (s1.upd i fun x => { x with leader := none })

/-- l.134-143: the ping pass over `services`: names whose ping failed -/
def hbPing (s : State) (i : Id) : State :=
  let x := s.insts i
  let p := (x.services.filter fun v => v.conn.broken).map (·.name)
  if p.isEmpty && x.pending.isEmpty then s else nf (s.upd i fun x => { x with pending := p })

/-- l.145-148: `for _, name := range needToBeRemove { s.Remove(name) }` - BY NAME, whatever client is
    stored under that name by now -/
def hbRemove (s : State) (i : Id) : State :=
  let x := s.insts i
  if x.pending.isEmpty then s
  else nf (s.upd i fun x =>
    { x with services := x.services.filter (fun v => !x.pending.contains v.name), pending := [] })

def hb (s : State) (i : Id) : State :=
  if !(s.insts i).alive then s else hbRemove (hbPing (hbFollow s i) i) i

/-- the heartbeat body before commit 39ec43d -/
def hbOld (s : State) (i : Id) : State :=
  if !(s.insts i).alive then s else hbRemove (hbPing (hbFollowOld s i) i) i

/-! ### monitor loop body, service_discovery.go l.164-183 -/

/-- `service.Client.Rebalance(k, total)` for every name of `GetAll` that `Load` still finds: over a working
    connection it is `Handler.Rebalance` = `SetInfo(k, total)` in the follower -/
def rebalanceAll (L : Id) : State → List (Id × (Nat × Nat)) → State
  | s, [] => s
  | s, (name, a) :: r =>
    match (s.insts L).services.find? (·.name = name) with
    | some v =>
      if v.conn.broken then rebalanceAll L s r
      else rebalanceAll L (s.upd v.conn.target fun x => { x with info := (setInfo x.info a).1 }) r
    | none => rebalanceAll L s r

def entries (l : List Svc) : List Entry := l.map fun v => (v.name, v.jt)

/-- l.167-182: `if !amILeader continue; names := GetAll(); total := len(names)+1; SetInfo(1,total);
    Rebalance(index+2,total)` per name.  Ghost: the round was COMPLETE when the instance holds the lease
    and every rpc went over a working connection. -/
def mon (s : State) (i : Id) : State :=
  let x := s.insts i
  if !x.alive || !x.amLeader then s
  else
    let r := sdRound (entries x.services)
    let s1 := s.upd i fun x => { x with info := (setInfo x.info r.1).1 }
    let s2 := rebalanceAll i s1 r.2
    { s2 with fresh := decide (s.holder = some (i, x.jt)) && x.services.all fun v => !v.conn.broken }

inductive Action
  | start (i : Id) (jt : Int)
  | kill (i : Id)
  | cut (a b : Id)
  | block (a b : Id)
  | unblock (a b : Id)
  | acquire (i : Id)
  | lead (i : Id)
  | observe (i : Id)
  | lose (i : Id) (release : Bool)
  | hb (i : Id)
  | hbFollow (i : Id)
  | hbPing (i : Id)
  | hbRemove (i : Id)
  | mon (i : Id)
deriving Repr

def step (s : State) : Action → State
  | .start i jt => start s i jt
  | .kill i => kill s i
  | .cut a b => cut s a b
  | .block a b => block s a b
  | .unblock a b => unblock s a b
  | .acquire i => acquire s i
  | .lead i => lead s i
  | .observe i => observe s i
  | .lose i r => lose s i r
  | .hb i => hb s i
  | .hbFollow i => if (s.insts i).alive then hbFollow s i else s
  | .hbPing i => if (s.insts i).alive then hbPing s i else s
  | .hbRemove i => if (s.insts i).alive then hbRemove s i else s
  | .mon i => mon s i

def run (s : State) : List Action → State
  | [] => s
  | a :: r => run (step s a) r

/-- the LTS of the code BEFORE commit 39ec43d: the same, with the old follower part of the heartbeat body -/
def stepOld (s : State) : Action → State
  | .hb i => hbOld s i
  | .hbFollow i => if (s.insts i).alive then hbFollowOld s i else s
  | a => step s a

def runOld (s : State) : List Action → State
  | [] => s
  | a :: r => runOld (stepOld s a) r

/-- `n` instance slots, nothing started, no lease record -/
def init (n : Nat) : State := { n := n }

def liveIds (s : State) : List Id := (List.range s.n).filter fun i => (s.insts i).alive

/-! ### quiescence (decidable form for the driver; `Props/C10Ha` proves it equivalent to the `Prop`) -/

/-- one leader `L` alive holding the lease; every live instance has observed `L`; every live follower is
    registered at `L` (under its current join time) with a working connection; `L` ran a complete monitor
    round since the last change -/
def quiescentB (s : State) (L : Id) : Bool :=
  let xl := s.insts L
  decide (L < s.n) && xl.alive && xl.amLeader && decide (s.holder = some (L, xl.jt)) && s.fresh &&
  (liveIds s).all fun i =>
    decide ((s.insts i).reported = s.holder) &&
    (i == L || xl.services.any fun v => v.name == i && decide (v.jt = (s.insts i).jt) && !v.conn.broken)

end GoDcp.HaMembership
