/-
M4 pure core: `helpers.ChunkSlice` (helpers/utils.go) and the member → vBucket
range computation of `vBucketDiscovery.Get` (stream/vbucket_discovery.go).

Go (ints are machine `int`; all quantities here are ≤ 65536, no overflow):

  maxChunkSize  := ((len(slice) - 1) / chunks) + 1
  numFullChunks := chunks - (maxChunkSize*chunks - len(slice))
  startIndex := 0
  for i := 0; i < chunks; i++ {
      endIndex := startIndex + maxChunkSize
      if i >= numFullChunks { endIndex-- }
      result[i] = slice[startIndex:endIndex]
      startIndex = endIndex }

The slice is `[0, 1, …, N-1]`, so chunk `i` is the integer interval
`[start i, stop i)`.  Natural-number subtraction is used exactly where the Go
expression is non-negative for `1 ≤ T ≤ N` (proved in `Props/C09`).
-/
namespace GoDcp.Chunk

def maxChunk (N T : Nat) : Nat := (N - 1) / T + 1

def numFull (N T : Nat) : Nat := T - (maxChunk N T * T - N)

/-- size of chunk `i` (0-based), as the loop computes it -/
def size (N T i : Nat) : Nat :=
  if i ≥ numFull N T then maxChunk N T - 1 else maxChunk N T

/-- the loop: start index of chunk `i` -/
def start (N T : Nat) : Nat → Nat
  | 0 => 0
  | i + 1 => start N T i + size N T i

def stop (N T i : Nat) : Nat := start N T i + size N T i

/-- all chunks as (start, stop) pairs, in loop order -/
def bounds (N T : Nat) : List (Nat × Nat) :=
  (List.range T).map fun i => (start N T i, stop N T i)

/-- `vBucketDiscovery.Get`: member number `m` (1-based) owns chunk `m-1`;
    returns (first vbID, last vbID) -/
def memberRange (N T m : Nat) : Nat × Nat :=
  (start N T (m - 1), stop N T (m - 1) - 1)

end GoDcp.Chunk

namespace GoDcp.Chunk
/-! Executable (linear-time) versions used by the driver; proved equal to the
    loop-shaped definitions above in `Props/C09`. -/

def startFast (N T i : Nat) : Nat := i * (maxChunk N T - 1) + min i (numFull N T)

def boundsLoop (mc nf : Nat) : Nat → Nat → Nat → List (Nat × Nat)
  | 0, _, _ => []
  | fuel + 1, i, cur =>
    let e := cur + (if i ≥ nf then mc - 1 else mc)
    (cur, e) :: boundsLoop mc nf fuel (i + 1) e

def boundsFast (N T : Nat) : List (Nat × Nat) := boundsLoop (maxChunk N T) (numFull N T) T 0 0

def memberRangeFast (N T m : Nat) : Nat × Nat :=
  (startFast N T (m - 1), startFast N T m - 1)

end GoDcp.Chunk
