import GoDcp.Model.Basic
/-!
M3 — stream life cycle (`stream/stream.go`: `Open`, `Close`, `Rebalance`,
`rebalance`, `wait`, `listenEnd`, `reopenStream`; the stream-level part of
`dcp.close`), as a *timed, macro-step* transition system.

Granularity (see DESIGN.md §3.6, §7 C11–C13): one op is one step the L1
harness can schedule deterministically – a notification (one `Rebalance()`
call, optionally with further notifications landing while it is inside
`Close`), the passing of time (Go timers fire in deadline order), a stream
end, an event, a save, a shutdown. Inside one op the code's steps run in
program order; the `wait()` goroutine is assumed prompt (`WaitPrompt`: it
consumes its token and tests `balancing` before the op ends). Micro
interleavings below this granularity are NOT covered by the theorems about
this model (they are the F9b observations of DESIGN.md §6).

Time is a `Nat` clock in milliseconds. Go timer semantics: `AfterFunc`
creates a pending timer; `Stop` reports whether it was still pending;
`Reset` re-arms.
-/
namespace GoDcp.Life

inductive TimerKind | reb | Reb    -- callback `s.rebalance` | `s.Rebalance`
deriving DecidableEq, Repr, Inhabited

structure Timer where
  id : Nat
  deadline : Nat
  kind : TimerKind
  pending : Bool
deriving DecidableEq, Repr, Inhabited

inductive EndCause
  | transient      -- socket closed, backfill failed, state changed, too slow, disconnected
  | closed         -- ErrDCPStreamClosed
  | final          -- any other error
  | clean          -- err == nil
deriving DecidableEq, Repr, Inhabited

inductive Cb | BRS | ARS | BRE | ARE | BSS | ASS | BSP | ASP
deriving DecidableEq, Repr, Inhabited

inductive LObs
  | cb (c : Cb)
  | openreq (vb seq : Nat)
  | closereq (vb : Nat)
  | deliver (vb seq : Nat)
  | written (vb seq : Nat)
  | stop                              -- stopCh closed by the stream
  | failstop (why : String)
  | debounced                         -- notification absorbed by `Stop`/`Reset`
  | reassigned                        -- notification re-armed a `Rebalance` timer
  | queued                            -- notification blocked on `rebalanceLock`
  | skipped                           -- API path with the stream not open
  | status (isOpen : Bool) (active : Int) (rebalances : Nat) (stopped : Bool) (lo hi : Nat)
deriving DecidableEq, Repr, Inhabited

structure LSt where
  -- configuration
  delay : Nat := 200
  dynamic : Bool := false          -- membership type `dynamic`: AfterFunc(0, rebalance)
  auto : Bool := false             -- checkpoint.type = auto (dcp.close saves first)
  -- environment
  now : Nat := 0
  memLo : Nat := 0                 -- vBucket range the discovery currently derives
  memHi : Nat := 0
  store : AMap Nat := []           -- durable checkpoint seq per vBucket
  -- the stream object
  everOpened : Bool := false
  isOpen : Bool := false
  lo : Nat := 0                    -- vbIDRange
  hi : Nat := 0
  pos : AMap Nat := []             -- offsets (seq only)
  dirty : List Nat := []
  anyDirty : Bool := false
  obsNil : Bool := true            -- `s.observers == nil`
  closedObs : Bool := true         -- observers of the last session are closed
  balancing : Bool := false
  lockHeld : Bool := false
  queuedCalls : Nat := 0           -- `Rebalance()` calls blocked in `rebalanceLock.Lock()`
  timers : List Timer := []
  timerPtr : Option Nat := none    -- `s.rebalanceTimer`
  nextTimer : Nat := 0
  active : Int := 0
  closeWithCancel : Bool := false
  finishedWithClose : Bool := false
  finishedWithEnd : Bool := false
  stopClosed : Bool := false
  rebalances : Nat := 0
  endedVbs : List Nat := []        -- vBuckets whose stream has finally ended in this session (the server has no stream for them any more)
  nextSeq : AMap Nat := []         -- server side: next seqno per vBucket
  dead : Bool := false             -- a fail-stop happened (process gone)
deriving Repr, Inhabited

inductive LOp
  | member (lo hi : Nat)
  | setStore (vb seq : Nat)
  | open
  | notify
  | notifyApi
  | notifyDuringClose (k : Nat)
  | tick (d : Nat)
  | endEv (vb : Nat) (c : EndCause)
  | ev (vb : Nat)
  | save
  | shutdown (cancel : Bool)
  | query
deriving Repr, Inhabited

def vbs (lo hi : Nat) : List Nat := (List.range (hi + 1 - lo)).map (· + lo)

def inRange (s : LSt) (vb : Nat) : Bool := s.lo ≤ vb && vb ≤ s.hi

/-- `stream.Open` (with `checkpoint.Load` reduced to the stored seq) -/
def doOpen (s : LSt) : LSt × List LObs :=
  let vs := vbs s.memLo s.memHi
  let pos := vs.map fun vb => (vb, (s.store.get? vb).getD 0)
  ({ s with everOpened := true, isOpen := true, lo := s.memLo, hi := s.memHi, pos := pos, dirty := [], anyDirty := false,
            obsNil := false, closedObs := false, active := vs.length, finishedWithClose := false, finishedWithEnd := false,
            endedVbs := [],
            nextSeq := pos.map fun (vb, q) => (vb, q + 1) },
   [.cb .BSS] ++ pos.map (fun (vb, q) => .openreq vb q) ++ [.cb .ASS])

/-- the `wait()` goroutine after it received a token (prompt) -/
def waitFires (s : LSt) : LSt × List LObs :=
  if !s.balancing && !s.stopClosed then ({ s with stopClosed := true }, [.stop]) else (s, [])

/-- `stream.Close(cancel)`; `none` = nil dereference of `s.observers` (the stream is already closed) -/
def doClose (s : LSt) (cancel : Bool) : Option (LSt × List LObs) :=
  if s.obsNil then none else
  -- every `CloseStream` of a stream the server still has is answered by `End(ErrDCPStreamClosed)` → `listenEnd` →
  -- final branch; for a stream that already ended the server answers "no such stream" and sends no End
  let n : Int := (s.pos.filter fun (vb, _) => !s.endedVbs.contains vb).length
  let act := s.active - n
  let s1 := { s with closeWithCancel := cancel, closedObs := true, active := act }
  -- the last `listenEnd` produced the end-event token iff the count hit zero
  let (s2, o2) :=
    if act = 0 && !s1.finishedWithClose then
      let (w, o) := waitFires { s1 with finishedWithEnd := true }
      (w, o)
    else (s1, [])
  let s3 := { s2 with obsNil := true, pos := [], dirty := [], isOpen := false }
  -- `if !streamFinishedWithEndEventCh { finishStreamWithCloseCh <- }`: token consumed by `wait()`
  let (s4, o4) :=
    if !s3.finishedWithEnd then
      let (w, o) := waitFires { s3 with finishedWithClose := true }
      (w, o)
    else (s3, [])
  some (s4, [.cb .BSP] ++ s.pos.map (fun (vb, _) => .closereq vb) ++ o2 ++ [.cb .ASP] ++ o4)

def armTimer (s : LSt) (at_ : Nat) (kind : TimerKind) (d : Nat) : LSt :=
  { s with timers := s.timers ++ [⟨s.nextTimer, at_ + d, kind, true⟩], timerPtr := some s.nextTimer,
           nextTimer := s.nextTimer + 1 }

def findTimer (s : LSt) (id : Nat) : Option Timer := s.timers.find? (·.id = id)

def setTimer (s : LSt) (t : Timer) : LSt :=
  { s with timers := s.timers.map fun u => if u.id = t.id then t else u }

/-- the part of `Rebalance()` after `rebalanceLock.Lock()` succeeded, at time `at_` -/
def rebalanceLocked (s : LSt) (at_ : Nat) : LSt × List LObs :=
  let s0 := { s with lockHeld := true }
  let (s1, o1) :=
    if !s0.balancing then
      match doClose { s0 with balancing := true } false with
      | some r => r
      | none => ({ s0 with balancing := true, dead := true }, [.failstop "nil-observers"])
    else (s0, [])
  if s1.dead then (s1, [.cb .BRS] ++ o1) else
  (armTimer s1 at_ .reb (if s1.dynamic then 0 else s1.delay), [.cb .BRS] ++ o1 ++ [.cb .ARS])

/-- the debounce test at the head of `Rebalance()`; `none` = falls through to the lock -/
def debounce (s : LSt) (at_ : Nat) : Option (LSt × List LObs) :=
  if s.balancing then
    match s.timerPtr with
    | none => none
    | some id =>
      match findTimer s id with
      | none => none
      | some t =>
        if t.pending then some (setTimer s { t with deadline := at_ + s.delay }, [.debounced])
        else some (armTimer s at_ .Reb s.delay, [.reassigned])
  else none

/-- one `Rebalance()` call at time `at_` with nothing else running -/
def callRebalance (s : LSt) (at_ : Nat) : LSt × List LObs :=
  match debounce s at_ with
  | some r => r
  | none =>
    if s.lockHeld then ({ s with queuedCalls := s.queuedCalls + 1 }, [.queued])
    else rebalanceLocked s at_

/-- `k` notifications arriving while a `Rebalance()` is between `BeforeStreamStop` and `AfterStreamStop` -/
def duringClose (s : LSt) (at_ : Nat) : Nat → LSt × List LObs
  | 0 => (s, [])
  | k + 1 =>
    let (s1, o1) :=
      match debounce s at_ with
      | some r => r
      | none => ({ s with queuedCalls := s.queuedCalls + 1 }, [.queued])   -- lock is held by the closing call
    let (s2, o2) := duringClose s1 at_ k
    (s2, o1 ++ o2)

/-- `notify` whose `Close` is overlapped by `k` further notifications -/
def notifyOverlapped (s : LSt) (k : Nat) : LSt × List LObs :=
  match debounce s s.now with
  | some r => r
  | none =>
    if s.lockHeld then ({ s with queuedCalls := s.queuedCalls + 1 }, [.queued]) else
    if s.balancing then rebalanceLocked s s.now else
    -- lock; BRS; balancing := true; Close … (k notifications) … ; ARS; arm
    let s0 := { s with lockHeld := true, balancing := true }
    match doClose s0 false with
    | none => ({ s0 with dead := true }, [.cb .BRS, .failstop "nil-observers"])
    | some (s1, oc) =>
      let (s2, ok) := duringClose s1 s.now k
      (armTimer s2 s.now .reb (if s2.dynamic then 0 else s2.delay), [.cb .BRS] ++ oc ++ ok ++ [.cb .ARS])

/-- `rebalance()` (timer callback) at time `at_`, then one queued `Rebalance()` call gets the lock -/
def rebalanceFires (s : LSt) (at_ : Nat) : LSt × List LObs :=
  let (s1, o1) := doOpen s
  let s2 := { s1 with rebalances := s1.rebalances + 1, balancing := false, lockHeld := false }
  let out := [.cb .BRE] ++ o1 ++ [.cb .ARE]
  if s2.queuedCalls > 0 then
    let (s3, o3) := rebalanceLocked { s2 with queuedCalls := s2.queuedCalls - 1 } at_
    (s3, out ++ o3)
  else (s2, out)

def dueTimer (s : LSt) (upto : Nat) : Option Timer :=
  (s.timers.filter fun t => t.pending && t.deadline ≤ upto).foldl
    (fun best t => match best with
      | none => some t
      | some b => if t.deadline < b.deadline || (t.deadline = b.deadline && t.id < b.id) then some t else some b) none

/-- fire all timers due up to `upto`, in deadline order -/
def fireDue (upto : Nat) : Nat → LSt → LSt × List LObs
  | 0, s => (s, [])
  | fuel + 1, s =>
    if s.dead then (s, []) else
    match dueTimer s upto with
    | none => (s, [])
    | some t =>
      let s1 := setTimer s { t with pending := false }
      let (s2, o2) := match t.kind with
        | .reb => rebalanceFires s1 t.deadline
        | .Reb =>
          -- nobody observes the return of a timer-driven `Rebalance()`: its debounce outcomes are silent
          let (s', o') := callRebalance s1 t.deadline
          (s', o'.filter fun x => x != .debounced && x != .reassigned)
      let (s3, o3) := fireDue upto fuel s2
      (s3, o2 ++ o3)

/-- `listenEnd` for a stream end that reaches the end listener -/
def listenEnd (s : LSt) (vb : Nat) (c : EndCause) : LSt × List LObs :=
  if s.closedObs then (s, []) else        -- `endClosed`
  match c with
  | .transient =>
    if !s.closeWithCancel then
      -- `go reopenStream(vb)`: from the current position; a missing offset makes every retry fail
      match s.pos.get? vb with
      | some q => (s, [.openreq vb q])
      | none => ({ s with dead := true }, [.failstop "reopen-gave-up"])
    else
      let act := s.active - 1
      let s1 := { s with active := act, endedVbs := if s.endedVbs.contains vb then s.endedVbs else s.endedVbs ++ [vb] }
      if act = 0 && !s1.finishedWithClose then waitFires { s1 with finishedWithEnd := true } else (s1, [])
  | _ =>
    let act := s.active - 1
    let s1 := { s with active := act, endedVbs := if s.endedVbs.contains vb then s.endedVbs else s.endedVbs ++ [vb] }
    if act = 0 && !s1.finishedWithClose then waitFires { s1 with finishedWithEnd := true } else (s1, [])

/-- one marker + one user mutation pushed on `vb`, acknowledged at once by the consumer -/
def evStep (s : LSt) (vb : Nat) : LSt × List LObs :=
  if s.closedObs then (s, []) else
  match s.nextSeq.get? vb with
  | none => (s, [])
  | some q =>
    let s1 := { s with nextSeq := s.nextSeq.set vb (q + 1) }
    if inRange s1 vb then
      ({ s1 with pos := s1.pos.set vb q, dirty := if s1.dirty.contains vb then s1.dirty else s1.dirty ++ [vb], anyDirty := true },
       [.deliver vb q])
    else (s1, [.deliver vb q])

/-- a quiescent `checkpoint.Save` -/
def saveStep (s : LSt) : LSt × List LObs :=
  if !s.anyDirty then (s, []) else
  let w := s.pos.filter fun (vb, _) => s.dirty.contains vb
  ({ s with store := w.foldl (fun m (vb, q) => m.set vb q) s.store, dirty := [], anyDirty := false },
   w.map fun (vb, q) => .written vb q)

def stepCore (s : LSt) (op : LOp) : LSt × List LObs :=
  match op with
  | .member lo hi => ({ s with memLo := lo, memHi := hi }, [])
  | .setStore vb q => ({ s with store := s.store.set vb q }, [])
  | .open => doOpen s
  | .notify => callRebalance s s.now
  | .notifyApi => if s.isOpen then callRebalance s s.now else (s, [.skipped])
  | .notifyDuringClose k => notifyOverlapped s k
  | .tick d =>
    let (s1, o) := fireDue (s.now + d) 64 s
    ({ s1 with now := s.now + d }, o)
  | .endEv vb c => listenEnd s vb c
  | .ev vb => evStep s vb
  | .save => saveStep s
  | .shutdown cancel =>
    let (s1, o1) := if s.auto then saveStep s else (s, [])
    match doClose s1 cancel with
    | some (s2, o2) => (s2, o1 ++ o2)
    | none => ({ s1 with dead := true }, o1 ++ [.cb .BSP, .failstop "nil-observers"])
  | .query => (s, [.status s.isOpen s.active s.rebalances s.stopClosed s.lo s.hi])

/-- one op, then every timer that is already due fires (`AfterFunc(0, …)` of dynamic membership) -/
def step (s : LSt) (op : LOp) : LSt × List LObs :=
  if s.dead then (s, []) else
  -- once stopCh is closed `dcp.Start` only runs `close()`: nothing else is scheduled any more
  if s.stopClosed && !(match op with | .shutdown _ => true | .query => true | _ => false) then (s, []) else
  let (s1, o1) := stepCore s op
  let (s2, o2) := fireDue s1.now 64 s1
  (s2, o1 ++ o2)

def run (s : LSt) (ops : List LOp) : LSt := ops.foldl (fun s op => (step s op).1) s

def runTrace (s : LSt) : List LOp → List (List LObs)
  | [] => []
  | op :: r => let (s1, o) := step s op; o :: runTrace s1 r

end GoDcp.Life
