import GoDcp.Model.Chunk
/-!
The group-level gauges of `metric/collector.go` (member number, group size, vBucket range, vBucket count,
active streams, rebalance count) over the REAL `stream/vbucket_discovery.go` with the dynamic membership
(`membership/dynamic_membership.go`):

* a `MembershipChanged` bus event only replaces `dynamicMembership.info` (`membershipChangedListener`);
* `vBucketDiscovery.Get()` (called by `stream.Open`, l.228) reads that info, takes chunk `member-1` of
  `ChunkSlice([0..nvb), total)` and RECORDS member, total, range start and end in the discovery metric;
* `GetMetric()` returns the recorded values: the collector shows what the last `Open` captured, not the
  membership's newest info;
* `Open` sets the active-stream count to the number of assigned vBuckets (`activeStreams.Swap`), the
  delayed `rebalance()` counts one completed rebalance per stream object (`s.metric.Rebalance++`).

In the L1 session harness no stream ever ends for good while the session is open, so the active count
of an open session stays the size of its range.
-/
namespace GoDcp.ApiGroup

/-- the discovery metric as `Get()` records it (Go zero values before the first `Get`) -/
structure Eff where
  member : Nat := 0
  total : Nat := 0
  lo : Nat := 0
  hi : Nat := 0
deriving DecidableEq, Repr, Inhabited

structure GSt where
  /-- `vBucketNumber` -/
  nvb : Nat := 0
  /-- `dynamicMembership.info`: (member number, group size) of the newest event -/
  memInfo : Nat × Nat := (1, 1)
  eff : Eff := {}
  active : Nat := 0
  reb : Nat := 0
deriving DecidableEq, Repr, Inhabited

inductive GOp
  | info (m t : Nat)      -- a `MembershipChanged` event reaches the membership
  | openNew               -- a new stream object is opened (`NewStream` + `Open`)
  | rebalance             -- a completed rebalance of the stream object: `Close(false)`, `Open`, counter + 1
  | close
  | crash
deriving DecidableEq, Repr, Inhabited

/-- what `Get()` records for (member, total) -/
def effOf (nvb m t : Nat) : Eff :=
  let r := Chunk.memberRange nvb t m
  { member := m, total := t, lo := r.1, hi := r.2 }

/-- `Get()` inside `Open`, and the active-stream count `Open` installs -/
def get (g : GSt) : GSt :=
  let e := effOf g.nvb g.memInfo.1 g.memInfo.2
  { g with eff := e, active := e.hi + 1 - e.lo }

def isGet : GOp → Bool
  | .openNew | .rebalance => true
  | _ => false

def step (g : GSt) : GOp → GSt
  | .info m t => { g with memInfo := (m, t) }
  | .openNew => { get g with reb := 0 }
  | .rebalance => { get g with reb := g.reb + 1 }
  | .close => { g with active := 0 }
  | .crash => { g with active := 0 }

def run (g : GSt) (ops : List GOp) : GSt := ops.foldl step g

/-- the membership info read by the last `Get()` of a history (`last` = the one before the history) -/
def lastGet : GSt → Option (Nat × Nat) → List GOp → Option (Nat × Nat)
  | _, last, [] => last
  | g, last, op :: r => lastGet (step g op) (if isGet op then some g.memInfo else last) r

/-- the group part of a scrape of an open session -/
structure GScrape where
  member : Nat
  total : Nat
  lo : Nat
  hi : Nat
  vbcount : Nat
  active : Nat
  reb : Nat
deriving DecidableEq, Repr, Inhabited

def scrapeGrp (g : GSt) : GScrape :=
  { member := g.eff.member, total := g.eff.total, lo := g.eff.lo, hi := g.eff.hi,
    vbcount := g.nvb, active := g.active, reb := g.reb }

end GoDcp.ApiGroup
