import GoDcp.Model.Session
/-!
C02, serialisation half: how a checkpoint document travels through the two
metadata back ends of go-dcp, as the code is.

models/type.go

    type CheckpointDocumentSnapshot   struct { StartSeqNo uint64 `json:"startSeqno"`; EndSeqNo uint64 `json:"endSeqno"` }
    type CheckpointDocumentCheckpoint struct { Snapshot *…Snapshot `json:"snapshot"`; VbUUID uint64 `json:"vbuuid"`; SeqNo uint64 `json:"seqno"` }
    type CheckpointDocument           struct { Checkpoint *…Checkpoint `json:"checkpoint"`; BucketUUID string `json:"bucketUuid"` }

couchbase/metadata.go  (one document per vBucket, body `{}`, the checkpoint in xattr "cbgo")

    saveVBucketCheckpoint l.47-63:  payload := sonic.Marshal(doc)
        err := UpsertXattrs(id, "cbgo", payload)                       -- MUTATEIN  (xattr path cbgo)
        if err is KEY_ENOENT { err = CreateDocument(id, []byte{}, JSONFlags)   -- SET
                               if err == nil { err = UpsertXattrs(id, "cbgo", payload) } }   -- MUTATEIN
    Save l.34-45: only vBuckets with `dirtyOffsets[vbID]` are written
    Load l.66-121, per vBucket: GetXattrs; err == nil → sonic.Unmarshal(data, &doc):
        unmarshal error → NewEmptyCheckpointDocument, `exist` untouched ("corrupted checkpoint")
        else            → exist = true              (also when doc is nil or doc.Checkpoint is nil!)
        KEY_ENOENT      → NewEmptyCheckpointDocument; any other error → panic(err)

metadata/file_metadata.go  (ONE file with the whole map)

    Save l.23-27: file := sonic.MarshalIndent(state); _ = os.WriteFile(fileName, file, 0o644); return nil   -- error dropped: F12
    Load l.29-51: ReadFile; ErrNotExist → exist=false, empty document for every requested vBucket;
                  other read error → returned; else `_ = state.UnmarshalJSON(file)`, exist = true
                  (whatever vBuckets the file holds – NOT the requested ones; unmarshal error ignored)

metadata/read_metadata.go: Save and Clear return nil without touching the inner back end; Load delegates.

The JSON library (sonic) is trusted and differentially tested on every run; what is
modelled of it is (a) the exact text `sonic.Marshal` produces for a checkpoint document
(`encodeDoc`, compared byte for byte with the xattr stored in the simulated node) and
(b) the decimal path of the four uint64 fields (`showNat` / `parseNat` / `parseU64`).
Core Lean only.
-/
namespace GoDcp.Codec
open GoDcp

/-! ## decimal codec of a JSON number holding a uint64 -/

def u64Max : Nat := 18446744073709551615

/-- `strconv.AppendUint(…, 10)` as used by the encoder -/
def showNat (n : Nat) : List Char := Nat.toDigits 10 n

/-- a JSON integer literal without sign, fraction or exponent: one or more digits,
    no leading zero unless the literal is `0` itself; value by Horner's rule -/
def parseNat (s : List Char) : Option Nat :=
  if s = ['0'] then some 0
  else match s with
    | [] => none
    | c :: rest =>
      if c = '0' then none
      else if (c :: rest).all Char.isDigit then some (Nat.ofDigitChars 10 (c :: rest) 0)
      else none

/-- the decoder's range check for a `uint64` field -/
def parseU64 (s : List Char) : Option Nat :=
  match parseNat s with
  | some n => if n ≤ u64Max then some n else none
  | none => none

/-- the four numeric fields as the decimal texts that go into the JSON document -/
def encodeFields (d : Doc) : List (List Char) := [showNat d.uuid, showNat d.seq, showNat d.ss, showNat d.se]

def decodeFields : List (List Char) → Option Doc
  | [u, s, ss, se] => do some ⟨← parseU64 u, ← parseU64 s, ← parseU64 ss, ← parseU64 se⟩
  | _ => none

/-- the text `sonic.Marshal(&CheckpointDocument{…})` produces (struct field order, no spaces);
    the bucket uuid contains no character that JSON escapes -/
def encodeDoc (d : Doc) (bucketUuid : String) : String :=
  "{\"checkpoint\":{\"snapshot\":{\"startSeqno\":" ++ String.ofList (showNat d.ss) ++
  ",\"endSeqno\":" ++ String.ofList (showNat d.se) ++
  "},\"vbuuid\":" ++ String.ofList (showNat d.uuid) ++
  ",\"seqno\":" ++ String.ofList (showNat d.seq) ++
  "},\"bucketUuid\":\"" ++ bucketUuid ++ "\"}"

/-! ## what is found under a checkpoint key, and what `Load` makes of it -/

/-- content of xattr "cbgo" (or of one map entry of the metadata file) -/
inductive Stored
  | doc (d : Doc)      -- a complete checkpoint document
  | invalid            -- not JSON / wrong shape / number outside uint64: `sonic.Unmarshal` fails
  | null               -- JSON `null`: unmarshals to a nil `*CheckpointDocument`
  | noCheckpoint       -- `{}` or `"checkpoint":null`: `doc.Checkpoint == nil`
  | noSnapshot         -- `"checkpoint":{…}` without `"snapshot"`: `doc.Checkpoint.Snapshot == nil`
  deriving DecidableEq, Repr

/-- what ends up in the loaded state for one vBucket -/
inductive Loaded
  | doc (d : Doc)
  | nilDoc | noCheckpoint | noSnapshot
  | absent             -- no entry for the vBucket at all (file back end)
  deriving DecidableEq, Repr

/-- cbMetadata.Load for one vBucket: (state entry, does it raise `exist`) -/
def cbLoad1 : Option Stored → Loaded × Bool
  | none => (.doc Doc.zero, false)              -- KEY_ENOENT
  | some (.doc d) => (.doc d, true)
  | some .invalid => (.doc Doc.zero, false)     -- "corrupted checkpoint": treated as empty
  | some .null => (.nilDoc, true)
  | some .noCheckpoint => (.noCheckpoint, true)
  | some .noSnapshot => (.noSnapshot, true)

/-- one map entry of the metadata file after `state.UnmarshalJSON(file)` -/
def fileEntry : Stored → Loaded
  | .doc d => .doc d
  | .invalid => .absent       -- the whole unmarshal fails, error ignored: the state stays empty
  | .null => .nilDoc
  | .noCheckpoint => .noCheckpoint
  | .noSnapshot => .noSnapshot

/-- one KV write request as the node logs it: (opcode, xattr path, status) -/
inductive WriteOp
  | mutateIn (status : Nat)    -- SUBDOC_MULTI_MUTATION, single spec DICT_UPSERT on xattr path "cbgo"
  | set (status : Nat)         -- SET, empty value
  deriving DecidableEq, Repr

def statusOk : Nat := 0
def statusKeyNotFound : Nat := 1

/-- `saveVBucketCheckpoint` against a healthy node: requests issued for one vBucket -/
def cbWriteOps (docExists : Bool) : List WriteOp :=
  if docExists then [.mutateIn statusOk]
  else [.mutateIn statusKeyNotFound, .set statusOk, .mutateIn statusOk]

/-- the xattr path and sub-document spec the writes use (`helpers.Name`) -/
def xattrPath : String := "x:cbgo"

/-! ## the file back end: the whole state in one place -/

/-- `none` = the file does not exist -/
abbrev FileStore := Option (List (Vb × Doc))

/-- `fileMetadata.Save` when the write goes through: the file IS the state passed in
    (the dirty set is ignored, earlier content is replaced) -/
def fileSave (_old : FileStore) (state : List (Vb × Doc)) : FileStore := some state

/-- `fileMetadata.Save` when `os.WriteFile` fails: nothing changes – and the error is dropped (F12) -/
def fileSaveFailed (old : FileStore) : FileStore := old

/-- return value of `fileMetadata.Save` when the write failed: `swallows = true` is the code as
    it is (`_ = os.WriteFile(...)`; `return nil`), `false` the repaired code -/
def fileSaveResult (writeFailed swallows : Bool) : Bool := !writeFailed || swallows

/-- `fileMetadata.Load vbIds`: per requested vBucket what `state.Load(vb)` gives, and `exist` -/
def fileLoad (f : FileStore) (vbs : List Vb) : List (Vb × Loaded) × Bool :=
  match f with
  | none => (vbs.map fun vb => (vb, Loaded.doc Doc.zero), false)
  | some st => (vbs.map fun vb => (vb, match AMap.get? st vb with
                                        | some d => Loaded.doc d
                                        | none => Loaded.absent), true)

/-! ## the per-vBucket-document back end in terms of Model/Session -/

/-- a session state that holds nothing but a store and the assigned range `[0, n)` -/
def storeState (n : Nat) (store : AMap Doc) (readOnly : Bool := false) : St :=
  { cfg := { lo := 0, hi := n - 1, readOnly := readOnly }, store := store }

/-- `Metadata.Save state dirty` answered `ok`, then `Metadata.Load [0..n)`:
    (documents written, loaded documents, exist) -/
def saveThenLoad (n : Nat) (pre : AMap Doc) (state : List (Vb × Doc)) (dirty : List Vb) (readOnly : Bool := false) :
    List (Vb × Doc) × List (Vb × Doc) × Bool :=
  let s := storeState n pre readOnly
  let (store', w) := mdWrite s state dirty .ok
  let (docs, exist) := mdLoad { s with store := store' }
  (w, docs, exist)

end GoDcp.Codec
