/-
M4 pure core: `helpers.ResolveUnionIntOrStringValue` / `convertSizeUnitToByte`
(helpers/data_units.go) and the standard-library scalar parsers that the
configuration code feeds override-map strings through (`strconv.Atoi`,
`strconv.ParseInt(·,10,64)`, `strconv.ParseUint(·,10,32)`, `strconv.ParseBool`,
`time.ParseDuration`, and the decimal fragment of `strconv.ParseFloat`).

Strings are `List Char`.  Go slices strings by BYTE (`str[:len(str)-2]`); for a
valid UTF-8 string whose last two characters are ASCII this is the same as
dropping the last two characters, and if one of the last two characters is not
ASCII both the code (garbage unit) and the model (non-ASCII unit) fail the unit
switch.  All arithmetic is exact (`Nat`/`Int`); the code goes through
`float64` – see the float caveat at `convertSize`.
-/
namespace GoDcp.Units

/-! ## digits -/

def isDigit (c : Char) : Bool := c.isDigit

def digitVal (c : Char) : Nat := c.toNat - 48

/-- value of a decimal digit string, left to right (`x = x*10 + d`) -/
def digitsVal (ds : List Char) : Nat := ds.foldl (fun a c => a * 10 + digitVal c) 0

/-- optional leading sign: `(negative?, rest)` -/
def splitSign : List Char → Bool × List Char
  | '+' :: r => (false, r)
  | '-' :: r => (true, r)
  | s => (false, s)

/-! ## strconv.ParseInt(s, 10, 64)  (= strconv.Atoi on a 64-bit platform)

`[+-]?[0-9]+`, no underscores (base is 10, not 0), value in
`[-2^63, 2^63-1]`; anything else is an error (`none`). -/
def parseInt64 (s : List Char) : Option Int :=
  let (neg, body) := splitSign s
  if body.isEmpty || !body.all isDigit then none
  else
    let n := digitsVal body
    if neg then (if n ≤ 2 ^ 63 then some (-(n : Int)) else none)
    else (if n < 2 ^ 63 then some (n : Int) else none)

/-- strconv.ParseUint(s, 10, 32): `[0-9]+` (no sign), value `< 2^32` -/
def parseUint32 (s : List Char) : Option Nat :=
  if s.isEmpty || !s.all isDigit then none
  else
    let n := digitsVal s
    if n < 2 ^ 32 then some n else none

/-- strconv.ParseBool -/
def parseBool (s : List Char) : Option Bool :=
  if s = ['1'] || s = ['t'] || s = ['T'] || s = "TRUE".toList || s = "true".toList || s = "True".toList
  then some true
  else if s = ['0'] || s = ['f'] || s = ['F'] || s = "FALSE".toList || s = "false".toList || s = "False".toList
  then some false
  else none

/-! ## the decimal fragment of strconv.ParseFloat

`readFloat` (strconv/atof.go) for base 10: optional sign, digits with at most
one `.`, at least one digit overall; optional exponent `[eE][+-]?[0-9]+`; the
whole string must be consumed.  NOT modelled (callers test `special` first):
`inf`/`infinity`/`nan`, hexadecimal floats (`0x…p…`), digit-separating
underscores – every such input contains one of `_ x X i I n N`. -/

/-- a decimal: value = ± mant · 10^exp / 10^frac -/
structure Dec where
  neg : Bool
  mant : Nat
  frac : Nat
  exp : Int
  deriving DecidableEq, Repr

def parseExp (r : List Char) : Option Int :=
  let (eneg, ds) := splitSign r
  if ds.isEmpty || !ds.all isDigit then none
  else some (if eneg then -(digitsVal ds : Int) else (digitsVal ds : Int))

/-- the part after the optional sign -/
def parseUnsigned (neg : Bool) (s1 : List Char) : Option Dec :=
  let ip := s1.takeWhile isDigit
  let s2 := s1.dropWhile isDigit
  let (fp, s3) := match s2 with
    | '.' :: r => (r.takeWhile isDigit, r.dropWhile isDigit)
    | _ => ([], s2)
  if ip.isEmpty && fp.isEmpty then none
  else
    match s3 with
    | [] => some { neg, mant := digitsVal (ip ++ fp), frac := fp.length, exp := 0 }
    | e :: r =>
      if e = 'e' || e = 'E' then
        match parseExp r with
        | some x => some { neg, mant := digitsVal (ip ++ fp), frac := fp.length, exp := x }
        | none => none
      else none

def parseDec (s : List Char) : Option Dec :=
  parseUnsigned (splitSign s).1 (splitSign s).2

/-- characters that can switch `ParseFloat` into a mode the model does not cover -/
def special (c : Char) : Bool :=
  c = '_' || c = 'x' || c = 'X' || c = 'i' || c = 'I' || c = 'n' || c = 'N'

/-! ## strings.TrimSpace -/

/-- unicode.IsSpace, by code point: U+0020, U+0009..U+000D (\t \n \v \f \r), U+0085, U+00A0,
    U+1680, U+2000..U+200A, U+2028, U+2029, U+202F, U+205F, U+3000 -/
def isSpace (c : Char) : Bool :=
  c.toNat == 0x20 || (0x09 ≤ c.toNat && c.toNat ≤ 0x0d) || c.toNat == 0x85 || c.toNat == 0xA0 ||
  c.toNat == 0x1680 || (0x2000 ≤ c.toNat && c.toNat ≤ 0x200a) || c.toNat == 0x2028 ||
  c.toNat == 0x2029 || c.toNat == 0x202f || c.toNat == 0x205f || c.toNat == 0x3000

def trimSpace (s : List Char) : List Char :=
  ((s.dropWhile isSpace).reverse.dropWhile isSpace).reverse

/-! ## convertSizeUnitToByte / ResolveUnionIntOrStringValue -/

/-- outcome of resolving a size string.
    `panic`     – the code panics (`convertSizeUnitToByte` returned an error);
    `uncovered` – outside the modelled input set: `ParseFloat` special forms,
                  or a product that does not fit `int64` (Go's float→int
                  conversion is then implementation-defined; amd64 yields −2^63),
                  or an exponent beyond ±400 (ParseFloat range error / underflow). -/
inductive Res
  | ok (n : Int)
  | panic
  | uncovered
  deriving DecidableEq, Repr

/-- the `switch strings.ToUpper(unit)`: exponent of 1024.  The case `"B"` is
    transcribed although `unit` always has two characters (see
    `Props/C17.unit_B_unreachable`). -/
def unitPow (u : List Char) : Option Nat :=
  if u = ['B'] then some 0
  else if u = ['K', 'B'] then some 1
  else if u = ['M', 'B'] then some 2
  else if u = ['G', 'B'] then some 3
  else none

/-- `unit := str[len(str)-2:]`, upper-cased -/
def unitOf (s : List Char) : List Char := (s.drop (s.length - 2)).map Char.toUpper

/-- `sizeStr`: `str[:len(str)-2]`, TrimSpace, ReplaceAll "," → "." -/
def sizeStr (s : List Char) : List Char :=
  (trimSpace (s.take (s.length - 2))).map fun c => if c = ',' then '.' else c

/-- `int(size * 1024^k)` computed exactly: truncation toward zero of
    `± mant · 10^exp · 1024^k / 10^frac`. -/
def scaled (d : Dec) (k : Nat) : Res :=
  if d.exp > 400 || d.exp < -400 then .uncovered
  else
    let num := d.mant * 1024 ^ k * 10 ^ d.exp.toNat
    let den := 10 ^ d.frac * 10 ^ (-d.exp).toNat
    let q := num / den
    if d.neg then (if q ≤ 2 ^ 63 then .ok (-(q : Int)) else .uncovered)
    else (if q < 2 ^ 63 then .ok (q : Int) else .uncovered)

/-- convertSizeUnitToByte (error ↦ `panic`, because the only caller panics).

    Float caveat (stated, not proved): the code computes
    `int(ParseFloat(sizeStr) * 2^(10k))`; the multiplication by a power of two is
    exact, so code and model can differ only if an integer lies between
    `q·2^(10k)` and `round64(q)·2^(10k)`.  A sufficient condition for agreement
    is `mant · 10^max(exp,0) · 1024^k < 2^53` (then either the product is an
    integer and `q` is representable, or its distance to the nearest integer,
    ≥ 10^-frac', exceeds the rounding error).  The harness generator stays inside. -/
def convertSize (s : List Char) : Res :=
  if s.length < 2 then .panic
  else
    let num := sizeStr s
    match unitPow (unitOf s) with
    | none =>
      -- either ParseFloat fails first or the unit switch falls to `default`: error both ways
      .panic
    | some k =>
      if num.any special then .uncovered
      else match parseDec num with
        | none => .panic
        | some d => scaled d k

/-- ResolveUnionIntOrStringValue on a `string` argument -/
def resolveString (s : List Char) : Res :=
  match parseInt64 s with
  | some n => .ok n
  | none => convertSize s

/-! ## time.ParseDuration  (time/format.go)

`[-+]?([0-9]*(\.[0-9]*)?[a-z]+)+`; result in nanoseconds; `none` = error.
The fraction is added as `uint64(float64(f) * (float64(unit)/scale))` in the
code; the model uses `f·unit / scale` exactly (agreement whenever `unit/scale`
is an integer and `f·unit/scale < 2^53`; generators keep ≤ 3 fractional digits
on units ≥ µs). -/

def unitNs (u : List Char) : Option Nat :=
  if u = "ns".toList then some 1
  else if u = "us".toList then some 1000
  else if u = [Char.ofNat 0xB5, 's'] then some 1000      -- µs U+00B5
  else if u = [Char.ofNat 0x3BC, 's'] then some 1000     -- μs U+03BC
  else if u = "ms".toList then some 1000000
  else if u = "s".toList then some 1000000000
  else if u = "m".toList then some 60000000000
  else if u = "h".toList then some 3600000000000
  else none

/-- leadingInt: `none` on overflow (`x > 2^63/10` before a digit, or `x > 2^63` after) -/
def leadingInt (ds : List Char) : Option Nat :=
  ds.foldl (fun acc c => match acc with
    | none => none
    | some x => if x > 2 ^ 63 / 10 then none
                else let y := x * 10 + digitVal c
                     if y > 2 ^ 63 then none else some y) (some 0)

/-- leadingFraction: `(f, scale)`; digits after an overflow are consumed and ignored -/
def leadingFraction (ds : List Char) : Nat × Nat :=
  let r := ds.foldl (fun (acc : Nat × Nat × Bool) c =>
    let (x, scale, ovf) := acc
    if ovf then acc
    else if x > (2 ^ 63 - 1) / 10 then (x, scale, true)
    else let y := x * 10 + digitVal c
         if y > 2 ^ 63 then (x, scale, true) else (y, scale * 10, false)) (0, 1, false)
  (r.1, r.2.1)

def isUnitChar (c : Char) : Bool := !(c = '.' || isDigit c)

/-- the `for s != ""` loop; `fuel` bounds the number of components (each consumes ≥ 1 char) -/
def durLoop : Nat → List Char → Nat → Option Nat
  | 0, _, _ => none
  | fuel + 1, s, d =>
    match s with
    | [] => some d
    | c :: _ =>
      if !(c = '.' || isDigit c) then none
      else
        let ip := s.takeWhile isDigit
        let s1 := s.dropWhile isDigit
        match leadingInt ip with
        | none => none
        | some v =>
          let (post, f, scale, s2) := match s1 with
            | '.' :: r =>
              let fp := r.takeWhile isDigit
              let fs := leadingFraction fp
              (!fp.isEmpty, fs.1, fs.2, r.dropWhile isDigit)
            | _ => (false, 0, 1, s1)
          if ip.isEmpty && !post then none
          else
            let u := s2.takeWhile isUnitChar
            let s3 := s2.dropWhile isUnitChar
            if u.isEmpty then none
            else match unitNs u with
              | none => none
              | some unit =>
                if v > 2 ^ 63 / unit then none
                else
                  let v1 := v * unit
                  let v2 := if f > 0 then v1 + f * unit / scale else v1
                  if v2 > 2 ^ 63 then none
                  else
                    let d' := d + v2
                    if d' > 2 ^ 63 then none else durLoop fuel s3 d'

def parseDuration (s : List Char) : Option Int :=
  let (neg, s1) := splitSign s
  if s1 = ['0'] then some 0
  else if s1.isEmpty then none
  else match durLoop (s1.length + 1) s1 0 with
    | none => none
    | some d =>
      if neg then some (-(d : Int))
      else if d > 2 ^ 63 - 1 then none else some (d : Int)

end GoDcp.Units
