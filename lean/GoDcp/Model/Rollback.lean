/-
M4/M1 core for C08: the server-requested rollback path.

Go sources mirrored (the code *as it is*):

couchbase/client.go  `OpenStream`
    op, err := s.dcpAgent.OpenStream(vbID, 0x80, offset.VbUUID, SeqNo(offset.SeqNo),
        SeqNo(offset.LatestSeqNo), SeqNo(offset.StartSeqNo), SeqNo(offset.EndSeqNo), observer, opts,
        func(failOverLogs, err) { if err == nil { observer.SetVbUUID(failOverLogs[0].VbUUID) } … })
    …
    if rollbackErr, ok := err.(gocbcore.DCPRollbackError); ok {
        return s.openStreamWithRollback(vbID, SeqNo(offset.SeqNo), rollbackErr.SeqNo,
            SeqNo(offset.LatestSeqNo), observer, openStreamOptions) }
    return err

couchbase/client.go  `openStreamWithRollback(vbID, failedSeqNo, rollbackSeqNo, latestSeqNo, …)`
    failOverLogs, err := s.GetFailOverLogs(vbID);  if err != nil { return err }
    var targetUUID gocbcore.VbUUID = 0
    for i := len(failOverLogs) - 1; i >= 0; i-- {
        log := failOverLogs[i]
        if rollbackSeqNo >= log.SeqNo { targetUUID = log.VbUUID } }
    op, err := s.dcpAgent.OpenStream(vbID, 0, targetUUID, rollbackSeqNo, latestSeqNo,
        rollbackSeqNo, rollbackSeqNo, observer, opts,
        func(failOverLogs, err) { if err == nil {
            observer.SetVbUUID(failOverLogs[0].VbUUID); observer.SetCatchup(failedSeqNo) } … })
    (any error of the second request, a second ROLLBACK included, is returned)

couchbase/observer.go  `SetCatchup`, `needCatchup`, `canForward`, `SnapshotMarker`,
    `Mutation`/`Deletion`/`Expiration`/system events, `SeqNoAdvanced`, `IsInSnapshotMarker`.

All sequence numbers / uuids are `Nat` (Go: uint64; nothing here does arithmetic
on them, only comparisons, so no overflow question arises).
Configuration assumed by this model: rollback mitigation disabled and
`Dcp.Listener.SkipUntil == nil` (those gates belong to C07 / C03).
-/
namespace GoDcp.Rollback

/-- failover log as gocbcore hands it over: `(vbUUID, start seqNo)`, newest first -/
abbrev Log := List (Nat × Nat)

/-- body of the scan loop, fed with the entries in the order the loop visits
    them (index `len-1` down to `0`, i.e. oldest first); `t` is `targetUUID` -/
def branchLoop (R : Nat) : Log → Nat → Nat
  | [], t => t
  | (u, s) :: rest, t => branchLoop R rest (if R ≥ s then u else t)

/-- `targetUUID` after the loop of `openStreamWithRollback` (initial value 0) -/
def branchFor (log : Log) (R : Nat) : Nat := branchLoop R log.reverse 0

/-- the six wire arguments of a DCP_STREAM_REQ (48-byte extras) -/
structure StreamReq where
  flags : Nat
  uuid : Nat
  start : Nat
  stop : Nat
  snapStart : Nat
  snapEnd : Nat
  deriving DecidableEq, Repr

/-- `models.Offset` as passed to `OpenStream` -/
structure Offset where
  uuid : Nat
  seq : Nat
  snapStart : Nat
  snapEnd : Nat
  latest : Nat
  deriving DecidableEq, Repr

/-- first request of `OpenStream` (flags 0x80) -/
def firstReq (o : Offset) : StreamReq :=
  ⟨0x80, o.uuid, o.seq, o.latest, o.snapStart, o.snapEnd⟩

/-- second request, issued by `openStreamWithRollback` -/
def rollbackReq (log : Log) (R latest : Nat) : StreamReq :=
  ⟨0, branchFor log R, R, latest, R, R⟩

/-- what the server does with a stream request -/
inductive Answer
  | ok (log : Log)        -- success, value = failover log
  | rollback (r : Nat)    -- status ROLLBACK, value = seqno
  | err                   -- any other error status
  deriving DecidableEq, Repr

/-- one `OpenStream` call and the server's behaviour during it -/
structure Scenario where
  off : Offset
  a1 : Answer             -- answer to the first request
  q : Option Log          -- DCP_GET_FAILOVER_LOG: `none` = the query fails
  a2 : Answer             -- answer to the second request
  deriving Repr

/-- outcome of `OpenStream` as far as the observer and the wire are concerned -/
inductive OpenOut
  /-- `nil` returned; `uuid` = last `SetVbUUID`, `catchup` = argument of `SetCatchup` if called -/
  | opened (reqs : List StreamReq) (uuid : Nat) (catchup : Option Nat)
  /-- an error is returned; the observer was not touched -/
  | failed (reqs : List StreamReq)
  /-- `failOverLogs[0]` on an empty success value: index out of range inside gocbcore's
      callback goroutine (process dies).  Real servers never send an empty log. -/
  | failstop (reqs : List StreamReq)
  deriving DecidableEq, Repr

/-- `client.OpenStream` + `openStreamWithRollback` -/
def openStream (sc : Scenario) : OpenOut :=
  let r1 := firstReq sc.off
  match sc.a1 with
  | .err => .failed [r1]
  | .ok [] => .failstop [r1]
  | .ok ((u, _) :: _) => .opened [r1] u none
  | .rollback R =>
    match sc.q with
    | none => .failed [r1]
    | some log =>
      let r2 := rollbackReq log R sc.off.latest
      match sc.a2 with
      | .err => .failed [r1, r2]
      | .rollback _ => .failed [r1, r2]
      | .ok [] => .failstop [r1, r2]
      | .ok ((u, _) :: _) => .opened [r1, r2] u (some sc.off.seq)

/-! ## observer: catch-up filter -/

/-- kinds of events that pass through `needCatchup` (`canForward(seq, false)`):
    the three document events and the collection/scope system events -/
inductive Kind | mu | de | ex | sy
  deriving DecidableEq, Repr

/-- server events on an open stream -/
inductive Event
  | marker (s e : Nat)        -- SNAPSHOT_MARKER   (`canForward(start, true)`)
  | advance (q : Nat)         -- SEQNO_ADVANCED    (`canForward(seq, true)`)
  | gated (k : Kind) (q : Nat)
  deriving DecidableEq, Repr

/-- what the listener receives -/
inductive Delivered
  | marker (s e : Nat)
  | advance (q uuid : Nat)                 -- offset (uuid, q, [q,q])
  | gated (k : Kind) (q uuid s e : Nat)    -- offset (uuid, q, [s,e])
  deriving DecidableEq, Repr

/-- the observer fields this property is about -/
structure CatchState where
  need : Bool                  -- isCatchupNeed
  catchup : Nat                -- catchupSeqNo
  uuid : Nat                   -- vbUUID
  snap : Option (Nat × Nat)    -- currentSnapshot
  deriving DecidableEq, Repr

/-- `NewObserver` -/
def CatchState.init : CatchState := ⟨false, 0, 0, none⟩

/-- observer after a successful `OpenStream` -/
def CatchState.afterOpen (uuid : Nat) (catchup : Option Nat) : CatchState :=
  match catchup with
  | none => ⟨false, 0, uuid, none⟩
  | some f => ⟨true, f, uuid, none⟩

/-- `needCatchup(seqNo)` with its side effect:
      if !isCatchupNeed { return false }
      if seqNo >= catchupSeqNo { isCatchupNeed = false; return seqNo == catchupSeqNo }
      return true -/
def needCatchup (σ : CatchState) (q : Nat) : CatchState × Bool :=
  if !σ.need then (σ, false)
  else if q ≥ σ.catchup then ({ σ with need := false }, q == σ.catchup)
  else (σ, true)

inductive StepOut
  | drop
  | deliver (d : Delivered)
  | failstop            -- panic in `IsInSnapshotMarker`
  deriving DecidableEq, Repr

/-- one server event through the observer.  Control events bypass `needCatchup`
    altogether (`isControl || !needCatchup(seq)` short-circuits), so they never end
    a catch-up. -/
def catchStep (σ : CatchState) : Event → CatchState × StepOut
  | .marker s e => ({ σ with snap := some (s, e) }, .deliver (.marker s e))
  | .advance q => ({ σ with snap := some (q, q) }, .deliver (.advance q σ.uuid))
  | .gated k q =>
    let (σ', skip) := needCatchup σ q
    if skip then (σ', .drop)
    else match σ'.snap with
      | some (s, e) =>
        if s ≤ q ∧ q ≤ e then (σ', .deliver (.gated k q σ'.uuid s e)) else (σ', .failstop)
      | none => (σ', .failstop)

/-- a whole event sequence: (what the listener saw, did the process die) -/
def run (σ : CatchState) : List Event → List Delivered × Bool
  | [] => ([], false)
  | ev :: rest =>
    match catchStep σ ev with
    | (σ', .drop) => run σ' rest
    | (σ', .deliver d) => let r := run σ' rest; (d :: r.1, r.2)
    | (_, .failstop) => ([], true)

/-- gated events of a server sequence as (kind, seq) -/
def gatedOf : List Event → List (Kind × Nat)
  | [] => []
  | .gated k q :: r => (k, q) :: gatedOf r
  | _ :: r => gatedOf r

/-- gated events the listener saw as (kind, seq) -/
def deliveredGated : List Delivered → List (Kind × Nat)
  | [] => []
  | .gated k q _ _ _ :: r => (k, q) :: deliveredGated r
  | _ :: r => deliveredGated r

/-- vbUUIDs of all offsets handed to the listener -/
def deliveredUuids : List Delivered → List Nat
  | [] => []
  | .gated _ _ u _ _ :: r => u :: deliveredUuids r
  | .advance _ u :: r => u :: deliveredUuids r
  | _ :: r => deliveredUuids r

/-- syntactic safety of a server sequence (used by the harness generator and the
    driver): every gated event lies in the range announced by the latest marker /
    seqno-advanced before it.  Sufficient for "no failstop" whatever the catch-up
    state is (`Props/C08.run_safe`). -/
def wellSnapped : Option (Nat × Nat) → List Event → Bool
  | _, [] => true
  | _, .marker s e :: r => wellSnapped (some (s, e)) r
  | _, .advance q :: r => wellSnapped (some (q, q)) r
  | some (s, e), .gated _ q :: r => decide (s ≤ q ∧ q ≤ e) && wellSnapped (some (s, e)) r
  | none, .gated _ _ :: _ => false

/-- end to end: `OpenStream`, then the server sequence -/
def session (sc : Scenario) (evs : List Event) : OpenOut × List Delivered × Bool :=
  match openStream sc with
  | .opened reqs u c => (.opened reqs u c, run (CatchState.afterOpen u c) evs)
  | o => (o, [], false)

end GoDcp.Rollback
