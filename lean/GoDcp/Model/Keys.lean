/-
M4 pure core: the keys the library writes, and the filter that hides them.

Go strings / `[]byte` are modelled as `List Char`, ONE `Char` PER BYTE (the
driver maps byte `b` to `Char.ofNat b`); all constants are ASCII.  The theorems
in `Props/C14Keys` hold for all `List Char`, hence for all byte strings.

helpers/constants.go
    const Name = "cbgo"
    Prefix    = "_connector:" + Name + ":"
    TxnPrefix = "_txn:"

helpers/utils.go l.9-16
    func IsMetadata(data interface{}) bool {
        value := reflect.ValueOf(data).FieldByName("Key")
        if !value.IsValid() { return false }
        return bytes.HasPrefix(value.Bytes(), []byte(Prefix)) || bytes.HasPrefix(value.Bytes(), []byte(TxnPrefix)) }

couchbase/metadata.go l.152-160
    func getCheckpointID(vbID uint16, groupName string) []byte {
        if strings.Contains(groupName, ".") { … panic(err) }
        return []byte(helpers.Prefix + groupName + ":checkpoint:" + strconv.Itoa(int(vbID))) }

couchbase/membership.go l.51, l.348-349   (_type = "instance")
    id:          []byte(helpers.Prefix + config.Dcp.Group.Name + ":" + _type + ":" + uuid.New().String()),
    instanceAll: []byte(helpers.Prefix + config.Dcp.Group.Name + ":" + _type + ":all"),
-/
namespace GoDcp.Keys

/-- a byte string, one `Char` per byte -/
abbrev Str := List Char

/-- `helpers.Prefix` -/
def keyPrefix : Str := "_connector:cbgo:".toList

/-- `helpers.TxnPrefix` -/
def txnPrefix : Str := "_txn:".toList

/-- ":checkpoint" (the separator is this followed by ':') -/
def checkpointWord : Str := ":checkpoint".toList

/-- ":" + _type  (followed by ':') -/
def instanceWord : Str := ":instance".toList

def allWord : Str := "all".toList

/-- `strconv.Itoa(int(vbID))`: decimal digits, most significant first, no sign -/
def render (n : Nat) : Str := Nat.toDigits 10 n

/-- `helpers.Prefix + groupName + ":checkpoint:" + strconv.Itoa(int(vbID))` -/
def checkpointKey (g : Str) (vb : Nat) : Str := keyPrefix ++ g ++ checkpointWord ++ ':' :: render vb

/-- `helpers.Prefix + groupName + ":" + _type + ":" + id`  (`id` = `uuid.New().String()`) -/
def instanceKey (g id : Str) : Str := keyPrefix ++ g ++ instanceWord ++ ':' :: id

/-- `helpers.Prefix + groupName + ":" + _type + ":all"` -/
def indexKey (g : Str) : Str := instanceKey g allWord

/-- `!strings.Contains(groupName, ".")` -/
def groupNameOk (g : Str) : Bool := !g.contains '.'

/-- `getCheckpointID`: `none` = panic ("unsupported group name includes dot") -/
def checkpointID (vb : Nat) (g : Str) : Option Str :=
  if groupNameOk g then some (checkpointKey g vb) else none

/-- the two `bytes.HasPrefix` tests of `IsMetadata` -/
def isMetadata (key : Str) : Bool := keyPrefix.isPrefixOf key || txnPrefix.isPrefixOf key

/-- what `IsMetadata` is handed -/
inductive Payload
  /-- a struct value with a (possibly promoted) field `Key []byte` -/
  | withKey (k : Str)
  /-- a struct value without a field named `Key` (`!value.IsValid()`) -/
  | noKey
  /-- anything on which the reflection calls themselves panic: a pointer
      (`FieldByName` on a non-struct), a `Key` field that is not a byte slice
      (`Value.Bytes`), a nil embedded pointer on the path to `Key` -/
  | reflectPanics
  deriving DecidableEq, Repr

/-- `IsMetadata(data)`: `none` = panic -/
def isMetadataPayload : Payload → Option Bool
  | .withKey k => some (isMetadata k)
  | .noKey => some false
  | .reflectPanics => none

end GoDcp.Keys
