/-
M4 core + small LTS: the health checker, `couchbase/healthcheck.go`.

Part 1 – one check round, `performHealthCheck` (l.68-94):

    const maxRetries = 5 ; retryInterval := time.Second
    for attempt := 1; attempt <= maxRetries; attempt++ {
        _, err := h.client.Ping()
        if err == nil { return }                          // success ends the round
        if attempt < maxRetries {
            select { case <-ctx.Done(): return            // cancelled during the retry wait
                     case <-time.After(retryInterval): }  // next attempt
        } else { panic(err) }                             // fifth failure
    }

`round` consumes a stream of ping results (`true` = success) and reports how
many pings were issued and how the round ended.

Part 2 – the life cycle (`Start`, `Stop`, `run`, l.34-66) as a labelled
transition system with program counters, cut at every access to shared state
(`cancelFunc`, the context, the WaitGroup, the two `sync.Once`).
-/
namespace GoDcp.Health

/-- `const maxRetries = 5` (l.69) -/
def maxRetries : Nat := 5

/-- how a round ended: returned normally / panicked / the result stream ended
    while a ping was still owed (round not finished; also the shape of a round
    that was cancelled in a retry wait) -/
inductive Res
  | ok | panic | starved
  deriving DecidableEq, Repr, Inhabited

structure Outcome where
  pings : Nat
  res : Res
  deriving DecidableEq, Repr, Inhabited

/-- the `for` loop of `performHealthCheck`, entered with loop variable `attempt = a`;
    `pings` counts the `Ping()` calls of the whole round (`a - 1` were made before). -/
def roundFrom : Nat → List Bool → Outcome
  | a, [] =>
    if maxRetries < a then ⟨a - 1, .ok⟩        -- loop condition false (never from `a = 1`)
    else ⟨a - 1, .starved⟩                     -- `Ping()` would be called; no result supplied
  | a, true :: _ =>
    if maxRetries < a then ⟨a - 1, .ok⟩
    else ⟨a, .ok⟩                              -- `err == nil` → `return`
  | a, false :: rest =>
    if maxRetries < a then ⟨a - 1, .ok⟩
    else if a < maxRetries then roundFrom (a + 1) rest   -- retry wait elapsed, `attempt++`
    else ⟨a, .panic⟩                           -- `panic(err)`

/-- one round: `attempt := 1` -/
def round (rs : List Bool) : Outcome := roundFrom 1 rs

/-- A run of rounds, each with its own result stream (one round per ticker
    tick, `run` l.57-65).  Returns the outcomes of the rounds that were executed:
    a panic ends the process, later rounds never run. -/
def runRounds : List (List Bool) → List Outcome
  | [] => []
  | r :: rest =>
    let o := round r
    if o.res = .panic then [o] else o :: runRounds rest

def panicked (os : List Outcome) : Bool := os.any (·.res == .panic)

def totalPings (os : List Outcome) : Nat := (os.map (·.pings)).sum

/-! ## Life cycle LTS -/

/-- program counter of the `run` goroutine -/
inductive GPc
  | notStarted            -- `go h.run(ctx)` not executed yet
  | waitTick              -- blocked in the outer `select` (l.58)
  | pinging (k : Nat)     -- inside `h.client.Ping()` of attempt `k`
  | retryWait (k : Nat)   -- blocked in the inner `select` after failed attempt `k` (l.82)
  | stopped               -- returned (`defer h.wg.Done()` executed)
  | panicked              -- `panic(err)`; the process is gone
  deriving DecidableEq, Repr, Inhabited

/-- the caller that won `startOnce` (l.35-40) -/
inductive StartPc
  | idle | entered | cancelSet | wgAdded | returned
  deriving DecidableEq, Repr, Inhabited

/-- the caller that won `stopOnce` (l.44-49) -/
inductive StopPc
  | idle | entered | cancelDone | returned
  deriving DecidableEq, Repr, Inhabited

structure State where
  g : GPc := .notStarted
  startPc : StartPc := .idle
  stopPc : StopPc := .idle
  /-- `h.cancelFunc != nil` -/
  cancelSet : Bool := false
  /-- `ctx.Done()` is closed -/
  cancelled : Bool := false
  /-- WaitGroup counter -/
  wg : Nat := 0
  /-- ghost: number of `Ping()` calls issued so far -/
  pings : Nat := 0
  /-- ghost: number of `go h.run` executed -/
  spawns : Nat := 0
  /-- ghost: results received in the current round -/
  cur : List Bool := []
  /-- ghost: result patterns of the rounds that returned normally (latest first) -/
  hist : List (List Bool) := []
  /-- ghost: the first `Stop()` was called after the first `Start()` had returned -/
  orderly : Bool := false
  deriving DecidableEq, Repr, Inhabited

def init : State := {}

inductive Action
  /-- some caller invokes `Start()`.  First caller: wins `startOnce`.  Later
      callers block on the Once until the first has finished and then return
      without doing anything (enabled only then). -/
  | startCall
  /-- `ctx, cancel := context.WithCancel(..); h.cancelFunc = cancel` -/
  | startSetCancel
  /-- `h.wg.Add(1)` -/
  | startWgAdd
  /-- `go h.run(ctx)`; `Start` returns -/
  | startSpawn
  /-- some caller invokes `Stop()` (same Once discipline as `startCall`) -/
  | stopCall
  /-- `if h.cancelFunc != nil { h.cancelFunc() }` -/
  | stopCancel
  /-- `h.wg.Wait()` returns (enabled only when the counter is 0); `Stop` returns -/
  | stopWait
  /-- outer select takes `<-ticker.C`; `performHealthCheck` calls `Ping()` (attempt 1).
      Go's select chooses among ready cases at random, so this is enabled even when
      the context is already cancelled. -/
  | tick
  /-- `Ping()` of the current attempt returns (`true` = `err == nil`) -/
  | pingResult (ok : Bool)
  /-- inner select takes `<-time.After(retryInterval)`; next `Ping()` is called -/
  | retryFires
  /-- outer or inner select takes `<-ctx.Done()`; the goroutine returns -/
  | seeCancel
  deriving DecidableEq, Repr, Inhabited

def GPc.running : GPc → Bool
  | .waitTick | .pinging _ | .retryWait _ => true
  | _ => false

/-- blocked in a `select` that has a `<-ctx.Done()` case (l.58 and l.82) -/
def GPc.inSelect : GPc → Bool
  | .waitTick | .retryWait _ => true
  | _ => false

/-- one atomic step; `none` = not enabled (the caller / goroutine is blocked, or
    the process has died in a panic) -/
def step (σ : State) (a : Action) : Option State :=
  if σ.g = .panicked then none else
  match a with
  | .startCall =>
    match σ.startPc with
    | .idle => some { σ with startPc := .entered }
    | .returned => some σ
    | _ => none
  | .startSetCancel =>
    if σ.startPc = .entered then some { σ with startPc := .cancelSet, cancelSet := true } else none
  | .startWgAdd =>
    if σ.startPc = .cancelSet then some { σ with startPc := .wgAdded, wg := σ.wg + 1 } else none
  | .startSpawn =>
    if σ.startPc = .wgAdded then
      some { σ with startPc := .returned, g := .waitTick, spawns := σ.spawns + 1 }
    else none
  | .stopCall =>
    match σ.stopPc with
    | .idle => some { σ with stopPc := .entered, orderly := decide (σ.startPc = .returned) }
    | .returned => some σ
    | _ => none
  | .stopCancel =>
    if σ.stopPc = .entered then
      some { σ with stopPc := .cancelDone, cancelled := σ.cancelled || σ.cancelSet }
    else none
  | .stopWait =>
    if σ.stopPc = .cancelDone ∧ σ.wg = 0 then some { σ with stopPc := .returned } else none
  | .tick =>
    if σ.g = .waitTick then some { σ with g := .pinging 1, pings := σ.pings + 1, cur := [] } else none
  | .pingResult ok =>
    match σ.g with
    | .pinging k =>
      if ok then some { σ with g := .waitTick, hist := (σ.cur ++ [true]) :: σ.hist, cur := [] }
      else if k < maxRetries then some { σ with g := .retryWait k, cur := σ.cur ++ [false] }
      else some { σ with g := .panicked, cur := σ.cur ++ [false] }
    | _ => none
  | .retryFires =>
    match σ.g with
    | .retryWait k => some { σ with g := .pinging (k + 1), pings := σ.pings + 1 }
    | _ => none
  | .seeCancel =>
    if σ.cancelled ∧ σ.g.inSelect then
      some { σ with g := .stopped, wg := σ.wg - 1 }
    else none

/-- run a schedule; `none` if some action of it is not enabled -/
def exec (σ : State) : List Action → Option State
  | [] => some σ
  | a :: as => (step σ a).bind (exec · as)

/-- an action that issues a `Ping()` -/
def Action.isPing : Action → Bool
  | .tick | .retryFires => true
  | _ => false

/-- is some ping-issuing action enabled? -/
def pingEnabled (σ : State) : Bool :=
  (step σ .tick).isSome || (step σ .retryFires).isSome

/-- the four micro-steps of an uncontended `Start()` -/
def startSeq : List Action := [.startCall, .startSetCancel, .startWgAdd, .startSpawn]

end GoDcp.Health
