import GoDcp.Model.Units
/-
M4 pure core: configuration defaulting (config/dcp.go `ApplyDefaults` l.411-592
and every `applyDefault*`), the two environment overrides, the logging default
(depends on the global `logger.Log`), and the derived settings
`GetCouchbaseMetadata`, `GetCouchbaseMembership`, `GetKubernetesLeaderElector`,
`GetFileMetadata`.

A configuration is a finite map from option path (the dotted yaml path of the
leaf field of `config.Dcp`, e.g. `dcp.group.membership.totalMembers`) to a
value.  A path that is not in the map is the Go zero value / nil of that field.

Conditional defaults: in the pinned version NO `applyDefault*` statement reads
another option, and no default lives behind a nested pointer struct (the only
pointer, `dcp.listener.skipUntil`, has no default).  The only conditions are
(1) the global `logger.Log` (explicit parameter `loggerSet`: the logging entry
is part of the table only when no logger was injected) and (2) the two
environment overrides, which are assignments AFTER the group-membership
defaults, not defaults.  Both are modelled as coded.
-/
namespace GoDcp.Config

/-- a leaf value of `config.Dcp` (or of a derived settings struct) -/
inductive Val
  | absent                                  -- Go zero value of a typed field / nil
  | int (i : Int)                           -- int, uint, uint32 (also inside an `any` field)
  | str (s : String)                        -- string, DcpMode (also inside an `any` field)
  | bool (b : Bool)
  | dur (ns : Int)                          -- time.Duration, nanoseconds
  | strs (l : List String)                  -- non-nil []string (possibly empty)
  | smap (m : List (String × String))       -- non-nil map[string]string
  | time (ns : Int)                         -- non-nil *time.Time (dcp.listener.skipUntil)
  deriving DecidableEq, Repr

/-- finite map as association list; the FIRST binding of a path counts -/
abbrev Cfg := List (String × Val)

def get (c : Cfg) (p : String) : Val :=
  match c.lookup p with
  | some v => v
  | none => .absent

/-- assignment to a field (shadows older bindings) -/
def set (c : Cfg) (p : String) (v : Val) : Cfg := (p, v) :: c

/-- the two shapes of "is unset" tests in `applyDefault*` -/
inductive ZeroTest
  | zeroVal     -- `== 0`, `== ""` on a typed field
  | isNil       -- `== nil` on an `any` field or a slice
  deriving DecidableEq, Repr

def isZero : ZeroTest → Val → Bool
  | .isNil, v => v == .absent
  | .zeroVal, .absent => true
  | .zeroVal, .int i => i == 0
  | .zeroVal, .str s => s == ""
  | .zeroVal, .dur n => n == 0
  | .zeroVal, .bool b => b == false
  | .zeroVal, _ => false

/-- one `if c.X == zero { c.X = default }` -/
structure Entry where
  path : String
  test : ZeroTest
  dflt : Val
  deriving DecidableEq, Repr

def applyEntry (c : Cfg) (e : Entry) : Cfg :=
  if isZero e.test (get c e.path) then set c e.path e.dflt else c

/-- a sequence of such statements -/
def applyTable (t : List Entry) (c : Cfg) : Cfg := t.foldl applyEntry c

/-! ## the concrete table of go-dcp, in the order of `ApplyDefaults` -/

def second : Int := 1000000000
def minute : Int := 60 * second

/-- `helpers.ResolveUnionIntOrStringValue("<n>mb")` as used for the three
    buffer-size defaults (the result is stored as an `int` inside the `any`) -/
def sizeDefault (s : String) : Val :=
  match Units.resolveString s.toList with
  | .ok n => .int n
  | _ => .absent

def pTotal : String := "dcp.group.membership.totalMembers"
def pMember : String := "dcp.group.membership.memberNumber"
def pLevel : String := "logging.level"

/-- applyDefaultRollbackMitigation, applyDefaultCheckpoint, applyDefaultHealthCheck,
    applyDefaultGroupMembership (the part before the env overrides) -/
def tableA : List Entry := [
  ⟨"rollbackMitigation.interval", .zeroVal, .dur second⟩,
  ⟨"rollbackMitigation.configWatchInterval", .zeroVal, .dur (10 * second)⟩,
  ⟨"checkpoint.interval", .zeroVal, .dur minute⟩,
  ⟨"checkpoint.timeout", .zeroVal, .dur minute⟩,
  ⟨"checkpoint.type", .zeroVal, .str "auto"⟩,
  ⟨"checkpoint.autoReset", .zeroVal, .str "earliest"⟩,
  ⟨"healthCheck.interval", .zeroVal, .dur minute⟩,
  ⟨"healthCheck.timeout", .zeroVal, .dur minute⟩,
  ⟨"dcp.group.membership.rebalanceDelay", .zeroVal, .dur (30 * second)⟩,
  ⟨pTotal, .zeroVal, .int 1⟩,
  ⟨pMember, .zeroVal, .int 1⟩,
  ⟨"dcp.group.membership.type", .zeroVal, .str "couchbase"⟩]

/-- applyDefaultConnectionTimeout … applyDefaultMetadata -/
def tableB : List Entry := [
  ⟨"dcp.connectionTimeout", .zeroVal, .dur minute⟩,
  ⟨"connectionTimeout", .zeroVal, .dur minute⟩,
  ⟨"collectionNames", .isNil, .strs ["_default"]⟩,
  ⟨"scopeName", .zeroVal, .str "_default"⟩,
  ⟨"connectionBufferSize", .isNil, sizeDefault "20mb"⟩,
  ⟨"maxQueueSize", .zeroVal, .int 2048⟩,
  ⟨"metric.path", .zeroVal, .str "/metrics"⟩,
  ⟨"api.port", .zeroVal, .int 8080⟩,
  ⟨"leaderElection.type", .zeroVal, .str "kubernetes"⟩,
  ⟨"leaderElection.rpc.port", .zeroVal, .int 8081⟩,
  ⟨"dcp.bufferSize", .isNil, sizeDefault "16mb"⟩,
  ⟨"dcp.connectionBufferSize", .isNil, sizeDefault "20mb"⟩,
  ⟨"dcp.maxQueueSize", .zeroVal, .int 2048⟩,
  ⟨"metadata.type", .zeroVal, .str "couchbase"⟩]

/-- applyLogging, executed only while `logger.Log == nil` -/
def loggingEntry : Entry := ⟨pLevel, .zeroVal, .str "info"⟩

/-- the whole defaults table as a function of "a logger was injected" -/
def table (loggerSet : Bool) : List Entry :=
  tableA ++ tableB ++ (if loggerSet then [] else [loggingEntry])

/-- os.Getenv of the two override variables ("" = unset or empty) -/
structure Env where
  total : String     -- GO_DCP__DCP_GROUP_MEMBERSHIP_TOTALMEMBERS
  member : String    -- GO_DCP__DCP_GROUP_MEMBERSHIP_MEMBERNUMBER
  deriving DecidableEq, Repr

/-- `if v := os.Getenv(..); v != "" { t, err := strconv.Atoi(v); if err != nil { panic }; c.X = t }`
    (`none` = panic) -/
def envOverride (raw : String) (path : String) (c : Cfg) : Option Cfg :=
  if raw = "" then some c
  else match Units.parseInt64 raw.toList with
    | some t => some (set c path (.int t))
    | none => none

/-- logrus.ParseLevel succeeds (ASCII lower-casing; the harness keeps levels ASCII) -/
def validLevel (s : String) : Bool :=
  let l := String.ofList (s.toList.map Char.toLower)
  l = "panic" || l = "fatal" || l = "error" || l = "warn" || l = "warning" ||
  l = "info" || l = "debug" || l = "trace"

/-- applyLogging: no-op when a logger exists; otherwise default the level and
    `InitDefaultLogger(level)`, which panics on an unknown level (`none`). -/
def applyLogging (loggerSet : Bool) (c : Cfg) : Option Cfg :=
  if loggerSet then some c
  else
    let c' := applyEntry c loggingEntry
    match get c' pLevel with
    | .str l => if validLevel l then some c' else none
    | _ => none

/-- `(*Dcp).ApplyDefaults` (`none` = panic) -/
def applyDefaults (env : Env) (loggerSet : Bool) (c : Cfg) : Option Cfg :=
  match envOverride env.total pTotal (applyTable tableA c) with
  | none => none
  | some c1 =>
    match envOverride env.member pMember c1 with
    | none => none
    | some c2 => applyLogging loggerSet (applyTable tableB c2)

/-! ## derived settings: "defaults, then the override map key by key" -/

/-- result of parsing one override string -/
inductive PR
  | val (v : Val)
  | panic
  | uncovered        -- only from size strings, see `Units.Res.uncovered`
  deriving DecidableEq, Repr

/-- one field of a derived settings struct -/
structure Field where
  key : String
  base : Option Val            -- value when the key is not in the map; `none` = the code panics
  parse : String → PR          -- conversion of the map value

/-- outcome of a `Get…` function -/
inductive Derived
  | ok (r : List (String × Val))
  | panic
  | uncovered
  deriving DecidableEq, Repr

def fieldVal (ov : List (String × String)) (f : Field) : PR :=
  match ov.lookup f.key with
  | some s => f.parse s
  | none => match f.base with
    | some v => .val v
    | none => .panic

/-- evaluate all fields; any panic wins (the code would reach it: an
    `uncovered` value is an implementation-defined integer, not a stop) -/
def derive (fields : List Field) (ov : List (String × String)) : Derived :=
  let rs := fields.map fun f => (f.key, fieldVal ov f)
  if rs.any (fun r => r.2 == .panic) then .panic
  else if rs.any (fun r => r.2 == .uncovered) then .uncovered
  else .ok (rs.filterMap fun r => match r.2 with | .val v => some (r.1, v) | _ => none)

def pStr (s : String) : PR := .val (.str s)

def pDur (s : String) : PR :=
  match Units.parseDuration s.toList with
  | some n => .val (.dur n)
  | none => .panic

/-- helpers.ResolveUnionIntOrStringValue(string) stored in an `int` -/
def pSize (s : String) : PR :=
  match Units.resolveString s.toList with
  | .ok n => .val (.int n)
  | .panic => .panic
  | .uncovered => .uncovered

/-- `uint(helpers.ResolveUnionIntOrStringValue(s))`: two's-complement wrap -/
def pUSize (s : String) : PR :=
  match Units.resolveString s.toList with
  | .ok n => .val (.int (n % (2 ^ 64 : Int)))
  | .panic => .panic
  | .uncovered => .uncovered

def pBool (s : String) : PR :=
  match Units.parseBool s.toList with
  | some b => .val (.bool b)
  | none => .panic

def pU32 (s : String) : PR :=
  match Units.parseUint32 s.toList with
  | some n => .val (.int n)
  | none => .panic

/-- strings.Split(hosts, ",") -/
def pHosts (s : String) : PR := .val (.strs (s.splitOn ","))

/-- GetCouchbaseMetadata (l.338-409): six fields inherit the main connection
    settings of `c`, five have constants -/
def metadataFields (c : Cfg) : List Field := [
  ⟨"hosts", some (get c "hosts"), pHosts⟩,
  ⟨"username", some (get c "username"), pStr⟩,
  ⟨"password", some (get c "password"), pStr⟩,
  ⟨"bucket", some (get c "bucketName"), pStr⟩,
  ⟨"scope", some (.str "_default"), pStr⟩,
  ⟨"collection", some (.str "_default"), pStr⟩,
  ⟨"maxQueueSize", some (.int 2048), pSize⟩,
  ⟨"connectionBufferSize", some (.int 5242880), pUSize⟩,
  ⟨"connectionTimeout", some (.dur minute), pDur⟩,
  ⟨"secureConnection", some (get c "secureConnection"), pBool⟩,
  ⟨"rootCAPath", some (get c "rootCAPath"), pStr⟩]

def mapOf (v : Val) : List (String × String) :=
  match v with
  | .smap m => m
  | _ => []

def getCouchbaseMetadata (c : Cfg) : Derived :=
  derive (metadataFields c) (mapOf (get c "metadata.config"))

/-- GetCouchbaseMembership (l.198-258) -/
def membershipFields : List Field := [
  ⟨"expirySeconds", some (.int 120), pU32⟩,
  ⟨"heartbeatInterval", some (.dur (10 * second)), pDur⟩,
  ⟨"heartbeatToleranceDuration", some (.dur minute), pDur⟩,
  ⟨"monitorInterval", some (.dur (30 * second)), pDur⟩,
  ⟨"timeout", some (.dur (30 * second)), pDur⟩]

def getCouchbaseMembership (c : Cfg) : Derived :=
  derive membershipFields (mapOf (get c "dcp.group.membership.config"))

/-- GetKubernetesLeaderElector (l.268-322): the two names are mandatory -/
def electorFields : List Field := [
  ⟨"leaseLockName", none, pStr⟩,
  ⟨"leaseLockNamespace", none, pStr⟩,
  ⟨"leaseDuration", some (.dur (8 * second)), pDur⟩,
  ⟨"renewDeadline", some (.dur (5 * second)), pDur⟩,
  ⟨"retryPeriod", some (.dur second), pDur⟩]

def getKubernetesLeaderElector (c : Cfg) : Derived :=
  derive electorFields (mapOf (get c "leaderElection.config"))

/-- GetFileMetadata (l.170-188): key must exist and be non-empty (`none` = panic) -/
def getFileMetadata (c : Cfg) : Option String :=
  match (mapOf (get c "metadata.config")).lookup "fileName" with
  | some s => if s = "" then none else some s
  | none => none

end GoDcp.Config
