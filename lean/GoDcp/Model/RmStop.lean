/-!
# The close handshake of the rollback-mitigation observer (couchbase/rollback_mitigation.go)

A tiny labelled transition system of three parties, the code *as it is*:

* the observer goroutine `startObserve` (l.199-236): `for { select { case <-observeTimer.C: …one poll
  round…; wg.Wait()  case <-observeCloseCh: observeCloseDoneCh <- struct{}{}; return } }`
* `Stop()` (l.422-436): `closed = true; observeTimer.Stop(); observeCloseCh <- struct{}{};
  <-observeCloseDoneCh` (`reconfigure()` l.297-305 runs the same handshake without setting `closed`)
* the run time's ticker and the replicas' answers (environment).

Channel semantics modelled (all three are buffered with capacity 1, so "full / empty" is a `Bool`):

* `observeTimer.C` – `time.NewTicker`: capacity 1, the run time sends without blocking and DROPS the tick
  when the buffer is full (go.mod says go 1.21: classic ticker channels; `Ticker.Stop` stops further
  sends and does NOT drain a tick that is already buffered);
* `observeCloseCh` – `make(chan struct{}, 1)`: a send blocks only while full;
* `observeCloseDoneCh` – `make(chan struct{}, 1)`: likewise; a receive blocks while empty;
* a `select` with several ready cases takes ANY of them (Go picks uniformly at random): both are steps.

Abstractions: a poll round is one state (`round`): it starts when the tick is taken with `closed`
down and ends with the environment step `roundDone` (every observe callback has called `wg.Done()` –
an answer or gocbcore's 5 s deadline, so the step is always enabled).  With `closed` up every replica
is skipped (l.214-217) and `wg.Wait()` returns at once.  `closed` is a plain `bool` field read and
written by different goroutines; it is modelled as sequentially consistent (the Go memory model is
outside the model).  The system starts with the observer running (`observeTimer != nil`, l.427) and
one `Stop()` about to execute its first statement.

`Variant.hoistedReturn` is the seeded change C13-b2 (the `closed || group changed` test moved to the
top of the tick branch with a `return`): kept here to state what the handshake must NOT look like.
-/
namespace GoDcp.RmStop

/-- program counter of the observer goroutine -/
inductive G
  | sel      -- blocked in / about to enter `select` (l.204)
  | round    -- inside a poll round, in `wg.Wait()` (l.229)
  | exited   -- returned
  deriving DecidableEq, Repr

/-- program counter of `Stop()` = the statement it executes next -/
inductive S
  | setClosed   -- l.423 `r.closed = true`
  | stopTimer   -- l.428 `r.observeTimer.Stop()`
  | send        -- l.430 `r.observeCloseCh <- struct{}{}`
  | recv        -- l.431 `<-r.observeCloseDoneCh`
  | returned
  deriving DecidableEq, Repr

inductive Variant
  | asIs            -- the code of the repository
  | hoistedReturn   -- seeded change C13-b2: `if r.closed || … { return }` first thing in the tick branch
  deriving DecidableEq, Repr

structure Cfg where
  variant : Variant := .asIs
  /-- `Stop()` sets `closed`; `reconfigure()` runs the same handshake and does not -/
  setsClosed : Bool := true
  deriving DecidableEq, Repr

structure St where
  g : G := .sel
  s : S := .setClosed
  closed : Bool := false
  timerOn : Bool := true
  tickQ : Bool := false    -- observeTimer.C holds a tick
  closeQ : Bool := false   -- observeCloseCh holds the close request
  doneQ : Bool := false    -- observeCloseDoneCh holds the answer
  answers : Nat := 0       -- sends on observeCloseDoneCh so far
  late : Nat := 0          -- poll rounds started after Stop() had returned
  deriving DecidableEq, Repr

inductive Act
  | tick        -- the run time's ticker fires (only while the ticker is on; dropped when the buffer is full)
  | gTick       -- the goroutine's select takes `<-r.observeTimer.C`
  | gClose      -- the goroutine's select takes `<-r.observeCloseCh`, answers on observeCloseDoneCh, returns
  | roundDone   -- `wg.Wait()` returns
  | sStep       -- Stop() executes its next statement
  deriving DecidableEq, Repr

def allActs : List Act := [.tick, .gTick, .gClose, .roundDone, .sStep]

/-- one step; `none` = the action is not enabled (the party is blocked / not at that statement) -/
def step (c : Cfg) (x : St) : Act → Option St
  | .tick => if x.timerOn then some { x with tickQ := true } else none
  | .gTick =>
    if x.g = .sel ∧ x.tickQ = true then
      if x.closed then
        match c.variant with
        | .asIs => some { x with tickQ := false }                       -- every replica skipped, back to select
        | .hoistedReturn => some { x with tickQ := false, g := .exited } -- leaves WITHOUT answering
      else some { x with tickQ := false, g := .round, late := if x.s = .returned then x.late + 1 else x.late }
    else none
  | .gClose =>
    if x.g = .sel ∧ x.closeQ = true ∧ x.doneQ = false then
      some { x with closeQ := false, doneQ := true, answers := x.answers + 1, g := .exited }
    else none
  | .roundDone => if x.g = .round then some { x with g := .sel } else none
  | .sStep =>
    match x.s with
    | .setClosed => some { x with closed := x.closed || c.setsClosed, s := .stopTimer }
    | .stopTimer => some { x with timerOn := false, s := .send }
    | .send => if x.closeQ = false then some { x with closeQ := true, s := .recv } else none
    | .recv => if x.doneQ = true then some { x with doneQ := false, s := .returned } else none
    | .returned => none

def init : St := {}

/-- states reachable from `init` -/
inductive Reach (c : Cfg) : St → Prop
  | init : Reach c init
  | step {x y : St} (a : Act) : Reach c x → step c x a = some y → Reach c y

/-- an execution `x → … → y` with its actions -/
inductive Run (c : Cfg) : St → List Act → St → Prop
  | nil (x : St) : Run c x [] x
  | cons {x y z : St} (a : Act) {as : List Act} : step c x a = some y → Run c y as z → Run c x (a :: as) z

def runActs (c : Cfg) (x : St) : List Act → Option St
  | [] => some x
  | a :: as => (step c x a).bind fun y => runActs c y as

/-- termination measure of everything but the ticker: statements Stop() still has to execute, the
    buffered tick, the round in progress, the buffered close request -/
def sLeft : S → Nat
  | .setClosed => 4 | .stopTimer => 3 | .send => 2 | .recv => 1 | .returned => 0

def rank (x : St) : Nat :=
  4 * sLeft x.s + (if x.tickQ then 2 else 0) + (if x.g = .round then 1 else 0) + (if x.closeQ then 1 else 0)

/-- no action is enabled -/
def stuck (c : Cfg) (x : St) : Bool := allActs.all fun a => (step c x a).isNone

/-! ## executable exploration (used by the driver: the model's prediction for a scenario) -/

/-- successor states that differ from `x` (a tick into a full buffer changes nothing); `ticks = false`
    leaves the ticker's own step out -/
def succs (c : Cfg) (ticks : Bool) (x : St) : List St :=
  ((allActs.filter fun a => ticks || a != .tick).filterMap fun a => step c x a).filter (· != x)

/-- final states of ALL interleavings from `x` in which the ticker fires at most `ticks` more times
    (while `Stop()` has not stopped it, the goroutine could otherwise poll for ever without `Stop()` being
    scheduled: that is scheduler unfairness, not a behaviour of the handshake), explored to depth
    `fuel`; a state that still has successors when the fuel is used up is returned as it is -/
def terminals (c : Cfg) : Nat → Nat → St → List St
  | 0, _, x => [x]
  | fuel + 1, ticks, x =>
    let viaTick := if ticks = 0 then [] else
      match step c x .tick with
      | some y => if y != x then [(ticks - 1, y)] else []
      | none => []
    match (succs c false x).map (fun y => (ticks, y)) ++ viaTick with
    | [] => [x]
    | l => (l.flatMap fun p => terminals c fuel p.1 p.2).eraseDups

/-- the scenario of harness/l2_rm.go `rm-stop-slow`: the goroutine took a tick and is inside a slow round,
    the next tick is already buffered, `Stop()` is called now -/
def slowRound : St := { g := .round, tickQ := true }

/-- observation of the scenario as the harness prints it -/
def predict (c : Cfg) : String :=
  let t := terminals c 24 2 slowRound
  if t.all fun y => y.s == .returned then
    s!"stopped late-observes={(t.map (·.late)).foldl max 0}"
  else "hang"

end GoDcp.RmStop
