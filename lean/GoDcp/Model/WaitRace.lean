/-!
M3w — the stop-token protocol of `stream/stream.go` as a MICRO-step transition system
(`wait`, `listenEnd`, `Close`, `Open`, `Rebalance`, `rebalance`; `dcp.go`: `Start`'s select + `close`).

The macro-step life-cycle model (`Model/Life.lean`) assumes that the `wait()` goroutine is prompt.
This model drops that assumption: every shared-memory access of the protocol is one step, every
goroutine has its own program counter, and a schedule (`List Action`) picks who moves.

Threads
* any number of `wait()` goroutines (one is spawned by every `Open`), pcs `WPc`;
* any number of in-flight stream-end deliveries (`observer.End` → `listenEnd`), pcs `EPc`; they are
  created by the server ending a stream (`srvEnd`) and by `closeAllStreams` (the node answers a
  DCP_CLOSE_STREAM with a response *and*, separately and later, a STREAM_END(closed) message:
  gocbcore runs `CloseStream`'s callback on the response, so `closeAllStreams` returns without
  waiting for the END listeners);
* ONE control thread (`MPc`) that runs `Open` (initial), `Rebalance()`, `rebalance()` (timer) and
  `dcp.close()` → `Close`, one at a time. Modelling assumption `Serial`: these four procedures do
  not overlap each other (their overlaps are findings F4/F5 of the macro model, not the subject here);
  everything else interleaves freely.

Not modelled: events, offsets, checkpointing, rollback mitigation, `streamEndNotSupportedData`
(server < 5.5.0), the reopen loop of a transient end (a transient end that is re-requested simply
disappears; finding F9a). Individual field accesses are sequentially consistent.
-/
namespace GoDcp.WaitRace

/-- which of the two capacity-1 channels: `finishStreamWithCloseCh` | `finishStreamWithEndEventCh` -/
inductive Tok | close | endEv
deriving DecidableEq, Repr, Inhabited

/-- program counter of one `wait()` goroutine (stream.go `func (s *stream) wait()`) -/
inductive WPc
  | atSelect            -- `select {` : blocked until one of the channels has a token
  | gotTok (t : Tok)    -- received from channel `t`; about to execute `s.streamFinishedWith…Ch = true`
  | atTest              -- flag written; about to read `if !s.balancing`
  | atStop              -- `balancing` was false; about to execute `close(s.stopCh)`
  | done                -- returned
deriving DecidableEq, Repr, Inhabited

structure Wait where
  sess : Nat            -- ghost: the session (`Open` number) that spawned it
  pc : WPc
deriving DecidableEq, Repr, Inhabited

/-- program counter of one stream-end delivery (`observer.End` → `stream.listenEnd`) -/
inductive EPc
  | atCheck             -- observer.go `End`: `if so.endClosed { return }`
  | atClassify          -- listenEnd: reads `s.closeWithCancel` (+ the error class): re-request or count
  | atDecrement         -- `activeStreams := s.activeStreams.Add(-1)`
  | atTest              -- the result was 0; about to read `!s.streamFinishedWithCloseCh`
  | atSend              -- `s.finishStreamWithEndEventCh <- struct{}{}` (blocks while the channel is full)
  | done
deriving DecidableEq, Repr, Inhabited

structure EndD where
  sess : Nat            -- ghost: the session whose observer receives it
  counted : Bool        -- false = one of the five transient causes (re-requested unless closeWithCancel)
  pc : EPc
deriving DecidableEq, Repr, Inhabited

/-- program counter of the control thread. `dcp` = the running `Close` was called by `dcp.close()`
    (otherwise by `Rebalance()`); `reb` = the running `Open` was called by `rebalance()` (otherwise by `Start`) -/
inductive MPc
  | idle
  | rebSetBal                         -- Rebalance(): `if !s.balancing { s.balancing = true`
  | cStart (dcp cwc : Bool)           -- Close: `s.closeWithCancel = cwc` … `s.observers.Range(Close)` (nil ⇒ panic)
  | cStreams (dcp : Bool)             -- `s.closeAllStreams()`
  | cEnd (dcp : Bool)                 -- `s.observers.Range(CloseEnd)`; `s.observers = nil`
  | cSetOpen (dcp : Bool)             -- (callback AfterStreamStop) `s.open = false`
  | cTest (dcp : Bool)                -- `if !s.streamFinishedWithEndEventCh {`
  | cSend (dcp : Bool)                -- `s.finishStreamWithCloseCh <- struct{}{}` (blocks while full)
  | rebArm                            -- Rebalance(): `s.rebalanceTimer = time.AfterFunc(…, s.rebalance)`
  | oResetClose (n : Nat) (reb : Bool)  -- Open: `s.streamFinishedWithCloseCh = false`
  | oResetEnd (n : Nat) (reb : Bool)    -- `s.streamFinishedWithEndEventCh = false`
  | oSwap (n : Nat) (reb : Bool)        -- `s.activeStreams.Swap(int32(len(vbIDs)))`
  | oStreams (n : Nat) (reb : Bool)     -- observers created (new `endClosed = false`), `openAllStreams`
  | oSpawn (reb : Bool)                 -- (callback AfterStreamStart) `go s.wait()`
  | oSetOpen (reb : Bool)               -- `s.open = true`
  | rebClear                          -- rebalance(): `s.balancing = false`
deriving DecidableEq, Repr, Inhabited

structure State where
  -- stream.go fields
  balancing : Bool := false
  isOpen : Bool := false
  closeFlag : Bool := false      -- streamFinishedWithCloseCh
  endFlag : Bool := false        -- streamFinishedWithEndEventCh
  cwc : Bool := false            -- closeWithCancel
  closeCh : Nat := 0             -- tokens in finishStreamWithCloseCh (capacity 1)
  endCh : Nat := 0               -- tokens in finishStreamWithEndEventCh (capacity 1)
  active : Int := 0              -- activeStreams
  obsNil : Bool := true          -- `s.observers == nil`
  endClosed : Bool := true       -- `endClosed` of the current session's observers
  timerPending : Bool := false   -- rebalanceTimer armed with `s.rebalance`, not yet fired
  -- dcp.go / environment
  stopClosed : Nat := 0          -- number of executed `close(s.stopCh)`; the second one panics
  crashed : Bool := false        -- the process died (panic)
  shutdownReq : Bool := false    -- SIGTERM posted to cancelCh (`Dcp.Close()`)
  dcpStarted : Bool := false     -- `dcp.close()` has begun (bus unsubscribed)
  running : Nat := 0             -- streams of the current session that are open at the server
  -- threads
  main : MPc := .idle
  waits : List Wait := []
  ends : List EndD := []
  -- ghosts
  sess : Nat := 0                -- number of `Open`s that created observers
  assigned : Nat := 0            -- `len(vbIDs)` of the current session
  finals : Nat := 0              -- decrements executed by deliveries of the current session since its `Swap`
  foreign : Nat := 0             -- decrements executed since the last `Swap` by deliveries of an older session
  staleTok : Nat := 0            -- tokens found in the channels by `Open`'s flag reset (summed over all Opens)
  spurious : Bool := false       -- some `close(stopCh)` ran without justification (see `wStep`)
deriving DecidableEq, Repr, Inhabited

inductive Action
  | start (n : Nat)              -- dcp.Start: `s.stream.Open()` (first session, n vBuckets)
  | notify                       -- membership change → `s.stream.Rebalance()`
  | fireTimer (n : Nat)          -- the rebalance timer fires → `s.rebalance()` (n = new assignment size)
  | shutdown                     -- `Dcp.Close()`: SIGTERM into cancelCh
  | dcpClose (cancel : Bool)     -- dcp.Start leaves its select (cancelCh | stopCh) and runs `close()` → `stream.Close`
  | main                         -- the control thread executes its next micro-step
  | wait (i : Nat) (t : Tok)     -- wait goroutine i moves (t = the channel chosen at the select; ignored elsewhere)
  | endStep (j : Nat)            -- end delivery j moves
  | srvEnd (counted : Bool)      -- the server ends a running stream of the current session (final | transient cause)
deriving DecidableEq, Repr, Inhabited

def tokAvail (s : State) : Tok → Bool
  | .close => s.closeCh > 0
  | .endEv => s.endCh > 0

/-- a wait goroutine can move -/
def Wait.enabled (s : State) (w : Wait) : Bool :=
  match w.pc with
  | .atSelect => s.closeCh > 0 || s.endCh > 0
  | .done => false
  | _ => true

def anyWaitEnabled (s : State) : Bool := s.waits.any (Wait.enabled s)

/-- one step of a wait goroutine (stream.go 401–412) -/
def wStep (s : State) (i : Nat) (t : Tok) : Option State :=
  match s.waits[i]? with
  | none => none
  | some w =>
    let setW (pc : WPc) (s : State) : State := { s with waits := s.waits.set i { w with pc := pc } }
    match w.pc with
    | .atSelect =>                                   -- 402–407 select: receive
      match t with
      | .close => if s.closeCh > 0 then some (setW (.gotTok .close) { s with closeCh := s.closeCh - 1 }) else none
      | .endEv => if s.endCh > 0 then some (setW (.gotTok .endEv) { s with endCh := s.endCh - 1 }) else none
    | .gotTok .close => some (setW .atTest { s with closeFlag := true })    -- 404 s.streamFinishedWithCloseCh = true
    | .gotTok .endEv => some (setW .atTest { s with endFlag := true })      -- 406 s.streamFinishedWithEndEventCh = true
    | .atTest => some (setW (if s.balancing then .done else .atStop) s)     -- 409 if !s.balancing {
    | .atStop =>                                                            -- 410 close(s.stopCh)
      -- ghost: the stop is justified if a shutdown was requested, or this goroutine belongs to the current
      -- session, every assigned stream of that session has been counted as ended and no rebalance is running
      let legit := s.shutdownReq || (w.sess == s.sess && decide (s.assigned ≤ s.finals) && !s.balancing)
      some (setW .done { s with stopClosed := s.stopClosed + 1,
                                crashed := s.crashed || decide (s.stopClosed ≥ 1),   -- close of closed channel
                                spurious := s.spurious || !legit })
    | .done => none

/-- one step of a stream-end delivery (observer.go 273–282, stream.go 190–220) -/
def eStep (s : State) (j : Nat) : Option State :=
  match s.ends[j]? with
  | none => none
  | some d =>
    let setD (pc : EPc) (s : State) : State := { s with ends := s.ends.set j { d with pc := pc } }
    match d.pc with
    | .atCheck =>                                    -- observer.End: `if so.endClosed { return }` (per observer;
      -- the observers of a closed session all have it set, those of the current one share `endClosed`)
      some (setD (if d.sess == s.sess && !s.endClosed then .atClassify else .done) s)
    | .atClassify =>                                 -- 207–213: transient cause && !closeWithCancel → go reopenStream
      some (setD (if !d.counted && !s.cwc then .done else .atDecrement) s)
    | .atDecrement =>                                -- 215 activeStreams := s.activeStreams.Add(-1); 216 `activeStreams == 0 &&`
      let a := s.active - 1
      let own := d.sess == s.sess
      some (setD (if a == 0 then .atTest else .done)
        { s with active := a, finals := if own then s.finals + 1 else s.finals,
                 foreign := if own then s.foreign else s.foreign + 1 })
    | .atTest =>                                     -- 216 `&& !s.streamFinishedWithCloseCh`
      some (setD (if s.closeFlag then .done else .atSend) s)
    | .atSend =>                                     -- 217 s.finishStreamWithEndEventCh <- struct{}{}
      if s.endCh = 0 then some (setD .done { s with endCh := 1 }) else none
    | .done => none

/-- `closeAllStreams`: one STREAM_END(closed) per stream still open at the server, delivered asynchronously -/
def closeEnds (s : State) : List EndD := List.replicate s.running { sess := s.sess, counted := true, pc := .atCheck }

/-- what follows a finished `Close` -/
def afterClose (dcp : Bool) : MPc := if dcp then .idle else .rebArm
/-- what follows a finished `Open` -/
def afterOpen (reb : Bool) : MPc := if reb then .rebClear else .idle

/-- one micro-step of the control thread -/
def mStep (s : State) : Option State :=
  match s.main with
  | .idle => none
  | .rebSetBal => some { s with balancing := true, main := .cStart false false }          -- 295–297
  | .cStart dcp cwc =>                                                                     -- 415, 423
    if s.obsNil then some { s with cwc := cwc, crashed := true }                           -- nil map dereference (F4)
    else some { s with cwc := cwc, main := .cStreams dcp }
  | .cStreams dcp => some { s with ends := s.ends ++ closeEnds s, running := 0, main := .cEnd dcp }   -- 432
  | .cEnd dcp => some { s with endClosed := true, obsNil := true, main := .cSetOpen dcp }  -- 434–438
  | .cSetOpen dcp => some { s with isOpen := false, main := .cTest dcp }                   -- 445
  | .cTest dcp => some { s with main := if s.endFlag then afterClose dcp else .cSend dcp } -- 447
  | .cSend dcp => if s.closeCh = 0 then some { s with closeCh := 1, main := afterClose dcp } else none   -- 448
  | .rebArm => some { s with timerPending := true, main := .idle }                         -- 303/306
  | .oResetClose n reb =>                                                                  -- 223
    some { s with closeFlag := false, staleTok := s.staleTok + s.closeCh + s.endCh, main := .oResetEnd n reb }
  | .oResetEnd n reb => some { s with endFlag := false, main := .oSwap n reb }             -- 224
  | .oSwap n reb => some { s with active := n, assigned := n, finals := 0, foreign := 0, main := .oStreams n reb }   -- 244
  | .oStreams n reb =>                                                                     -- 251–263
    some { s with sess := s.sess + 1, endClosed := false, obsNil := false, running := n, main := .oSpawn reb }
  | .oSpawn reb => some { s with waits := s.waits ++ [{ sess := s.sess, pc := .atSelect }], main := .oSetOpen reb }   -- 270
  | .oSetOpen reb => some { s with isOpen := true, main := afterOpen reb }                 -- 271
  | .rebClear => some { s with balancing := false, main := .idle }                         -- 321

/-- the transition relation; `none` = the action is not enabled (blocked thread, wrong state, dead process) -/
def step (s : State) (a : Action) : Option State :=
  if s.crashed then none else
  match a with
  | .start n =>
    if s.main = .idle ∧ s.sess = 0 ∧ n > 0 ∧ !s.dcpStarted then some { s with main := .oResetClose n false } else none
  | .notify =>                                       -- Rebalance() 279: `if s.balancing && s.rebalanceTimer != nil` → debounce only
    if s.main = .idle ∧ s.sess > 0 ∧ !s.dcpStarted then
      some (if s.balancing then s else { s with main := .rebSetBal })
    else none
  | .fireTimer n =>                                  -- rebalance() 311–317 → Open
    if s.main = .idle ∧ s.timerPending ∧ n > 0 then some { s with timerPending := false, main := .oResetClose n true } else none
  | .shutdown => some { s with shutdownReq := true }
  | .dcpClose cancel =>                              -- dcp.go 172–180, 195–210
    if s.main = .idle ∧ s.sess > 0 ∧ !s.dcpStarted ∧ (if cancel then s.shutdownReq else decide (s.stopClosed ≥ 1)) then
      some { s with dcpStarted := true, main := .cStart true cancel }
    else none
  | .main => mStep s
  | .wait i t => wStep s i t
  | .endStep j => eStep s j
  | .srvEnd counted =>
    if s.running > 0 then
      some { s with ends := s.ends ++ [{ sess := s.sess, counted := counted, pc := .atCheck }],
                    running := if counted then s.running - 1 else s.running }
    else none

/-- run a schedule; disabled actions are skipped (a scheduler never picks them) -/
def run (s : State) : List Action → State
  | [] => s
  | a :: as => run ((step s a).getD s) as

/-- strict run: `none` as soon as one action of the schedule is not enabled -/
def run? (s : State) : List Action → Option State
  | [] => some s
  | a :: as => (step s a).bind (run? · as)

def init : State := {}

/-! ### schedule restrictions (hypotheses of the positive theorem) -/

/-- actions of the control side: control thread, dcp, timer, notifications -/
def Action.isControl : Action → Bool
  | .start _ | .notify | .fireTimer _ | .dcpClose _ | .main => true
  | _ => false

/-- a delivery that got past the observer's `endClosed` gate and has not finished -/
def EndD.inFlight (d : EndD) : Bool :=
  match d.pc with
  | .atClassify | .atDecrement | .atTest | .atSend => true
  | _ => false

/-- the control thread is about to execute `CloseEnd` -/
def MPc.isCEnd : MPc → Bool
  | .cEnd _ => true
  | _ => false

/-- `Prompt`: no control action while some wait goroutine can move - except the last step of `Rebalance()` (arming the
    timer), which touches nothing a wait goroutine reads and which no schedule point of the real code can hold back -/
def promptOk (s : State) (a : Action) : Bool :=
  !(a.isControl && anyWaitEnabled s) || (a == .main && s.main == .rebArm)

/-- `EndsDrained`: `Close` shuts the observers' END gate (`CloseEnd`) only when no delivery is inside `listenEnd` -/
def drainedOk (s : State) (a : Action) : Bool :=
  !(a == .main && s.main.isCEnd && s.ends.any EndD.inFlight)

/-- `StopThenClose`: once stopCh is closed, `dcp.Start` goes straight to `close()`: no further `Rebalance()`/timer -/
def stopOk (s : State) (a : Action) : Bool :=
  !(decide (s.stopClosed ≥ 1) && (match a with | .notify | .fireTimer _ | .start _ => true | _ => false))

def okStep (s : State) (a : Action) : Bool := promptOk s a && drainedOk s a && stopOk s a

/-- every step of the schedule (from `s`) respects the three restrictions -/
def Sched (s : State) : List Action → Prop
  | [] => True
  | a :: as => okStep s a = true ∧ Sched ((step s a).getD s) as

instance : (s : State) → (as : List Action) → Decidable (Sched s as)
  | _, [] => isTrue trivial
  | s, a :: as =>
    have := instDecidableSched ((step s a).getD s) as
    inferInstanceAs (Decidable (_ ∧ _))

end GoDcp.WaitRace
