/-
M4 core for C20: `couchbase/async_op.go` and the wrapper pattern that every
Couchbase call of go-dcp is written in.

Go (couchbase/async_op.go, complete):

  type asyncOp struct { ctx context.Context; signal chan struct{} }
  func NewAsyncOp(ctx) AsyncOp { return &asyncOp{signal: make(chan struct{}, 1), ctx: ctx} }   // l.37-42
  func (m *asyncOp) Resolve() { m.signal <- struct{}{} }                                        // l.19-21
  func (m *asyncOp) Wait(op gocbcore.PendingOp, err error) error {                              // l.23-35
      if err != nil { return err }
      select {
      case <-m.ctx.Done(): op.Cancel()
      case <-m.signal:
      }
      return m.ctx.Err()
  }

The wrapper pattern (e.g. couchbase/doc_op.go CreateDocument l.21-47):

  opm := NewAsyncOp(ctx)
  ch  := make(chan error, 1)
  op, err := agent.X(opts, func(result, err) {   // callback, run by gocbcore ("at most once")
      <stores into captured variables>           //   Ping, GetFailOverLogs, getCollectionID, waitFirstConfig, GetVBucketSeqNos
      opm.Resolve()                              //   srvResolve  (send on the buffer-1 signal)
      ch <- err                                  //   srvPush     (send on the buffer-1 result channel)
  })
  err = opm.Wait(op, err)                        // waiter steps
  if err != nil { return err }
  return <-ch                                    // wrapper read: only after Wait returned nil

## Wrapper table (every `NewAsyncOp` call site of /repo, as the code is today)

 site                               | ctx deadline source                                    | callback stores                                   | result chan(s)            | read after Wait==nil | cb err propagated
 -----------------------------------+--------------------------------------------------------+---------------------------------------------------+---------------------------+----------------------+------------------
 client.go:Ping                     | WithTimeout(s.config.HealthCheck.Timeout)              | pingResult (captured var, before Resolve); err→errorCh | errorCh cap 1         | yes                  | yes
 client.go:GetVBucketSeqNos         | WithTimeout(time.Second*60), one per node×collection   | seqNos map (captured, before Resolve); err via ch   | make(chan error, 1)       | after Wait           | yes (F7 fixed in c9cc595)
 client.go:GetFailOverLogs          | WithTimeout(time.Second*60)                            | failOverLogs (captured, before Resolve); err→ch   | ch cap 1                  | yes                  | yes
 client.go:openStreamWithRollback   | WithTimeout(time.Second*60)                            | observer.SetVbUUID/SetCatchup (err==nil); err→ch  | ch cap 1                  | yes                  | yes
 client.go:OpenStream               | WithTimeout(time.Minute)                               | observer.SetVbUUID (err==nil); err→ch             | ch cap 1                  | yes                  | yes
 client.go:CloseStream              | WithTimeout(time.Second*60)                            | err→ch                                            | ch cap 1                  | yes                  | yes
 client.go:getCollectionID          | ctx parameter (GetCollectionIDs: WithTimeout(time.Minute)); gocbcore Deadline now+30s | collectionID (captured, err==nil); err→ch | ch cap 1 | yes           | yes
 doc_op.go:CreateDocument           | ctx parameter; gocbcore Deadline = ctx.Deadline()      | err→ch                                            | ch cap 1                  | yes                  | yes
 doc_op.go:UpdateDocument           | ctx parameter; gocbcore Deadline = ctx.Deadline()      | err→ch                                            | ch cap 1                  | yes                  | yes
 doc_op.go:DeleteDocument           | ctx parameter; gocbcore Deadline = ctx.Deadline()      | err→ch                                            | ch cap 1                  | yes                  | yes
 doc_op.go:UpsertXattrs             | ctx parameter; gocbcore Deadline = ctx.Deadline()      | err→ch                                            | ch cap 1                  | yes                  | yes
 doc_op.go:GetXattrs                | ctx parameter; gocbcore Deadline = now+5s (NOT the ctx) | value→documentCh, err→errorCh                    | documentCh, errorCh cap 1 | yes                  | yes
 doc_op.go:Get                      | ctx parameter; gocbcore Deadline = ctx.Deadline()      | result→documentCh, err→errorCh                    | documentCh, errorCh cap 1 | yes                  | yes
 doc_op.go:CreatePath               | ctx parameter; gocbcore Deadline = ctx.Deadline()      | err→ch                                            | ch cap 1                  | yes                  | yes
 rollback_mitigation.go:waitFirstConfig | context.Background() – NO ctx deadline; gocbcore deadline now+config.ConnectionTimeout | r.configSnapshot = result.Snapshot UNGUARDED (result is nil when err != nil); err→ch | ch cap 1 | yes | yes

Scope column of the table (`Wrapper.scope`, go/ast fact `scope=`): where `NewAsyncOp(ctx)` and the
`context.WithTimeout` that makes its ctx stand relative to the gocbcore request whose callback
resolves the asyncOp.  14 sites issue ONE request straight in the function body (`single`).
client.go:GetVBucketSeqNos issues one GET_ALL_VB_SEQNOS request per KV node × collection id, each in
its own errgroup closure, and ctx, asyncOp and result channel are created INSIDE that closure
(l.505-512): `per-request`.  `shared` (asyncOp or ctx created outside the closure, so that several
requests signal one buffer-1 channel) is the shape refuted in Props/C20Multi.lean; no site has it.

Callers of the ctx-parameter wrappers (where their deadline comes from):

 metadata.go  cbMetadata.Save  → UpsertXattrs, CreateDocument : errgroup.WithContext(WithTimeout(config.Checkpoint.Timeout)) – the ctx is also CANCELLED when a sibling vBucket write fails
 metadata.go  cbMetadata.Load  → GetXattrs                    : context.Background()  – no ctx deadline, only gocbcore's 5 s
 metadata.go  cbMetadata.Clear → DeleteDocument               : WithTimeout(config.Checkpoint.Timeout), one ctx for the whole loop
 membership.go register        → CreatePath, UpdateDocument, CreateDocument : WithTimeout(membershipConfig.Timeout), one ctx for the sequence
 membership.go heartbeat       → UpdateDocument               : WithTimeout(membershipConfig.Timeout)
 membership.go monitor         → Get (×N), UpdateDocument     : WithTimeout(membershipConfig.Timeout), one ctx for the sequence
 client.go    GetCollectionIDs → getCollectionID (×N)         : WithTimeout(time.Minute), one ctx for the loop

Not in the pattern (no asyncOp; bare `<-ch`, the only deadline is gocbcore's own):
 client.go:CreateAgent and client.go:DcpConnect – `WaitUntilReady(time.Now().Add(connectionTimeout), …, func(_, err){ ch <- err })`, ch cap 1.

Abstractions of this model
 * time is a `Nat` clock; "the deadline has passed" means the Go runtime has fired
   the context's timer (`ctx.Err() != nil`), which real time guarantees only *at or
   after* the deadline;
 * payloads (`[]byte`, failover logs, …) are a `Nat`; server error statuses are a `Nat`;
 * the callback's stores into captured variables and its `Resolve()` are one atomic
   step (`srvResolve`) – they are sequential in one goroutine and nobody reads the
   captured variables before the signal has been received;
 * data channel and error channel (GetXattrs, Get) are one buffer (`resultBuf`);
 * blocking is "not enabled": `step` returns `none`;
 * gocbcore's contract "the callback runs at most once, and not at all when the
   issuing call returned an error" is NOT built in for the first half: a second
   callback invocation is an action; theorems that need the contract carry the
   hypothesis `AtMostOnce`.
-/
namespace GoDcp.AsyncOp

/-- `ctx.Err()` when non-nil -/
inductive CtxErr | deadlineExceeded | canceled
  deriving DecidableEq, Repr

/-- what gocbcore hands to the callback: `err == nil` with a payload, or an error status -/
inductive Outcome | ok (data : Nat) | err (code : Nat)
  deriving DecidableEq, Repr

/-- return value of `Wait` (async_op.go l.23-35) -/
inductive WaitRes
  | nil_                 -- `m.ctx.Err()` was nil
  | ctx (e : CtxErr)     -- `m.ctx.Err()`
  | imm (code : Nat)     -- l.24-26: the error of the issuing call, handed back
  deriving DecidableEq, Repr

/-- what the wrapper finally returns to go-dcp -/
inductive Final
  | ok (data : Nat)      -- (data, nil)
  | okEmpty              -- (zero value, nil): success WITHOUT a confirming server outcome
  | srvErr (code : Nat)  -- (_, the callback's err)
  | ctxErr (e : CtxErr)  -- (_, ctx.Err())
  | immErr (code : Nat)  -- (_, the issuing call's err)
  deriving DecidableEq, Repr

def Final.isSuccess : Final → Bool
  | .ok _ | .okEmpty => true
  | _ => false

/-- program counter of the goroutine that called the wrapper -/
inductive WPc
  | notStarted                 -- before `opm.Wait(op, nil)`
  | immediateErr (code : Nat)  -- before `opm.Wait(op, err)` with err != nil
  | selecting                  -- at the `select` (l.28)
  | cancelled                  -- took `<-m.ctx.Done()`, `op.Cancel()` done (l.29-30); about to read `ctx.Err()`
  | signalled                  -- took `<-m.signal` (l.31); about to read `ctx.Err()`
  | returned (r : WaitRes)     -- `Wait` returned r (l.34)
  deriving DecidableEq, Repr

/-- gocbcore's side of one operation -/
inductive SPc
  | pending                    -- operation in flight, callback not run
  | resolved (o : Outcome)     -- callback ran up to and including `opm.Resolve()`
  | completed (o : Outcome)    -- callback returned (result pushed)
  | never                      -- issuing call failed: no callback will come
  deriving DecidableEq, Repr

/-- the parameters in which the wrappers differ -/
structure Shape where
  /-- callback sends the outcome on a buffer-1 channel after `Resolve`; wrapper reads it after `Wait == nil` -/
  resultChan : Bool
  /-- the callback's `err` reaches the wrapper's return value -/
  propagatesErr : Bool
  /-- the callback dereferences `result` before looking at `err` (waitFirstConfig,
      rollback_mitigation.go l.388 `r.configSnapshot = result.Snapshot`).  gocbcore calls
      `cb(nil, err)` on its deadline / shutdown / cancel (kvmux.go WaitForConfigSnapshot), so an
      error outcome is a nil dereference in gocbcore's goroutine.  Replayed on the real code
      (real gocbcore agent with an unreachable seed, ConnectionTimeout 300 ms,
      `NewRollbackMitigation(...).Start()`): SIGSEGV at rollback_mitigation.go:388, not
      recoverable by the caller – instead of the logged `panic(err)` that `Start` intends. -/
  cbDerefsResult : Bool := false
  deriving DecidableEq, Repr

structure State where
  shape : Shape
  imm : Option Nat               -- error returned by the issuing call, if any (static)
  deadline : Option Nat          -- ctx deadline; `none` = context.Background() (static)
  now : Nat
  cancelled : Bool               -- ctx was cancelled by its owner before the deadline fired
  signalFull : Bool              -- occupancy of `signal` (cap 1)
  resultBuf : Option Outcome     -- occupancy of the result channel(s) (cap 1)
  stored : Option Outcome        -- variables captured by the callback (written before Resolve)
  wpc : WPc
  spc : SPc
  cancelCalls : Nat              -- number of `op.Cancel()` calls
  final : Option Final           -- wrapper's return value once it returned
  cbOutcomes : List Outcome      -- ghost: outcomes of all callback invocations so far
  crashed : Bool                 -- failstop: a Go panic in the callback goroutine killed the process
  deriving DecidableEq, Repr

def State.cancelCalled (s : State) : Bool := decide (0 < s.cancelCalls)

/-- `ctx.Err()` as a function of the three things it depends on -/
def ctxErrOf (cancelled : Bool) (deadline : Option Nat) (now : Nat) : Option CtxErr :=
  if cancelled then some .canceled
  else match deadline with
    | some d => if d ≤ now then some .deadlineExceeded else none
    | none => none

/-- `m.ctx.Err()` -/
@[reducible] def ctxErr (s : State) : Option CtxErr := ctxErrOf s.cancelled s.deadline s.now

structure Cfg where
  shape : Shape
  imm : Option Nat := none
  deadline : Option Nat
  deriving DecidableEq, Repr

def init (c : Cfg) : State :=
  { shape := c.shape, imm := c.imm, deadline := c.deadline, now := 0, cancelled := false,
    signalFull := false, resultBuf := none, stored := none,
    wpc := (match c.imm with | some e => .immediateErr e | none => .notStarted),
    spc := (match c.imm with | some _ => .never | none => .pending),
    cancelCalls := 0, final := none, cbOutcomes := [], crashed := false }

inductive Action
  | tick                       -- one unit of time passes
  | ctxCancel                  -- the ctx owner cancels (errgroup sibling failure, explicit cancel)
  | srvResolve (o : Outcome)   -- gocbcore invokes the callback with o: stores, then `opm.Resolve()`
  | srvPush                    -- the callback continues: `ch <- err` (and `documentCh <- …`), returns
  | waiterStep (pickCtx : Bool)  -- next step of the calling goroutine; the Bool resolves the `select` when both cases are ready
  deriving DecidableEq, Repr

/-- what the wrapper makes of a callback outcome it has read -/
def finalOf (sh : Shape) : Outcome → Final
  | .ok d => .ok d
  | .err c => if sh.resultChan && sh.propagatesErr then .srvErr c else .okEmpty

/-- one atomic step; `none` = the step is not enabled (a Go channel operation that
    would block, or the goroutine is not at such a point) -/
def step (s : State) (a : Action) : Option State :=
  if s.crashed then none else
  match a with
  | .tick => some { s with now := s.now + 1 }
  | .ctxCancel =>
    -- cancel() of an already expired/cancelled ctx is a no-op
    some (if (ctxErr s).isSome then s else { s with cancelled := true })
  | .srvResolve o =>
    match s.spc with
    | .pending | .completed _ =>      -- `.completed`: a SECOND invocation (outside gocbcore's contract)
      if s.shape.cbDerefsResult && (match o with | .err _ => true | .ok _ => false) then
        -- rollback_mitigation.go l.388: `result.Snapshot` with result == nil
        some { s with crashed := true }
      else if s.signalFull then none  -- `m.signal <- struct{}{}` on a full buffer: blocks
      else some { s with spc := .resolved o, signalFull := true, stored := some o,
                         cbOutcomes := s.cbOutcomes ++ [o] }
    | _ => none
  | .srvPush =>
    match s.spc with
    | .resolved o =>
      if s.shape.resultChan then
        if s.resultBuf.isSome then none  -- `ch <- err` on a full buffer: blocks
        else some { s with spc := .completed o, resultBuf := some o }
      else some { s with spc := .completed o }
    | _ => none
  | .waiterStep pickCtx =>
    match s.wpc with
    | .notStarted => some { s with wpc := .selecting }              -- l.24: err == nil
    | .immediateErr c => some { s with wpc := .returned (.imm c) }  -- l.24-26
    | .selecting =>                                                  -- l.28-32
      if (ctxErr s).isSome && (pickCtx || !s.signalFull) then
        some { s with wpc := .cancelled, cancelCalls := s.cancelCalls + 1 }
      else if s.signalFull then
        some { s with wpc := .signalled, signalFull := false }
      else none                                                      -- select blocks
    | .cancelled | .signalled =>                                     -- l.34
      some { s with wpc := .returned (match ctxErr s with | some e => .ctx e | none => .nil_) }
    | .returned r =>
      if s.final.isSome then none else
      match r with
      | .imm c => some { s with final := some (.immErr c) }
      | .ctx e => some { s with final := some (.ctxErr e) }
      | .nil_ =>
        if s.shape.resultChan then
          match s.resultBuf with
          | some o => some { s with final := some (finalOf s.shape o), resultBuf := none }
          | none => none                                             -- `<-ch` blocks until srvPush
        else
          -- GetVBucketSeqNos shape: `return opm.Wait(op, err)`; data = whatever was stored
          some { s with final := some (match s.stored with
                                       | some o => finalOf s.shape o
                                       | none => .okEmpty) }

/-- a disabled action is skipped (the goroutine stays where it is) -/
def stepD (s : State) (a : Action) : State := (step s a).getD s

def run (s : State) (acts : List Action) : State := acts.foldl stepD s

def Action.isResolve : Action → Bool
  | .srvResolve _ => true
  | _ => false

/-- gocbcore's contract: the callback of one operation is invoked at most once -/
def AtMostOnce (acts : List Action) : Prop := acts.countP Action.isResolve ≤ 1

instance (acts : List Action) : Decidable (AtMostOnce acts) := by unfold AtMostOnce; infer_instance

/-- a callback reaching `opm.Resolve()` in this state would block -/
def resolveWouldBlock (s : State) : Bool := s.signalFull
/-- a callback reaching `ch <- err` in this state would block -/
def pushWouldBlock (s : State) : Bool := s.shape.resultChan && s.resultBuf.isSome

/-- what the caller of the wrapper / of `Wait` can see -/
structure Visible where
  wpc : WPc
  final : Option Final
  cancelCalls : Nat
  deriving DecidableEq, Repr

def visible (s : State) : Visible := ⟨s.wpc, s.final, s.cancelCalls⟩

/-- waiter steps still to go until the wrapper has returned -/
def remaining (s : State) : Nat :=
  match s.wpc with
  | .notStarted => 4
  | .selecting => 3
  | .immediateErr _ => 2
  | .cancelled | .signalled => 2
  | .returned _ => if s.final.isSome then 0 else 1

/-! ## the wrapper table as data -/

inductive DeadlineSrc
  | const (expr : String)        -- context.WithTimeout(context.Background(), <expr>) with a constant
  | config (field : String)      -- context.WithTimeout(context.Background(), <config field>)
  | ctxParam                     -- the caller's ctx
  | background                   -- context.Background(): no ctx deadline at all
  deriving DecidableEq, Repr

/-- where the callback leaves the result -/
inductive Store
  | errChan                      -- `ch <- err`
  | dataAndErrChan               -- `documentCh <- …; errorCh <- err`
  | capturedAndErrChan           -- captured variable before Resolve, `ch <- err`
  | capturedOnly                 -- captured variable only, err dropped
  deriving DecidableEq, Repr

/-- where the asyncOp (and the ctx it watches) is created relative to the request it serves -/
inductive Scope
  | single        -- one request per call, issued in the function body
  | perRequest    -- several requests per call (loop / closure), asyncOp + ctx created inside the same closure
  | shared        -- several requests per call, asyncOp or ctx created outside: ONE signal channel for all
  deriving DecidableEq, Repr

def Scope.show : Scope → String
  | .single => "single" | .perRequest => "per-request" | .shared => "shared"

structure Wrapper where
  site : String                  -- "<file>:<func>"
  deadline : DeadlineSrc
  deadlineExpr : String          -- as the fact pass prints it
  gocbDeadline : String          -- deadline handed to gocbcore itself ("" = none)
  store : Store
  /-- every channel the callback sends on is created with capacity ≥ 1 (`none`: no channel) -/
  buffered : Option Bool
  /-- every receive from those channels is after `Wait` returned nil (`none`: no channel) -/
  readsAfterWait : Option Bool
  propagatesErr : Bool
  cbDerefsResult : Bool := false
  scope : Scope := .single
  /-- a non-nil result of `opm.Wait(op, err)` is returned WITHOUT first receiving from a channel the
      callback sends on (go/ast fact `waitErrReturns=`): `err = opm.Wait(op, err); if err != nil { return …, err }`
      stands before every `<-ch`.  When gocbcore refuses the request at dispatch (ErrShutdown, ErrOverload,
      no route for the vBucket) no callback will ever run and `Wait` hands back the dispatch error at once
      (async_op.go l.24-26); a receive placed before that guard would block for ever (`stepRB`). -/
  returnsOnWaitError : Bool := true
  deriving DecidableEq, Repr

def wrappers : List Wrapper := [
  { site := "client.go:Ping", deadline := .config "s.config.HealthCheck.Timeout",
    deadlineExpr := "s.config.HealthCheck.Timeout", gocbDeadline := "ctx.Deadline()",
    store := .capturedAndErrChan, buffered := some true, readsAfterWait := some true, propagatesErr := true },
  { site := "client.go:GetVBucketSeqNos", deadline := .const "time.Second*60",
    deadlineExpr := "time.Second*60", gocbDeadline := "",
    store := .capturedAndErrChan, buffered := some true, readsAfterWait := some true, propagatesErr := true,
    scope := .perRequest },
  { site := "client.go:GetFailOverLogs", deadline := .const "time.Second*60",
    deadlineExpr := "time.Second*60", gocbDeadline := "",
    store := .capturedAndErrChan, buffered := some true, readsAfterWait := some true, propagatesErr := true },
  { site := "client.go:openStreamWithRollback", deadline := .const "time.Second*60",
    deadlineExpr := "time.Second*60", gocbDeadline := "",
    store := .capturedAndErrChan, buffered := some true, readsAfterWait := some true, propagatesErr := true },
  { site := "client.go:OpenStream", deadline := .const "time.Minute",
    deadlineExpr := "time.Minute", gocbDeadline := "",
    store := .capturedAndErrChan, buffered := some true, readsAfterWait := some true, propagatesErr := true },
  { site := "client.go:CloseStream", deadline := .const "time.Second*60",
    deadlineExpr := "time.Second*60", gocbDeadline := "",
    store := .errChan, buffered := some true, readsAfterWait := some true, propagatesErr := true },
  { site := "client.go:getCollectionID", deadline := .ctxParam,
    deadlineExpr := "ctx-param", gocbDeadline := "time.Now().Add(time.Second*30)",
    store := .capturedAndErrChan, buffered := some true, readsAfterWait := some true, propagatesErr := true },
  { site := "doc_op.go:CreateDocument", deadline := .ctxParam,
    deadlineExpr := "ctx-param", gocbDeadline := "ctx.Deadline()",
    store := .errChan, buffered := some true, readsAfterWait := some true, propagatesErr := true },
  { site := "doc_op.go:UpdateDocument", deadline := .ctxParam,
    deadlineExpr := "ctx-param", gocbDeadline := "ctx.Deadline()",
    store := .errChan, buffered := some true, readsAfterWait := some true, propagatesErr := true },
  { site := "doc_op.go:DeleteDocument", deadline := .ctxParam,
    deadlineExpr := "ctx-param", gocbDeadline := "ctx.Deadline()",
    store := .errChan, buffered := some true, readsAfterWait := some true, propagatesErr := true },
  { site := "doc_op.go:UpsertXattrs", deadline := .ctxParam,
    deadlineExpr := "ctx-param", gocbDeadline := "ctx.Deadline()",
    store := .errChan, buffered := some true, readsAfterWait := some true, propagatesErr := true },
  { site := "doc_op.go:GetXattrs", deadline := .ctxParam,
    deadlineExpr := "ctx-param", gocbDeadline := "time.Now().Add(time.Second*5)",
    store := .dataAndErrChan, buffered := some true, readsAfterWait := some true, propagatesErr := true },
  { site := "doc_op.go:Get", deadline := .ctxParam,
    deadlineExpr := "ctx-param", gocbDeadline := "ctx.Deadline()",
    store := .dataAndErrChan, buffered := some true, readsAfterWait := some true, propagatesErr := true },
  { site := "doc_op.go:CreatePath", deadline := .ctxParam,
    deadlineExpr := "ctx-param", gocbDeadline := "ctx.Deadline()",
    store := .errChan, buffered := some true, readsAfterWait := some true, propagatesErr := true },
  { site := "rollback_mitigation.go:waitFirstConfig", deadline := .background,
    deadlineExpr := "none", gocbDeadline := "time.Now().Add(r.config.ConnectionTimeout)",
    store := .capturedAndErrChan, buffered := some true, readsAfterWait := some true, propagatesErr := true,
    cbDerefsResult := true }
]

/-- callers that hand a ctx to a ctx-parameter wrapper: (caller, wrapper site, ctx deadline of the caller) -/
def ctxCallers : List (String × String × DeadlineSrc) := [
  ("metadata.go:Save", "doc_op.go:UpsertXattrs", .config "s.config.Checkpoint.Timeout"),
  ("metadata.go:Save", "doc_op.go:CreateDocument", .config "s.config.Checkpoint.Timeout"),
  ("metadata.go:Load", "doc_op.go:GetXattrs", .background),
  ("metadata.go:Clear", "doc_op.go:DeleteDocument", .config "s.config.Checkpoint.Timeout"),
  ("membership.go:register", "doc_op.go:CreatePath", .config "h.membershipConfig.Timeout"),
  ("membership.go:register", "doc_op.go:UpdateDocument", .config "h.membershipConfig.Timeout"),
  ("membership.go:register", "doc_op.go:CreateDocument", .config "h.membershipConfig.Timeout"),
  ("membership.go:heartbeat", "doc_op.go:UpdateDocument", .config "h.membershipConfig.Timeout"),
  ("membership.go:monitor", "doc_op.go:Get", .config "h.membershipConfig.Timeout"),
  ("membership.go:monitor", "doc_op.go:UpdateDocument", .config "h.membershipConfig.Timeout"),
  ("client.go:GetCollectionIDs", "client.go:getCollectionID", .const "time.Minute")
]

/-- the LTS parameters of a table row -/
def Wrapper.shape (w : Wrapper) : Shape :=
  { resultChan := w.buffered.isSome, propagatesErr := w.propagatesErr, cbDerefsResult := w.cbDerefsResult }

def optBit : Option Bool → String
  | none => "na"
  | some true => "1"
  | some false => "0"

/-- the line the go/ast fact pass of the harness prints for this row -/
def Wrapper.factLine (w : Wrapper) : String :=
  s!"buffered={optBit w.buffered} readsAfterWait={optBit w.readsAfterWait} propagatesErr={if w.propagatesErr then "1" else "0"} deadline={w.deadlineExpr} scope={w.scope.show} waitErrReturns={if w.returnsOnWaitError then "1" else "0"}"

def lookupSite (site : String) : Option Wrapper := wrappers.find? (·.site == site)

/-! ## calls that issue SEVERAL requests (client.go GetVBucketSeqNos l.503-556)

  eg := errgroup.Group{}                                   // l.484: no ctx – a failing worker cancels nobody
  for i := 1; i <= numNodes; i++ { for j … {
      eg.Go(func() error {                                 // one worker per request
          ctx, cancel := context.WithTimeout(context.Background(), time.Second*60)   // OWN ctx
          opm := NewAsyncOp(ctx)                           // OWN asyncOp (own signal channel)
          ch := make(chan error, 1)                        // OWN result channel
          op, err := s.dcpAgent.GetVbucketSeqnos(i, …, func(entries, err) { …; opm.Resolve(); ch <- err })
          if err != nil { return err }
          err = opm.Wait(op, err); if err != nil { return err }
          return <-ch
      })
  } }
  err = eg.Wait()                                          // l.550: all workers done; the FIRST non-nil error

Per-request model (`MState`): `n` independent instances of the single-operation LTS above, one
per request, plus errgroup's `errOnce` slot.  A global `tick` advances every instance's clock;
`req i a` is a step of request `i` (of its worker, its callback, its ctx owner – or its clock
alone: the contexts are created at slightly different moments).

Shared variant (`SState`, the hoisted shape): ONE ctx and ONE asyncOp – one `signal` channel of
capacity 1 – for all requests, while every request keeps its own result channel, worker and
callback.  Its step is the single-operation `step` applied to the view (shared part, request i),
so the two models differ in nothing but what is shared. -/

/-- replace element `i` by its image (no-op when out of range) -/
def modAt {α : Type} (f : α → α) : Nat → List α → List α
  | _, [] => []
  | 0, x :: xs => f x :: xs
  | i + 1, x :: xs => x :: modAt f i xs

inductive MAction
  | tick                        -- one unit of time passes for every request
  | req (i : Nat) (a : Action)  -- a step that concerns request `i` only
  deriving DecidableEq, Repr

structure MState where
  ops : List State              -- request i ↦ its own asyncOp / ctx / result channel / worker / callback
  firstErr : Option Final       -- errgroup.Group: `g.err`, written once (`errOnce`) by the first failing worker
  deriving DecidableEq, Repr

def minit (cfgs : List Cfg) : MState := { ops := cfgs.map init, firstErr := none }

/-- errgroup.Go l.: `if err := f(); err != nil { g.errOnce.Do(func() { g.err = err }) }`, evaluated
    at the step in which a worker's return value appears -/
def errOnce (fe : Option Final) (before after : Option Final) : Option Final :=
  match fe with
  | some f => some f
  | none =>
    match before, after with
    | none, some f => if f.isSuccess then none else some f
    | _, _ => none

def mstep (s : MState) : MAction → MState
  | .tick => { s with ops := s.ops.map (stepD · .tick) }
  | .req i a =>
    match s.ops[i]? with
    | none => s
    | some o =>
      { ops := modAt (fun _ => stepD o a) i s.ops,
        firstErr := errOnce s.firstErr o.final (stepD o a).final }

def mrun (s : MState) (acts : List MAction) : MState := acts.foldl mstep s

/-- the part of a schedule that request `i` sees -/
def proj (i : Nat) : List MAction → List Action
  | [] => []
  | .tick :: r => .tick :: proj i r
  | .req j a :: r => if j = i then a :: proj i r else proj i r

/-- what `GetVBucketSeqNos` returns: `(seqNos, nil)` or `(nil, eg.Wait())` -/
inductive CallRes
  | ok (data : List Nat)
  | err (f : Final)
  deriving DecidableEq, Repr

def dataOf : Option Final → Nat
  | some (.ok d) => d
  | _ => 0

/-- `eg.Wait()` returns once every worker has returned -/
def callResult (s : MState) : Option CallRes :=
  if s.ops.all (fun o => o.final.isSome) then
    some (match s.firstErr with
      | some f => .err f
      | none => .ok (s.ops.map fun o => dataOf o.final))
  else none

/-- callbacks of the call that are stuck in a channel send in this state -/
def blockedCallbacks (s : MState) : Nat :=
  s.ops.countP fun o => match o.spc with
    | .resolved _ => pushWouldBlock o
    | _ => false

/-! ### the shared variant -/

/-- what stays private to a request when the asyncOp is shared -/
structure SReq where
  resultBuf : Option Outcome
  stored : Option Outcome
  wpc : WPc
  spc : SPc
  cancelCalls : Nat
  final : Option Final
  cbOutcomes : List Outcome
  deriving DecidableEq, Repr

structure SState where
  shape : Shape
  deadline : Option Nat          -- the ONE ctx
  now : Nat
  cancelled : Bool
  signalFull : Bool              -- the ONE signal channel (cap 1) of the one asyncOp
  reqs : List SReq
  deriving DecidableEq, Repr

def sreq0 : SReq :=
  { resultBuf := none, stored := none, wpc := .notStarted, spc := .pending, cancelCalls := 0,
    final := none, cbOutcomes := [] }

def sinit (sh : Shape) (deadline : Option Nat) (n : Nat) : SState :=
  { shape := sh, deadline := deadline, now := 0, cancelled := false, signalFull := false,
    reqs := List.replicate n sreq0 }

/-- request `r` of the shared state as a state of the single-operation LTS -/
def sview (s : SState) (r : SReq) : State :=
  { shape := s.shape, imm := none, deadline := s.deadline, now := s.now, cancelled := s.cancelled,
    signalFull := s.signalFull, resultBuf := r.resultBuf, stored := r.stored, wpc := r.wpc, spc := r.spc,
    cancelCalls := r.cancelCalls, final := r.final, cbOutcomes := r.cbOutcomes, crashed := false }

def sreqOf (t : State) : SReq :=
  { resultBuf := t.resultBuf, stored := t.stored, wpc := t.wpc, spc := t.spc, cancelCalls := t.cancelCalls,
    final := t.final, cbOutcomes := t.cbOutcomes }

/-- one step; `none` = not enabled (the goroutine concerned is blocked or not at such a point) -/
def sstep (s : SState) : MAction → Option SState
  | .tick => some { s with now := s.now + 1 }
  | .req i a =>
    match s.reqs[i]? with
    | none => none
    | some r =>
      (step (sview s r) a).map fun t =>
        { s with now := t.now, cancelled := t.cancelled, signalFull := t.signalFull,
                 reqs := modAt (fun _ => sreqOf t) i s.reqs }

def sstepD (s : SState) (a : MAction) : SState := (sstep s a).getD s

def srun (s : SState) (acts : List MAction) : SState := acts.foldl sstepD s

/-- `eg.Wait()` has returned -/
def scallReturned (s : SState) : Bool := s.reqs.all fun r => r.final.isSome

/-! ## rejected at dispatch

`op, err := agent.X(opts, cb)` with `err != nil`: gocbcore refused the request before queueing it
(ErrShutdown after the agent was closed, ErrOverload with a full queue, no route for the vBucket).
No callback will ever run.  In the LTS above this is `Cfg.imm = some code`: the caller starts at
`WPc.immediateErr code`, gocbcore's side at `SPc.never` (no `srvResolve` is enabled from there),
`Wait` returns `.imm code` in ONE step (async_op.go l.24-26) and the wrapper returns `immErr code`
in the next, never looking at its result channel – every wrapper of the table is written
`err = opm.Wait(op, err); if err != nil { return …, err }; … <-ch` (`Wrapper.returnsOnWaitError`).

The seeded shape (`stepRB`): a wrapper that receives from its result channel BEFORE it looks at
`Wait`'s error –

  waitErr := opm.Wait(op, err)
  err = <-ch                          // blocks until the callback has sent
  if err == nil { return data, nil }  // "an answer right at the deadline wins"
  if waitErr != nil { return nil, waitErr }
  return nil, err

It is `step` except at the wrapper's last step. -/

/-- the wrapper's last step in the seeded shape: whatever `Wait` returned, first `<-ch` -/
def stepRB (s : State) (a : Action) : Option State :=
  match a, s.wpc with
  | .waiterStep _, .returned r =>
    if s.crashed || s.final.isSome then none else
    match s.resultBuf with
    | none => none                                   -- `err = <-ch`: nothing there, blocks
    | some o =>
      some { s with resultBuf := none,
                    final := some (match o, r with
                      | .ok d, _ => .ok d
                      | .err _, .ctx e => .ctxErr e
                      | .err _, .imm c => .immErr c
                      | .err c, .nil_ => .srvErr c) }
  | _, _ => step s a

def stepRBD (s : State) (a : Action) : State := (stepRB s a).getD s

def runRB (s : State) (acts : List Action) : State := acts.foldl stepRBD s

end GoDcp.AsyncOp
