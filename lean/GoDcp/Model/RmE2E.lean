import GoDcp.Model.MinSeqNo
import GoDcp.Model.Chunk
/-!
M4e — the WHOLE rollback-mitigation path of `stream.go`, composed from the existing models
(stream `c07e2e`, harness/l2_rm_e2e.go: real `dcp.NewDcp` + `Start()` against a simulated cluster).

Per vBucket `v` of the open session one `MinSeqNo.Sys` (= replica table of
`rollbackMitigation.persistedSeqNos[v]` + observer gate of `stream.observers[v]`, coupled by
`stream.dispatchPersistSeqNo`: `s.observers.Load(persistSeqNo.VbID)` → `SetPersistSeqNo`, stream.go:329-335).
"The SAME vBucket" is the glue: `Sess.report` updates table AND threshold of the one component stored
under `v`.

What the composition adds to the two halves:

* `Conn`       gocbcore processes the DCP data packets of one connection (= one KV node) on ONE queue
               goroutine (memdclient.go `dcpBufferQ`), and the observer callbacks run on it: an event
               that spins in `waitRollbackMitigation` (observer.go:104-112) holds back everything that
               was pushed after it on the same connection, also events of OTHER vBuckets whose own
               threshold covers them.  `drainConn` = that goroutine: process from the head while the
               head's gate is open.
* `Sess`       one `stream.Open()` … `stream.Close()` (stream.go:222-272, 414-450): the vBucket range of
               `vBucketDiscovery.Get()`, a fresh `NewRollbackMitigation` (tables reset, every listed copy
               is polled and reports) and fresh observers (threshold 0); `Close` = `rollbackMitigation.Stop()`
               (no report reaches a table any more), `observer.Close()` for every vBucket (waiting calls
               return without delivery), streams closed, `s.observers = nil`.
* `St`         the cluster (`truth`: what every copy answers to OBSERVE_SEQNO), the open session, what
               closed sessions delivered, and a ghost history of the cluster tables (`chist`).

The harness keeps every OBSERVE_SEQNO answer at (0,0) until `stream.Open` has stored the observers
(finding F10 – reports that arrive earlier are dropped and not repeated – is outside C07), so every
component is `attached`.  One copy changes per `persist` step and the step ends after two complete poll
rounds: one callback = one atomic `Act.report` (the ATOMIC CALLBACKS assumption of C07).
Core Lean only.
-/
namespace GoDcp
namespace RmE2E
open MinSeqNo

/-- the simulated cluster of one case -/
structure Spec where
  kv : Nat := 1
  nvb : Nat := 4
  /-- dynamic membership (a rebalance can re-open another range) or static 1/1 -/
  dyn : Bool := false
  m0 : Nat := 1
  t0 : Nat := 1
  /-- `/pools/default/buckets/<b>` reports bucketType ephemeral -/
  eph : Bool := false
  /-- vBucket map: per vBucket the KV node of every copy index (0 = active), `none` = unlisted (-1) -/
  rows : List (List (Option Nat)) := []
deriving Repr, Inhabited

inductive Step
  | start
  /-- the active node pushes SNAPSHOT_MARKER(ms,me) and one MUTATION per seqno on `vb`'s stream -/
  | push (vb ms me : Nat) (qs : List Nat)
  /-- from now on KV node `node` answers (uuid, seq) to OBSERVE_SEQNO of `vb`; two poll rounds follow -/
  | persist (node vb uuid seq : Nat)
  | wait
  /-- membership information `m`/`t` on the bus → `stream.Rebalance()` → Close + Open on the new range.
      `late`: see `Sess.late` (chosen by the scheduler, not by the script) -/
  | reb (m t : Nat) (late : List (Nat × Nat))
  | close (late : List (Nat × Nat))
deriving Repr, Inhabited, DecidableEq

/-- the DCP queue of one connection: (vBucket, event) in arrival order, head = the packet the queue
    goroutine is working on -/
abbrev Conn := List (Nat × SrvEv)

/-- one open stream session -/
structure Sess where
  lo : Nat
  hi : Nat
  /-- `persistedSeqNos[v]` + `observers[v]` for every assigned vBucket -/
  vbs : List (Nat × Sys) := []
  /-- per KV node the DCP connection's queue -/
  conns : List (Nat × Conn) := []
deriving Repr, Inhabited

structure St where
  spec : Spec := {}
  /-- every `SetPersist` so far, newest first: ((vBucket, copy index), (vbUUID, persisted seqno)) -/
  truth : List ((Nat × Nat) × (Nat × Nat)) := []
  cur : Option Sess := none
  /-- (vBucket, event) handed to the listener by sessions that are closed now -/
  past : List (Nat × SrvEv) := []
  started : Bool := false
  /-- ghost: (vBucket, cluster table) after every step so far -/
  chist : List (Nat × Table) := []
deriving Repr, Inhabited

/-! ### the cluster as the rollback mitigation sees it -/

def rowOf (sp : Spec) (v : Nat) : List (Option Nat) := sp.rows.getD v []

/-- what the copy at index `i` of a row would make of its table entry: unlisted → absent,
    listed → what the copy answers -/
def entryOf (row : List (Option Nat)) (tr : Nat → Nat × Nat) (i : Nat) : Replica :=
  match row.getD i none with
  | none => ⟨0, 0, true⟩
  | some _ => ⟨(tr i).1, (tr i).2, false⟩

/-- the table a poll round that reaches every listed copy ends with -/
def clusterTable (row : List (Option Nat)) (tr : Nat → Nat × Nat) : Table :=
  (List.range row.length).map (entryOf row tr)

/-- indices `markAbsentInstances` marks: `VbucketToServer(vb, idx) < 0` -/
def absentIdx (row : List (Option Nat)) : List Nat :=
  (List.range row.length).filter fun i => (row.getD i none).isNone

/-- first poll round of a fresh instance: every listed copy reports what it answers (index order;
    the result does not depend on the order: every intermediate minimum is 0) -/
def reportActs (row : List (Option Nat)) (tr : Nat → Nat × Nat) : List Act :=
  (List.range row.length).filterMap fun i =>
    match row.getD i none with
    | some _ => some (.report i (tr i).1 (tr i).2)
    | none => none

/-- `reset` + `markAbsentInstances` + observers stored + first poll round -/
def initV (row : List (Option Nat)) (tr : Nat → Nat × Nat) : Sys :=
  (Sys.init (row.length - 1) (absentIdx row)).run (reportActs row tr)

/-- what copy `i` of vBucket `v` answers to OBSERVE_SEQNO: the last `SetPersist`, (0,0) if never set -/
def St.ans (σ : St) (v i : Nat) : Nat × Nat :=
  ((σ.truth.find? fun w => w.1.1 == v && w.1.2 == i).map (·.2)).getD (0, 0)

def St.ctab (σ : St) (v : Nat) : Table := clusterTable (rowOf σ.spec v) (σ.ans v)

/-- the copy index of `node` in a row -/
def idxOf (row : List (Option Nat)) (node : Nat) : Option Nat :=
  (List.range row.length).find? fun i => row.getD i none == some node

/-- the KV node that streams `v` (index 0 of the row) -/
def activeNode (sp : Spec) (v : Nat) : Option Nat := ((rowOf sp v).getD 0 none)

/-! ### association lists -/

def getV (l : List (Nat × Sys)) (v : Nat) : Option Sys := (l.find? (·.1 == v)).map (·.2)

def updV (l : List (Nat × Sys)) (v : Nat) (y : Sys) : List (Nat × Sys) :=
  l.map fun p => if p.1 == v then (v, y) else p

def getC (l : List (Nat × Conn)) (n : Nat) : Conn := ((l.find? (·.1 == n)).map (·.2)).getD []

def putC (l : List (Nat × Conn)) (n : Nat) (q : Conn) : List (Nat × Conn) :=
  if l.any (·.1 == n) then l.map fun p => if p.1 == n then (n, q) else p else l ++ [(n, q)]

/-! ### the queue goroutine -/

/-- the observer callback of event `e` does not return: it spins in `waitRollbackMitigation`
    (= `Props/C07.blk`, see `Props/C07E2E.held_eq_blk`) -/
def held (o : Obs) (e : SrvEv) : Bool :=
  match (Obs.step gcfg o e).2 with
  | .blocked => true
  | _ => false

/-- the queue goroutine of one connection (memdclient.go `run`, first goroutine): take the head, call its
    stream's observer; while that call spins nothing behind it is looked at.  An event whose stream has no
    observer (never queued by `push`) is skipped. -/
def drainConn (vbs : List (Nat × Sys)) : Conn → List (Nat × Sys) × Conn
  | [] => (vbs, [])
  | (v, e) :: rest =>
    match getV vbs v with
    | none => drainConn vbs rest
    | some y =>
      if held y.gate.obs e then (vbs, (v, e) :: rest)
      else drainConn (updV vbs v (y.step (.arrive e))) rest

/-- all connections, one after the other (they share no vBucket: a vBucket streams from its active node) -/
def settleConns (vbs : List (Nat × Sys)) : List (Nat × Conn) → List (Nat × Sys) × List (Nat × Conn)
  | [] => (vbs, [])
  | (n, q) :: cs =>
    let r := drainConn vbs q
    let r2 := settleConns r.1 cs
    (r2.1, (n, r.2) :: r2.2)

namespace Sess

def assigned (s : Sess) (v : Nat) : Bool := (getV s.vbs v).isSome

/-- every queue goroutine runs until its head is held or its queue is empty -/
def settle (s : Sess) : Sess :=
  let r := settleConns s.vbs s.conns
  { s with vbs := r.1, conns := r.2 }

/-- the node writes packets on the stream of `v` (connection of node `n`) -/
def enqueue (s : Sess) (n v : Nat) (evs : List SrvEv) : Sess :=
  { s with conns := putC s.conns n (getC s.conns n ++ evs.map fun e => (v, e)) }

/-- the observe callback of copy `i` of `v` with a new answer: table update, `getMinSeqNo`,
    `dispatchPersistSeqNo` → `observers.Load(v)` → `SetPersistSeqNo` – all on the component of `v` -/
def report (s : Sess) (v i u q : Nat) : Sess :=
  match getV s.vbs v with
  | some y => { s with vbs := updV s.vbs v (y.step (.report i u q)) }
  | none => s

/-- `stream.Close` once every observer is closed: `rollbackMitigation.Stop()`, `observer.Close()` for every vBucket;
    the queue goroutines then run through everything that is still queued for the closed streams (what got through
    while the observers were being closed: `late`) -/
def closeAll (s : Sess) : Sess :=
  ({ s with vbs := s.vbs.map fun p => (p.1, p.2.step .close) } : Sess).settle

/-- key of a queued event: marker → its START seqno, document → its seqno (the pushes of a vBucket have
    increasing keys) -/
def evKey : SrvEv → Nat
  | .marker s _ => s
  | .doc d => d.seq
  | .seqAdv q => q
  | .sys _ q _ => q
  | .oso => 0

/-- the events of `v` with key ≤ `q` leave the queue through `v`'s observer, as long as that observer lets them pass;
    `go` = no event of `v` was left behind yet -/
def lateConn (v q : Nat) : Bool → Sys → Conn → Sys × Conn
  | _, y, [] => (y, [])
  | go, y, (w, e) :: rest =>
    if w == v then
      if go && decide (evKey e ≤ q) && !held y.gate.obs e then lateConn v q true (y.step (.arrive e)) rest
      else let r := lateConn v q false y rest; (r.1, (w, e) :: r.2)
    else let r := lateConn v q go y rest; (r.1, (w, e) :: r.2)

def lateConns (v q : Nat) (y : Sys) : List (Nat × Conn) → Sys × List (Nat × Conn)
  | [] => (y, [])
  | (n, c) :: cs =>
    let r := lateConn v q true y c
    let r2 := lateConns v q r.1 cs
    (r2.1, (n, r.2) :: r2.2)

/-- `stream.Close` closes the observers ONE AFTER THE OTHER (`s.observers.Range(… observer.Close())`, stream.go:423-426)
    while the queue goroutines run: when the observer of a held head is closed, its call returns, and the events
    queued behind it reach observers that are not closed yet – those whose own gate is open ARE handed to the listener.
    Which of them make it depends on the iteration order of the map and on the scheduler; `late v q` = "the queued
    events of `v` up to the mutation `q` got through before `v`'s observer was closed".  Every choice is allowed for
    which the events pass `v`'s OWN gate (over-approximation: closing orders are not checked for consistency across
    connections); `late = []` is the atomic close. -/
def late (s : Sess) (v q : Nat) : Sess :=
  match getV s.vbs v with
  | none => s
  | some y =>
    let r := lateConns v q y s.conns
    { s with vbs := updV s.vbs v r.1, conns := r.2 }

def lates (s : Sess) (l : List (Nat × Nat)) : Sess := l.foldl (fun s p => s.late p.1 p.2) s

/-- (vBucket, event) handed to the listener in this session, vBucket by vBucket -/
def delivered (s : Sess) : List (Nat × SrvEv) :=
  s.vbs.flatMap fun p => p.2.gate.delivered.map fun d => (p.1, d.2)

/-- document events still in a queue (parked at a gate or behind a parked event) -/
def heldDocs (s : Sess) : List (Nat × SrvEv) :=
  (s.conns.flatMap (·.2)).filter fun p => match p.2 with | .doc _ => true | _ => false

end Sess

/-- `stream.Open()` on the range `lo..hi` (`reset` makes `numReplicas + 1 ≥ 1` entries per vBucket: a vBucket
    without a row does not exist) -/
def mkSess (σ : St) (lo hi : Nat) : Sess :=
  { lo := lo, hi := hi,
    vbs := ((List.range σ.spec.nvb).filter fun v => lo ≤ v && v ≤ hi && !(rowOf σ.spec v).isEmpty).map fun v =>
      (v, initV (rowOf σ.spec v) (σ.ans v)),
    conns := (List.range σ.spec.kv).map fun n => (n, []) }

/-- `vBucketDiscovery.Get()` for member `m` of `t` -/
def rangeOf (σ : St) (m t : Nat) : Nat × Nat := Chunk.memberRangeFast σ.spec.nvb t m

def docEv (q : Nat) : SrvEv := .doc { kind := .mu, seq := q, cas := 0, key := "", coll := 0, payload := "" }

namespace St

/-- ghost: remember the cluster table of every vBucket -/
def record (σ : St) : St :=
  { σ with chist := σ.chist ++ (List.range σ.spec.nvb).map fun v => (v, σ.ctab v) }

/-- `SetPersist` of the simulated node -/
def setTruth (σ : St) (v i u q : Nat) : St :=
  { σ with truth := ((v, i), (u, q)) :: σ.truth }

def core (σ : St) : Step → St
  | .start =>
    if σ.started then σ else
    let r := rangeOf σ σ.spec.m0 σ.spec.t0
    { σ with started := true, cur := some (mkSess σ r.1 r.2) }
  | .push v ms me qs =>
    match σ.cur with
    | none => σ
    | some s =>
      if !s.assigned v then σ else
      match activeNode σ.spec v with
      | none => σ
      | some n => { σ with cur := some ((s.enqueue n v (.marker ms me :: qs.map docEv)).settle) }
  | .persist node v u q =>
    match idxOf (rowOf σ.spec v) node with
    | none => σ     -- that node holds no copy of `v`: nobody asks it
    | some i =>
      let σ1 := σ.setTruth v i u q
      match σ.cur with
      | none => σ1
      | some s => { σ1 with cur := some ((s.report v i u q).settle) }
  | .wait => { σ with cur := σ.cur.map Sess.settle }
  | .reb m t late =>
    match σ.cur with
    | none => σ
    | some s =>
      let r := rangeOf σ m t
      { σ with past := σ.past ++ (s.lates late).closeAll.delivered, cur := some (mkSess σ r.1 r.2) }
  | .close late =>
    match σ.cur with
    | none => σ
    | some s => { σ with past := σ.past ++ (s.lates late).closeAll.delivered, cur := none }

def step (σ : St) (a : Step) : St := (σ.core a).record

def run (σ : St) (as : List Step) : St := as.foldl step σ

/-- everything handed to the listener so far -/
def delivered (σ : St) : List (Nat × SrvEv) :=
  σ.past ++ (match σ.cur with | some s => s.delivered | none => [])

/-- the threshold `observers[v].persistSeqNo` of the open session -/
def thr (σ : St) (v : Nat) : Nat :=
  match σ.cur with
  | some s => match getV s.vbs v with | some y => y.gate.obs.persist | none => 0
  | none => 0

end St

/-- start state of a case: all copies answer (0,0) -/
def init (sp : Spec) : St := ({ spec := sp } : St).record

/-! ### the ephemeral variant: `IsEphemeral()` → `config.RollbackMitigation.Disabled = true` (stream.go:235-237):
    no instance, no polling, `canForward` does not wait.  Only what the listener sees is modelled. -/

structure EphSt where
  nvb : Nat
  m0 : Nat := 1
  t0 : Nat := 1
  range : Option (Nat × Nat) := none
  started : Bool := false
  delivered : List (Nat × Nat) := []
deriving Repr, Inhabited

def EphSt.step (σ : EphSt) : Step → EphSt
  | .start => if σ.started then σ else { σ with started := true, range := some (Chunk.memberRangeFast σ.nvb σ.t0 σ.m0) }
  | .push v ms me qs =>
    match σ.range with
    | some (lo, hi) =>
      if lo ≤ v && v ≤ hi && v < σ.nvb then
        { σ with delivered := σ.delivered ++ (qs.filter fun q => ms ≤ q && q ≤ me).map fun q => (v, q) }
      else σ
    | none => σ
  | .reb m t _ => match σ.range with
    | some _ => { σ with range := some (Chunk.memberRangeFast σ.nvb t m) }
    | none => σ
  | .close _ => { σ with range := none }
  | _ => σ

end RmE2E
end GoDcp
