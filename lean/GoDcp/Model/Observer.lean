import GoDcp.Model.Basic
/-!
M1 — the per-vBucket observer (`couchbase/observer.go`), one function per
exported callback, in the order of the code: rollback-mitigation gate
(`waitRollbackMitigation`), catch-up (`needCatchup`, with its side effect),
skip window, snapshot membership (else panic), `closed` switch, counters.

Blocking at the gate is the output `blocked` with the state unchanged (the
real call spins in `waitRollbackMitigation`; the harness never issues a call
that would block except in its own goroutine – see the `gate` ops).
-/
namespace GoDcp

inductive DocKind | mu | de | ex
deriving DecidableEq, Repr, Inhabited

/-- system events: collection create/delete/flush/modify, scope create/delete -/
inductive SysKind | cc | cd | cf | cm | sc | sd
deriving DecidableEq, Repr, Inhabited

/-- a document event as sent by the server; `key`/`payload` are opaque (hex / text) -/
structure DocEv where
  kind : DocKind
  seq : Nat
  cas : Nat
  key : String
  coll : Nat
  payload : String
deriving DecidableEq, Repr, Inhabited

inductive SrvEv
  | marker (s e : Nat)
  | doc (d : DocEv)
  | seqAdv (seq : Nat)
  | sys (k : SysKind) (seq coll : Nat)
  | oso
deriving DecidableEq, Repr, Inhabited

/-- what the observer hands to the stream's `listen` -/
inductive LEvent
  | marker
  | doc (d : DocEv) (off : Offset) (collName : String) (t : Nat)
  | seqAdv (off : Offset)
  | sys (k : SysKind) (off : Offset)
  | oso
deriving DecidableEq, Repr, Inhabited

inductive ObsOut
  | blocked                 -- gate closed: `waitRollbackMitigation` keeps polling
  | dropCatchup             -- `needCatchup` said so
  | dropSkip                -- before `skipUntil`
  | dropClosed              -- `sendOrSkip` with `closed`
  | failstop                -- `IsInSnapshotMarker` panics
  | fwd (e : LEvent)
deriving DecidableEq, Repr, Inhabited

structure ObsCfg where
  rmEnabled : Bool := false
  skipUntil : Option Nat := none     -- unix seconds
  colls : List (Nat × String) := []
deriving Repr, Inhabited

structure Obs where
  snap : Option (Nat × Nat) := none
  uuid : Nat := 0
  latest : Nat := 0
  persist : Nat := 0
  catchNeed : Bool := false
  catchSeq : Nat := 0
  closed : Bool := false
  endClosed : Bool := false
  nMut : Nat := 0
  nDel : Nat := 0
  nExp : Nat := 0
deriving DecidableEq, Repr, Inhabited

namespace Obs

/-- `checkPersistSeqNo` -/
def gateOpen (c : ObsCfg) (o : Obs) (seq : Nat) : Bool :=
  !c.rmEnabled || seq ≤ o.persist || o.closed

/-- `needCatchup` : (result, new state) -/
def needCatchup (o : Obs) (seq : Nat) : Bool × Obs :=
  if !o.catchNeed then (false, o)
  else if seq ≥ o.catchSeq then (seq == o.catchSeq, { o with catchNeed := false })
  else (true, o)

/-- `convertToCollectionName` -/
def collName (c : ObsCfg) (id : Nat) : String :=
  match c.colls.lookup id with
  | some n => n
  | none => "_default"

/-- `isBeforeSkipWindow` with `eventTime = cas / 10^9` seconds -/
def beforeSkip (c : ObsCfg) (t : Nat) : Bool :=
  match c.skipUntil with
  | none => false
  | some s => t < s

/-- `IsInSnapshotMarker` (false = the code panics) -/
def inSnap (o : Obs) (seq : Nat) : Bool :=
  match o.snap with
  | none => false
  | some (s, e) => s ≤ seq && seq ≤ e

def mkOffset (o : Obs) (seq : Nat) : Offset :=
  match o.snap with
  | some (s, e) => ⟨o.uuid, seq, s, e, o.latest⟩
  | none => ⟨o.uuid, seq, 0, 0, o.latest⟩

/-- `sendOrSkip` -/
def send (o : Obs) (e : LEvent) : ObsOut := if o.closed then .dropClosed else .fwd e

def count (o : Obs) : DocKind → Obs
  | .mu => { o with nMut := o.nMut + 1 }
  | .de => { o with nDel := o.nDel + 1 }
  | .ex => { o with nExp := o.nExp + 1 }

/-- one server event through the observer -/
def step (c : ObsCfg) (o : Obs) : SrvEv → Obs × ObsOut
  | .marker s e =>
    if !gateOpen c o s then (o, .blocked) else
    let o' := { o with snap := some (s, e) }
    (o', send o' .marker)
  | .doc d =>
    if !gateOpen c o d.seq then (o, .blocked) else
    let (need, o1) := needCatchup o d.seq
    if need then (o1, .dropCatchup) else
    let t := d.cas / 1000000000
    if beforeSkip c t then (o1, .dropSkip) else
    if !inSnap o1 d.seq then (o1, .failstop) else
    (count o1 d.kind, send o1 (.doc d (mkOffset o1 d.seq) (collName c d.coll) t))
  | .seqAdv seq =>
    if !gateOpen c o seq then (o, .blocked) else
    let o' := { o with snap := some (seq, seq) }
    (o', send o' (.seqAdv (mkOffset o' seq)))
  | .sys k seq _ =>
    if !gateOpen c o seq then (o, .blocked) else
    let (need, o1) := needCatchup o seq
    if need then (o1, .dropCatchup) else
    if !inSnap o1 seq then (o1, .failstop) else
    (o1, send o1 (.sys k (mkOffset o1 seq)))
  | .oso => (o, send o .oso)

/-- `SetPersistSeqNo` -/
def setPersist (o : Obs) (p : Nat) : Obs :=
  if p ≠ 0 ∧ p > o.persist then { o with persist := p } else o

def close (o : Obs) : Obs := { o with closed := true }
def closeEnd (o : Obs) : Obs := { o with endClosed := true }
def setCatchup (o : Obs) (seq : Nat) : Obs := { o with catchSeq := seq, catchNeed := true }
def setUuid (o : Obs) (u : Nat) : Obs := { o with uuid := u }

end Obs
end GoDcp
