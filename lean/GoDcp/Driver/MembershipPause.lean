import GoDcp.Driver.Util
import GoDcp.Model.Membership
import GoDcp.Model.Chunk
import GoDcp.Spec.C10
/-! handler of stream c10pause (command `mb-pause`): couchbase membership, a member
    whose heart-beats pause, is dropped by the others and then resumes.

    The scenario is run on the LTS of `Model/Membership.lean` (`register1/2`,
    `heartbeatStep`, `readStep`, `casStep`): what the dropped instance does at its
    next round is what `rebalance` does when `pos self … = none`, i.e.
    `pc := .crashed` = `panic("cant find self in cluster")` (couchbase/membership.go
    `rebalance`, the `selfOrder == 0` branch).  Theorems: `Props/C10Pause.lean`. -/
namespace GoDcp.Driver
open GoDcp GoDcp.Membership

/-- "k/t" with natural numbers -/
def mpSlash? (s : String) : Option (Nat × Nat) :=
  match s.splitOn "/" with
  | [a, b] => do some ((← a.toNat?), (← b.toNat?))
  | _ => none

def mpShow (p : Nat × Nat) : String := s!"{p.1}/{p.2}"

/-- one complete, undisturbed monitor round of member `m` at clock `now`
    (`monitor()`: index read in stored order, documents judged at `now`, then the CAS write) -/
def mpRound (c : Cfg) (now : Int) (s : State) (m : Id) : State :=
  casStep (readStep c s m s.index (fun _ => now)) m

/-- the schedule of `mb-pause n z pause hb tol` (times in ms): members `0..n-1`
    join at 10, 20, …; all heart-beat at `t0` and run two rounds (converged);
    PAUSE: for `pause` ms member `z` neither heart-beats nor runs a round while the
    others do both at `t0 + pause`; RESUME: `z` heart-beats, runs one round, then
    the others heart-beat and run a round. -/
def mpScenario (n z pause hb tol : Nat) : State :=
  let c : Cfg := { hbInterval := hb, tolerance := tol }
  let all := List.range n
  let others := all.filter (· ≠ z)
  let s := all.foldl (fun s i => register2 (register1 s i (10 * ((i : Int) + 1))) i) {}
  let t0 : Int := 1000
  let s := all.foldl (fun s i => heartbeatStep s i t0) s
  let s := all.foldl (mpRound c t0) s
  let s := all.foldl (mpRound c t0) s
  let t1 : Int := t0 + pause
  let s := others.foldl (fun s i => heartbeatStep s i t1) s
  let s := others.foldl (mpRound c t1) s
  let s := others.foldl (mpRound c t1) s
  let s := heartbeatStep s z (t1 + 1)
  let s := mpRound c (t1 + 2) s z
  let s := others.foldl (fun s i => heartbeatStep s i (t1 + 3)) s
  others.foldl (mpRound c (t1 + 3)) s

/-- `owners: multi=a none=b` over 1024 vBuckets: how many have more than one / no
    owner when every info `(k, t)` takes chunk `k-1` of `ChunkSlice([0..1024), t)` -/
def mpOwners (infos : List (Nat × Nat)) : String :=
  let nvb := 1024
  if infos.any (fun (k, t) => t < 1 || t > nvb || k < 1 || k > t) then "owners: bad-info" else
  let ranges := infos.map fun (k, t) => Chunk.memberRangeFast nvb t k
  let counts := (List.range nvb).map fun v => (ranges.filter fun r => decide (r.1 ≤ v ∧ v ≤ r.2)).length
  s!"owners: multi={(counts.filter (· > 1)).length} none={(counts.filter (· == 0)).length}"

/-- model observation: `survivors: 1/2 2/2 | Z: exit-fail:not-in-cluster | owners: multi=0 none=0` -/
def mpModel (n z pause hb tol : Nat) : String :=
  let s := mpScenario n z pause hb tol
  let others := (List.range n).filter (· ≠ z)
  let info (i : Id) : Option (Nat × Nat) := (s.mem i).bind (·.info)
  let sv := others.map fun i => match s.mem i with
    | some mb => (match mb.pc, mb.info with
      | .crashed, _ => "crash"
      | _, some p => mpShow p
      | _, none => "?/?")
    | none => "?/?"
  let zCrashed := match s.mem z with
    | some mb => decide (mb.pc = Pc.crashed)
    | none => false
  let zs := if zCrashed then "exit-fail:not-in-cluster" else
    match info z with
    | some p => s!"alive {mpShow p}"
    | none => "alive ?/?"
  let live := (others.filterMap info) ++ (if zCrashed then [] else (info z).toList)
  s!"survivors: {join sv} | Z: {zs} | {mpOwners live}"

/-- monitor on the real observation.  The live processes are the survivors and,
    when it did not end, Z; join order = position.  `C10.zombie-keeps-number`: the
    survivors alone hold a consistent numbering 1..k of k, Z is alive, and together
    with Z's (stale) info the numbering is not consistent – two live processes then
    own the same vBuckets. -/
def mpVerdict (n z : Nat) (real : String) : String :=
  if real.startsWith "survivors-did-not-drop" then "FAIL C10.not-dropped" else
  match real.splitOn " | " with
  | [sv, zz, ow] =>
    let others := (List.range n).filter (· ≠ z)
    match toks sv with
    | "survivors:" :: svs =>
      match svs.mapM mpSlash? with
      | none => "FAIL C10.unparsable"
      | some sinfos =>
        if sinfos.length ≠ others.length then "FAIL C10.unparsable" else
        let sobs : List Spec.C10.Obs := (others.zip sinfos).map fun (i, (k, t)) => (((i : Nat) : Int), k, t)
        let zobs : Option (List Spec.C10.Obs) := match toks zz with
          | ["Z:", "alive", kt] => (mpSlash? kt).map fun (k, t) => [(((z : Nat) : Int), k, t)]
          | ["Z:", _] => some []
          | _ => none
        match zobs with
        | none => "FAIL C10.unparsable"
        | some zo =>
          let all := sobs ++ zo
          if !zo.isEmpty && Spec.C10.holds sobs && !Spec.C10.holds all then "FAIL C10.zombie-keeps-number"
          else if !Spec.C10.holds all then s!"FAIL {Spec.C10.failing all}"
          else if ow ≠ "owners: multi=0 none=0" then "FAIL C10.owner"
          else "ok"
    | _ => "FAIL C10.unparsable"
  | _ => "FAIL C10.unparsable"

/-- `mb-pause n z pause hb tol` -/
def hMbPause (args : List String) (real : Option String) : Option Out := do
  let [n, z, p, hb, tol] := args | none
  let n ← n.toNat?; let z ← z.toNat?; let p ← p.toNat?; let hb ← hb.toNat?; let tol ← tol.toNat?
  if n < 2 || n > 64 || z ≥ n then none
  let v := match real with
    | none => "-"
    | some r => mpVerdict n z r
  some { model := mpModel n z p hb tol, verdict := v }

def membershipPauseHandlers : List (String × (List String → Option String → Option Out)) :=
  [("mb-pause", hMbPause)]

end GoDcp.Driver
