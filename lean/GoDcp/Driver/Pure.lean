import GoDcp.Driver.Util
import GoDcp.Model.Chunk
import GoDcp.Spec.C09
/-! handlers for the stateless (L0) commands -/
namespace GoDcp.Driver
open GoDcp

/-- `chunk N T`  → `s0:e0 s1:e1 …` (half-open); real = same format -/
def hChunk (args : List String) (real : Option String) : Option Out := do
  let [n, t] ← nats? args | none
  let model := join ((Chunk.boundsFast n t).map showPair)
  let v := match real with
    | none => "-"
    | some r => match (toks r).mapM pair? with
      | some cs => verdict (Spec.C09.holds n t cs) "C09.partition"
      | none => "FAIL C09.unparsable"
  some { model, verdict := v }

/-- `member N T m` → `first last` -/
def hMember (args : List String) (_real : Option String) : Option Out := do
  let [n, t, m] ← nats? args | none
  let r := Chunk.memberRangeFast n t m
  some { model := s!"{r.1} {r.2}" }

/-- `member-seq N T1:m1,T2:m2,…` → `first-last …`: the same discovery asked after each membership change;
    the model is the pure function of (N, T, m) at every step -/
def hMemberSeq (args : List String) (real : Option String) : Option Out := do
  let [n, steps] ← pure args | none
  let n ← n.toNat?
  let sts ← (steps.splitOn ",").mapM pair?
  let rs := sts.map fun (t, m) => let r := Chunk.memberRangeFast n t m; s!"{r.1}-{r.2}"
  let model := join rs
  let v := match real with
    | none => "-"
    | some r => if r == model then "ok" else "FAIL C09.not-a-function-of-N-T-m"
  some { model, verdict := v }

/-- `member-first N T1:m1,T2:m2` → `first-last m/T first-last`: the first `Get()` of a discovery is waiting when two membership
    informations arrive back to back; `Get` reads the membership ONCE, so its result is the pure function of (N, T1, m1) – the
    information the waiting channel delivers – and the discovery metric shows that pair next to that range -/
def hMemberFirst (args : List String) (real : Option String) : Option Out := do
  let [n, steps] ← pure args | none
  let n ← n.toNat?
  let [a, _b] ← (steps.splitOn ",").mapM pair? | none
  let r := Chunk.memberRangeFast n a.1 a.2
  let model := s!"{r.1}-{r.2} {a.2}/{a.1} {r.1}-{r.2}"
  let v := match real with
    | none => "-"
    | some r => if r == model then "ok" else "FAIL C09.not-a-function-of-N-T-m"
  some { model, verdict := v }

def pureHandlers : List (String × (List String → Option String → Option Out)) :=
  [("chunk", hChunk), ("member", hMember), ("member-seq", hMemberSeq), ("member-first", hMemberFirst)]

end GoDcp.Driver
