import GoDcp.Driver.Util
import GoDcp.Model.WaitRace
/-!
Line protocol for the micro-step stop-token model (commands `wr-*`, harness stream `life-wait`).

One harness op releases one parked goroutine of the REAL code (or starts one control procedure) and lets it run to
its next parking place; `expand` below runs the corresponding micro-steps of `Model/WaitRace.lean`:

| real parking place (hook point)            | model pc                         |
|--------------------------------------------|----------------------------------|
| `wait.start` (before the select) / in select | `WPc.atSelect` (released or not: driver bookkeeping `sel`) |
| `wait.token`                               | `WPc.atTest`                     |
| `wait.before-stop`                         | `WPc.atStop`                     |
| `end.start` (top of listenEnd)             | `EPc.atClassify`                 |
| `end.before-send`                          | `EPc.atSend`                     |
| inside `closeAllStreams`: every CloseStream answered, none returned (if held) | `MPc.cEnd` |
| callback AfterStreamStop (if held)         | `MPc.cSetOpen`                   |
| `close.before-send`                        | `MPc.cSend`                      |
| callback AfterStreamStart (if held)        | `MPc.oSpawn`                     |

The driver also keeps `sched`: whether every micro-step so far respected `okStep` (Prompt ∧ EndsDrained ∧
StopThenClose). The monitor (`wmonStep`) judges the REAL observations only; a failing clause is reported as
`KF F16 <variant>` when the schedule left `okStep` and model and real code agree on the line, as `FAIL <clause>` otherwise.
-/
namespace GoDcp.Driver
open GoDcp.WaitRace

structure WMon where
  prevWaits : List (Nat × String) := []
  prevEnds : List (Nat × String) := []
  prevMain : String := "idle"
  prevStop : Bool := false
  tok : Int := 0                       -- sends completed − receives observed
  sess : Nat := 0                      -- BSS callbacks seen
  assigned : Nat := 0
  own : Nat := 0                       -- counted ends of the current session whose decrement has run
  endSess : List (Nat × Nat) := []     -- delivery index ↦ session in which it appeared
  waitSess : List (Nat × Nat) := []    -- wait index ↦ session in which it appeared
  balancing : Bool := false            -- between callbacks BRS and ARE
  shut : Bool := false
  dcp : Bool := false
  lostReported : Bool := false
deriving Inhabited

structure WR where
  m : State := {}
  sel : List Nat := []                 -- wait goroutines released into the select
  holdCS : Bool := false
  holdASP : Bool := false
  holdASS : Bool := false
  late : Bool := false
  opened : Bool := false
  dcp : Bool := false
  sched : Bool := true
  dead : Bool := false
  evs : List String := []              -- callbacks of the current op
  latePending : List Nat := []
  stuck : List Nat := []
  mon : WMon := {}
deriving Inhabited

/-- callbacks the real code issues around a control micro-step (event handler trace) -/
def cbBefore : MPc → List String
  | .rebSetBal => ["BRS"]
  | .cStart _ _ => ["BSP"]
  | .rebArm => ["ARS"]
  | _ => []
def cbAfter : MPc → List String
  | .cEnd _ => ["ASP"]
  | .oResetEnd _ _ => ["BSS"]
  | .oStreams _ _ => ["ASS"]
  | .rebClear => ["ARE"]
  | _ => []

/-- execute one model action (if enabled), tracking `okStep` and the callback trace -/
def act (d : WR) (a : Action) : WR :=
  match step d.m a with
  | none => d
  | some s' =>
    let (b, f) := match a with
      | .main => (cbBefore d.m.main, cbAfter d.m.main)
      | .fireTimer _ => (["BRE"], [])
      | _ => ([], [])
    { d with m := s', sched := d.sched && okStep d.m a, evs := d.evs ++ b ++ f }

/-- a goroutine sitting in the select receives as soon as a token is there, and writes its flag -/
def autoRecv (d : WR) : WR :=
  match d.sel with
  | [] => d
  | k :: _ =>
    let t? : Option Tok := if d.m.closeCh > 0 then some .close else if d.m.endCh > 0 then some .endEv else none
    match t? with
    | none => d
    | some t =>
      let d := act (act d (.wait k t)) (.wait k t)
      { d with sel := d.sel.erase k }

/-- deliveries created by `closeAllStreams` pass (or fail) the observer's gate -/
def gateNew (d : WR) (from_ : Nat) : WR :=
  (List.range (d.m.ends.length - from_)).foldl (fun d i => act d (.endStep (from_ + i))) d

/-- run the control thread until it parks (AfterStreamStop/AfterStreamStart if held, `close.before-send` always),
    returns or dies. `force`: the first step is taken even at a parking place (it has just been released). -/
def runMain (d : WR) (force : Bool) : Nat → WR
  | 0 => d
  | fuel + 1 =>
    if d.m.crashed then d else
    match d.m.main with
    | .idle => d
    | pc =>
      let parked := !force && (match pc with
        | .cEnd _ => d.holdCS
        | .cSetOpen _ => d.holdASP
        | .cSend _ => true
        | .oSpawn _ => d.holdASS
        | _ => false)
      if parked then d else
      match pc with
      | .cSend _ =>
        if d.m.closeCh = 0 then runMain (autoRecv (act d .main)) false fuel else d
      | .cStreams _ =>
        let n0 := d.m.ends.length
        let d := act d .main
        if d.late then runMain { d with latePending := d.latePending ++ (List.range (d.m.ends.length - n0)).map (· + n0) } false fuel
        else runMain (gateNew d n0) false fuel
      | _ => runMain (act d .main) false fuel

/-- after the control thread has parked or returned: in `late` mode the STREAM_ENDs of the close arrive now -/
def settle (d : WR) : WR :=
  if d.m.main.isCEnd && !d.m.crashed then d else     -- parked inside closeAllStreams: the gate is still open
  let d := d.latePending.foldl (fun d j => act d (.endStep j)) d
  { d with latePending := [] }

def mainBusy (d : WR) : Bool := d.m.main != .idle

def waitPoint (d : WR) (k : Nat) (w : Wait) : Option String :=
  if d.stuck.contains k then some "stuck" else
  match w.pc with
  | .atSelect => some (if d.sel.contains k then "select" else "start")
  | .gotTok _ => some "recv"
  | .atTest => some "token"
  | .atStop => some "stop"
  | .done => none

def endPoint (e : EndD) : Option String :=
  match e.pc with
  | .atClassify => some "start"
  | .atSend => some "send"
  | _ => none

def lst (l : List String) : String := if l.isEmpty then "-" else join l ","

def enumFrom {α : Type} : Nat → List α → List (Nat × α)
  | _, [] => []
  | n, a :: as => (n, a) :: enumFrom (n + 1) as

/-- canonical snapshot, same format as the harness -/
def render (d : WR) (res : String) : String :=
  let res := if res == "" && d.m.crashed && d.m.stopClosed < 2 then "failstop:nil-observers" else res
  let mp := if d.m.crashed && d.m.stopClosed < 2 then "idle" else match d.m.main with
    | .idle => "idle" | .cEnd _ => "cs" | .cSetOpen _ => "asp" | .cSend _ => "send" | .oSpawn _ => "ass" | _ => "run"
  let ws := (enumFrom 0 d.m.waits).filterMap fun (k, w) => (waitPoint d k w).map fun p => s!"{k}:{p}"
  let es := (enumFrom 0 d.m.ends).filterMap fun (j, e) => (endPoint e).map fun p => s!"{j}:{p}"
  let stop := d.m.stopClosed ≥ 1
  let s := s!"ev={lst d.evs} stop={if stop then 1 else 0} open={if d.m.isOpen then 1 else 0} active={d.m.active} main={mp} waits={lst ws} ends={lst es}"
  if res == "" then s else s ++ " res=" ++ res

/-- the ops; result = new driver state and the `res=` token -/
def wrOp (d : WR) : List String → Option (WR × String)
  | ["wr-hold", k] => do
    let k ← k.toNat?
    some ({ d with holdCS := k % 2 == 1, holdASS := (k / 2) % 2 == 1, holdASP := (k / 4) % 2 == 1 }, "")
  | ["wr-open", n] => do
    let n ← n.toNat?
    if d.opened || mainBusy d || n < 1 then some (d, "skipped") else
    let d := act { d with opened := true } (.start n)
    some (settle (runMain d false 64), "")
  | ["wr-notify", mode] =>
    if !d.opened || d.dcp || mainBusy d then some (d, "skipped") else
    let d := act { d with late := mode == "late" } .notify
    some (settle (runMain d false 64), "")
  | ["wr-fire-timer", n] => do
    let n ← n.toNat?
    if !d.m.timerPending || mainBusy d || n < 1 then some (d, "skipped") else
    let d := act d (.fireTimer n)
    some (settle (runMain d false 64), "")
  | ["wr-shutdown", mode] =>
    if !d.opened || d.dcp || mainBusy d then some (d, "skipped") else
    let d := act (act { d with late := mode == "late", dcp := true } .shutdown) (.dcpClose true)
    some (settle (runMain d false 64), "")
  | ["wr-dcp-stop", mode] =>
    if !d.opened || d.dcp || mainBusy d || d.m.stopClosed = 0 then some (d, "skipped") else
    let d := act { d with late := mode == "late", dcp := true } (.dcpClose false)
    some (settle (runMain d false 64), "")
  | ["wr-release", "main"] =>
    if d.m.crashed then some (d, "skipped") else
    match d.m.main with
    | .cSend _ =>
      if d.m.closeCh > 0 then some (d, "would-block") else some (settle (runMain d true 64), "")
    | .cEnd _ | .cSetOpen _ | .oSpawn _ => some (settle (runMain d true 64), "")
    | _ => some (d, "skipped")
  | ["wr-release", "wait", k] => do
    let k ← k.toNat?
    match d.m.waits[k]? with
    | none => some (d, "skipped")
    | some w =>
      if d.stuck.contains k then some (d, "skipped") else
      match w.pc with
      | .atSelect =>
        if d.sel.contains k then some (d, "skipped")
        else if !d.sel.isEmpty then some (d, "skipped")
        else if d.m.closeCh + d.m.endCh ≥ 2 then some (d, "skipped")
        else some (autoRecv { d with sel := d.sel ++ [k] }, "")
      | .atTest =>
        let d := act d (.wait k .close)
        -- arriving at `wait.before-stop` with stopCh already closed = the panic (reported, goroutine kept parked)
        match d.m.waits[k]? with
        | some w' =>
          if w'.pc == .atStop && d.m.stopClosed ≥ 1 then
            some ({ (act d (.wait k .close)) with stuck := d.stuck ++ [k], dead := true }, "double-close")
          else some (d, "")
        | none => some (d, "")
      | .atStop =>
        if d.m.stopClosed ≥ 1 then
          some ({ (act d (.wait k .close)) with stuck := d.stuck ++ [k], dead := true }, "double-close")
        else some (act d (.wait k .close), "")
      | _ => some (d, "skipped")
  | ["wr-release", "end", j] => do
    let j ← j.toNat?
    match d.m.ends[j]? with
    | none => some (d, "skipped")
    | some e =>
      match e.pc with
      | .atClassify =>
        -- classify, decrement, flag test: until it parks at the send or returns
        let d := act d (.endStep j)
        let d := act d (.endStep j)
        let d := match d.m.ends[j]? with
          | some e' => if e'.pc == .atTest then act d (.endStep j) else d
          | none => d
        some (d, "")
      | .atSend =>
        if d.m.endCh > 0 then some (d, "would-block") else some (autoRecv (act d (.endStep j)), "")
      | _ => some (d, "skipped")
  | ["wr-end", kind] =>
    let counted := kind == "counted"
    if d.m.running = 0 || (!counted && (mainBusy d || !d.m.isOpen)) then some (d, "skipped") else
    let j := d.m.ends.length
    let d := act d (.srvEnd counted)
    let d := act d (.endStep j)                 -- the observer's gate
    let d := if counted then d else act d (.endStep j)   -- transient: classified and re-requested at once
    some (d, "")
  | ["wr-obs"] => some (d, "")
  | _ => none

/-! ### monitor on the REAL observations -/

structure RObs where
  ev : List String := []
  stop : Bool := false
  isOpen : Bool := false
  main : String := "idle"
  waits : List (Nat × String) := []
  ends : List (Nat × String) := []
  res : String := ""

def parseList (s : String) : List (Nat × String) :=
  if s == "-" then [] else (s.splitOn ",").filterMap fun t => match t.splitOn ":" with
    | [a, b] => a.toNat?.map fun n => (n, b)
    | _ => none

def parseRObs (real : String) : RObs :=
  (real.splitOn " ").foldl (fun o t => match t.splitOn "=" with
    | ["ev", v] => { o with ev := if v == "-" then [] else v.splitOn "," }
    | ["stop", v] => { o with stop := v == "1" }
    | ["open", v] => { o with isOpen := v == "1" }
    | ["main", v] => { o with main := v }
    | ["waits", v] => { o with waits := parseList v }
    | ["ends", v] => { o with ends := parseList v }
    | ["res", v] => { o with res := v }
    | _ => o) {}

/-- one real line; returns the failing clause (if any) and the F16 variant name -/
def wmonStep (m : WMon) (op : List String) (real : String) : WMon × Option (String × String) :=
  let o := parseRObs real
  let refused := o.res == "skipped" || o.res == "would-block"
  -- decrements and completed sends caused by this op
  let m := match op with
    | ["wr-release", "end", j] =>
      match j.toNat? with
      | some j =>
        if refused then m else
        match m.prevEnds.lookup j with
        | some "start" => if m.endSess.lookup j == some m.sess then { m with own := m.own + 1 } else m
        | some "send" => if (o.ends.lookup j).isNone then { m with tok := m.tok + 1 } else m
        | _ => m
      | none => m
    | ["wr-release", "main"] =>
      if !refused && m.prevMain == "send" && o.res != "hang" then { m with tok := m.tok + 1 } else m
    | ["wr-shutdown", _] => if refused then m else { m with shut := true, dcp := true }
    | ["wr-dcp-stop", _] => if refused then m else { m with dcp := true }
    | _ => m
  -- receives: a goroutine that was before/in the select is now past it
  let isPre := fun (p : Option String) => p == some "start" || p == some "select"
  let recvs := (m.waitSess.filter fun (p : Nat × Nat) =>
      isPre (m.prevWaits.lookup p.1) && !(isPre (o.waits.lookup p.1))).length
  let m := { m with tok := m.tok - (recvs : Int) }
  let phantom : Bool := decide (m.tok < (0 : Int))
  -- callbacks
  let n? : Option Nat := match op with
    | ["wr-open", n] => n.toNat?
    | ["wr-fire-timer", n] => n.toNat?
    | _ => none
  let (m, stale) := o.ev.foldl (fun (acc : WMon × Bool) cb =>
      let (m, st) := acc
      match cb with
      | "BRS" => ({ m with balancing := true }, st)
      | "ARE" => ({ m with balancing := false }, st)
      | "BSS" => ({ m with sess := m.sess + 1, own := 0, assigned := n?.getD m.assigned }, st || decide (m.tok > (0 : Int)))
      | _ => (m, st)) (m, false)
  -- new goroutines / deliveries belong to the session that is current after this line's callbacks
  let m := { m with
    endSess := m.endSess ++ (o.ends.filter fun (p : Nat × String) => (m.endSess.lookup p.1).isNone).map fun (p : Nat × String) => (p.1, m.sess),
    waitSess := m.waitSess ++ (o.waits.filter fun (p : Nat × String) => (m.waitSess.lookup p.1).isNone).map fun (p : Nat × String) => (p.1, m.sess) }
  -- the stop
  let stopNow := o.stop && !m.prevStop
  let stopper : Option Nat := match op with
    | ["wr-release", "wait", k] => k.toNat?
    | _ => none
  let stopperOwn := match stopper with
    | some k => m.waitSess.lookup k == some m.sess
    | none => false
  let spurious := stopNow && !m.shut && (m.balancing || !stopperOwn)
  let early := stopNow && !m.shut && !spurious && m.own < m.assigned
  -- the last end is lost: everything has ended, nothing can move any more, stopCh is open
  let quiet := o.main == "idle" && o.ends.isEmpty && o.waits.all (fun (p : Nat × String) => p.2 == "select") && m.tok == (0 : Int)
  let lost := !m.lostReported && quiet && m.assigned > 0 && m.own ≥ m.assigned && !m.balancing && o.isOpen && !o.stop
    && !m.dcp && o.res == ""
  let m := { m with prevWaits := o.waits, prevEnds := o.ends, prevMain := o.main, prevStop := o.stop,
                    lostReported := m.lostReported || lost }
  let v : Option (String × String) :=
    if o.res == "double-close" then some ("C12.double-close", "double-close")
    else if spurious then some ("C11.spurious-stop", "spurious-stop")
    else if early then some ("C12.stopped-before-all-ended", "foreign-end")
    else if stale || phantom then some ("C12.stale-token", "stale-token")
    else if lost then some ("C12.last-end-lost", "last-end-lost")
    else none
  (m, v)

/-- the real panic in a child process (thorough tier): the model's `doubleCloseSched` counterpart at op level -/
def childOps : List (List String) :=
  [["wr-open", "1"], ["wr-release", "wait", "0"], ["wr-notify", "late"], ["wr-release", "main"], ["wr-fire-timer", "1"],
   ["wr-release", "wait", "0"], ["wr-release", "wait", "0"], ["wr-release", "wait", "1"], ["wr-dcp-stop", "late"],
   ["wr-release", "main"], ["wr-release", "wait", "1"], ["wr-release", "wait", "1"]]

def childModel : String :=
  let d := childOps.foldl (fun (d : WR) op => match wrOp d op with | some (d', _) => d' | none => d) {}
  if d.m.crashed && d.m.stopClosed = 2 then "child exit=2 panic=close-of-closed-channel" else "child survived"

/-- dispatcher used by `Main.lean`: `none` = not a `wr-*` line -/
def wrLine (d : WR) (ts : List String) (real : Option String) : Option (WR × String × String) :=
  match ts with
  | ["wr-child-double-close"] =>
    let model := childModel
    let v := match real with
      | some r => if r == model then "KF F16 double-close (child process really panics)" else "FAIL C12.double-close-child"
      | none => "-"
    some (d, model, v)
  | c :: _ =>
    if !c.startsWith "wr-" then none else
    if d.dead then some (d, "-", "-") else
    match wrOp { d with evs := [] } ts with
    | none => some (d, "bad-op", "-")
    | some (d', res) =>
      let model := render d' res
      let d' := if d'.m.crashed then { d' with dead := true } else d'
      match real with
      | none => some (d', model, "-")
      | some r =>
        let (mon, v) := wmonStep d'.mon ts r
        let d' := { d' with mon := mon }
        let verdict := match v with
          | none => "ok"
          | some (clause, variant) =>
            if !d'.sched && model == r then s!"KF F16 {variant}" else s!"FAIL {clause}"
        some (d', model, verdict)
  | [] => none

end GoDcp.Driver
