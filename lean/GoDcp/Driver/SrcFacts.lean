import GoDcp.Driver.Util
import GoDcp.Model.Session
import GoDcp.Model.Life
import GoDcp.Model.Health
import GoDcp.Model.Rollback
import GoDcp.Model.MinSeqNo
import GoDcp.Model.Keys
import GoDcp.Model.Version
import GoDcp.Model.Membership
/-!
Regenerated source facts (DESIGN.md §3.4), Lean side of harness stream `srcfacts`
(`harness/l0_srcfacts.go`).  Command

    src-fact <tags>.<name>     real = canonical value extracted from $VERIF_REPO | `unknown`

answers with the value the MODELS use:

* **rendered from a model definition** wherever the model has the fact as a definition or
  as a behaviour that a closed probe can read off (`Health.maxRetries`, `Keys.keyPrefix`,
  `Version.srvVer550`, the wire arguments of `Rollback.firstReq` / `rollbackReq`, the scan
  direction of `Rollback.branchFor`, the `dirty` literal `GoDcp.listen` / `GoDcp.ack` pass to
  `setOffset`, the sequence number and the `isControl` literal each `Obs.step` case gates on, …);
* **from the table below** otherwise (`reopenRetries`, `transientErrs`, the statement order of
  `Close` / `Open` / `Rebalance` / `Save` / `dcp.close` as canonical skeletons, …).  A table value
  documents what a model ASSUMES; most are `guarded` by a Bool computed from that model (the
  behaviour the skeleton stands for): if somebody changes the model the guard turns false, the
  answer becomes `model-disagrees` and the line diverges.  `Props/SrcFacts.lean` proves every
  guard true and ties the table constants to the model definitions by `decide` / `rfl`.

`unknown` (the extractor did not recognise the construct – a harmless rewrite) is echoed with
verdict `ok`: the behavioural streams decide alone.  A recognised construct with another value
is a divergence of this line only.  Core Lean only.
-/
namespace GoDcp.SrcFacts
open GoDcp

def guarded (ok : Bool) (v : String) : String := if ok then v else "model-disagrees"

def boolLit (b : Bool) : String := if b then "true" else "false"

/-! ## the table: values no model has as a definition -/

/-- `reopenStream`: `retry := 5` (the models only have the outcome: `Life.listenEnd` emits
    `failstop "reopen-gave-up"` when every attempt fails) -/
def reopenRetries : Nat := 5

/-- `reopenStream`: `time.Sleep(time.Second)` between attempts -/
def reopenSleep : String := "time.Second"

/-- `performHealthCheck`: `retryInterval := time.Second` (model time has no unit: `Health` has
    the retry wait as the action `retryFires`) -/
def healthRetryInterval : String := "time.Second"

/-- the `gocbcore.Err…` alternatives of `listenEnd`'s reopen condition = `Life.EndCause.transient`
    (socket closed, backfill failed, state changed, too slow, disconnected), sorted -/
def transientErrs : List String :=
  ["ErrDCPBackfillFailed", "ErrDCPStreamDisconnected", "ErrDCPStreamStateChanged", "ErrDCPStreamTooSlow",
   "ErrSocketClosed"]

/-- `helpers.Name` (inside `Keys.keyPrefix`, see `Props/SrcFacts keyPrefix_eq`) -/
def connectorName : String := "cbgo"

/-! ## probes of `Model/Session.lean` (listen / waitAndForward / setOffset / Ack / Save / Load) -/

/-- an open session over vBucket 0 with no offsets yet -/
def pSt : St := { cfg := { lo := 0, hi := 0 }, isOpen := true, everOpened := true, obsNil := false, sess := 1 }

def pOff (seq : Nat) : Offset := ⟨1, seq, seq, seq, 0⟩

def isTrack : Obsv → Bool
  | .track _ _ => true
  | _ => false

def isDeliver : Obsv → Bool
  | .deliver .. => true
  | _ => false

def isNowrite : List Obsv → Bool
  | [.nowrite] => true
  | _ => false

def dirty0 (s : St) : Bool := (curDirty s).contains 0

def userDoc (k : DocKind) : DocEv := ⟨k, 3, 0, "6b6579", 0, ""⟩

/-- `listen`: `case models.DcpMutation/Deletion/Expiration: s.waitAndForward(…)` – the model hands a
    non-reserved document event to the consumer (a context, no offset change) -/
def listenDoc (k : DocKind) : String :=
  let r := listen pSt 0 (.doc (userDoc k) (pOff 3) "_default" 0)
  guarded (r.2.any isDeliver && !r.2.any isTrack && r.1.offsets.isEmpty && r.1.ctxs.length == 1)
    "waitAndForward(v,$0.TraceContext,v.Offset,v.VbID,v.EventTime)"

/-- `listen`: seqno-advanced and the six system events call `setOffset` directly; the `dirty`
    literal is read off the model (and the flag `anyDirtyOffset` is NOT raised: finding F1) -/
def listenAbsorb (e : LEvent) : String :=
  let r := listen pSt 0 e
  guarded (r.2.any isTrack && !r.2.any isDeliver && !r.1.anyDirty)
    ("setOffset(v.VbID,v.Offset," ++ boolLit (dirty0 r.1) ++ ")")

/-- `waitAndForward`: a key under `helpers.Prefix` / `helpers.TxnPrefix` is absorbed with this literal -/
def metadataBranch : String :=
  let r := listen pSt 0 (.doc ⟨.mu, 3, 0, hexPrefix ++ "00", 0, ""⟩ (pOff 3) "_default" 0)
  let r2 := listen pSt 0 (.doc ⟨.de, 3, 0, hexTxn ++ "00", 0, ""⟩ (pOff 3) "_default" 0)
  guarded (r.2.any isTrack && !r.2.any isDeliver && r2.2.any isTrack && !r2.2.any isDeliver &&
      dirty0 r.1 == dirty0 r2.1 && !r.1.anyDirty)
    ("if(helpers.IsMetadata($0)){setOffset($3,$2," ++ boolLit (dirty0 r.1) ++ ");return}")

/-- the `Ack` closure -/
def ackBody : String :=
  let r := ack pSt ⟨1, 0, pOff 3⟩
  guarded (r.2.any isTrack)
    ("setOffset($3,$2," ++ boolLit (dirty0 r.1) ++ ")" ++ (if r.1.anyDirty then ";anyDirtyOffset=true" else ""))

def pStAt5 : St := { pSt with offsets := [(0, pOff 5)] }

/-- does `setOffset` accept `seq` when the current position is 5 -/
def acceptsAt5 (seq : Nat) : Bool := (setOffset pStAt5 0 (pOff seq) false).2.any isTrack

/-- `if current, ok := s.offsets.Load(vbID); ok && current.SeqNo > offset.SeqNo { return }` -/
def regressionGuard : String :=
  let op := if !acceptsAt5 4 && acceptsAt5 5 && acceptsAt5 6 then ">"
    else if !acceptsAt5 4 && !acceptsAt5 5 && acceptsAt5 6 then ">=" else "?"
  "offsets.Load($0):ok&&cur.SeqNo" ++ op ++ "$1.SeqNo=>return"

/-- markers and OSO events fall into `default:` (nothing happens in the stream) -/
def gListenCases : Bool := (listen pSt 0 .marker).2.isEmpty && (listen pSt 0 .oso).2.isEmpty

/-- one `ConsumeEvent` per forwarded event -/
def gForwardTail : Bool := (listen pSt 0 (.doc (userDoc .mu) (pOff 3) "_default" 0)).1.ctxs.length == 1

/-- outside `vbIDRange` nothing is stored or tracked -/
def gRangeTest : Bool :=
  let r := setOffset pSt 1 (pOff 3) true
  r.2.isEmpty && r.1.offsets.isEmpty && !(curDirty r.1).contains 1 && (setOffset pSt 0 (pOff 3) true).2.any isTrack

/-- store, track, and only then (and only with `dirty`) the dirty mark -/
def gSetOffsetOrder : Bool :=
  let a := setOffset pSt 0 (pOff 3) false
  let b := setOffset pSt 0 (pOff 3) true
  a.2.any isTrack && a.1.offsets.has 0 && !dirty0 a.1 && b.2.any isTrack && b.1.offsets.has 0 && dirty0 b.1 &&
    !a.1.anyDirty && !b.1.anyDirty

/-- `StoreIf`: marking twice leaves one mark -/
def gDirtyMark : Bool := curDirty (markDirty (markDirty pSt 0) 0) == [0]

/-- a session with one acknowledged event -/
def sDirty : St := (ack pSt ⟨1, 0, pOff 3⟩).1

/-- `UnmarkDirtyOffsets`: flag down, fresh (empty) dirty map -/
def gUnmark : Bool :=
  let s := (saveAll sDirty .ok).1
  !s.anyDirty && (curDirty s).isEmpty && s.curGen != sDirty.curGen

/-- `Save`: flag test first ("no need to save"), store call, unmark only after a successful store -/
def gSaveOrder : Bool :=
  isNowrite (saveAll pSt .ok).2 &&
  (let s := (saveAll sDirty .fail).1; s.anyDirty && dirty0 s) &&
  (let s := (saveAll sDirty .ok).1; !s.anyDirty && !dirty0 s && (s.store.get? 0).map (·.seq) == some 3) &&
  (match (svDump sDirty 1).2 with | [.bad _] => true | _ => false)

def pLoad (store : AMap Doc) (reset : Bool) (high : Nat := 7) : St :=
  { cfg := { lo := 0, hi := 0, resetLatest := reset }, store := store, high := [(0, high)], flog := [(0, 9)] }

def loadSeq (s : St) : Option (Option Nat) := (load s).map fun r => (r.1.get? 0).map (·.seq)

/-- `!exist && AutoReset == latest` -/
def gLatestCond : Bool :=
  loadSeq (pLoad [] true) == some (some 7) && loadSeq (pLoad [] false) == some (some 0) &&
  loadSeq (pLoad [(0, ⟨9, 2, 1, 3⟩)] true) == some (some 2)

/-- latest reset: position = current high seqno with snapshot [high,high], vbUUID = head of the
    failover log, dirty (and flag) iff `currentSeqNo != 0` -/
def gLatestBranch : Bool :=
  decide (load (pLoad [] true) = some ([(0, ⟨9, 7, 7, 7, maxU64⟩)], [0], true)) &&
  decide (load (pLoad [] true 0) = some ([(0, ⟨9, 0, 0, 0, maxU64⟩)], [], false))

/-- stored checkpoint: `doc.Checkpoint.SeqNo > latestSeqNo` → panic (strict), else the four stored
    fields, nothing dirty -/
def gStoredBranch : Bool :=
  (load (pLoad [(0, ⟨9, 8, 8, 8⟩)] false)).isNone &&
  decide (load (pLoad [(0, ⟨4, 7, 6, 8⟩)] false) = some ([(0, ⟨4, 7, 6, 8, maxU64⟩)], [], false))

/-- `dispatchPersistSeqNo`: `observers == nil` → nothing; else `SetPersistSeqNo` of that vBucket's observer -/
def gDispatchPersist : Bool :=
  let closed : St := { pSt with obsNil := true, observers := [(0, {})] }
  let opn : St := { pSt with observers := [(0, {})] }
  ((step closed (.persist 0 5)).1.observers.get? 0).map (·.persist) == some 0 &&
  ((step opn (.persist 0 5)).1.observers.get? 0).map (·.persist) == some 5

/-! ## probes of `Model/Observer.lean` -/

/-- an open stream over vBuckets 0..1 (life-cycle model) -/
def lOpenEnd : Life.LSt := (Life.doOpen { memLo := 0, memHi := 1 }).1

def rmCfg : ObsCfg := { rmEnabled := true }

inductive CbKind
  | marker | doc (k : DocKind) | seqAdv | sys (k : SysKind) | oso

/-- the event of kind `c` whose gated sequence number is `seq` (a marker: start `seq`, end `seq+4`) -/
def evOf (c : CbKind) (seq : Nat) : SrvEv :=
  match c with
  | .marker => .marker seq (seq + 4)
  | .doc k => .doc ⟨k, seq, 0, "6b", 0, ""⟩
  | .seqAdv => .seqAdv seq
  | .sys k => .sys k seq 0
  | .oso => .oso

def isBlocked (r : Obs × ObsOut) : Bool := decide (r.2 = .blocked)

/-- first statement of a callback: `if !so.canForward(<seq>, <isControl>) { return }`, read off the
    model: which field the rollback-mitigation gate looks at, and whether the event passes through
    `needCatchup` (`isControl = false`) or bypasses it -/
def gateOf (c : CbKind) : String :=
  let snap : Obs := { persist := 5, snap := some (0, 100) }
  -- no gate at all: passes with the gate closed
  if !isBlocked (Obs.step rmCfg { snap := some (0, 100) } (evOf c 6)) then "none" else
  let field :=
    match c with
    | .marker =>
      if !isBlocked (Obs.step rmCfg snap (.marker 5 9)) && isBlocked (Obs.step rmCfg snap (.marker 6 9)) then "StartSeqNo"
      else if !isBlocked (Obs.step rmCfg snap (.marker 1 5)) && isBlocked (Obs.step rmCfg snap (.marker 1 6)) then "EndSeqNo"
      else "?"
    | _ => if !isBlocked (Obs.step rmCfg snap (evOf c 5)) && isBlocked (Obs.step rmCfg snap (evOf c 6)) then "SeqNo" else "?"
  let catching : Obs := { catchNeed := true, catchSeq := 10, snap := some (0, 100) }
  let control := !decide ((Obs.step {} catching (evOf c 3)).2 = .dropCatchup)
  "$0." ++ field ++ "," ++ boolLit control

/-- `checkPersistSeqNo`: `SeqNo(seqNo) <= persistSeqNo || closed` -/
def gCheckPersist : Bool :=
  Obs.gateOpen rmCfg { persist := 5 } 5 && !Obs.gateOpen rmCfg { persist := 5 } 6 &&
  Obs.gateOpen rmCfg { persist := 5, closed := true } 6

def gNeedCatchup : Bool :=
  let c : Obs := { catchNeed := true, catchSeq := 10 }
  decide (Obs.needCatchup {} 3 = (false, {})) && decide (Obs.needCatchup c 3 = (true, c)) &&
  decide (Obs.needCatchup c 10 = (true, { c with catchNeed := false })) &&
  decide (Obs.needCatchup c 11 = (false, { c with catchNeed := false }))

def gSetCatchup : Bool := decide (Obs.setCatchup {} 4 = { catchSeq := 4, catchNeed := true })

/-- `canForward`: gate first (a blocked event does not touch the catch-up state), then
    `isControl || !needCatchup(seqNo)` – a control event never reaches `needCatchup` -/
def gCanForward : Bool :=
  let c : Obs := { catchNeed := true, catchSeq := 10, snap := some (0, 100) }
  decide (Obs.step rmCfg c (evOf (.doc .mu) 12) = (c, .blocked)) &&
  (Obs.step {} c (.seqAdv 12)).1.catchNeed && (Obs.step {} c (.marker 12 12)).1.catchNeed &&
  !(Obs.step {} c (evOf (.doc .mu) 12)).1.catchNeed

/-- `SetPersistSeqNo`: zero ignored, only increases -/
def gSetPersist : Bool :=
  let o : Obs := { persist := 5 }
  (o.setPersist 0).persist == 5 && (o.setPersist 3).persist == 5 && (o.setPersist 7).persist == 7

/-- `SkipUntil.After(eventTime)`: strictly before -/
def gSkipWindow : Bool :=
  !Obs.beforeSkip {} 0 && Obs.beforeSkip { skipUntil := some 5 } 4 && !Obs.beforeSkip { skipUntil := some 5 } 5

def gInSnapshot : Bool :=
  !Obs.inSnap {} 3 && Obs.inSnap { snap := some (5, 9) } 5 && Obs.inSnap { snap := some (5, 9) } 9 &&
  !Obs.inSnap { snap := some (5, 9) } 4 && !Obs.inSnap { snap := some (5, 9) } 10

def gObsClose : Bool :=
  (Obs.close {}).closed && (Obs.closeEnd {}).endClosed && decide (Obs.send { closed := true } .marker = .dropClosed)

/-- `End`: `if so.endClosed { return }` – after `CloseEnd` a stream end is ignored -/
def gObsEnd : Bool :=
  decide ((Life.listenEnd { lOpenEnd with closedObs := true } 0 .final).2 = []) &&
  decide ((Life.listenEnd { lOpenEnd with closedObs := true } 0 .final).1.active = 2)

def gCbMarker : Bool :=
  decide (Obs.step {} {} (.marker 5 9) = ({ snap := some (5, 9) }, .fwd .marker))

/-- document callbacks: gate, catch-up, event time `Cas/1000000000`, skip window, snapshot check,
    send, counter; the offset = (current snapshot, observer's vbUUID, event seqNo, latestSeqNo) -/
def gCbDoc (k : DocKind) : Bool :=
  let o : Obs := { snap := some (5, 9), uuid := 4, latest := 77 }
  let d : DocEv := ⟨k, 6, 2000000005, "6b", 8, "p"⟩
  let cfg : ObsCfg := { colls := [(8, "c8")] }
  decide (Obs.step cfg o (.doc d) = (o.count k, .fwd (.doc d ⟨4, 6, 5, 9, 77⟩ "c8" 2))) &&
  decide ((Obs.step cfg o (.doc { d with cas := 999999999 })).2 = .fwd (.doc { d with cas := 999999999 } ⟨4, 6, 5, 9, 77⟩ "c8" 0)) &&
  -- skip window before the snapshot check
  decide ((Obs.step { skipUntil := some 100 } { uuid := 4 } (.doc d)).2 = .dropSkip) &&
  -- catch-up before the skip window
  decide ((Obs.step { skipUntil := some 100 } { catchNeed := true, catchSeq := 10 } (.doc d)).2 = .dropCatchup) &&
  decide ((Obs.step {} { uuid := 4 } (.doc d)).2 = .failstop) &&
  -- a closed observer still counts
  decide (Obs.step cfg { o with closed := true } (.doc d) = (({ o with closed := true } : Obs).count k, .dropClosed))

def gCbSeqAdv : Bool :=
  decide (Obs.step {} { uuid := 4, latest := 77 } (.seqAdv 6) =
    ({ uuid := 4, latest := 77, snap := some (6, 6) }, .fwd (.seqAdv ⟨4, 6, 6, 6, 77⟩)))

def gCbSys (k : SysKind) : Bool :=
  let o : Obs := { snap := some (5, 9), uuid := 4, latest := 77 }
  decide (Obs.step {} o (.sys k 6 0) = (o, .fwd (.sys k ⟨4, 6, 5, 9, 77⟩))) &&
  decide ((Obs.step {} { uuid := 4 } (.sys k 6 0)).2 = .failstop)

def gCbOso : Bool := decide (Obs.step rmCfg {} .oso = ({}, .fwd .oso))

/-! ## probes of `Model/Rollback.lean` (client.go `OpenStream`, `openStreamWithRollback`) -/

/-- name of the `offset` field (third parameter, `$2`) whose probe value is `v` -/
def offsetField (v : Nat) : String :=
  match v with
  | 11 => "$2.VbUUID"
  | 12 => "gocbcore.SeqNo($2.SeqNo)"
  | 13 => "gocbcore.SeqNo($2.StartSeqNo)"
  | 14 => "gocbcore.SeqNo($2.EndSeqNo)"
  | 15 => "gocbcore.SeqNo($2.LatestSeqNo)"
  | _ => "?"

def hexByte (n : Nat) : String :=
  let d := fun (k : Nat) => Char.ofNat (if k < 10 then 48 + k else 87 + k)
  String.ofList [d (n / 16 % 16), d (n % 16)]

/-- arguments 0..7 of the first `dcpAgent.OpenStream(vbID, flags, vbUUID, start, end, snapStart,
    snapEnd, observer, …)`, rendered from `Rollback.firstReq` -/
def firstArgs : String :=
  let r := Rollback.firstReq ⟨11, 12, 13, 14, 15⟩
  ",".intercalate ["$0", (if r.flags = 0 then "0" else "0x" ++ hexByte r.flags), offsetField r.uuid, offsetField r.start,
    offsetField r.stop, offsetField r.snapStart, offsetField r.snapEnd, "$3"]

/-- parameter of `openStreamWithRollback(vbID, failedSeqNo, rollbackSeqNo, latestSeqNo, observer, …)`
    whose probe value is `v`; the target vbUUID is a local initialised with the literal 0 -/
def rollbackParam (v : Nat) : String :=
  match v with
  | 22 => "$2"
  | 23 => "$3"
  | 0 => "lit(0)"
  | _ => "?"

/-- arguments 0..7 of the second request, rendered from `Rollback.rollbackReq` (empty failover
    log: the scan leaves `targetUUID` at its initial value) -/
def rollbackArgs : String :=
  let r := Rollback.rollbackReq [] 22 23
  ",".intercalate ["$0", (if r.flags = 0 then "0" else "0x" ++ hexByte r.flags), rollbackParam r.uuid, rollbackParam r.start,
    rollbackParam r.stop, rollbackParam r.snapStart, rollbackParam r.snapEnd, "$4"]

/-- the failover-log scan of `openStreamWithRollback`, read off `Rollback.branchFor` -/
def failoverScan : String :=
  let log : Rollback.Log := [(30, 20), (20, 10), (10, 0)]
  let dir := if Rollback.branchFor log 15 = 20 then "last-to-first" else if Rollback.branchFor log 15 = 10 then "first-to-last" else "?"
  let op := if Rollback.branchFor log 10 = 20 then ">=" else if Rollback.branchFor log 10 = 10 then ">" else "?"
  dir ++ "(GetFailOverLogs#0):if($2" ++ op ++ "e.SeqNo){target=e.VbUUID}"

def pRbOff : Rollback.Offset := ⟨11, 12, 13, 14, 15⟩

/-- success callback of the first request: `SetVbUUID(failOverLogs[0].VbUUID)`, no catch-up -/
def gFirstCallback : Bool :=
  decide (Rollback.openStream ⟨pRbOff, .ok [(21, 0)], none, .err⟩ = .opened [Rollback.firstReq pRbOff] 21 none) &&
  decide (Rollback.openStream ⟨pRbOff, .err, none, .err⟩ = .failed [Rollback.firstReq pRbOff])

/-- success callback of the second request: `SetVbUUID(failOverLogs[0].VbUUID); SetCatchup(failedSeqNo)` -/
def gRollbackCallback : Bool :=
  decide (Rollback.openStream ⟨pRbOff, .rollback 4, some [(30, 2)], .ok [(33, 0)]⟩ =
    .opened [Rollback.firstReq pRbOff, Rollback.rollbackReq [(30, 2)] 4 15] 33 (some 12))

/-- `DCPRollbackError` → `openStreamWithRollback(vbID, offset.SeqNo, rollbackErr.SeqNo, offset.LatestSeqNo, observer)`;
    every other error is returned -/
def gRollbackDispatch : Bool :=
  decide (Rollback.openStream ⟨pRbOff, .rollback 4, some [(30, 2)], .err⟩ =
    .failed [Rollback.firstReq pRbOff, ⟨0, 30, 4, 15, 4, 4⟩]) &&
  decide (Rollback.openStream ⟨pRbOff, .rollback 4, none, .err⟩ = .failed [Rollback.firstReq pRbOff])

/-! ## probes of `Model/Life.lean` (Open / Close / Rebalance / rebalance / wait / listenEnd / dcp.close) -/

open GoDcp.Life in
/-- an open stream over vBuckets 0..1 -/
def lOpen : Life.LSt := (Life.doOpen { memLo := 0, memHi := 1 }).1

open GoDcp.Life in
def gOpenOrder : Bool :=
  let r := doOpen { memLo := 0, memHi := 1, finishedWithClose := true, finishedWithEnd := true, store := [(1, 6)] }
  decide (r.2 = [.cb .BSS, .openreq 0 0, .openreq 1 6, .cb .ASS]) &&
  r.1.isOpen && !r.1.obsNil && !r.1.finishedWithClose && !r.1.finishedWithEnd && decide (r.1.active = 2) &&
  decide ((r.1.lo, r.1.hi) = (0, 1))

open GoDcp.Life in
/-- `wait()`: after either token, `if !s.balancing { close(s.stopCh) }` -/
def gWait : Bool :=
  decide ((waitFires {}).2 = [.stop]) && decide ((waitFires { balancing := true }).2 = []) &&
  decide ((waitFires { stopClosed := true }).2 = [])

open GoDcp.Life in
/-- `Close`: nil `observers` → crash at the first `Range`; else BeforeStreamStop, every stream closed
    (ends arrive before `CloseEnd`), AfterStreamStop, and only then the close token unless the end
    token was produced -/
def gCloseOrder : Bool :=
  (doClose {} false).isNone &&
  decide ((doClose lOpen true).map (·.2) = some [.cb .BSP, .closereq 0, .closereq 1, .stop, .cb .ASP]) &&
  decide ((doClose { lOpen with balancing := true } false).map (·.2) = some [.cb .BSP, .closereq 0, .closereq 1, .cb .ASP]) &&
  decide ((doClose { lOpen with active := 3 } false).map (·.2) = some [.cb .BSP, .closereq 0, .closereq 1, .cb .ASP, .stop]) &&
  (match doClose lOpen true with
   | some (s, _) => s.obsNil && s.pos.isEmpty && s.dirty.isEmpty && !s.isOpen && s.closeWithCancel && s.closedObs
   | none => false)

open GoDcp.Life in
/-- `Rebalance()`: debounce branch (Stop/Reset, else a new `AfterFunc(delay, s.Rebalance)`), lock,
    BeforeRebalanceStart, `if !balancing { balancing = true; Close(false) }`, AfterRebalanceStart,
    timer `AfterFunc(dynamic ? 0 : delay, s.rebalance)` -/
def gRebalanceCall : Bool :=
  let r := callRebalance lOpen 10
  decide (r.2 = [.cb .BRS, .cb .BSP, .closereq 0, .closereq 1, .cb .ASP, .cb .ARS]) &&
  decide (r.1.timers = [⟨0, 210, .reb, true⟩]) && r.1.balancing && r.1.lockHeld && !r.1.closeWithCancel &&
  decide ((callRebalance { lOpen with dynamic := true } 10).1.timers = [⟨0, 10, .reb, true⟩]) &&
  -- a second notification inside the window: Stop() succeeds → Reset
  decide ((callRebalance r.1 50).2 = [.debounced]) &&
  decide ((callRebalance r.1 50).1.timers = [⟨0, 250, .reb, true⟩]) &&
  -- the timer has fired already: Stop() fails → AfterFunc(delay, s.Rebalance)
  (let fired := setTimer r.1 ⟨0, 210, .reb, false⟩
   decide ((callRebalance fired 300).2 = [.reassigned]) &&
   decide ((callRebalance fired 300).1.timers = [⟨0, 210, .reb, false⟩, ⟨1, 500, .Reb, true⟩])) &&
  -- first-ever rebalance: no timer yet, the lock is held → the call queues (finding F5)
  decide ((callRebalance { lOpen with balancing := true, lockHeld := true } 10).2 = [.queued])

open GoDcp.Life in
/-- `rebalance()`: BeforeRebalanceEnd, Open, counter, `balancing = false`, AfterRebalanceEnd, unlock (deferred) -/
def gRebalanceFire : Bool :=
  let closed := (callRebalance lOpen 10).1
  let r := rebalanceFires { closed with memLo := 1, memHi := 1 } 210
  decide (r.2 = [.cb .BRE, .cb .BSS, .openreq 1 0, .cb .ASS, .cb .ARE]) &&
  decide (r.1.rebalances = 1) && !r.1.balancing && !r.1.lockHeld && r.1.isOpen

open GoDcp.Life in
/-- `listenEnd`: `!closeWithCancel && Err != nil && transient` → reopen from the current position,
    count untouched; everything else (also a transient end during a cancel) → `activeStreams.Add(-1)` -/
def gReopenGuard : Bool :=
  let s := { lOpen with pos := [(0, 4), (1, 0)] }
  decide ((listenEnd s 0 .transient).2 = [.openreq 0 4]) && decide ((listenEnd s 0 .transient).1.active = 2) &&
  decide ((listenEnd { s with closeWithCancel := true } 0 .transient).2 = []) &&
  decide ((listenEnd { s with closeWithCancel := true } 0 .transient).1.active = 1) &&
  decide ((listenEnd s 0 .clean).1.active = 1) && decide ((listenEnd s 0 .closed).1.active = 1) &&
  decide ((listenEnd s 0 .final).1.active = 1) && decide ((listenEnd s 0 .final).2 = [])

open GoDcp.Life in
/-- else branch: `if activeStreams == 0 && !s.streamFinishedWithCloseCh { finishStreamWithEndEventCh <- }` -/
def gEndBranches : Bool :=
  let s := { lOpen with active := 1 }
  decide ((listenEnd s 0 .final).2 = [.stop]) && (listenEnd s 0 .final).1.finishedWithEnd &&
  decide ((listenEnd { s with finishedWithClose := true } 0 .final).2 = []) &&
  decide ((listenEnd { s with closedObs := true } 0 .final).2 = []) &&
  decide ((listenEnd { s with closedObs := true } 0 .final).1.active = 1)

open GoDcp.Life in
/-- `reopenStream` gives up with `panic(err)` when every attempt fails (`openStream`: vbID not in the offset map) -/
def gReopenLoop : Bool :=
  let r := listenEnd { lOpen with pos := [] } 0 .transient
  decide (r.2 = [.failstop "reopen-gave-up"]) && r.1.dead

/-- `openStream(vbID)`: missing offset → error; else `client.OpenStream(vbID, …, offset, observer)` from the current position -/
def gOpenByVb : Bool :=
  gReopenLoop &&
  (match (reopenStream pStAt5 0).2, (reopenStream { pStAt5 with observers := [(0, {})] } 0).2 with
   | [.bad _], [.openreq 0 o] => decide (o = pOff 5)
   | _, _ => false)

open GoDcp.Life in
/-- `dcp.close()`: `stream.Save()` (checkpoint type auto) BEFORE `stream.Close(closeWithCancel)` -/
def gDcpClose : Bool :=
  let s : LSt := (Life.evStep lOpen 0).1
  decide ((Life.step { s with auto := true } (.shutdown true)).2 =
    [.written 0 1, .cb .BSP, .closereq 0, .closereq 1, .stop, .cb .ASP]) &&
  decide ((Life.step s (.shutdown false)).2 = [.cb .BSP, .closereq 0, .closereq 1, .stop, .cb .ASP]) &&
  (Life.step { s with auto := true } (.shutdown true)).1.closeWithCancel

/-! ## probes of `Model/Health.lean`, `Model/MinSeqNo.lean`, `Model/Membership.lean` -/

open GoDcp.Health in
def gHealthRound : Bool :=
  decide (round [false, false, false, false, false] = ⟨5, .panic⟩) && decide (round [false, true] = ⟨2, .ok⟩) &&
  decide (round [true] = ⟨1, .ok⟩) && decide (round [false, false, false, false, true] = ⟨5, .ok⟩)

open GoDcp.Health in
def gHealthStart : Bool :=
  let view := fun (σ : Option State) => σ.map fun σ => (σ.g, σ.wg, σ.cancelSet, σ.spawns)
  decide (view (exec init startSeq) = some (.waitTick, 1, true, 1)) &&
  decide (view (exec init (startSeq ++ [.startCall])) = some (.waitTick, 1, true, 1))

open GoDcp.Health in
def gHealthStop : Bool :=
  -- `if h.cancelFunc != nil { h.cancelFunc() }; h.wg.Wait()`
  decide ((exec init [.stopCall, .stopCancel]).map (·.cancelled) = some false) &&
  decide ((exec init (startSeq ++ [.stopCall, .stopCancel])).map (·.cancelled) = some true) &&
  (exec init (startSeq ++ [.stopCall, .stopCancel, .stopWait])).isNone &&
  (exec init (startSeq ++ [.stopCall, .stopCancel, .seeCancel, .stopWait])).isSome

open GoDcp.Health in
def gHealthRun : Bool :=
  decide ((exec init (startSeq ++ [.tick])).map (·.g) = some (.pinging 1)) &&
  decide ((exec init (startSeq ++ [.stopCall, .stopCancel, .seeCancel])).map (fun σ => (σ.g, σ.wg)) = some (.stopped, 0))

open GoDcp.MinSeqNo in
/-- `getMinSeqNo`: start at the first non-absent entry (none → 0), skip absent ones, another vbUUID → 0, else the minimum -/
def gMinSeqNo : Bool :=
  getMinSeqNo [] == 0 && getMinSeqNo [⟨1, 9, true⟩, ⟨1, 8, true⟩] == 0 &&
  getMinSeqNo [⟨1, 9, true⟩, ⟨2, 7, false⟩, ⟨3, 1, true⟩, ⟨2, 5, false⟩, ⟨2, 6, false⟩] == 5 &&
  getMinSeqNo [⟨2, 7, false⟩, ⟨3, 5, false⟩] == 0 && getMinSeqNo [⟨2, 7, false⟩] == 7

open GoDcp.Membership in
/-- `monitor`: `sort.SliceStable` by join time, then by id (commit 23681a3) -/
def gComparator : Bool :=
  lessJTId (1, 5) (2, 5) && !lessJTId (2, 5) (1, 5) && lessJTId (9, 4) (1, 5) && !lessJTId (1, 5) (9, 4) &&
  !lessJTId (3, 5) (3, 5) && decide (sortJTId [(2, 5), (9, 4), (1, 5)] = [(9, 4), (1, 5), (2, 5)])

/-! ## values composed from `Model/Keys.lean`, `Model/Version.lean` -/

/-- `getCheckpointID`: dot guard, then `helpers.Prefix + groupName + ":checkpoint:" + strconv.Itoa(int(vbID))` -/
def checkpointIdBody : String :=
  guarded (Keys.checkpointID 3 "a.b".toList == none &&
      Keys.checkpointID 12 "g".toList == some (Keys.keyPrefix ++ "g".toList ++ Keys.checkpointWord ++ ":12".toList))
    ("if(strings.Contains($1,\".\")){panic(errors.New#0)};return []byte(helpers.Prefix+$1+\"" ++
      String.ofList Keys.checkpointWord ++ ":\"+strconv.Itoa(int($0)))")

/-- `id: []byte(helpers.Prefix + config.Dcp.Group.Name + ":" + _type + ":" + uuid.New().String())` -/
def instanceKeyExpr : String :=
  guarded (Keys.instanceKey "g".toList "u".toList == Keys.keyPrefix ++ "g".toList ++ Keys.instanceWord ++ ":u".toList &&
      Keys.instanceWord.take 1 == [':'])
    "[]byte(helpers.Prefix+$0.Dcp.Group.Name+\":\"+_type+\":\"+uuid.New().String())"

/-- `instanceAll: []byte(helpers.Prefix + config.Dcp.Group.Name + ":" + _type + ":all")` -/
def indexKeyExpr : String :=
  guarded (Keys.indexKey "g".toList == Keys.instanceKey "g".toList Keys.allWord)
    ("[]byte(helpers.Prefix+$0.Dcp.Group.Name+\":\"+_type+\":" ++ String.ofList Keys.allWord ++ "\")")

def showVersion (v : Version.Version) : String := s!"{v.major}.{v.minor}.{v.patch}.{v.build}"

/-! ## all facts: name ↦ the value the models use -/

def facts : List (String × String) := [
  ("C01+C03+C05.listen.cases", guarded (gListenCases)
    "DcpCollectionCreation DcpCollectionDeletion DcpCollectionFlush DcpCollectionModification DcpDeletion DcpExpiration DcpMutation DcpScopeCreation DcpScopeDeletion DcpSeqNoAdvanced default:empty"),
  ("C01+C03.listen.DcpMutation", listenDoc .mu),
  ("C01+C03.listen.DcpDeletion", listenDoc .de),
  ("C01+C03.listen.DcpExpiration", listenDoc .ex),
  ("C01+C05+C06.listen.DcpSeqNoAdvanced", listenAbsorb (.seqAdv (pOff 3))),
  ("C01+C05+C06.listen.DcpCollectionCreation", listenAbsorb (.sys .cc (pOff 3))),
  ("C01+C05+C06.listen.DcpCollectionDeletion", listenAbsorb (.sys .cd (pOff 3))),
  ("C01+C05+C06.listen.DcpCollectionFlush", listenAbsorb (.sys .cf (pOff 3))),
  ("C01+C05+C06.listen.DcpScopeCreation", listenAbsorb (.sys .sc (pOff 3))),
  ("C01+C05+C06.listen.DcpScopeDeletion", listenAbsorb (.sys .sd (pOff 3))),
  ("C01+C05+C06.listen.DcpCollectionModification", listenAbsorb (.sys .cm (pOff 3))),
  ("C01+C14.forward.metadata-branch", metadataBranch),
  ("C03.forward.tail", guarded (gForwardTail)
    "metric.DcpLatency=time.Since($4).Milliseconds();consumer.ConsumeEvent(ctx);metric.ProcessLatency=time.Since(time.Now#0).Milliseconds()"),
  ("C01+C04+C05.forward.ack", ackBody),
  ("C05.forward.commit",
    "checkpoint.Save"),
  ("C04.setoffset.range-test", guarded (gRangeTest)
    "vbIDRange.In($0)"),
  ("C04.setoffset.regression-guard", regressionGuard),
  ("C04+C05.setoffset.order", guarded (gSetOffsetOrder)
    "offsets.Store($0,$1);consumer.TrackOffset($0,$1);if(!$2){return};dirtyOffsets.StoreIf($0,func)"),
  ("C05.setoffset.dirty-mark", guarded (gDirtyMark)
    "if(!%1||(%1&&!%0)){return true,true};return %0,false"),
  ("C12.transient-set", " ".intercalate transientErrs),
  ("C12+C13.listenend.reopen-guard", guarded (gReopenGuard)
    "!closeWithCancel&&$0.Err!=nil&&transient($0.Err)"),
  ("C12+C13.listenend.branches", guarded (gEndBranches)
    "then{go reopenStream($0.Event.VbID)}else{activeStreams.Add(-1);if(activeStreams.Add#0==0&&!streamFinishedWithCloseCh){finishStreamWithEndEventCh<-struct{}{}}}"),
  ("C12+C15.reopen.retries", toString reopenRetries),
  ("C12+C15.reopen.sleep", reopenSleep),
  ("C12+C15.reopen.loop", guarded (gReopenLoop)
    "try:openStream($0);ok=>break;n--;n==0=>panic;sleep"),
  ("C11+C13.close-order", guarded (gCloseOrder)
    "closeWithCancel=$0;eventHandler.BeforeStreamStop();if(!config.RollbackMitigation.Disabled){rollbackMitigation.Stop()};observers.Range(func{%1.Close();return true});if(checkpoint!=nil){checkpoint.StopSchedule()};closeAllStreams();observers.Range(func{%1.CloseEnd();return true});observers=nil;offsets=wrapper.CreateConcurrentSwissMap[uint16,*models.Offset](1024);dirtyOffsets=wrapper.CreateConcurrentSwissMap[uint16,bool](1024);eventHandler.AfterStreamStop();open=false;if(!streamFinishedWithEndEventCh){finishStreamWithCloseCh<-struct{}{}}"),
  ("C02+C11.open-order", guarded (gOpenOrder)
    "streamFinishedWithCloseCh=false;streamFinishedWithEndEventCh=false;eventHandler.BeforeStreamStart();vBucketDiscovery.Get();vbIDRange=&models.VbIDRange{Start:vBucketDiscovery.Get#0[0],End:vBucketDiscovery.Get#0[len(vBucketDiscovery.Get#0)-1]};if(!config.RollbackMitigation.Disabled){if(bucketInfo.IsEphemeral()){config.RollbackMitigation.Disabled=true}else{rollbackMitigation=couchbase.NewRollbackMitigation(client,config,vBucketDiscovery.Get#0,dispatchPersistSeqNo);rollbackMitigation.Start()}};activeStreams.Swap(int32(len(vBucketDiscovery.Get#0)));offset.NewOffsetLatestSeqNoInit(config);checkpoint=NewCheckpoint(s,vBucketDiscovery.Get#0,client,metadata,config,offset.NewOffsetLatestSeqNoInit#0);offsets,dirtyOffsets,anyDirtyOffset=checkpoint.Load();observers=wrapper.CreateConcurrentSwissMap[uint16,couchbase.Observer](1024);offsets.Range(func{observers.Store(%0,couchbase.NewObserver(config,%0,%1.LatestSeqNo,listen,listenEnd,collectionIDs,tracerComponent));return true});openAllStreams(vBucketDiscovery.Get#0);eventHandler.AfterStreamStart();checkpoint.StartSchedule();go wait();open=true"),
  ("C11.Rebalance-order", guarded (gRebalanceCall)
    "if(balancing&&rebalanceTimer!=nil){if(rebalanceTimer.Stop()){rebalanceTimer.Reset(config.Dcp.Group.Membership.RebalanceDelay)}else{rebalanceTimer=time.AfterFunc(config.Dcp.Group.Membership.RebalanceDelay,Rebalance)};return};rebalanceLock.Lock();eventHandler.BeforeRebalanceStart();if(!balancing){balancing=true;Close(false)};eventHandler.AfterRebalanceStart();if(config.Dcp.Group.Membership.Type==membership.DynamicMembershipType){rebalanceTimer=time.AfterFunc(0,rebalance)}else{rebalanceTimer=time.AfterFunc(config.Dcp.Group.Membership.RebalanceDelay,rebalance)}"),
  ("C11.rebalance-order", guarded (gRebalanceFire)
    "defer rebalanceLock.Unlock();eventHandler.BeforeRebalanceEnd();Open();metric.Rebalance++;balancing=false;eventHandler.AfterRebalanceEnd()"),
  ("C11+C12+C13.wait-order", guarded (gWait)
    "select{case <-finishStreamWithCloseCh:{streamFinishedWithCloseCh=true}case <-finishStreamWithEndEventCh:{streamFinishedWithEndEventCh=true}};if(!balancing){close(stopCh)}"),
  ("C07.dispatch-persist", guarded (gDispatchPersist)
    "if(observers!=nil){if(observers.Load($0.VbID);observers.Load#1){observers.Load#0.SetPersistSeqNo($0.SeqNo)}}"),
  ("C12+C15.openstream-by-vb", guarded (gOpenByVb)
    "offsets.Load($0);if(!offsets.Load#1){fmt.Errorf(\"vbID: %d not found on offset map\",$0);return fmt.Errorf#0};observers.Load($0);return client.OpenStream($0,collectionIDs,offsets.Load#0,observers.Load#0)"),
  ("C05.unmark-dirty", guarded (gUnmark)
    "anyDirtyOffset=false;dirtyOffsets=wrapper.CreateConcurrentSwissMap[uint16,bool](1024)"),
  ("C05.save-order", guarded (gSaveOrder)
    "stream.GetOffsets();if(!stream.GetOffsets#2){return};saveLock.Lock();defer saveLock.Unlock();stream.GetOffsets#0.Range(func{(map[uint16]*models.CheckpointDocument{})[%0]=&models.CheckpointDocument{Checkpoint:&models.CheckpointDocumentCheckpoint{VbUUID:uint64(%1.VbUUID),SeqNo:%1.SeqNo,Snapshot:&models.CheckpointDocumentSnapshot{StartSeqNo:%1.StartSeqNo,EndSeqNo:%1.EndSeqNo}},BucketUUID:bucketUUID};return true});stream.GetOffsets#1.Range(func{(map[uint16]bool{})[%0]=%1;return true});metric.OffsetWrite=_;metadata.Save((map[uint16]*models.CheckpointDocument{}),(map[uint16]bool{}),bucketUUID);metric.OffsetWriteLatency=time.Since(time.Now#0).Milliseconds();if(metadata.Save#0==nil){stream.UnmarkDirtyOffsets()}else{}"),
  ("C02+C15.load.head",
    "loadLock.Lock();defer loadLock.Unlock();metadata.Load(vbIds,bucketUUID);if(metadata.Load#2==nil){}else{panic(metadata.Load#2)};client.GetVBucketSeqNos(false);if(client.GetVBucketSeqNos#1!=nil){panic(client.GetVBucketSeqNos#1)}"),
  ("C02.load.latest-reset-cond", guarded (gLatestCond)
    "!metadata.Load#1&&config.Checkpoint.AutoReset==CheckpointAutoResetTypeLatest"),
  ("C02+C05.load.latest-branch", guarded (gLatestBranch)
    "metadata.Load#0.Range(func{client.GetVBucketSeqNos#0.Load(%0);if(client.GetVBucketSeqNos#0.Load#0!=0){wrapper.CreateConcurrentSwissMap[uint16,bool]#0.Store(%0,true);lit(false)=true};client.GetFailOverLogs(%0);if(client.GetFailOverLogs#1!=nil){panic(client.GetFailOverLogs#1)};offsetLatestSeqNoInit.InitializeLatestSeqNo(client.GetVBucketSeqNos#0.Load#0);wrapper.CreateConcurrentSwissMap[uint16,*models.Offset]#0.Store(%0,&models.Offset{SnapshotMarker:&models.SnapshotMarker{StartSeqNo:client.GetVBucketSeqNos#0.Load#0,EndSeqNo:client.GetVBucketSeqNos#0.Load#0},VbUUID:client.GetFailOverLogs#0[0].VbUUID,SeqNo:client.GetVBucketSeqNos#0.Load#0,LatestSeqNo:offsetLatestSeqNoInit.InitializeLatestSeqNo#0});return true});return wrapper.CreateConcurrentSwissMap[uint16,*models.Offset]#0,wrapper.CreateConcurrentSwissMap[uint16,bool]#0,lit(false)"),
  ("C02+C15.load.stored-branch", guarded (gStoredBranch)
    "metadata.Load#0.Range(func{client.GetVBucketSeqNos#0.Load(%0);if(%1.Checkpoint.SeqNo>client.GetVBucketSeqNos#0.Load#0){panic(errors.New#0)};offsetLatestSeqNoInit.InitializeLatestSeqNo(client.GetVBucketSeqNos#0.Load#0);wrapper.CreateConcurrentSwissMap[uint16,*models.Offset]#0.Store(%0,&models.Offset{SnapshotMarker:&models.SnapshotMarker{StartSeqNo:%1.Checkpoint.Snapshot.StartSeqNo,EndSeqNo:%1.Checkpoint.Snapshot.EndSeqNo},VbUUID:gocbcore.VbUUID(%1.Checkpoint.VbUUID),SeqNo:%1.Checkpoint.SeqNo,LatestSeqNo:offsetLatestSeqNoInit.InitializeLatestSeqNo#0});return true});return wrapper.CreateConcurrentSwissMap[uint16,*models.Offset]#0,wrapper.CreateConcurrentSwissMap[uint16,bool]#0,lit(false)"),
  ("C13.schedule-loop",
    "if(config.Checkpoint.Type!=CheckpointTypeAuto){return};go func{running=true;for(running){time.Sleep(config.Checkpoint.Interval);if(!running){break};Save()}}()"),
  ("C13.schedule-stop",
    "if(config.Checkpoint.Type!=CheckpointTypeAuto){return};running=false"),
  ("C07.observer.check-persist", guarded (gCheckPersist)
    "return gocbcore.SeqNo($0)<=persistSeqNo||closed"),
  ("C07.observer.wait-gate",
    "for(){if(checkPersistSeqNo($0)){break};time.Sleep(config.RollbackMitigation.Interval/5)}"),
  ("C08.observer.need-catchup", guarded (gNeedCatchup)
    "if(!isCatchupNeed){return false};if($0>=catchupSeqNo){isCatchupNeed=false;return $0==catchupSeqNo};return true"),
  ("C08.observer.set-catchup", guarded (gSetCatchup)
    "catchupSeqNo=uint64($0);isCatchupNeed=true"),
  ("C07+C08.observer.can-forward", guarded (gCanForward)
    "if(!config.RollbackMitigation.Disabled){waitRollbackMitigation($0)};return $1||!needCatchup($0)"),
  ("C07.observer.set-persist", guarded (gSetPersist)
    "if($0!=0){if($0>persistSeqNo){persistSeqNo=$0}}else{}"),
  ("C03.observer.skip-window", guarded (gSkipWindow)
    "if(config.Dcp.Listener.SkipUntil==nil){return false};return config.Dcp.Listener.SkipUntil.After($0)"),
  ("C06+C15.observer.in-snapshot", guarded (gInSnapshot)
    "currentSnapshot!=nil&&$0>=currentSnapshot.StartSeqNo&&$0<=currentSnapshot.EndSeqNo;if(!(currentSnapshot!=nil&&$0>=currentSnapshot.StartSeqNo&&$0<=currentSnapshot.EndSeqNo)){fmt.Errorf(\"seqNo not in snapshot: %v, vbID: %v\",$0,vbID);panic(fmt.Errorf#0)};return (currentSnapshot!=nil&&$0>=currentSnapshot.StartSeqNo&&$0<=currentSnapshot.EndSeqNo)"),
  ("C12+C13.observer.end", guarded (gObsEnd)
    "if(endClosed){return};endListener(models.DcpStreamEndContext{Event:$0,Err:$1})"),
  ("C11+C13.observer.close", guarded (gObsClose)
    "closed=true"),
  ("C12+C13.observer.close-end", guarded (gObsClose)
    "endClosed=true"),
  ("C03+C13.observer.send-closed-test", guarded (gObsClose)
    "if(closed){return}"),
  ("C07+C08.observer.gate.SnapshotMarker", gateOf .marker),
  ("C06+C07+C08.observer.cb.SnapshotMarker", guarded (gCbMarker)
    "if(!canForward($0.StartSeqNo,true)){return};currentSnapshot=&models.SnapshotMarker{StartSeqNo:$0.StartSeqNo,EndSeqNo:$0.EndSeqNo};sendOrSkip(models.ListenerArgs{Event:$0})"),
  ("C07+C08.observer.gate.Mutation", gateOf (.doc .mu)),
  ("C03+C06+C07+C08.observer.cb.Mutation", guarded (gCbDoc .mu)
    "if(!canForward($0.SeqNo,false)){return};time.Unix(int64($0.Cas/1000000000),0);if(isBeforeSkipWindow(time.Unix#0)){return};if(IsInSnapshotMarker($0.SeqNo)){sendOrSkip(models.ListenerArgs{Event:models.InternalDcpMutation{DcpMutation:&$0,Offset:&models.Offset{SnapshotMarker:currentSnapshot,VbUUID:vbUUID,SeqNo:$0.SeqNo,LatestSeqNo:latestSeqNo},CollectionName:convertToCollectionName($0.CollectionID),EventTime:time.Unix#0}});metrics.AddMutation()}"),
  ("C07+C08.observer.gate.Deletion", gateOf (.doc .de)),
  ("C03+C06+C07+C08.observer.cb.Deletion", guarded (gCbDoc .de)
    "if(!canForward($0.SeqNo,false)){return};time.Unix(int64($0.Cas/1000000000),0);if(isBeforeSkipWindow(time.Unix#0)){return};if(IsInSnapshotMarker($0.SeqNo)){sendOrSkip(models.ListenerArgs{Event:models.InternalDcpDeletion{DcpDeletion:&$0,Offset:&models.Offset{SnapshotMarker:currentSnapshot,VbUUID:vbUUID,SeqNo:$0.SeqNo,LatestSeqNo:latestSeqNo},CollectionName:convertToCollectionName($0.CollectionID),EventTime:time.Unix#0}});metrics.AddDeletion()}"),
  ("C07+C08.observer.gate.Expiration", gateOf (.doc .ex)),
  ("C03+C06+C07+C08.observer.cb.Expiration", guarded (gCbDoc .ex)
    "if(!canForward($0.SeqNo,false)){return};time.Unix(int64($0.Cas/1000000000),0);if(isBeforeSkipWindow(time.Unix#0)){return};if(IsInSnapshotMarker($0.SeqNo)){sendOrSkip(models.ListenerArgs{Event:models.InternalDcpExpiration{DcpExpiration:&$0,Offset:&models.Offset{SnapshotMarker:currentSnapshot,VbUUID:vbUUID,SeqNo:$0.SeqNo,LatestSeqNo:latestSeqNo},CollectionName:convertToCollectionName($0.CollectionID),EventTime:time.Unix#0}});metrics.AddExpiration()}"),
  ("C07+C08.observer.gate.SeqNoAdvanced", gateOf .seqAdv),
  ("C06+C07+C08.observer.cb.SeqNoAdvanced", guarded (gCbSeqAdv)
    "if(!canForward($0.SeqNo,true)){return};&models.SnapshotMarker{StartSeqNo:$0.SeqNo,EndSeqNo:$0.SeqNo};currentSnapshot=(&models.SnapshotMarker{StartSeqNo:$0.SeqNo,EndSeqNo:$0.SeqNo});sendOrSkip(models.ListenerArgs{Event:models.InternalDcpSeqNoAdvance{DcpSeqNoAdvanced:&$0,Offset:&models.Offset{SnapshotMarker:(&models.SnapshotMarker{StartSeqNo:$0.SeqNo,EndSeqNo:$0.SeqNo}),VbUUID:vbUUID,SeqNo:$0.SeqNo,LatestSeqNo:latestSeqNo}}})"),
  ("C07+C08.observer.gate.CreateCollection", gateOf (.sys .cc)),
  ("C06+C07+C08.observer.cb.CreateCollection", guarded (gCbSys .cc)
    "if(!canForward($0.SeqNo,false)){return};if(IsInSnapshotMarker($0.SeqNo)){sendOrSkip(models.ListenerArgs{Event:models.InternalDcpCollectionCreation{DcpCollectionCreation:&$0,Offset:&models.Offset{SnapshotMarker:currentSnapshot,VbUUID:vbUUID,SeqNo:$0.SeqNo,LatestSeqNo:latestSeqNo},CollectionName:convertToCollectionName($0.CollectionID)}})}"),
  ("C07+C08.observer.gate.DeleteCollection", gateOf (.sys .cd)),
  ("C06+C07+C08.observer.cb.DeleteCollection", guarded (gCbSys .cd)
    "if(!canForward($0.SeqNo,false)){return};if(IsInSnapshotMarker($0.SeqNo)){sendOrSkip(models.ListenerArgs{Event:models.InternalDcpCollectionDeletion{DcpCollectionDeletion:&$0,Offset:&models.Offset{SnapshotMarker:currentSnapshot,VbUUID:vbUUID,SeqNo:$0.SeqNo,LatestSeqNo:latestSeqNo},CollectionName:convertToCollectionName($0.CollectionID)}})}"),
  ("C07+C08.observer.gate.FlushCollection", gateOf (.sys .cf)),
  ("C06+C07+C08.observer.cb.FlushCollection", guarded (gCbSys .cf)
    "if(!canForward($0.SeqNo,false)){return};if(IsInSnapshotMarker($0.SeqNo)){sendOrSkip(models.ListenerArgs{Event:models.InternalDcpCollectionFlush{DcpCollectionFlush:&$0,Offset:&models.Offset{SnapshotMarker:currentSnapshot,VbUUID:vbUUID,SeqNo:$0.SeqNo,LatestSeqNo:latestSeqNo},CollectionName:convertToCollectionName($0.CollectionID)}})}"),
  ("C07+C08.observer.gate.CreateScope", gateOf (.sys .sc)),
  ("C06+C07+C08.observer.cb.CreateScope", guarded (gCbSys .sc)
    "if(!canForward($0.SeqNo,false)){return};if(IsInSnapshotMarker($0.SeqNo)){sendOrSkip(models.ListenerArgs{Event:models.InternalDcpScopeCreation{DcpScopeCreation:&$0,Offset:&models.Offset{SnapshotMarker:currentSnapshot,VbUUID:vbUUID,SeqNo:$0.SeqNo,LatestSeqNo:latestSeqNo}}})}"),
  ("C07+C08.observer.gate.DeleteScope", gateOf (.sys .sd)),
  ("C06+C07+C08.observer.cb.DeleteScope", guarded (gCbSys .sd)
    "if(!canForward($0.SeqNo,false)){return};if(IsInSnapshotMarker($0.SeqNo)){sendOrSkip(models.ListenerArgs{Event:models.InternalDcpScopeDeletion{DcpScopeDeletion:&$0,Offset:&models.Offset{SnapshotMarker:currentSnapshot,VbUUID:vbUUID,SeqNo:$0.SeqNo,LatestSeqNo:latestSeqNo}}})}"),
  ("C07+C08.observer.gate.ModifyCollection", gateOf (.sys .cm)),
  ("C06+C07+C08.observer.cb.ModifyCollection", guarded (gCbSys .cm)
    "if(!canForward($0.SeqNo,false)){return};if(IsInSnapshotMarker($0.SeqNo)){sendOrSkip(models.ListenerArgs{Event:models.InternalDcpCollectionModification{DcpCollectionModification:&$0,Offset:&models.Offset{SnapshotMarker:currentSnapshot,VbUUID:vbUUID,SeqNo:$0.SeqNo,LatestSeqNo:latestSeqNo},CollectionName:convertToCollectionName($0.CollectionID)}})}"),
  ("C07+C08.observer.gate.OSOSnapshot", gateOf .oso),
  ("C03.observer.cb.OSOSnapshot", guarded (gCbOso)
    "sendOrSkip(models.ListenerArgs{Event:$0})"),
  ("C02+C08.openstream.first-args", firstArgs),
  ("C02+C08.openstream.first-callback", guarded (gFirstCallback)
    "func{if(%1==nil){$3.SetVbUUID(%0[0].VbUUID)};NewAsyncOp#0.Resolve();make#0<-%1}"),
  ("C08.openstream.rollback-args", rollbackArgs),
  ("C08.openstream.rollback-callback", guarded (gRollbackCallback)
    "func{if(%1==nil){$4.SetVbUUID(%0[0].VbUUID);$4.SetCatchup($1)};NewAsyncOp#0.Resolve();make#0<-%1}"),
  ("C08.openstream.rollback-dispatch", guarded (gRollbackDispatch)
    "rb,ok:=recv#0.(gocbcore.DCPRollbackError);ok=>openStreamWithRollback($0,gocbcore.SeqNo($2.SeqNo),rb.SeqNo,gocbcore.SeqNo($2.LatestSeqNo),$3)"),
  ("C08.failover-scan", failoverScan),
  ("C19.health.max-retries", toString Health.maxRetries),
  ("C19.health.retry-interval", healthRetryInterval),
  ("C19.health.round-loop", guarded (gHealthRound)
    "for(attempt:=1;attempt<=MAX;attempt++){client.Ping();if(client.Ping#1==nil){return};if(attempt<MAX){select{case <-$0.Done():{return}case <-time.After(INTERVAL):{}}}else{panic(client.Ping#1)}}"),
  ("C19.health.start", guarded (gHealthStart)
    "startOnce.Do(func{cancelFunc=context.WithCancel#1;wg.Add(1);go run(context.WithCancel#0)})"),
  ("C19.health.stop", guarded (gHealthStop)
    "stopOnce.Do(func{if(cancelFunc!=nil){cancelFunc()};wg.Wait()})"),
  ("C19.health.run", guarded (gHealthRun)
    "defer wg.Done();time.NewTicker(config.Interval);for(){select{case <-$0.Done():{return}case <-time.NewTicker#0.C:{performHealthCheck($0)}}}"),
  ("C07.min-seqno", guarded (gMinSeqNo)
    "persistedSeqNos.Load($0);range(persistedSeqNos.Load#0){if(!range(persistedSeqNos.Load#0)#1.IsAbsent()){lit(-1)=range(persistedSeqNos.Load#0)#0;break}};if(lit(-1)==-1){return 0};for(loop0:=lit(-1)+1;loop0<len(persistedSeqNos.Load#0);loop0++){if((persistedSeqNos.Load#0[loop0]).IsAbsent()){continue};if((persistedSeqNos.Load#0[lit(-1)].vbUUID)!=(persistedSeqNos.Load#0[loop0]).vbUUID){return 0};if((persistedSeqNos.Load#0[lit(-1)].seqNo)>(persistedSeqNos.Load#0[loop0]).seqNo){(persistedSeqNos.Load#0[lit(-1)].seqNo)=(persistedSeqNos.Load#0[loop0]).seqNo}};return (persistedSeqNos.Load#0[lit(-1)].seqNo)"),
  ("C14.const.Name", connectorName),
  ("C14.const.Prefix", String.ofList Keys.keyPrefix),
  ("C14.const.TxnPrefix", String.ofList Keys.txnPrefix),
  ("C10+C11.const.MembershipChangedBusEventName",
    "membershipChanged"),
  ("C14.checkpoint-id", checkpointIdBody),
  ("C14.instance-key", instanceKeyExpr),
  ("C14.index-key", indexKeyExpr),
  ("C14.instance-type", String.ofList (Keys.instanceWord.drop 1)),
  ("C10.membership-comparator", guarded (gComparator)
    "sort.SliceStable(append#0,func{if((map[string]int64{})[append#0[%0]]!=(map[string]int64{})[append#0[%1]]){return (map[string]int64{})[append#0[%0]]<(map[string]int64{})[append#0[%1]]};return append#0[%0]<append#0[%1]})"),
  ("C18.version.SrvVer550", showVersion Version.srvVer550),
  ("C18.version.SrvVer650", showVersion Version.srvVer650),
  ("C18.version.SrvVer720", showVersion Version.srvVer720),
  ("C13.dcp-close-order", guarded (gDcpClose)
    "if(!config.HealthCheck.Disabled){healthCheck.Stop()};vBucketDiscovery.Close();if(config.Checkpoint.Type==stream.CheckpointTypeAuto){stream.Save()};bus.Unsubscribe(helpers.MembershipChangedBusEventName,membershipChangedListener);stream.Close(closeWithCancel);if(config.LeaderElection.Enabled){leaderElection.Stop();serviceDiscovery.StopMonitor();serviceDiscovery.StopHeartbeat()};if(api!=nil&&!config.API.Disabled){apiShutdown<-struct{}{}};client.DcpClose();client.Close();if(api!=nil&&!config.API.Disabled){api.UnregisterMetricCollectors()};metricCollectors=[]prometheus.Collector{}"),
  ("C11+C13.dcp-start-tail",
    "stream.Open();bus.SubscribeAsync(helpers.MembershipChangedBusEventName,membershipChangedListener,true);if(bus.SubscribeAsync#0!=nil){panic(bus.SubscribeAsync#0)};signal.Notify(cancelCh,syscall.SIGTERM,syscall.SIGINT,syscall.SIGABRT,syscall.SIGQUIT);if(!config.HealthCheck.Disabled){healthCheck=couchbase.NewHealthCheck(&config.HealthCheck,client);healthCheck.Start()};readyCh<-struct{}{};select{case <-stopCh:{}case <-cancelCh:{closeWithCancel=true}};close()"),
  ("C11.dcp-membership-listener",
    "stream.Rebalance()"),
  ("C13.dcp-Close",
    "cancelCh<-syscall.SIGTERM"),
  ("C05.dcp-Commit",
    "stream.Save()")

]

def factValue (name : String) : Option String := facts.lookup name

end GoDcp.SrcFacts

namespace GoDcp.Driver
open GoDcp.SrcFacts

/-- `src-fact <name>`: model = the value the models use (`no-such-fact` for a name the table does
    not have); real `unknown` is echoed with verdict `ok` -/
def hSrcFact (args : List String) (real : Option String) : Option Out := do
  let [name] := args | none
  match real with
  | some "unknown" => some { model := "unknown", verdict := "ok" }
  | _ =>
    let model := (factValue name).getD "no-such-fact"
    let v := match real with
      | none => "-"
      | some r => if r == model then "ok" else "-"
    some { model, verdict := v }

def srcFactHandlers : List (String × (List String → Option String → Option Out)) :=
  [("src-fact", hSrcFact)]

end GoDcp.Driver
