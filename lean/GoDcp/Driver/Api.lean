import GoDcp.Driver.Session
import GoDcp.Model.Api
import GoDcp.Model.ApiInfo
import GoDcp.Model.ApiGroup
/-!
line protocol of the api-* session ops (harness/l1_api.go): the real `api.NewAPI` HTTP server over the
real stream. The model observation of every op is computed from `Model/Api.lean` (defined through
`getOffsets` / `scrape` / `rebalance` of the session model) and `Model/ApiInfo.lean`.

* ops that read or drive the session state (`api-offsets`, `api-metrics`, `api-rebalance LO HI`):
  `apiSessionLine`, tried when `sessionLine` does not know the command; judged by `smonStep`;
* ops on the API object itself (`api-status`, `ping-fail 0|1`, `api-info M T`, `api-info-bad`):
  `apiLine` over `ApiSt`.
-/
namespace GoDcp.Driver
open GoDcp

/-- `api-pos [..]`: exactly the `pos [..]` part of the `offsets` op -/
def showApiPos (offs : List (Vb × Offset)) : String :=
  "api-pos [" ++ join ((sortBy (·.1) offs).map fun (vb, o) => s!"{vb}{showOffset o}") ++ "]"

def showApiOffsets : Option (List (Vb × Offset)) → String
  | some offs => showApiPos offs
  | none => "api-closed"

/-- session ops that go through the HTTP API; `none` = not such a command -/
def apiSessionLine (s : St) (ts : List String) : Option (St × String) :=
  match ts with
  | ["api-offsets"] => some (s, showApiOffsets (Api.apiOffsets s))
  | ["api-metrics"] => some (s, showObsvs [Api.apiMetrics s])
  | ["api-rebalance", lo, hi] =>
    match lo.toNat?, hi.toNat? with
    | some l, some h =>
      match Api.apiRebalance s l h with
      | (s', some o) => some (s', showObsvs o)
      | (s', none) => some (s', "api-skipped")
    | _, _ => some (s, "bad-op")
  | _ => none

/-- the session-model op an api op amounts to (for the histories the known-finding classifiers replay):
    a skipped rebalance is `.rebalance` on a closed stream, which changes nothing in the model either -/
def apiParseOp : List String → Option Op
  | ["api-rebalance", lo, hi] => do some (.rebalance (← lo.toNat?) (← hi.toNat?))
  | _ => none

def sessionOrApiLine (s : St) (ts : List String) : Option (St × String) :=
  match sessionLine s ts with
  | some r => some r
  | none => apiSessionLine s ts

def sessionOrApiOp (ts : List String) : Option Op :=
  match parseOp ts with
  | some o => some o
  | none => apiParseOp ts

/-! ### the API object, the bus and the real vBucket discovery behind it -/

structure ApiSt where
  /-- the fake client's `Ping` fails (`ping-fail 1`); lives with the client, i.e. for the whole case -/
  pingFails : Bool := false
  /-- `api.membershipInfo` of the current API object -/
  info : ApiInfo.St := none
  /-- a stream object exists (an API object can be built for it) -/
  hasStream : Bool := false
  /-- group mode (`cfg … grp=M/T nvb=N`): the real `vBucketDiscovery` over the dynamic membership on the
      API's bus; `none` = the fake discovery of the other session streams -/
  grp : Option ApiGroup.GSt := none
  /-- harness bookkeeping of `hold-next` … `release` (which answer `release` gets); not model state -/
  holdArmed : Bool := false
  holdInFlight : Bool := false
deriving Repr, Inhabited

def isApiCmd (c : String) : Bool :=
  c == "api-offsets" || c == "api-metrics" || c == "api-status" || c == "api-rebalance" || c == "api-info" || c == "api-info-bad"

def parseGrpCfg (args : List String) : Option ApiGroup.GSt := do
  let kvs ← args.mapM kv?
  let g ← kvs.lookup "grp"
  let n ← (← kvs.lookup "nvb").toNat?
  match g.splitOn "/" with
  | [m, t] => do
    let mi ← m.toNat?
    let ti ← t.toNat?
    if 1 ≤ mi && mi ≤ ti && ti ≤ n then some { nvb := n, memInfo := (mi, ti) } else none
  | _ => none

/-- group mode: `stream.Open` asks the discovery, which derives the range from the membership's newest
    info — the model's `open` therefore opens on `memberRange nvb total member`, whatever the range was -/
def apiPrepare (a : ApiSt) (s : St) (ts : List String) : St :=
  match a.grp, ts with
  | some g, ["open"] =>
    if s.isOpen then s else
    let e := (ApiGroup.get g).eff
    { s with cfg := { s.cfg with lo := e.lo, hi := e.hi } }
  | _, _ => s

/-- group mode: a rebalance re-opens on the chunk of the membership's newest info; the LO HI of the op line
    are what the generator expected and are replaced by it (a shrunk replay may have lost the PUT they belonged to) -/
def apiPrepareOp (a : ApiSt) (ts : List String) : List String :=
  match a.grp, ts with
  | some g, [c, _, _] =>
    if c == "rebalance" || c == "api-rebalance" then
      let e := (ApiGroup.get g).eff
      [c, toString e.lo, toString e.hi]
    else ts
  | _, _ => ts

/-- bookkeeping after a session op (`s` / `s'` = session model before / after): a new stream object (fresh
    `open`, or the restart after `crash`) comes with a new API object, as in `dcp.Start`; the fake client
    with its ping switch, the bus, the membership and the discovery object live for the whole case -/
def apiAfterSessionOp (a : ApiSt) (ts : List String) (s s' : St) : ApiSt :=
  let gstep := fun (op : ApiGroup.GOp) => a.grp.map fun g => ApiGroup.step g op
  match ts with
  | "cfg" :: args => { a with grp := parseGrpCfg args, info := none, hasStream := false, holdArmed := false, holdInFlight := false }
  | [_, _, _, _, _, _, _] =>
    -- a document event that was handed to the consumer while `hold-next` was armed is the call now in flight
    if a.holdArmed && s'.ctxs.length > s.ctxs.length then { a with holdArmed := false, holdInFlight := true } else a
  | ["open"] => if s.isOpen then a else { a with info := none, hasStream := true, grp := gstep .openNew }
  | ["crash"] => { a with info := none, hasStream := false, grp := gstep .crash }
  | ["close"] => if s.isOpen then { a with grp := gstep .close } else a
  | ["rebalance", _, _] | ["api-rebalance", _, _] =>
    if s.isOpen && s'.isOpen then { a with grp := gstep .rebalance } else a
  | _ => a

def showApiInfo (i : ApiInfo.Info) : String := s!"{i.1}/{i.2}"

/-- C16 on the real answer of `PUT /membership/info` -/
def apiInfoVerdict (model real : String) : String :=
  if real == model then "ok"
  else if real.startsWith "published" && model == "deduped" then "FAIL C16.api-info-republished"
  else if real == "deduped" then "FAIL C16.api-info-change-not-published"
  else "FAIL C16.api-info"

/-- ops on the API object; `none` = not such a command. Result: state, model observation, verdict -/
def apiLine (a : ApiSt) (ts : List String) (real : Option String) : Option (ApiSt × String × String) :=
  let verdictOf := fun (f : String → String) => match real with | some r => f r | none => "-"
  if isApiCmd (ts.headD "") && !a.hasStream then some (a, "bad:no stream object", "-") else
  match ts with
  | ["hold-next"] =>
    -- `Api.stepMarked _ s .holdNext = s`: when a consumer call returns is not part of the session state; the counters
    -- and gauges the model predicts must therefore not depend on it (`C16Api.api_hold_release_insensitive`)
    if a.holdArmed || a.holdInFlight then some (a, "bad:already holding", "-")
    else some ({ a with holdArmed := true }, "ok", "-")
  | ["release"] =>
    -- no model state changes either (`Api.stepMarked _ s .release = s`); nothing is observable when the call returns
    if a.holdInFlight then
      some ({ a with holdInFlight := false }, "released",
        verdictOf fun r => if r == "released" then "ok" else "FAIL C16.held-call-return-observable")
    else if a.holdArmed then some ({ a with holdArmed := false }, "disarmed", "-")
    else some (a, "bad:nothing held", "-")
  | ["ping-fail", b] =>
    if b == "0" || b == "1" then some ({ a with pingFails := b == "1" }, "ok", "-") else some (a, "bad-op", "-")
  | ["api-status"] =>
    let m := if Api.apiStatus a.pingFails then "OK" else "err 500"
    some (a, m, verdictOf fun r => if r == m then "ok" else "FAIL C16.api-status")
  | ["api-info", m, t] =>
    match m.toInt?, t.toInt? with
    | some mi, some ti =>
      let (st', pub) := ApiInfo.put a.info (mi, ti)
      let out := if pub then s!"published {showApiInfo (mi, ti)}" else "deduped"
      -- a published event reaches the dynamic membership on the same bus
      let grp' := if pub then a.grp.map fun g => ApiGroup.step g (.info mi.toNat ti.toNat) else a.grp
      some ({ a with info := st', grp := grp' }, out, verdictOf (apiInfoVerdict out))
    | _, _ => some (a, "bad-op", "-")
  | ["api-info-bad"] =>
    some (a, "400", verdictOf fun r => if r == "400" then "ok" else "FAIL C16.api-info-bad-body")
  | _ => none

/-! ### group gauges in the scrape (group mode only) -/

def showGrp (g : ApiGroup.GScrape) : String :=
  s!" grp={g.member}/{g.total} range={g.lo}-{g.hi} vbcount={g.vbcount} active={g.active} reb={g.reb}"

/-- the model observation of `scrape` / `api-metrics` gets the group suffix (nothing while closed: the
    collector returns before it emits anything) -/
def apiDecorate (a : ApiSt) (ts : List String) (out : String) : String :=
  match a.grp, ts with
  | some g, ["scrape"] | some g, ["api-metrics"] =>
    if out.startsWith "scrape [" then out ++ showGrp (ApiGroup.scrapeGrp g) else out
  | _, _ => out

def grpField (ws : List String) (key : String) : Option String :=
  (ws.find? (·.startsWith (key ++ "="))).map fun w => (w.drop (key.length + 1)).toString

def natPair? (s sep : String) : Option (Nat × Nat) :=
  match s.splitOn sep with
  | [x, y] => do some ((← x.toNat?), (← y.toNat?))
  | _ => none

/-- `C16.group-in-effect` on the REAL scrape of an open session in group mode: member number, group size
    and range are those the running session was opened with (`g.eff`, recorded by the model at the last
    `Open`; the range is also the session model's assigned range), and the range shown is the chunk of
    the (member, size) shown — a scrape never mixes a newer membership with an older range.
    `C16.group-counts`: vBucket count, active streams, completed rebalances. -/
def apiGroupVerdict (a : ApiSt) (s : St) (ts : List String) (real : String) : String :=
  match a.grp, ts with
  | some g, ["scrape"] | some g, ["api-metrics"] =>
    if !real.startsWith "scrape [" then "ok" else
    let ws := (real.splitOn " ").filter (· ≠ "")
    match (grpField ws "grp").bind (natPair? · "/"), (grpField ws "range").bind (natPair? · "-"),
          (grpField ws "vbcount").bind String.toNat?, (grpField ws "active").bind String.toNat?,
          (grpField ws "reb").bind String.toNat? with
    | some (m, t), some (lo, hi), some n, some act, some reb =>
      if (m, t) != (g.eff.member, g.eff.total) then "FAIL C16.group-in-effect"
      else if (lo, hi) != (s.cfg.lo, s.cfg.hi) || (lo, hi) != (g.eff.lo, g.eff.hi) then "FAIL C16.group-in-effect"
      else if (lo, hi) != Chunk.memberRange n t m then "FAIL C16.group-in-effect"
      else if n != g.nvb || act != g.active || reb != g.reb then "FAIL C16.group-counts"
      else "ok"
    | _, _, _, _, _ => "FAIL C16.group-in-effect"
  | _, _ => "ok"

/-- verdict of a session line: the session monitor's, then the group clause -/
def apiPostVerdict (a : ApiSt) (s : St) (ts : List String) (real v : String) : String :=
  if v != "ok" then v else apiGroupVerdict a s ts real

/-! ### C16 monitor clause of `api-offsets` (called from `smonStep`) -/

/-- "12(1,2,3,4,5)" → (12, [1,2,3,4,5]) -/
def apiParseVbTuple (s : String) : Option (Nat × List Nat) :=
  match s.splitOn "(" with
  | [vb, rest] => do
    let v ← vb.toNat?
    let t ← (((rest.splitOn ")").headD "").splitOn ",").mapM String.toNat?
    some (v, t)
  | _ => none

/-- `C16.api-offsets-truth`: what `GET /states/offset` shows is the tracked position map — every entry
    equals the model's (validated) position of that vBucket, none is missing or invented, the sequence
    number is the last position announced on the real trace (`top`), and the "not open" answer is
    given exactly while the stream is closed -/
def apiOffsetsVerdict (s : St) (top : Nat → Nat) (real : String) : String :=
  if real == "api-closed" then (if s.isOpen then "FAIL C16.api-offsets-truth" else "ok") else
  if !real.startsWith "api-pos [" then "FAIL C16.api-offsets-truth" else
  if !s.isOpen then "FAIL C16.api-offsets-truth" else
  let inner := (((real.drop 9).toString.splitOn "]").headD "")
  let toks := (inner.splitOn " ").filter (· ≠ "")
  match toks.mapM apiParseVbTuple with
  | none => "FAIL C16.api-offsets-truth"
  | some ents =>
    let want := (sortBy (·.1) s.offsets).map fun (vb, o) => (vb, [o.uuid, o.seq, o.ss, o.se, o.latest])
    if ents != want then "FAIL C16.api-offsets-truth"
    else if ents.any (fun (vb, t) => (t.drop 1).head? != some (top vb)) then "FAIL C16.api-offsets-truth"
    else "ok"

/-- C16 on `GET /rebalance` (`ts` = the op; "ok" for the direct `rebalance` op): skipped exactly while the
    stream is closed -/
def apiRebalanceVerdict (s : St) (ts : List String) (real : String) : String :=
  if ts.head? != some "api-rebalance" then "ok"
  else if s.isOpen then (if real.startsWith "api-skipped" then "FAIL C16.api-rebalance-skipped-while-open" else "ok")
  else (if real == "api-skipped" then "ok" else "FAIL C16.api-rebalance-while-closed")

end GoDcp.Driver
