import GoDcp.Driver.Util
import GoDcp.Model.Config
import GoDcp.Model.EnvSubst
import GoDcp.Spec.C17
/-! line-protocol handlers of slice C17 (commands `cfg-*`, see harness/l0_config.go) -/
namespace GoDcp.Driver.Cfg
open GoDcp GoDcp.Driver GoDcp.Config

/-! ### hex <-> String -/

def hexDigit (c : Char) : Option Nat :=
  if '0' ≤ c && c ≤ '9' then some (c.toNat - 48)
  else if 'a' ≤ c && c ≤ 'f' then some (c.toNat - 87)
  else none

def unhexBytes : List Char → Option (List UInt8)
  | [] => some []
  | a :: b :: r => do
    let x ← hexDigit a
    let y ← hexDigit b
    let t ← unhexBytes r
    some ((x * 16 + y).toUInt8 :: t)
  | _ => none

def unhex (s : String) : Option String := do
  let bs ← unhexBytes s.toList
  String.fromUTF8? (ByteArray.mk bs.toArray)

def hexNibble (n : Nat) : Char := if n < 10 then Char.ofNat (48 + n) else Char.ofNat (87 + n)

def hex (s : String) : String :=
  String.ofList (s.toUTF8.toList.flatMap fun b => [hexNibble (b.toNat / 16), hexNibble (b.toNat % 16)])

/-- split at the first occurrence of `sep` -/
def cut (s : String) (sep : Char) : Option (String × String) :=
  let l := s.toList
  let a := l.takeWhile (· ≠ sep)
  match l.dropWhile (· ≠ sep) with
  | _ :: b => some (String.ofList a, String.ofList b)
  | [] => none

/-! ### values -/

/-- elements each followed by ',' -/
def elems (body : String) : Option (List String) :=
  if body = "" then some []
  else
    let parts := body.splitOn ","
    if parts.getLast? ≠ some "" then none else some parts.dropLast

def val? (tok : String) : Option Val := do
  let (tag, body) ← cut tok ':'
  match tag with
  | "i" => (.int ·) <$> body.toInt?
  | "d" => (.dur ·) <$> body.toInt?
  | "t" => (.time ·) <$> body.toInt?
  | "s" => (.str ·) <$> unhex body
  | "b" => if body = "1" then some (.bool true) else if body = "0" then some (.bool false) else none
  | "l" => do
    let es ← elems body
    (.strs ·) <$> es.mapM unhex
  | "m" => do
    let es ← elems body
    let kvs ← es.mapM fun e => do
      let (k, v) ← cut e '='
      some ((← unhex k), (← unhex v))
    some (.smap kvs)
  | _ => none

def sortStrings (l : List String) : List String := (l.toArray.qsort (fun a b => a < b)).toList

def showVal : Val → String
  | .absent => "?"
  | .int i => s!"i:{i}"
  | .str s => "s:" ++ hex s
  | .bool b => if b then "b:1" else "b:0"
  | .dur n => s!"d:{n}"
  | .time n => s!"t:{n}"
  | .strs l => "l:" ++ String.join (l.map fun e => hex e ++ ",")
  | .smap m =>
    "m:" ++ String.join ((sortStrings (m.map fun kv => hex kv.1 ++ "=" ++ hex kv.2)).map (· ++ ","))

/-- `path=token` words → configuration (first word = first binding) -/
def cfg? (words : List String) : Option Cfg :=
  words.mapM fun w => do
    let (p, t) ← cut w '='
    some (p, ← val? t)

/-- paths whose Go field is an interface / slice (`== nil` test): an explicit
    zero inside them is a value, not "unset" -/
def nilTested : List String := ((table false).filter (·.test == .isNil)).map (·.path)

/-- canonical dump as the harness prints it: every path once, unset fields omitted, sorted -/
def dump (c : Cfg) (typedZeroIsUnset : String → Bool) : String :=
  let keys := Spec.C17.dedup (c.map (·.1))
  let words := keys.filterMap fun p =>
    let v := get c p
    if v == .absent || (typedZeroIsUnset p && isZero .zeroVal v) then none
    else some (p ++ "=" ++ showVal v)
  join (sortStrings words)

def dumpCfg (c : Cfg) : String := dump c (fun p => !nilTested.contains p)

def dumpDerived (r : List (String × Val)) : String := dump r (fun _ => true)

/-! ### cfg-defaults -/

def env? (tok : String) : Option Env := do
  let (k, v) ← cut tok '='
  if k ≠ "env" then none
  let (t, m) ← cut v ':'
  some { total := ← unhex t, member := ← unhex m }

def showDefaults : Spec.C17.DefaultsObs → String
  | none => "panic"
  | some (r1, none) => dumpCfg r1 ++ " | panic"
  | some (r1, some r2) => dumpCfg r1 ++ " | " ++ dumpCfg r2

/-- the harness prints `<dump> | <dump>`; dumps never contain '|' (hex + path chars only) -/
def parseDefaults (real : String) : Option Spec.C17.DefaultsObs :=
  if real = "panic" then some none
  else match real.splitOn " | " with
    | [a, b] => do
      let r1 ← cfg? (toks a)
      if b = "panic" then some (some (r1, none))
      else
        let r2 ← cfg? (toks b)
        some (some (r1, some r2))
    | _ => none

/-- `cfg-defaults env=<hexT>:<hexM> logger=0|1 path=value …` -/
def hDefaults (args : List String) (real : Option String) : Option Out := do
  let e :: l :: words := args | none
  let env ← env? e
  let loggerSet ← if l = "logger=1" then some true else if l = "logger=0" then some false else none
  let c ← cfg? words
  -- the second call always finds a logger (the first one created it)
  let obs : Spec.C17.DefaultsObs :=
    (applyDefaults env loggerSet c).map fun c1 => (c1, applyDefaults env true c1)
  let v := match real with
    | none => "-"
    | some r => match parseDefaults r with
      | none => "FAIL C17.unparsable"
      | some ro =>
        let cl := Spec.C17.holdsDefaults (table loggerSet) env loggerSet c ro
        verdict (cl == "") cl
  some { model := showDefaults obs, verdict := v }

/-! ### derived settings -/

def showDerived : Derived → String
  | .ok r => dumpDerived r
  | .panic => "panic"
  | .uncovered => "uncovered"

def hDerived (fields : Cfg → List Field) (mapPath : String) (args : List String) (real : Option String) : Option Out := do
  let c ← cfg? args
  let ov := mapOf (get c mapPath)
  let m := derive (fields c) ov
  let v := match real with
    | none => "-"
    | some r =>
      let ro : Option (Option (List (String × Val))) :=
        if r = "panic" then some none else (cfg? (toks r)).map some
      match ro with
      | none => "FAIL C17.unparsable"
      | some ro =>
        let cl := Spec.C17.holdsDerived (fields c) ov ro
        verdict (cl == "") cl
  some { model := showDerived m, verdict := v }

/-- `cfg-start path=value …`: `dcp.NewDcp(cfg)` on a dead port = `ApplyDefaults` (no environment override set, a logger exists),
    a print of a COPY, a failed connect.  The model of start-up is therefore `applyDefaults` alone; the observation is the dump of
    the caller's struct followed by the three derived views computed FROM THAT RESULT.  Any other difference means start-up altered
    a value the user had set (`Props/C17.C17_keeps_set` speaks about `applyDefaults`; this op ties "newDcp adds nothing to it"). -/
def hStart (args : List String) (real : Option String) : Option Out := do
  let c ← cfg? args
  let model := match applyDefaults { total := "", member := "" } true c with
    | none => "panic"
    | some c1 =>
      let view (fields : List Field) (mapPath : String) : String :=
        showDerived (derive fields (mapOf (get c1 mapPath)))
      dumpCfg c1 ++ " ;meta " ++ view (metadataFields c1) "metadata.config"
        ++ " ;member " ++ view membershipFields "dcp.group.membership.config"
        ++ " ;elector " ++ view electorFields "leaderElection.config"
  let v := match real with
    | none => "-"
    | some r => if r = model then "ok" else "FAIL C17.start-alters-config"
  some { model, verdict := v }

def hFile (args : List String) (real : Option String) : Option Out := do
  let c ← cfg? args
  let m := match getFileMetadata c with
    | some s => "s:" ++ hex s
    | none => "panic"
  -- the clause: the configured name, and a panic exactly when it is missing or empty
  let v := match real with
    | none => "-"
    | some r => verdict (r == m) "C17.file_metadata"
  some { model := m, verdict := v }

/-! ### cfg-size -/

def showRes : Units.Res → String
  | .ok n => toString n
  | .panic => "panic"
  | .uncovered => "uncovered"

def sign? (s : String) : Option (Bool × List Char) :=
  if s = "-" then some (false, []) else if s = "p" then some (false, ['+'])
  else if s = "n" then some (true, ['-']) else none

/-- blanks removed, lower-cased, ',' → '.' -/
def squeeze (s : List Char) : List Char :=
  (s.filter fun c => !Units.isSpace c).map fun c => if c = ',' then '.' else c.toLower

inductive SizeClass
  | wf (w : Spec.C17.WF)
  | int (neg : Bool) (ds : List Char)
  | mal

def sizeClass? (s : List Char) (cl : String) : Option SizeClass :=
  match cl.splitOn ":" with
  | ["mal"] => some .mal
  | ["int", sg, ds] => do
    let (neg, pre) ← sign? sg
    if s ≠ pre ++ ds.toList || ds = "" || !ds.toList.all Char.isDigit then none
    some (.int neg ds.toList)
  | ["wf", sg, ip, sep, fp, k] => do
    let (neg, pre) ← sign? sg
    let k ← k.toNat?
    let unit ← if k = 1 then some "kb" else if k = 2 then some "mb" else if k = 3 then some "gb" else none
    let sepc ← if sep = "x" then some [] else if sep = "d" || sep = "c" then some ['.'] else none
    if !(ip.toList.all Char.isDigit && fp.toList.all Char.isDigit) then none
    if ip = "" && fp = "" then none
    if sep = "x" && fp ≠ "" then none
    -- the structured form must describe the string
    if squeeze s ≠ pre ++ ip.toList ++ sepc ++ fp.toList ++ unit.toList then none
    some (.wf { neg, ip := ip.toList, fp := fp.toList, k })
  | _ => none

/-- `cfg-size h<hex> <class>` -/
def hSize (args : List String) (real : Option String) : Option Out := do
  let [h, cl] := args | none
  let s ← unhex (h.drop 1).toString
  let cls ← sizeClass? s.toList cl
  let m := Units.resolveString s.toList
  let v := match real with
    | none => "-"
    | some r =>
      let ri : Option Int := r.toInt?
      match cls with
      | .wf w => let c := Spec.C17.holdsSizeWF w ri; verdict (c == "") c
      | .int neg ds => let c := Spec.C17.holdsSizeInt neg ds ri; verdict (c == "") c
      | .mal => "-"
  some { model := showRes m, verdict := v }

/-! ### cfg-envsubst -/

structure Line where
  kind : Char                 -- 'q' quoted value, 'p' plain value, 'r' raw
  pre : List Char
  segs : List Spec.C17.Seg

def seg? (t : String) : Option Spec.C17.Seg := do
  let c :: _ := t.toList | none
  let body ← unhex (t.drop 1).toString
  if c = 'l' then some (.lit body.toList) else if c = 'v' then some (.var body.toList) else none

def line? (tok : String) : Option Line :=
  match tok.splitOn ":" with
  | ["r", p] => do some { kind := 'r', pre := (← unhex p).toList, segs := [] }
  | [k, p, ss] => do
    let kind ← if k = "q" then some 'q' else if k = "p" then some 'p' else if k = "r" then some 'r' else none
    let segs ← if ss = "" then some [] else (ss.splitOn ";").mapM seg?
    some { kind, pre := (← unhex p).toList, segs }
  | _ => none

/-- the whole line as segments (prefix and quotes are literals) -/
def Line.allSegs (l : Line) : List Spec.C17.Seg :=
  if l.kind = 'q' then [.lit (l.pre ++ ['"'])] ++ l.segs ++ [.lit ['"', '\n']]
  else [.lit l.pre] ++ l.segs ++ [.lit ['\n']]

def envPairs? (tok : String) : Option EnvSubst.Env := do
  let (k, v) ← cut tok '='
  if k ≠ "env" then none
  if v = "" then some []
  else (v.splitOn ",").mapM fun e => do
    let (n, x) ← cut e ':'
    some ((← unhex n).toList, (← unhex x).toList)

def splitLines (s : List Char) : List (List Char) :=
  (s.foldr (fun c acc => if c = '\n' then [] :: acc else match acc with
    | h :: t => (c :: h) :: t
    | [] => [[c]]) [[]])

/-- value of a substituted line as YAML reads it (quoted: between the first and
    the last '"'; plain: after the prefix) -/
def extract (l : Line) (text : List Char) : List Char :=
  if l.kind = 'q' then
    let a := (text.dropWhile (· ≠ '"')).drop 1
    ((a.reverse.dropWhile (· ≠ '"')).drop 1).reverse
  else text.drop l.pre.length

/-- `cfg-envsubst env=… line line …` -/
def hEnvSubst (args : List String) (real : Option String) : Option Out := do
  let e :: ls := args | none
  let env ← envPairs? e
  let lines ← ls.mapM line?
  let segs := lines.flatMap Line.allSegs
  let file := Spec.C17.render segs
  let out := splitLines (EnvSubst.substEnv env file)
  let valueLines := lines.filter (·.kind ≠ 'r')
  let model :=
    if out.length ≠ lines.length + 1 then "uncovered"
    else join ((lines.zip out).filterMap fun (l, t) =>
      if l.kind = 'r' then none else some (hex (String.ofList (extract l t))))
  let v := match real with
    | none => "-"
    | some r =>
      if Spec.C17.envSimple env && segs.all Spec.C17.Seg.simple then
        let exp := join (valueLines.map fun l => hex (String.ofList (Spec.C17.expected env l.segs)))
        verdict (r == exp) "C17.envsubst_all_occurrences"
      else "-"
  some { model, verdict := v }

end GoDcp.Driver.Cfg

namespace GoDcp.Driver
open GoDcp.Driver.Cfg GoDcp.Config

def configHandlers : List (String × (List String → Option String → Option Out)) :=
  [("cfg-defaults", hDefaults),
   ("cfg-start", hStart),
   ("cfg-meta", hDerived metadataFields "metadata.config"),
   ("cfg-member", hDerived (fun _ => membershipFields) "dcp.group.membership.config"),
   ("cfg-elector", hDerived (fun _ => electorFields) "leaderElection.config"),
   ("cfg-file", hFile),
   ("cfg-size", hSize),
   ("cfg-envsubst", hEnvSubst)]

end GoDcp.Driver
