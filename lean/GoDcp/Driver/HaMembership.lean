import GoDcp.Driver.Util
import GoDcp.Driver.Membership
import GoDcp.Model.HaMembership
import GoDcp.Spec.C10
/-! handler of stream c10ha (command `ha-run`): the leader-assigned membership end to end.

`ha-run <header> <token> …`: header `n=3;jt=10,20,30;off=6,0,0;ld=6;L=0` (only `n` and `jt` concern the model:
offsets, label delay and first leader are how the harness realises the schedule in real time), tokens = the
schedule, one model action each, `?` = checkpoint:

    st:i  rs:i:jt  k:i  cut:a:b  blk:a:b  ubl:a:b          environment
    acq:i  ld:i  obs:i  lose:i  rel:i                      lease transitions and election callbacks
    hb:i  hbf:i  hbp:i  hbr:i  mon:i                       loop bodies
    dn:i  up:i  rsg:i  w:ms  +                             harness only (lease API outage / back, context cancelled,
                                                           wait, period boundary without checkpoint)

Output: one field group per checkpoint, ` | ` between them; per instance `i=x` (dead) or
`i=<L|F|->,<k/t|?>,<names the instance's GetAll returns, ascending, '.' between, '-' if none>`.
Followers with EQUAL join times may be numbered in either order by the real leader (map iteration order):
the real numbers of such a group are adopted when they are a rearrangement of the model's.

Monitor (on the REAL observation), evaluated at checkpoints where the model state is quiescent
(`quiescentB`) or where a whole period passed without any event while a live instance holds the lease and no
partition is in force:
`C10.ha-one-leader`, `C10.ha-admitted`, `C10.ha-dropped`, `C10.ha-total`, `C10.ha-distinct`; everywhere:
`C10.ha-range`. -/
namespace GoDcp.Driver
open GoDcp GoDcp.HaMembership
open GoDcp.Membership (Id)

structure HaHdr where
  n : Nat
  jts : List Int

def haHeader? (h : String) : Option HaHdr := do
  let kv := (h.splitOn ";").filterMap fun f => match f.splitOn "=" with
    | [k, v] => some (k, v)
    | _ => none
  let n ← (← kv.lookup "n").toNat?
  let jts ← commaInts? (← kv.lookup "jt")
  if jts.length ≠ n then none else some { n, jts }

inductive HaTok
  | act (a : Action)
  | skip
  | check

def haTok? (h : HaHdr) (t : String) : Option HaTok :=
  match t.splitOn ":" with
  | ["?"] => some .check
  | ["st", i] => do let i ← i.toNat?; some (.act (.start i (h.jts.getD i 0)))
  | ["rs", i, jt] => do some (.act (.start (← i.toNat?) (← jt.toInt?)))
  | ["k", i] => do some (.act (.kill (← i.toNat?)))
  | ["cut", a, b] => do some (.act (.cut (← a.toNat?) (← b.toNat?)))
  | ["blk", a, b] => do some (.act (.block (← a.toNat?) (← b.toNat?)))
  | ["ubl", a, b] => do some (.act (.unblock (← a.toNat?) (← b.toNat?)))
  | ["acq", i] => do some (.act (.acquire (← i.toNat?)))
  | ["ld", i] => do some (.act (.lead (← i.toNat?)))
  | ["obs", i] => do some (.act (.observe (← i.toNat?)))
  | ["lose", i] => do some (.act (.lose (← i.toNat?) false))
  | ["rel", i] => do some (.act (.lose (← i.toNat?) true))
  | ["hb", i] => do some (.act (.hb (← i.toNat?)))
  | ["hbf", i] => do some (.act (.hbFollow (← i.toNat?)))
  | ["hbp", i] => do some (.act (.hbPing (← i.toNat?)))
  | ["hbr", i] => do some (.act (.hbRemove (← i.toNat?)))
  | ["mon", i] => do some (.act (.mon (← i.toNat?)))
  | ["dn", _] | ["up", _] | ["rsg", _] | ["w", _] | ["+"] => some .skip
  | _ => none

/-- is the token a loop body (a period that consists of loop bodies only is "without event")? -/
def haIsBody : Action → Bool
  | .hb _ | .hbFollow _ | .hbPing _ | .hbRemove _ | .mon _ => true
  | _ => false

def insertNat (x : Nat) : List Nat → List Nat
  | [] => [x]
  | y :: r => if x ≤ y then x :: y :: r else y :: insertNat x r

def sortNats (l : List Nat) : List Nat := l.foldr insertNat []

structure HaField where
  role : String
  info : String
  svc : String
deriving BEq

def haFieldOf (x : Inst) : HaField :=
  { role := match x.role with | .leader => "L" | .follower => "F" | .unset => "-"
    info := match x.info with | some i => showInfo i | none => "?"
    svc := match sortNats (x.services.map (·.name)) with
      | [] => "-"
      | l => ".".intercalate (l.map toString) }

/-- `i=x` / `i=R,info,svc` tokens of one checkpoint of the real observation -/
def haParseCp (cp : String) : List (Nat × Option HaField) :=
  (toks cp).filterMap fun t =>
    match t.splitOn "=" with
    | [i, rest] => do
      let i ← i.toNat?
      if rest = "x" then some (i, none)
      else match rest.splitOn "," with
        | [r, inf, sv] => some (i, some { role := r, info := inf, svc := sv })
        | _ => none
    | _ => none

def haShowCp (fs : List (Nat × Option HaField)) : String :=
  join (fs.map fun (i, f) => match f with
    | none => s!"{i}=x"
    | some f => s!"{i}={f.role},{f.info},{f.svc}")

def haLeaderOf (s : State) : Option Id := s.holder.map (·.1)

/-- model fields of a checkpoint; the numbers of followers whose join times tie are taken from the real
    observation when they are a rearrangement of the model's numbers for that tie group -/
def haModelCp (s : State) (real : List (Nat × Option HaField)) : List (Nat × Option HaField) :=
  let base : List (Nat × Option HaField) := (List.range s.n).map fun i =>
    let x := s.insts i
    (i, if x.alive then some (haFieldOf x) else none)
  match haLeaderOf s with
  | none => base
  | some L =>
    let svcs := (s.insts L).services
    let infoOf (l : List (Nat × Option HaField)) (i : Nat) : String :=
      match l.lookup i with | some (some f) => f.info | _ => "x"
    base.map fun (i, f) =>
      match f, svcs.find? (·.name = i) with
      | some f, some v =>
        let grp := (svcs.filter fun w => w.jt = v.jt).map (·.name)
        if grp.length < 2 then (i, some f)
        else
          let m := grp.map (infoOf base)
          let r := grp.map (infoOf real)
          if m.all (r.contains ·) && r.all (m.contains ·) then (i, some { f with info := infoOf real i })
          else (i, some f)
      | f, _ => (i, f)

def haInfo? (s : String) : Option (Nat × Nat) := slashNat? ((s.splitOn "!").headD "")

/-- a checkpoint: the model state, whether the period before it had no event, the model's fields (after the
    adoption of tie orders) and the parsed real fields -/
structure HaCp where
  st : State
  quiet : Bool
  fields : List (Nat × Option HaField)
  real : List (Nat × Option HaField)

structure HaRun where
  st : State
  quiet : Bool := true
  cps : List HaCp := []
  panicked : Bool := false

def insSvcBy (key : Svc → Nat) (x : Svc) : List Svc → List Svc
  | [] => [x]
  | y :: r => if key x < key y then x :: y :: r else y :: insSvcBy key x r

/-- the tie order the real leader was seen to use becomes the model's: the adopted numbers are written into the
    model state (a follower that is cut off later keeps exactly that number), and the leader's map is iterated in
    the order of the numbers from now on (`sortJT` is stable) -/
def haAdopt (s : State) (m : List (Nat × Option HaField)) : State :=
  let changed := m.filterMap fun (i, f) => match f with
    | some f => (match haInfo? f.info with
      | some p => if (s.insts i).info == some p then none else some (i, p)
      | none => none)
    | none => none
  if changed.isEmpty then s
  else
    let s1 := changed.foldl (fun st (i, p) => st.upd i fun x => { x with info := some p }) s
    match haLeaderOf s1 with
    | none => s1
    | some L =>
      let key := fun (v : Svc) => match (s1.insts v.name).info with | some p => p.1 | none => 0
      s1.upd L fun x => { x with services := x.services.foldr (insSvcBy key) [] }

def haExec (h : HaHdr) (realCps : List String) (toks : List String) : Option HaRun :=
  toks.foldlM (init := ({ st := init h.n } : HaRun)) fun r t => do
    match ← haTok? h t with
    | .check =>
      let rf := haParseCp (realCps.getD r.cps.length "")
      let m := haModelCp r.st rf
      let st := haAdopt r.st m
      some { r with st, cps := r.cps ++ [{ st, quiet := r.quiet, fields := m, real := rf }], quiet := true }
    | .skip => some { r with quiet := false }
    | .act a =>
      let s' := step r.st a
      -- a callback that panics takes the process down: the real harness (one process per scenario) is gone
      let died := match a with
        | .observe i => (r.st.insts i).alive && !(s'.insts i).alive
        | _ => false
      some { r with st := s', quiet := r.quiet && haIsBody a, panicked := r.panicked || died }

/-- the clauses of C10 on one real checkpoint; `jt i` = join time of the current incarnation of `i`,
    `live` = the instances the script has running -/
def haClauses (live : List Nat) (jt : Nat → Int) (real : List (Nat × Option HaField)) : String :=
  let fields := live.filterMap fun i => match real.lookup i with
    | some (some f) => some (i, f)
    | _ => none
  let leaders := fields.filter fun p => p.2.role == "L"
  let infos := fields.filterMap fun p => (haInfo? p.2.info).map fun q => (p.1, q)
  if fields.length ≠ live.length then "C10.ha-dropped"          -- a running instance is reported dead
  else match leaders with
  | [(l, lf)] =>
    let listed := (lf.svc.splitOn ".").filterMap (·.toNat?)
    if !(live.all fun i => i == l || listed.contains i) || infos.length ≠ live.length then "C10.ha-admitted"
    else if lf.svc != "-" && !((lf.svc.splitOn ".").all fun n => match n.toNat? with
        | some i => live.contains i && i != l
        | none => false) then "C10.ha-dropped"
    else if !(infos.all fun p => p.2.2 == live.length) then "C10.ha-total"
    else if (infos.lookup l).map (·.1) != some 1 then "C10.ha-one-leader"
    else
      -- followers: numbers 2.. distinct, covering, in join order  (= Spec.C10.holds on the shifted numbers)
      let fobs : List Spec.C10.Obs := (infos.filter (·.1 != l)).map fun p => (jt p.1, p.2.1 - 1, p.2.2 - 1)
      if !(infos.all fun p => p.1 == l || 2 ≤ p.2.1) then "C10.ha-distinct"
      else if Spec.C10.holds fobs then "ok" else "C10.ha-distinct"
  | _ => "C10.ha-one-leader"

def haRange (real : List (Nat × Option HaField)) : Bool :=
  real.all fun p => match p.2 with
    | some f => f.info == "?" || (match haInfo? f.info with
      | some (k, t) => decide (1 ≤ k ∧ k ≤ t)
      | none => false)
    | none => true

/-- should the clauses be evaluated at this checkpoint? -/
def haEvaluate (c : HaCp) : Bool :=
  match haLeaderOf c.st with
  | none => false
  | some L =>
    quiescentB c.st L ||
      (c.quiet && c.st.blocked.isEmpty && (c.st.insts L).alive && (c.st.insts L).el == El.leading && c.st.holder == some (L, (c.st.insts L).jt))

def hHaRun (args : List String) (real : Option String) : Option Out := do
  let hdr :: toks := args | none
  let h ← haHeader? hdr
  let realCps : List String := match real with
    | some x => x.splitOn " | "
    | none => []
  let r ← haExec h realCps toks
  if r.panicked then
    return { model := "panic", verdict := match real with | none => "-" | some _ => "ok" }
  let cells := r.cps.zipIdx.map fun (c, k) => (c, k, c.real, c.fields)
  let model := " | ".intercalate (cells.map fun (_, _, _, m) => haShowCp m)
  let v := match real with
    | none => "-"
    | some x =>
      if realCps.length ≠ r.cps.length then
        (if x == "panic" || x == "hang" then s!"FAIL C10.ha-{x}" else "FAIL C10.unparsable")
      else
        match cells.findSome? fun (c, k, rf, _) =>
          if !haRange rf then some s!"FAIL C10.ha-range@c{k}"
          else if haEvaluate c then
            (match haClauses (liveIds c.st) (fun i => (c.st.insts i).jt) rf with
             | "ok" => none
             | cl => some s!"FAIL {cl}@c{k}")
          else none with
        | some f => f
        | none => "ok"
  some { model, verdict := v }

def haMembershipHandlers : List (String × (List String → Option String → Option Out)) :=
  [("ha-run", hHaRun)]

end GoDcp.Driver
