import GoDcp.Driver.Util
import GoDcp.Driver.MembershipPause
import GoDcp.Model.Membership
import GoDcp.Spec.C10
/-! handler of op `mb-cb-joinwrite` (stream c10cb): couchbase membership, a NEW instance
    registers between another member's index read and its CAS-guarded write-back.

    The scenario is a schedule of the EXISTING actions of the LTS of `Model/Membership.lean`:
    `readStep A` (first half of A's round: `monitor` up to l.234, a change is pending),
    `register1 D`, `register2 D` (D's complete registration), `casStep A` (second half:
    `updateIndex(filtered, data.Cas)` answers `ErrCasMismatch`, l.239-241 `h.monitor()` –
    the member is between rounds again), then whole rounds.  Theorems: `Props/C10Join.lean`. -/
namespace GoDcp.Driver
open GoDcp GoDcp.Membership

/-- model id of member `i` (join order); D's id is odd, so that it can be placed on either
    side of a member it ties with (only the ORDER of ids matters, `Model/Membership.lean`) -/
def jwId (i : Nat) : Id := 2 * i + 2

/-- join time of member `i` -/
def jwJt (i : Nat) : Int := 10 * ((i : Int) + 1)

def jwCfg : Cfg := { hbInterval := 40, tolerance := 500 }

/-- first half of a round: the index read in stored order, documents judged at `now` -/
def jwRead (now : Int) (s : State) (m : Id) : State := readStep jwCfg s m s.index (fun _ => now)

/-- a whole undisturbed round -/
def jwRound (now : Int) (s : State) (m : Id) : State := casStep (jwRead now s m) m

/-- the schedule of `mb-cb-joinwrite n k a how order jt` (times in ms): members `0..n-1`
    join at 10, 20, …, heart-beat at 1000 and run two rounds (converged); member `k` stops
    (`how = exp`: its document disappears as well); at 2000 the survivors heart-beat (k's
    heartbeat of 1000 is stale: 2000 - 1000 ≥ 40 + 500) and
      first / free : A reads (a change is pending: its write-back waits), the others run whole rounds
      last         : the others run whole rounds, then A reads (still a change: A's own last list names k)
      all          : every survivor reads
      none         : nothing
    then D registers completely (and heart-beats), the pending write-backs are attempted
    (`casStep`: the CAS they carry is older than D's index entry), and A, D and the others run
    a round; one more round of everybody shows the state is quiet. -/
def jwScenario (n : Nat) (k : Option Nat) (a : Nat) (how order : String) (dId : Id) (dJt : Int) : State :=
  let all := (List.range n).map jwId
  let surv := ((List.range n).filter fun i => some i ≠ k).map jwId
  let A := jwId a
  let others := surv.filter (· ≠ A)
  let s := (List.range n).foldl (fun s i => register2 (register1 s (jwId i) (jwJt i)) (jwId i)) {}
  let s := all.foldl (fun s m => heartbeatStep s m 1000) s
  let s := all.foldl (jwRound 1000) s
  let s := all.foldl (jwRound 1000) s
  let s := match k with
    | none => s
    | some k =>
      let s := stopStep s (jwId k)
      if how = "exp" then s.setDoc (jwId k) none else s
  let t1 : Int := 2000
  let s := surv.foldl (fun s m => heartbeatStep s m t1) s
  let s :=
    if order = "first" || order = "free" then others.foldl (jwRound t1) (jwRead t1 s A)
    else if order = "last" then jwRead t1 (others.foldl (jwRound t1) s) A
    else if order = "all" then surv.foldl (jwRead t1) s
    else s
  let s := heartbeatStep (register2 (register1 s dId dJt) dId) dId t1
  let s :=
    if order = "all" then surv.foldl casStep s
    else if order = "none" then s
    else casStep s A
  let s := (A :: dId :: others).foldl (jwRound (t1 + 1)) s
  (surv ++ [dId]).foldl (jwRound (t1 + 2)) s

def jwShowMember (s : State) (m : Id) : String :=
  match s.mem m with
  | some mb => (match mb.pc, mb.info with
    | .crashed, _ => "crash"
    | _, some p => mpShow p
    | _, none => "?/?")
  | none => "?/?"

/-- D's join time and model id for the `jt` argument (`dLess`: D's id string is smaller than S's) -/
def jwJoin? (n : Nat) (jt : String) (dLess : Bool) : Option (Id × Int) :=
  if jt = "after" then some (2 * n + 3, jwJt n)
  else if jt = "before" then some (2 * n + 3, 5)
  else match jt.splitOn ":" with
    | ["tie", s] => do
      let s ← s.toNat?
      if s ≥ n then none
      some (if dLess then 2 * s + 1 else 2 * s + 3, jwJt s)
    | _ => none

/-- model observation:
    `members: 1/2 2/2 | D: alive …` then `index: n=3 D=in K=out` then `owners: multi=0 none=0`
    (the dead member K is shown as a dash pair) -/
def jwModel (n : Nat) (k : Option Nat) (a : Nat) (how order : String) (dId : Id) (dJt : Int) (tie : Option Bool) : String :=
  let s := jwScenario n k a how order dId dJt
  let mem := (List.range n).map fun i => if some i = k then "-/-" else jwShowMember s (jwId i)
  let info (m : Id) : Option (Nat × Nat) := (s.mem m).bind fun mb => if mb.pc = Pc.crashed then none else mb.info
  let dCrashed := match s.mem dId with
    | some mb => decide (mb.pc = Pc.crashed)
    | none => false
  let ds := if dCrashed then "exit-fail:not-in-cluster" else s!"alive {jwShowMember s dId}"
  let live := (((List.range n).filter fun i => some i ≠ k).filterMap fun i => info (jwId i)) ++ (info dId).toList
  let dIn := if s.index.any (·.1 = dId) then "in" else "out"
  let kOut := match k with
    | none => "-"
    | some k => if s.index.any (·.1 = jwId k) then "in" else "out"
  let t := match tie with
    | none => ""
    | some l => s!" | tie: D{if l then "<" else ">"}S"
  s!"members: {join mem} | D: {ds} | index: n={s.index.length} D={dIn} K={kOut} | {mpOwners live}{t}"

/-- monitor on the real observation.
    `C10.joiner-failstop`: the newly started, completely registered instance D ended (its first
    monitor rounds did not find it in the index: `panic("cant find self in cluster")`).
    `C10.joiner-erased`: D lives but is missing from the final index, or holds no number.
    Then: survivors + D hold a consistent numbering (`Spec.C10.holds` with the scenario's join
    times), the index lists exactly the live instances, every vBucket has one owner. -/
def jwVerdict (n : Nat) (k : Option Nat) (dJt : Int) (real : String) : String :=
  match real.splitOn " | " with
  | mm :: dd :: ix :: ow :: _ =>
    let surv := (List.range n).filter fun i => some i ≠ k
    match toks mm, toks dd, toks ix with
    | "members:" :: ms, "D:" :: dtoks, ["index:", nn, dIn, kOut] =>
      if ms.length ≠ n then "FAIL C10.unparsable" else
      match dtoks with
      | ["alive", kt] =>
        if dIn ≠ "D=in" then "FAIL C10.joiner-erased" else
        match mpSlash? kt with
        | none => "FAIL C10.joiner-erased"
        | some (dk, dt) =>
          match (surv.map fun i => ms.getD i "").mapM mpSlash? with
          | none => "FAIL C10.unparsable"
          | some sinfos =>
            let obs : List Spec.C10.Obs := ((surv.zip sinfos).map fun (i, (k', t)) => (jwJt i, k', t)) ++ [(dJt, dk, dt)]
            if !Spec.C10.holds obs then s!"FAIL {Spec.C10.failing obs}"
            else if nn ≠ s!"n={obs.length}" || kOut = "K=in" then "FAIL C10.index-not-live-set"
            else if ow ≠ "owners: multi=0 none=0" then "FAIL C10.owner"
            else "ok"
      | _ => "FAIL C10.joiner-failstop"
    | _, _, _ => "FAIL C10.unparsable"
  | _ => "FAIL C10.unparsable"

/-- `mb-cb-joinwrite n k a how order jt` -/
def hMbCbJoinWrite (args : List String) (real : Option String) : Option Out := do
  let [n, k, a, how, order, jt] := args | none
  let n ← n.toNat?; let a ← a.toNat?
  let k ← if k = "-" then some none else k.toNat?.map some
  if n < 1 || n > 64 || a ≥ n then none
  if !(["die", "exp", "none"].contains how) || !(["first", "last", "free", "all", "none"].contains order) then none
  match k with
  | none => if how ≠ "none" || order ≠ "none" then none
  | some k => if k ≥ n || k = a || how = "none" || order = "none" then none
  -- a tie is broken by the instance ids (uuids): the order the real run reports is adopted
  let tie : Option Bool :=
    if !jt.startsWith "tie:" then none
    else match real with
      | some r => some ((r.splitOn " | ").any (· = "tie: D<S"))
      | none => some false
  let (dId, dJt) ← jwJoin? n jt (tie.getD false)
  if jt.startsWith "tie:" && jt = s!"tie:{k.getD n}" then none
  let v := match real with
    | none => "-"
    | some r => jwVerdict n k dJt r
  some { model := jwModel n k a how order dId dJt tie, verdict := v }

def membershipJoinHandlers : List (String × (List String → Option String → Option Out)) :=
  [("mb-cb-joinwrite", hMbCbJoinWrite)]

end GoDcp.Driver
