import GoDcp.Driver.Pure
import GoDcp.Driver.Version
import GoDcp.Driver.Rollback
import GoDcp.Driver.Health
import GoDcp.Driver.Keys
import GoDcp.Driver.AsyncOp
import GoDcp.Driver.Config
import GoDcp.Driver.Life
import GoDcp.Driver.Wire
import GoDcp.Driver.Membership
import GoDcp.Driver.MinSeqNo
import GoDcp.Driver.SrcFacts
import GoDcp.Driver.MembershipPause
import GoDcp.Driver.MembershipJoin
import GoDcp.Driver.MembershipSlow
import GoDcp.Driver.HaMembership
import GoDcp.Driver.RmE2E
import GoDcp.Driver.ReadOnly
/-! registry of all stateless handlers (one list per slice) -/
namespace GoDcp.Driver

def allHandlers : List (String × (List String → Option String → Option Out)) :=
  pureHandlers ++ versionHandlers ++ rollbackHandlers ++ healthHandlers ++ keysHandlers ++ asyncOpHandlers ++ configHandlers ++ lifeHandlers ++ wireHandlers ++ membershipHandlers ++ minSeqNoHandlers ++ srcFactHandlers ++ membershipPauseHandlers ++ membershipJoinHandlers ++ membershipSlowHandlers ++ haMembershipHandlers ++ rmE2EHandlers ++ readOnlyHandlers

end GoDcp.Driver
