import GoDcp.Driver.Pure
/-! registry of all stateless handlers (one list per slice) -/
namespace GoDcp.Driver

def allHandlers : List (String × (List String → Option String → Option Out)) :=
  pureHandlers

end GoDcp.Driver
