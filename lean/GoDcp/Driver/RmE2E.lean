import GoDcp.Driver.Util
import GoDcp.Model.RmE2E
/-!
handler of stream `c07e2e` (harness/l2_rm_e2e.go; property C07): the whole library – real `dcp.NewDcp` + `Start()`,
rollback mitigation enabled – against a simulated cluster.  Handlers are stateless, so one op line carries a whole case.

`e2e-script SPEC STEP…`
    SPEC  `KV:NVB:REP:MEM:BUCKET:IV:CK:ROWS`
            KV      number of KV nodes (1-3), NVB vBuckets, REP replicas (every row has REP+1 entries)
            MEM     `s` static membership 1/1 | `dM.T` dynamic membership, first information M/T
            BUCKET  `m` membase | `e` ephemeral (bucketType of /pools/default/buckets/<b>)
            IV      poll interval in ms, CK `a`/`m` checkpoint type (both only tell the harness how to run the case)
            ROWS    vBucket map, one row per vBucket joined by `/`: node of every copy index joined by `.`, `u` = unlisted (-1)
    STEP  `start`                    NewDcp + Start(); the first poll round sees what the copies answer
          `push:V:MS:ME:Q.Q…`        the active node of V sends SNAPSHOT_MARKER(MS,ME) and a MUTATION per Q (`-` = none)
          `persist:NODE:V:UUID:SEQ`  from now on that copy answers (UUID,SEQ); the step ends after two full poll rounds
          `wait`                     two full poll rounds
          `reb:M:T`                  membership information M/T → close + reopen on the new range (dynamic only)
          `close`                    Close(), Start() returns
          (`reb` and `close`: stream.Close closes the observers one after the other while gocbcore's queue goroutines run;
           queued events whose OWN gate is open may still reach the listener before their observer is closed.  Which ones
           did is read off the real token of the step and given to the model as `late`, see `withLate`.)
    observation: one token per step
          `d<V:Q.Q,V:Q…>;h<N>;t<V:P,…>[;p<V.V…>]`   d = mutations the listener has received so far per vBucket (`-` none),
          h = mutations pushed in the open session and not delivered, t = non-zero thresholds (`GetPersistSeqNo`) of the
          open session's observers, p = vBuckets whose copies were asked OBSERVE_SEQNO in the poll window of the step
          (no p for `push`);  `hang` = the step did not finish in time (the rest of the case is `-`)

Monitor on the REAL observation, first step whose token differs from the model's (model: Model/RmE2E.lean;
`Props/C07E2E.e2eCheck_model`: the model's own output passes):
    `C07.e2e-ephemeral`        ephemeral bucket: something is held, polled or has a threshold
    `C07.e2e-hang`             start / rebalance / close did not finish
    `C07.e2e-stale-session`    a mutation is delivered that was not queued in the open session (a call that waits at its gate
                               when the session closes must return WITHOUT delivery), or copies of a vBucket outside the open
                               session's range are still polled (the closed session's mitigation runs on)
    `C07.e2e-wrong-vbucket`    a delivery / threshold of V is above V's own model threshold but covered by (equal to) the
                               threshold of ANOTHER vBucket
    `C07.e2e-unsafe-delivery`  a delivery / threshold above the model threshold (= maximum of the minima of V's own table)
    `C07.e2e-not-delivered`    the model delivered it (covered, nothing parked in front of it) and it is still held, or a
                               threshold is below the model's (a dispatch was lost)
    `C07.e2e-not-polled`       copies of an assigned vBucket are not polled
-/
namespace GoDcp.Driver
namespace E2Ed
open GoDcp GoDcp.RmE2E GoDcp.MinSeqNo

def dotsNat? (s : String) : Option (List Nat) :=
  if s == "-" then some [] else (s.splitOn ".").mapM String.toNat?

def showDots (l : List Nat) : String := if l.isEmpty then "-" else ".".intercalate (l.map toString)

def row? (s : String) : Option (List (Option Nat)) :=
  (s.splitOn ".").mapM fun x => if x == "u" then some none else (x.toNat?).map some

def mem? (s : String) : Option (Bool × Nat × Nat) :=
  if s == "s" then some (false, 1, 1)
  else if s.startsWith "d" then
    match ((s.drop 1).toString.splitOn ".") with
    | [m, t] => do some (true, (← m.toNat?), (← t.toNat?))
    | _ => none
  else none

def spec? (s : String) : Option Spec :=
  match s.splitOn ":" with
  | [kv, nvb, rep, mem, b, iv, ck, rows] => do
    let kv ← kv.toNat?
    let nvb ← nvb.toNat?
    let rep ← rep.toNat?
    let (dyn, m0, t0) ← mem? mem
    let _ ← iv.toNat?
    if ck != "a" && ck != "m" then none
    let eph ← if b == "e" then some true else if b == "m" then some false else none
    let rows ← (rows.splitOn "/").mapM row?
    if rows.length != nvb || kv == 0 || nvb == 0 || m0 == 0 || m0 > t0 || t0 > nvb then none
    if !(rows.all fun r => r.length == rep + 1 && (r.getD 0 none).isSome && r.all fun x => match x with | some n => n < kv | none => true) then none
    some { kv, nvb, dyn, m0, t0, eph, rows }
  | _ => none

def step? (dyn : Bool) (nvb : Nat) (s : String) : Option Step :=
  match s.splitOn ":" with
  | ["start"] => some .start
  | ["wait"] => some .wait
  | ["close"] => some (.close [])
  | ["push", v, a, b, qs] => do some (.push (← v.toNat?) (← a.toNat?) (← b.toNat?) (← dotsNat? qs))
  | ["persist", n, v, u, q] => do some (.persist (← n.toNat?) (← v.toNat?) (← u.toNat?) (← q.toNat?))
  | ["reb", m, t] => do
    let m ← m.toNat?
    let t ← t.toNat?
    if !dyn || m == 0 || m > t || t > nvb then none
    some (.reb m t [])
  | _ => none

/-- one observation token -/
structure Tok where
  d : List (Nat × List Nat) := []
  h : Nat := 0
  t : List (Nat × Nat) := []
  p : Option (List Nat) := none
deriving DecidableEq, Repr, Inhabited

def insertSorted (x : Nat) : List Nat → List Nat
  | [] => [x]
  | y :: ys => if x ≤ y then x :: y :: ys else y :: insertSorted x ys

def sortNat (l : List Nat) : List Nat := l.foldr insertSorted []

/-- seqnos per vBucket, vBuckets ascending, seqnos ascending -/
def group (nvb : Nat) (l : List (Nat × Nat)) : List (Nat × List Nat) :=
  (List.range nvb).filterMap fun v =>
    let qs := sortNat ((l.filter (·.1 == v)).map (·.2))
    if qs.isEmpty then none else some (v, qs)

def docSeq : SrvEv → Option Nat
  | .doc d => some d.seq
  | _ => none

def docsOf (l : List (Nat × SrvEv)) : List (Nat × Nat) :=
  l.filterMap fun p => (docSeq p.2).map fun q => (p.1, q)

/-- `close` / `reb`: the observers are closed one after the other while the queue goroutines run (see `Sess.late`) -/
def isClose : Step → Bool
  | .close _ => true
  | .reb .. => true
  | _ => false

def hasP : Step → Bool
  | .push .. => false
  | _ => true

def tokOf (σ : St) (a : Step) : Tok :=
  { d := group σ.spec.nvb (docsOf σ.delivered),
    h := match σ.cur with | some s => s.heldDocs.length | none => 0,
    t := match σ.cur with
      | some s => s.vbs.filterMap fun p => if p.2.gate.obs.persist == 0 then none else some (p.1, p.2.gate.obs.persist)
      | none => [],
    p := if hasP a then some (match σ.cur with | some s => s.vbs.map (·.1) | none => []) else none }

def ephTok (σ : EphSt) (a : Step) : Tok :=
  { d := group σ.nvb σ.delivered, h := 0, t := [], p := if hasP a then some [] else none }

def showTok (k : Tok) : String :=
  let d := if k.d.isEmpty then "-" else ",".intercalate (k.d.map fun (v, qs) => s!"{v}:{showDots qs}")
  let t := if k.t.isEmpty then "-" else ",".intercalate (k.t.map fun (v, x) => s!"{v}:{x}")
  let base := s!"d{d};h{k.h};t{t}"
  match k.p with
  | some p => s!"{base};p{showDots p}"
  | none => base

def dEntry? (s : String) : Option (Nat × List Nat) :=
  match s.splitOn ":" with
  | [v, qs] => do some ((← v.toNat?), (← (qs.splitOn ".").mapM String.toNat?))
  | _ => none

def tok? (s : String) : Option Tok :=
  let tl (x : String) : String := (x.drop 1).toString
  match s.splitOn ";" with
  | d :: h :: t :: rest => do
    if !d.startsWith "d" || !h.startsWith "h" || !t.startsWith "t" then none
    let d ← if tl d == "-" then some [] else ((tl d).splitOn ",").mapM dEntry?
    let h ← (tl h).toNat?
    let t ← if tl t == "-" then some [] else ((tl t).splitOn ",").mapM pair?
    let p ← match rest with
      | [] => some none
      | [p] => if p.startsWith "p" then (dotsNat? (tl p)).map some else none
      | _ => none
    some { d, h, t, p }
  | _ => none

/-- model states after every step -/
def states (σ : St) : List Step → List St
  | [] => []
  | a :: as => let σ' := σ.step a; σ' :: states σ' as

def ephStates (σ : EphSt) : List Step → List EphSt
  | [] => []
  | a :: as => let σ' := σ.step a; σ' :: ephStates σ' as

def modelToks (sp : Spec) (steps : List Step) : List Tok :=
  if sp.eph then
    ((ephStates { nvb := sp.nvb, m0 := sp.m0, t0 := sp.t0 } steps).zip steps).map fun (σ, a) => ephTok σ a
  else
    ((states (init sp) steps).zip steps).map fun (σ, a) => tokOf σ a

def has (d : List (Nat × List Nat)) (v q : Nat) : Bool := d.any fun p => p.1 == v && p.2.contains q

def flat (d : List (Nat × List Nat)) : List (Nat × Nat) := d.flatMap fun p => p.2.map fun q => (p.1, q)

def thrOf (t : List (Nat × Nat)) (v : Nat) : Nat := (t.lookup v).getD 0

/-- why the real token `r` differs from the model token `m` (mitigation enabled).  `σ` / `bound`: the state whose
    queues and the thresholds against which a surplus delivery is judged – the state after the step, for `close` / `reb`
    the state BEFORE it (what is delivered while the observers are being closed belongs to the closing session) -/
def classify (σ : St) (bound : List (Nat × Nat)) (m r : Tok) : Option String :=
  let extras := (flat r.d).filter fun p => !has m.d p.1 p.2
  let missing := (flat m.d).filter fun p => !has r.d p.1 p.2
  let queued (p : Nat × Nat) : Bool := match σ.cur with
    | some s => s.heldDocs.any fun x => x.1 == p.1 && docSeq x.2 == some p.2
    | none => false
  let other (v x : Nat) : Bool := bound.any fun w => w.1 != v && x ≤ w.2
  let delivery : Option String := extras.findSome? fun p =>
    if !queued p then some "C07.e2e-stale-session"
    else if p.2 > thrOf bound p.1 then some (if other p.1 p.2 then "C07.e2e-wrong-vbucket" else "C07.e2e-unsafe-delivery")
    else none
  let otherT (v x : Nat) : Bool := m.t.any fun w => w.1 != v && x ≤ w.2
  let high : Option String := r.t.findSome? fun w =>
    if w.2 > thrOf m.t w.1 then some (if otherT w.1 w.2 then "C07.e2e-wrong-vbucket" else "C07.e2e-unsafe-delivery") else none
  let low : Bool := m.t.any fun w => thrOf r.t w.1 < w.2
  let polls : Option String := match m.p, r.p with
    | some mp, some rp =>
      if rp.any (fun v => !mp.contains v) then some "C07.e2e-stale-session"
      else if mp.any (fun v => !rp.contains v) then some "C07.e2e-not-polled" else none
    | _, _ => none
  match delivery with
  | some c => some c
  | none => match high with
    | some c => some c
    | none =>
      if !missing.isEmpty || low then some "C07.e2e-not-delivered" else polls

def thrToks (σ : St) : List (Nat × Nat) :=
  match σ.cur with
  | some s => s.vbs.filterMap fun p => if p.2.gate.obs.persist == 0 then none else some (p.1, p.2.gate.obs.persist)
  | none => []

/-- first failing clause over a whole case; `none` = every real token equals the model's or differs harmlessly.
    `prev` = model state before the step -/
def checkAux (eph : Bool) (prev : St) : List (St × Step) → List Tok → List String → Option String
  | (σ, a) :: σs, m :: ms, r :: rs =>
    if r == showTok m then checkAux eph σ σs ms rs
    else if r == "hang" then some "C07.e2e-hang"
    else match tok? r with
      | none => some "parse"
      | some rt =>
        if eph then some "C07.e2e-ephemeral"
        else if isClose a then classify prev (thrToks prev) m rt else classify σ m.t m rt
  | [], m :: ms, r :: rs =>    -- ephemeral: no `St`
    if r == showTok m then checkAux eph prev [] ms rs
    else if r == "hang" then some "C07.e2e-hang"
    else if eph then some "C07.e2e-ephemeral" else some "parse"
  | _, [], [] => none
  | _, _, _ => some "length"

def check (sp : Spec) (steps : List Step) (real : List String) : Option String :=
  checkAux sp.eph (init sp) (if sp.eph then [] else (states (init sp) steps).zip steps) (modelToks sp steps) real

def newDocs (prev cur : List (Nat × List Nat)) : List (Nat × Nat) := (flat cur).filter fun p => !has prev p.1 p.2

/-- what the scheduler chose at every `close` / `reb` (which queued events got through while the observers were being
    closed) is not in the script: it is read off the REAL observation – the mutations that are new in the token of that
    step – and handed to the model, which accepts it only as far as the events pass their own vBucket's gate -/
def withLate : List Step → List String → List (Nat × List Nat) → List Step
  | [], _, _ => []
  | a :: as, [], _ => a :: as
  | a :: as, r :: rs, prev =>
    let cur := match tok? r with | some t => t.d | none => prev
    let a' := match a with
      | .close _ => Step.close (newDocs prev cur)
      | .reb m t _ => Step.reb m t (newDocs prev cur)
      | x => x
    a' :: withLate as rs cur

def hE2E (args : List String) (real : Option String) : Option Out := do
  let spec :: steps ← pure args | none
  let sp ← spec? spec
  let steps ← steps.mapM (step? sp.dyn sp.nvb)
  let steps := match real with
    | some r => withLate steps (toks r) []
    | none => steps
  let model := join ((modelToks sp steps).map showTok)
  let verdict := match real with
    | none => "-"
    | some r => match check sp steps (toks r) with
      | none => "ok"
      | some c => s!"FAIL {c}"
  some { model, verdict }

end E2Ed

def rmE2EHandlers : List (String × (List String → Option String → Option Out)) :=
  [("e2e-script", E2Ed.hE2E)]

end GoDcp.Driver
