/-! line-protocol helpers (core Lean only) -/
namespace GoDcp.Driver

def toks (s : String) : List String := (s.splitOn " ").filter (· ≠ "")

def nat? (s : String) : Option Nat := s.toNat?

def int? (s : String) : Option Int := s.toInt?

def nats? (l : List String) : Option (List Nat) := l.mapM nat?

def join (l : List String) (sep : String := " ") : String := sep.intercalate l

/-- "a:b" → (a,b) -/
def pair? (s : String) : Option (Nat × Nat) :=
  match s.splitOn ":" with
  | [a, b] => do some ((← a.toNat?), (← b.toNat?))
  | _ => none

def showPair (p : Nat × Nat) : String := s!"{p.1}:{p.2}"

def verdict (b : Bool) (clause : String := "") : String := if b then "ok" else s!"FAIL {clause}"

/-- result of a handler: model observation, monitor verdict on the real observation
    ("-" when the command has no monitor or no real observation was supplied) -/
structure Out where
  model : String
  verdict : String := "-"

end GoDcp.Driver
