import GoDcp.Driver.Util
import GoDcp.Model.Session
/-!
handler of stream `c02ro` (harness/l2_readonly.go; property C02, last clause: "in read-only metadata mode loads are
identical while nothing is ever written").  The REAL `dcp.NewDcp` (+ `SetMetadata(custom)` for the custom back end) +
`Start()` runs against the simulated node: events are pushed, acknowledged, committed; `Close()`; then a second client
on the same store shows where a restart resumes.  Handlers are stateless: one op line = one case.

`ro-case RO BE CK PRE EVS`
    RO   `1` / `0`      `metadata.readOnly`
    BE   `custom` (installed through `Dcp.SetMetadata`) | `file` | `couchbase`
    CK   `manual` (the listener calls `ctx.Commit()` after the events marked `c`) | `auto` (short interval; save on Close)
    PRE  checkpoints in the store before the start: `VB:(uuid,seq,ss,se)/…` or `-`  (4 vBuckets, static membership 1/1)
    EVS  `VB:SEQ[c]/…` or `-`: the node sends SNAPSHOT_MARKER(SEQ,SEQ) + MUTATION SEQ on VB; the listener acknowledges
observation: `loads=N saves=N store-changed=0|1 opened=… resumed=…`
    loads / saves   calls of `Load` / `Save` that reached the custom store in the first run (`-` for file / couchbase;
                    `auto`: `0` or `+`)
    store-changed   the store differs from what it was before the start (custom: documents; file: bytes; couchbase: xattrs)
    opened/resumed  `VB(vbUUID,start,snapStart,snapEnd)/…` of the DCP_STREAM_REQs of the first / the second client

The prediction is the EXISTING session model (`Model/Session.lean`): `cfg.readOnly` makes `mdWrite` write nothing
(`saveAll` answers `nowrite`), `load` does not look at the flag.  Theorems: `Props/C02RO.lean`.
Monitor on the REAL observation (first difference to the model):
    `C02.read-only-written`   readOnly and a Save reached the store, the store changed, or the restart does not resume from
                              the stored checkpoint
    `C02.read-only-load`      readOnly and the first client was not opened like the one without readOnly (loads differ)
    `C02.ack-not-stored`      not readOnly and the restart does not resume from the acknowledged, committed position
-/
namespace GoDcp.Driver
namespace ROd
open GoDcp

structure Case where
  ro : Bool
  be : String
  auto : Bool
  pre : List (Vb × Doc)
  evs : List (Vb × Nat × Bool)
deriving Repr, Inhabited

def nvb : Nat := 4
def high : Nat := 1000000
/-- head of the failover log of the simulated node (`sim.DefaultUUID`) -/
def uuidOf (vb : Nat) : Nat := 0xabc000 + vb

def doc? (s : String) : Option Doc :=
  if !(s.startsWith "(" && s.endsWith ")") then none else
  match ((String.ofList ((s.toList.drop 1).take (s.length - 2))).splitOn ",").mapM String.toNat? with
  | some [a, b, c, d] => some ⟨a, b, c, d⟩
  | _ => none

def pre? (s : String) : Option (List (Vb × Doc)) :=
  if s == "-" then some [] else
  (s.splitOn "/").mapM fun e => match e.splitOn ":" with
    | [v, d] => do some ((← v.toNat?), (← doc? d))
    | _ => none

def evs? (s : String) : Option (List (Vb × Nat × Bool)) :=
  if s == "-" then some [] else
  (s.splitOn "/").mapM fun e => match e.splitOn ":" with
    | [v, q] =>
      let c := q.endsWith "c"
      let q := if c then String.ofList (q.toList.take (q.length - 1)) else q
      do some ((← v.toNat?), (← q.toNat?), c)
    | _ => none

def case? : List String → Option Case
  | [ro, be, ck, pre, evs] => do
    let ro ← if ro == "1" then some true else if ro == "0" then some false else none
    if be != "custom" && be != "file" && be != "couchbase" then none
    let auto ← if ck == "auto" then some true else if ck == "manual" then some false else none
    let pre ← pre? pre
    let evs ← evs? evs
    if !(pre.all fun p => p.1 < nvb && p.2.seq ≤ high) || !(evs.all fun e => e.1 < nvb) then none
    some { ro, be, auto, pre, evs }
  | _ => none

def mu (q : Nat) : SrvEv := .doc { kind := .mu, seq := q, cas := 0, key := "6b", coll := 0, payload := "76" }

/-- the state before the first start -/
def start (c : Case) : St :=
  run { cfg := { lo := 0, hi := nvb - 1, readOnly := c.ro } }
    ((List.range nvb).flatMap (fun vb => [Op.setHigh vb high, .setFlog vb (uuidOf vb)]) ++ c.pre.map fun p => .setStore p.1 p.2)

/-- the first run: Open, every event delivered and acknowledged (`ack i` = the i-th delivery), Commit where marked,
    `auto`: the periodic / final save; Close -/
def ops (c : Case) : List Op :=
  let rec go (i : Nat) : List (Vb × Nat × Bool) → List Op
    | [] => []
    | (vb, q, cm) :: r =>
      [Op.ev vb (.marker q q), .ev vb (mu q), .ack i] ++ (if cm && !c.auto then [Op.save .ok] else []) ++ go (i + 1) r
  [Op.open] ++ go 0 c.evs ++ (if c.auto then [Op.save .ok] else []) ++ [.close]

def reqs (l : List Obsv) : List (Vb × Offset) := l.filterMap fun o => match o with | .openreq vb off => some (vb, off) | _ => none

def showReqs (l : List (Vb × Offset)) : String :=
  if l.isEmpty then "-" else "/".intercalate (l.map fun (vb, o) => s!"{vb}({o.uuid},{o.seq},{o.ss},{o.se})")

structure Pred where
  loads : String
  saves : String
  changed : Bool
  opened : String
  resumed : String
deriving DecidableEq, Repr, Inhabited

def predict (c : Case) : Pred :=
  let s0 := start c
  let (s1, tr) := runTrace s0 (ops c)
  let nsave := (tr.flatMap id).countP fun o => match o with | .saveCall _ _ => true | _ => false
  let custom := c.be == "custom"
  { loads := if custom then "1" else "-",
    saves := if !custom then "-" else if c.auto then (if nsave == 0 then "0" else "+") else toString nsave,
    changed := s1.store != s0.store,
    opened := showReqs (reqs (tr.headD [])),
    resumed := showReqs (reqs (step s1 .open).2) }

def showPred (p : Pred) : String :=
  s!"loads={p.loads} saves={p.saves} store-changed={if p.changed then 1 else 0} opened={p.opened} resumed={p.resumed}"

def field (ws : List String) (k : String) : Option String :=
  (ws.find? (·.startsWith (k ++ "="))).map fun w => (w.drop (k.length + 1)).toString

def check (c : Case) (p : Pred) (real : String) : Option String :=
  if real == showPred p then none else
  let ws := toks real
  let saves := (field ws "saves").getD "?"
  let changed := (field ws "store-changed").getD "?"
  let opened := (field ws "opened").getD "?"
  let resumed := (field ws "resumed").getD "?"
  if c.ro then
    if (saves != "0" && saves != "-") || changed != "0" || resumed != p.resumed then some "C02.read-only-written"
    else if opened != p.opened || (field ws "loads").getD "?" != p.loads then some "C02.read-only-load"
    else some "C02.read-only-observation"
  else if resumed != p.resumed then some "C02.ack-not-stored"
  else some "C02.metadata-observation"

def hRo (args : List String) (real : Option String) : Option Out := do
  let c ← case? args
  let p := predict c
  let verdict := match real with
    | none => "-"
    | some r => match check c p r with
      | none => "ok"
      | some cl => s!"FAIL {cl}"
  some { model := showPred p, verdict }

end ROd

def readOnlyHandlers : List (String × (List String → Option String → Option Out)) :=
  [("ro-case", ROd.hRo)]

end GoDcp.Driver
