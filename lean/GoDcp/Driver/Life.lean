import GoDcp.Driver.Util
import GoDcp.Model.Life
/-! line protocol for the M3 life-cycle model (commands `lf-*`) -/
namespace GoDcp.Driver
open GoDcp GoDcp.Life

def showCb : Cb → String
  | .BRS => "BRS" | .ARS => "ARS" | .BRE => "BRE" | .ARE => "ARE"
  | .BSS => "BSS" | .ASS => "ASS" | .BSP => "BSP" | .ASP => "ASP"

def b01 (b : Bool) : String := if b then "1" else "0"

def showLObs : LObs → String
  | .cb c => showCb c
  | .openreq vb q => s!"openreq {vb} {q}"
  | .closereq vb => s!"closereq {vb}"
  | .deliver vb q => s!"deliver {vb} {q}"
  | .written vb q => s!"written {vb} {q}"
  | .stop => "stop"
  | .failstop why => s!"failstop:{why}"
  | .debounced => "absorbed"
  | .reassigned => "absorbed"
  | .queued => "queued"
  | .skipped => "skipped"
  | .status o a r st _ _ => s!"open={b01 o} active={a} reb={r} stop={b01 st}"

/-- canonical: a `stop` is reported at the end of the op in which it happened (the harness polls the channel) -/
def showLObss (l : List LObs) : String :=
  let l' := l.filter (· != .stop) ++ (if l.contains .stop then [.stop] else [])
  match l' with
  | [] => "-"
  | _ => join (l'.map showLObs) " ; "

def parseCause : String → Option EndCause
  | "transient" => some .transient | "transient-held" => some .transient   -- (its re-request stays in flight for a while: same model step)
  | "closed" => some .closed
  | "final" => some .final | "clean" => some .clean | _ => none

def parseLOp : List String → Option LOp
  | ["lf-member", lo, hi] => do some (.member (← lo.toNat?) (← hi.toNat?))
  | ["lf-store", vb, q] => do some (.setStore (← vb.toNat?) (← q.toNat?))
  | ["lf-open"] => some .open
  | ["lf-notify"] => some .notify
  | ["lf-notify-api"] => some .notifyApi
  | ["lf-notify-close", k] => do some (.notifyDuringClose (← k.toNat?))
  | ["lf-tick", d] => do some (.tick (← d.toNat?))
  | ["lf-end", vb, c] => do some (.endEv (← vb.toNat?) (← parseCause c))
  | ["lf-ev", vb] => do some (.ev (← vb.toNat?))
  | ["lf-save"] => some .save
  | ["lf-shutdown", c] => some (.shutdown (c == "1"))
  | ["lf-query"] => some .query
  | _ => none

/-! ### run-time monitor on the REAL observation stream (Spec.Life) -/

/-- callback automaton `BSS ASS (BRS [BSP ASP] ARS BRE BSS ASS ARE)* [BSP ASP]`;
    state 2 = streaming, 3..9 = inside a rebalance, 10/11 = final stop -/
def cbNext : Nat → String → Option Nat
  | 0, "BSS" => some 1 | 1, "ASS" => some 2
  | 2, "BRS" => some 3 | 2, "BSP" => some 10 | 10, "ASP" => some 11
  | 3, "BSP" => some 4 | 3, "ARS" => some 6 | 4, "ASP" => some 5 | 5, "ARS" => some 6
  | 6, "BRE" => some 7 | 7, "BSS" => some 8 | 8, "ASS" => some 9 | 9, "ARE" => some 2
  | 6, "BSP" => some 10      -- shutdown inside the rebalance window (ends in F4 on this tree)
  | _, _ => none

def isCb (t : String) : Bool := ["BRS","ARS","BRE","ARE","BSS","ASS","BSP","ASP"].contains t

structure LMon where
  cb : Nat := 0
  bad : Bool := false
  /-- vBuckets requested in the last `BSS … ASS` block (the assignment of the current session) -/
  assigned : List Nat := []
  /-- vBuckets whose stream has finally ended in the current session -/
  ended : List Nat := []
  stopped : Bool := false
  /-- the server ended one vBucket stream for good twice in one session: outside C12's quantifier (`EndsOnce`) -/
  tainted : Bool := false
deriving Repr, Inhabited

/-- feed the tokens of one real observation; returns the verdict for the line -/
def lmonStep (m : LMon) (op : List String) (real : String) : LMon × String :=
  let full := if real == "-" then [] else real.splitOn " ; "
  let toks := full.map fun t => ((t.splitOn " ").headD "")
  let rec go (st : Nat) (ts : List String) (v : String) : Nat × String :=
    match ts with
    | [] => (st, v)
    | t :: r =>
      if isCb t then
        match cbNext st t with
        | some st' => go st' r v
        | none => go st r (if v == "ok" then s!"FAIL C11.callbacks-bracketed at {t}" else v)
      else if t == "deliver" then
        go st r (if st == 2 || v != "ok" then v else "FAIL C11.no-delivery-while-closed")
      else go st r v
  let (st', v) := go m.cb toks "ok"
  -- C12: the session's assignment = the requests of the last BSS…ASS block; final ends are counted per vBucket;
  -- the stream stops on its own exactly when the last assigned vBucket has finally ended
  let reqs := full.filterMap fun t => match t.splitOn " " with
    | ["openreq", vb, _] => vb.toNat?
    | _ => none
  let m1 := if toks.contains "BSS" then { m with assigned := reqs.eraseDups, ended := [], tainted := false } else m
  let isFinalEnd := match op with
    | ["lf-end", _, c] => c != "transient" && c != "transient-held"
    | _ => false
  let endVb := match op with | ["lf-end", vb, _] => vb.toNat? | _ => none
  let m2 := match isFinalEnd, endVb with
    | true, some vb =>
      if st' == 2 && m1.assigned.contains vb then
        if m1.ended.contains vb then { m1 with tainted := true } else { m1 with ended := m1.ended ++ [vb] }
      else m1
    | _, _ => m1
  let sawStop := toks.contains "stop"
  let allEnded := !m2.assigned.isEmpty && m2.assigned.all (m2.ended.contains ·)
  let v :=
    if v != "ok" then v
    else if m2.tainted then v
    else if sawStop && !m2.stopped && op.head? == some "lf-end" && !allEnded then "FAIL C12.stopped-before-all-ended"
    else if isFinalEnd && allEnded && !sawStop && !m2.stopped && st' == 2 then "FAIL C12.not-stopped-when-all-ended"
    else v
  let m := { m2 with stopped := m2.stopped || sawStop }
  let v :=
    if v != "ok" then v
    else if full.contains "failstop:nil-observers" && op.head? == some "lf-shutdown" then
      "KF F4 Close()/SIGTERM inside a rebalance window dereferences the nil observers map"
    else if full.any (fun t => t.startsWith "failstop") then "FAIL C13.no-crash"
    else if full.contains "queued" then
      "KF F5 a notification during the first-ever close queues on the rebalance lock and causes a second close/reopen cycle"
    else "ok"
  ({ m with cb := st' }, v)

/-- `lf-trail IV NVB SAVE LATE`: after `Close()` returned no checkpoint write happens any more
    (the periodic schedule is stopped), whatever acknowledgements arrive late (C13) -/
def hTrail (args : List String) (real : Option String) : Option Out :=
  match args.mapM String.toNat? with
  | some [_, _, _, _] =>
    some { model := "writes-after-close=0",
           verdict := match real with
             | none => "-"
             | some r => if r == "writes-after-close=0" then "ok" else "FAIL C13.save-after-close" }
  | _ => none

/-- `c16-race KIND NVB EVENTS`: a scrape landing inside `Close`, spanning it, after it, or inside a rebalance
    window neither blocks nor crashes (C16, last clause; `closed_scrape_is_empty_and_total`: the model's scrape is total) -/
def hScrapeRace (args : List String) (real : Option String) : Option Out :=
  match args with
  | [kind, _, _] =>
    let model := if kind == "rebalance-window" then "ok,ok" else "ok"
    some { model, verdict := match real with
      | none => "-"
      | some r => if r == model then "ok" else "FAIL C16.scrape-crashes-or-blocks" }
  | _ => none

def lifeHandlers : List (String × (List String → Option String → Option Out)) :=
  [("lf-trail", hTrail), ("c16-race", hScrapeRace)]

def lifeLine (s : LSt) (m : LMon) (ts : List String) (real : Option String) : Option (LSt × LMon × String × String) :=
  match ts with
  | ["lf-reset", d, dyn, auto] =>
    match d.toNat? with
    | some dl => some ({ delay := dl, dynamic := dyn == "1", auto := auto == "1" }, ({} : LMon), "ok", "-")
    | none => some (s, m, "bad-op", "-")
  | ["lf-end", vb, "transient-nested"] =>
    -- the stream of VB ends with a re-openable cause and the RE-REQUESTED stream ends again (re-openable) before the first
    -- re-open has returned: two transient ends in a row = two re-requests from the current position, count untouched
    match vb.toNat? with
    | some v =>
      let (s1, o1) := Life.step s (.endEv v .transient)
      let (s2, o2) := Life.step s1 (.endEv v .transient)
      let (m', v1) := match real with
        | some r => lmonStep m ["lf-end", vb, "transient"] r
        | none => (m, "-")
      some (s2, m', showLObss (o1 ++ o2), v1)
    | none => some (s, m, "bad-op", "-")
  | ["lf-open-end", vb, c] =>
    -- a stream that ends while `Open()` is still opening the other vBuckets: the same two model steps as
    -- `lf-open` followed by `lf-end VB CAUSE` (the count is preset to the assignment size before any stream opens)
    match vb.toNat?, parseCause c with
    | some v, some cause =>
      let (s1, o1) := Life.step s .open
      let (s2, o2) := Life.step s1 (.endEv v cause)
      let (m1, v1) := match real with
        | some r => lmonStep m ["lf-open"] r
        | none => (m, "-")
      -- the end is part of this line: count it for the C12 clauses
      let m2 := if cause != .transient && m1.assigned.contains v then { m1 with ended := m1.ended ++ [v] } else m1
      let v1 := if v1 == "ok" && (match real with | some r => (r.splitOn " ; ").contains "stop" && !(m2.assigned.all (m2.ended.contains ·)) | none => false)
                then "FAIL C12.stopped-before-all-ended" else v1
      some (s2, m2, showLObss (o1 ++ o2), v1)
    | _, _ => some (s, m, "bad-op", "-")
  | _ =>
    match parseLOp ts with
    | some op =>
      let (s', o) := Life.step s op
      let (m', v) := match real with
        | some r => lmonStep m ts r
        | none => (m, "-")
      some (s', m', showLObss o, v)
    | none => none

end GoDcp.Driver
