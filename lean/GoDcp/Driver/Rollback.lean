import GoDcp.Driver.Util
import GoDcp.Model.Rollback
import GoDcp.Spec.C08
/-! handlers of slice C08 (`rb-…`) and of the simulated-node smoke stream (`l2-smoke`) -/
namespace GoDcp.Driver
namespace Rb   -- helpers live in their own namespace: command/helper names of other slices cannot clash
open GoDcp GoDcp.Rollback

/-- expected constant observation of every step of harness stream `l2smoke`
    (harness/l2_smoke.go).  The model of the simulated node *is* this table. -/
def smokeExpected : List (String × String) :=
  [ ("connect", "ok"),
    ("dcpconnect", "ok"),
    ("numvb", "5"),
    ("seqnos", "0:10 1:11 2:12 3:13 4:14"),
    ("failover", "777:6 555:0"),
    ("ping", "ok"),
    ("http", "7.6.0 membase couchstore"),
    ("open", "vb=1 flags=128 start=3 end=99 uuid=555 snap=2-4"),
    ("push", "mk 1 4-9 | mu 1 5 k1={\"a\":1} rev=2 fl=7 exp=0 cas=1700000000000000000 dt=1 coll=_default t=1700000000 off=(777,5,4,9,99) | de 1 6 k2 off=(777,6,4,9,99) | ex 1 7 k3 off=(777,7,4,9,99) | sa 1 9 off=(777,9,9,9,99)"),
    ("close", "ok end 1 closed closes=1 open=[4]"),
    ("server-end", "end 2 state-changed"),
    ("scripted-status", "err"),   -- a server error status is reported (F7 repaired by fix: c9cc595; the pinned tree gave `ok n=0`)
    ("scripted-failover-err", "err ok"),
    ("cbmeta", "exist=true 0:18446744073709551615,9007199254740993,9223372036854775809,18446744073709551615 1:0,0,0,0 2:18446744073709551615,9007199254740995,9223372036854775809,18446744073709551615 3:0,0,0,0 ; MUTATEIN _connector:cbgo:smoke:checkpoint:0 0 ; MUTATEIN _connector:cbgo:smoke:checkpoint:0 1 ; MUTATEIN _connector:cbgo:smoke:checkpoint:2 0 ; MUTATEIN _connector:cbgo:smoke:checkpoint:2 0 ; MUTATEIN _connector:cbgo:smoke:checkpoint:2 1 ; SET _connector:cbgo:smoke:checkpoint:0 0 ; SET _connector:cbgo:smoke:checkpoint:2 0"),
    ("shutdown", "ok") ]

/-- `l2-smoke STEP` → the constant above -/
def hSmoke (args : List String) (_real : Option String) : Option Out := do
  let [s] ← pure args | none
  let m ← smokeExpected.lookup s
  some { model := m }

/-! ### `rb-case` -/

/-- "-" or comma separated items -/
def listOf? {α} (f : String → Option α) (s : String) : Option (List α) :=
  if s == "-" then some [] else (s.splitOn ",").mapM f

def showList {α} (f : α → String) (l : List α) (sep : String := ",") : String :=
  if l.isEmpty then "-" else sep.intercalate (l.map f)

def log? : String → Option Log := listOf? pair?

def answer? (s : String) (log : Log) : Option Answer :=
  if s == "ok" then some (.ok log)
  else if s == "err" then some .err
  else match s.splitOn ":" with
    | ["rb", r] => do some (.rollback (← r.toNat?))
    | _ => none

def kind? : String → Option Kind
  | "mu" => some .mu | "de" => some .de | "ex" => some .ex | "sy" => some .sy | _ => none

def showKind : Kind → String
  | .mu => "mu" | .de => "de" | .ex => "ex" | .sy => "sy"

def event? (s : String) : Option Event :=
  match s.splitOn ":" with
  | ["mk", a, b] => do some (.marker (← a.toNat?) (← b.toNat?))
  | ["sa", q] => do some (.advance (← q.toNat?))
  | [k, q] => do some (.gated (← kind? k) (← q.toNat?))
  | _ => none

def delivered? (s : String) : Option Delivered :=
  match s.splitOn ":" with
  | ["mk", a, b] => do some (.marker (← a.toNat?) (← b.toNat?))
  | ["sa", q, u, _, _] => do some (.advance (← q.toNat?) (← u.toNat?))
  | [k, q, u, a, b] => do some (.gated (← kind? k) (← q.toNat?) (← u.toNat?) (← a.toNat?) (← b.toNat?))
  | _ => none

def showDelivered : Delivered → String
  | .marker s e => s!"mk:{s}:{e}"
  | .advance q u => s!"sa:{q}:{u}:{q}:{q}"
  | .gated k q u s e => s!"{showKind k}:{q}:{u}:{s}:{e}"

def showReq (r : StreamReq) : String :=
  s!"{r.flags},{r.uuid},{r.start},{r.stop},{r.snapStart},{r.snapEnd}"

def req? (s : String) : Option StreamReq :=
  match (s.splitOn ",").mapM String.toNat? with
  | some [a, b, c, d, e, f] => some ⟨a, b, c, d, e, f⟩
  | _ => none

def showObs (o : Spec.C08.Obs) : String :=
  s!"{if o.ok then "ok" else "err"} {showList showReq o.reqs ";"} {showList showDelivered o.delivered}"

def obs? (s : String) : Option Spec.C08.Obs :=
  match toks s with
  | [st, rs, ds] => do
    -- every status but `err` means that OpenStream returned nil (`push-failed`, `fence-timeout`,
    -- `close-failed`, `no-end`, `end-…` are harness-side trouble after a nil return)
    let ok := st != "err"
    let reqs ← if rs == "-" then some [] else (rs.splitOn ";").mapM req?
    let dl ← listOf? delivered? ds
    some ⟨ok, reqs, dl⟩
  | _ => none

/-- `rb-case LATEST UUID F SS SE A1 Q LOG A2 LOG2 EVS`
    A1, A2 ∈ `ok | err | rb:N` (an `ok` of the first request carries LOG, of the second LOG2),
    Q ∈ `q:ok | q:err`, LOG/LOG2 = `uuid:seq,…` newest first or `-`,
    EVS = `mk:S:E | sa:Q | mu:Q | de:Q | ex:Q | sy:Q`, comma separated, or `-`.
    Observation: `ok|err REQ;REQ DELIVERED` with REQ = `flags,uuid,start,end,ss,se`,
    DELIVERED = `mk:S:E | sa:Q:UUID:Q:Q | KIND:Q:UUID:SS:SE` (offset uuid and snapshot); `lethal` when the case would
    kill the process (gated event outside its snapshot, empty log in a success answer) –
    the harness does not execute those. -/
def hRbCase (args : List String) (real : Option String) : Option Out := do
  let [l, u, f, ss, se, a1s, qs, logs, a2s, log2s, evss] ← pure args | none
  let [l, u, f, ss, se] ← nats? [l, u, f, ss, se] | none
  let log ← log? logs
  let log2 ← log? log2s
  let a1 ← answer? a1s log
  let a2 ← answer? a2s log2
  let q ← if qs == "q:ok" then some (some log) else if qs == "q:err" then some none else none
  let evs ← listOf? event? evss
  let sc : Scenario := ⟨⟨u, f, ss, se, l⟩, a1, q, a2⟩
  let dies := match openStream sc with | .failstop _ => true | _ => false
  if dies || !wellSnapped none evs then
    some { model := "lethal" }
  else
    let model := showObs (Spec.C08.modelObs sc evs)
    let v := match real with
      | none => "-"
      | some r =>
        -- the harness reports first of all whether client.OpenStream changed the (tracked) offset object it was given
        if r.startsWith "offset-rewritten" then "FAIL C04.tracked-moved-by-open" else
        match obs? r with
        | some o => match Spec.C08.failing sc evs o with
          | none => "ok"
          | some c => s!"FAIL C08.{c}"
        | none => if r == "lethal" then "-" else "FAIL C08.unparsable"
    some { model, verdict := v }

end Rb

def rollbackHandlers : List (String × (List String → Option String → Option Out)) :=
  [("l2-smoke", Rb.hSmoke), ("rb-case", Rb.hRbCase)]

end GoDcp.Driver
