import GoDcp.Driver.Util
import GoDcp.Model.Session
/-! line protocol for the M2 session model: parser of op lines, renderer of observations -/
namespace GoDcp.Driver
open GoDcp

def showOffset (o : Offset) : String := s!"({o.uuid},{o.seq},{o.ss},{o.se},{o.latest})"
def showDoc (d : Doc) : String := s!"({d.uuid},{d.seq},{d.ss},{d.se})"

def showKind : DocKind → String
  | .mu => "mu" | .de => "de" | .ex => "ex"

def showDocs (l : List (Vb × Doc)) : String :=
  "[" ++ join ((sortBy (·.1) l).map fun (vb, d) => s!"{vb}{showDoc d}") ++ "]"

def showVbs (l : List Vb) : String :=
  "[" ++ join ((sortBy id l).map toString) "," ++ "]"

def showObsv : Obsv → Option String
  | .ok => some "ok"
  | .bad why => some s!"bad:{why}"
  | .openreq vb o => some s!"openreq {vb} {showOffset o}"
  | .closereq vb => some s!"closereq {vb}"
  | .deliver i vb d off coll t =>
    some s!"deliver {i} {vb} {showKind d.kind} {d.seq} {d.cas} {d.key} {d.coll} {d.payload} coll={coll} t={t} off={showOffset off}"
  | .track vb o => some s!"track {vb} {showOffset o}"
  | .saveCall st dirty => some s!"savecall {showDocs st} dirty={showVbs dirty}"
  | .written docs => some s!"written {showDocs docs}"
  | .saveErr => some "saveerr"
  | .nowrite => some "nowrite"
  | .flag b => some (if b then "flag=1" else "flag=0")
  | .failstop why => some s!"failstop:{why}"
  | .blocked => some "blocked"
  | .drop _ => none
  | .stale => some "stale"
  | .pos offs dirty any =>
    some ("pos [" ++ join ((sortBy (·.1) offs).map fun (vb, o) => s!"{vb}{showOffset o}") ++ s!"] dirty={showVbs dirty} any=" ++ (if any then "1" else "0"))
  | .counters m d e => some s!"mut={m} del={d} exp={e}"
  | .scrapeClosed => some "scrape closed"
  | .scrape rows total =>
    let f := fun (n : Nat) => if n < 9007199254740992 then toString n else "big"
    some ("scrape [" ++ join ((sortBy (·.vb) rows).map fun r =>
      s!"{r.vb}:{f r.cur},{f r.ss},{f r.se},{f r.lag},{r.nmut},{r.ndel},{r.nexp},{f r.persist}") ++ s!"] total={f total}")

def showObsvs (l : List Obsv) : String :=
  match l.filterMap showObsv with
  | [] => "-"
  | xs => join xs " ; "

def kv? (s : String) : Option (String × String) :=
  match s.splitOn "=" with
  | [a, b] => some (a, b)
  | _ => none

def parseColls (s : String) : Option (List (Nat × String)) :=
  if s == "-" then some [] else
  (s.splitOn ",").mapM fun e => match e.splitOn ":" with
    | [a, b] => do some ((← a.toNat?), b)
    | _ => none

def parseCfg (args : List String) : Option Cfg := do
  let kvs ← args.mapM kv?
  let get := fun k => kvs.lookup k
  let lo ← (← get "lo").toNat?
  let hi ← (← get "hi").toNat?
  let mode ← get "mode"
  let reset ← get "reset"
  let ro ← get "ro"
  let rm ← get "rm"
  let skip ← get "skip"
  let colls ← parseColls (← get "colls")
  -- `skip=SECONDS[.NANOS]`: event time is whole seconds (CAS / 10^9), so "event time before SECONDS + NANOS ns" is
  -- "event time < SECONDS + 1" when NANOS > 0 (Props/C03.skipUntil_subsecond_ceil): the model's whole-second skipUntil is the ceiling
  let skipV ← if skip == "-" then some none else match skip.splitOn "." with
    | [sec] => sec.toNat?.map some
    | [sec, ns] => do
      let sv ← sec.toNat?
      let nv ← ns.toNat?
      some (some (if nv > 0 then sv + 1 else sv))
    | _ => none
  if lo > hi then none else
  some { lo, hi, finite := mode == "fin", resetLatest := reset == "latest", readOnly := ro == "1",
         obs := { rmEnabled := rm == "1", skipUntil := skipV, colls } }

def parseRes (s : String) : Option StoreRes :=
  if s == "ok" then some .ok
  else if s == "fail" then some .fail
  else match s.splitOn ":" with
    | ["partial", l] => if l == "" then some (.part []) else ((l.splitOn ",").mapM String.toNat?).map StoreRes.part
    | _ => none

def parseSys : String → Option SysKind
  | "cc" => some .cc | "cd" => some .cd | "cf" => some .cf | "cm" => some .cm
  | "sc" => some .sc | "sd" => some .sd | _ => none

def parseDocKind : String → Option DocKind
  | "mu" => some .mu | "de" => some .de | "ex" => some .ex | _ => none

def parseOp : List String → Option Op
  | ["store", vb, u, s, ss, se] => do
    some (.setStore (← vb.toNat?) ⟨← u.toNat?, ← s.toNat?, ← ss.toNat?, ← se.toNat?⟩)
  | ["high", vb, n] => do some (.setHigh (← vb.toNat?) (← n.toNat?))
  | ["flog", vb, u] => do some (.setFlog (← vb.toNat?) (← u.toNat?))
  | ["open"] => some .open
  | ["close"] => some .close
  | ["crash"] => some .crash
  | ["mk", vb, s, e] => do some (.ev (← vb.toNat?) (.marker (← s.toNat?) (← e.toNat?)))
  | [k, vb, seq, cas, key, coll, payload] => do
    let kind ← parseDocKind k
    some (.ev (← vb.toNat?) (.doc ⟨kind, ← seq.toNat?, ← cas.toNat?, (if key == "-" then "" else key), ← coll.toNat?, payload⟩))
  | ["sa", vb, seq] => do some (.ev (← vb.toNat?) (.seqAdv (← seq.toNat?)))
  | ["sy", k, vb, seq, coll] => do some (.ev (← vb.toNat?) (.sys (← parseSys k) (← seq.toNat?) (← coll.toNat?)))
  | ["oso", vb] => do some (.ev (← vb.toNat?) .oso)
  | ["ack", i] => do some (.ack (← i.toNat?))
  | ["save", r] => do some (.save (← parseRes r))
  | ["sv", k, "begin"] => do some (.svBegin (← k.toNat?))
  | ["sv", k, "dump"] => do some (.svDump (← k.toNat?))
  | ["sv", k, "store", r] => do some (.svStore (← k.toNat?) (← parseRes r))
  | ["sv", k, "unmark"] => do some (.svUnmark (← k.toNat?))
  | ["persist", vb, seq] => do some (.persist (← vb.toNat?) (← seq.toNat?))
  | ["offsets"] => some .getOffsets
  | ["metrics", vb] => do some (.metrics (← vb.toNat?))
  | ["scrape"] => some .scrape
  | ["rebalance", lo, hi] => do some (.rebalance (← lo.toNat?) (← hi.toNat?))
  | ["reopen", vb] => do some (.reopen (← vb.toNat?))
  | _ => none

/-- one session line; `none` = not a session command -/
def sessionLine (s : St) (ts : List String) : Option (St × String) :=
  match ts with
  | ["reset"] => some ({}, "ok")
  | "cfg" :: args =>
    match parseCfg args with
    | some c => some ({ s with cfg := c }, "ok")
    | none => some (s, "bad-op")
  | ["end", _vb] =>
    -- a regular stream end of one (not the last) vBucket: `listenEnd` only counts it; positions, dirty marks, flag and store are
    -- untouched - the model state is unchanged.  What later saves write shows whether the real code agrees.
    if s.isOpen then some (s, "ended") else some (s, "bad:vb not streamed")
  | ["sv", k, "lockwait"] =>
    -- saver k is let go on while another saver holds `saveLock`: it must block in `saveLock.Lock()` (no state change);
    -- once the holder returns it dumps at once - the harness issues `sv k dump` right after the holder's last step
    match k.toNat? with
    | some kn =>
      match s.savers.get? kn with
      | some (.wantLock _) => if s.lockHeld then some (s, "waiting") else some (s, "bad:lock free")
      | _ => some (s, "bad:saver not waiting for lock")
    | none => some (s, "bad-op")
  | _ =>
    match parseOp ts with
    | some .getOffsets =>
      -- besides `GetOffsets()` the harness re-reads the offset of every context it still holds:
      -- in the model contexts are immutable values (`C06.ctx_immutable`), so this is the state's `ctxs`
      let (s', o) := step s .getOffsets
      let idx := (List.range s'.ctxs.length).zip s'.ctxs
      let cur := idx.filter fun (_, p) => p.sess == s'.sess
      let extra := cur.map fun (i, p) => s!"ctx {i} {p.vb} {showOffset p.off}"
      some (s', join ([showObsvs o] ++ extra) " ; ")
    | some op => let (s', o) := step s op; some (s', showObsvs o)
    | none => none

end GoDcp.Driver
