import GoDcp.Driver.Util
import GoDcp.Model.Membership
import GoDcp.Spec.C10
/-! handlers of slice C10 (commands `mb-…`): static / stateful-set / dynamic / API
    membership (stream c10st), couchbase membership (c10cb), service discovery (c10sd) -/
namespace GoDcp.Driver
open GoDcp GoDcp.Membership

/-- "k/t" with natural numbers -/
def slashNat? (s : String) : Option (Nat × Nat) :=
  match s.splitOn "/" with
  | [a, b] => do some ((← a.toNat?), (← b.toNat?))
  | _ => none

/-- "k/t" with integers -/
def slashInt? (s : String) : Option (Int × Int) :=
  match s.splitOn "/" with
  | [a, b] => do some ((← a.toInt?), (← b.toInt?))
  | _ => none

def showInfo {α : Type} [ToString α] (p : α × α) : String := s!"{p.1}/{p.2}"

def commaNats? (s : String) : Option (List Nat) :=
  if s = "-" then some [] else (s.splitOn ",").mapM (·.toNat?)

def commaInts? (s : String) : Option (List Int) :=
  if s = "-" then some [] else (s.splitOn ",").mapM (·.toInt?)

/-! ### c10st -/

/-- `mb-chg a b c d` / `mb-chg a b nil` → `true` | `false`  (`Model{a,b}.IsChanged(&Model{c,d} | nil)`) -/
def hMbChg (args : List String) (_ : Option String) : Option Out := do
  match args with
  | [a, b, "nil"] =>
    let a ← a.toInt?; let b ← b.toInt?
    some { model := toString (isChanged (a, b) none) }
  | [a, b, c, d] =>
    let a ← a.toInt?; let b ← b.toInt?; let c ← c.toInt?; let d ← d.toInt?
    some { model := toString (isChanged (a, b) (some (c, d))) }
  | _ => none

/-- `mb-static m t` → `m/t` -/
def hMbStatic (args : List String) (_ : Option String) : Option Out := do
  let [m, t] := args | none
  some { model := showInfo (staticInfo (← m.toInt?) (← t.toInt?)) }

def hexVal? (c : Char) : Option Nat :=
  if '0' ≤ c ∧ c ≤ '9' then some (c.toNat - 48)
  else if 'a' ≤ c ∧ c ≤ 'f' then some (c.toNat - 87) else none

/-- hex string → one `Char` per byte -/
def unhex? : List Char → Option (List Char)
  | [] => some []
  | a :: b :: r => do
    let x ← hexVal? a; let y ← hexVal? b
    some (Char.ofNat (x * 16 + y) :: (← unhex? r))
  | _ => none

/-- `mb-ss <hostname in hex | -> <total>` → `k/t` | `panic` -/
def hMbSs (args : List String) (_ : Option String) : Option Out := do
  let [h, t] := args | none
  let cs ← if h = "-" then some [] else unhex? h.toList
  let t ← t.toInt?
  match statefulSet (String.ofList cs) t with
  | .info k t => some { model := s!"{k}/{t}" }
  | .panic => some { model := "panic" }

/-- `mb-bus <dyn|ha> k1/t1 …` → the info after the last event, `blocked` when there is none -/
def hMbBus (args : List String) (_ : Option String) : Option Out := do
  let _ :: evs := args | none
  let evs ← evs.mapM slashInt?
  match busInfo evs with
  | some i => some { model := showInfo i }
  | none => some { model := "blocked" }

/-- `mb-api r1 r2 …` with `ri` = `k/t` (a well-formed body) or `bad` →
    `<status per request> | <published events> | info=<what the dynamic membership holds>`;
    verdict = announce-only-on-change on the REAL event list -/
def hMbApi (args : List String) (real : Option String) : Option Out := do
  let reqs ← args.mapM fun a => if a = "bad" then some none else (slashInt? a).map some
  let statuses := reqs.map fun r => if r.isSome then "200" else "400"
  let good := reqs.filterMap id
  let evs := setInfoRun none good
  let info := match evs.getLast? with | some i => showInfo i | none => "blocked"
  let model := s!"{join statuses} | {join (evs.map showInfo)} | info={info}"
  let v := match real with
    | none => "-"
    | some r => match r.splitOn " | " with
      | [_, e, _] => match (toks e).mapM slashInt? with
        | some es =>
          let rec norep : List (Int × Int) → Bool
            | a :: b :: r => a != b && norep (b :: r)
            | _ => true
          verdict (norep es) "C10.repeat"
        | none => "FAIL C10.unparsable"
      | _ => "FAIL C10.unparsable"
  some { model, verdict := v }

/-! ### c10cb: the script is run on the LTS model under one canonical schedule
    (after each quiescence mark: heartbeats of the live, then one full round per
    live member in join order, twice) -/

structure CbSim where
  st : State := {}
  joined : List (Id × Bool) := []     -- join order; still live?
  clock : Int := 1000
  next : Id := 0

def cbCfg : Cfg := { hbInterval := 50, tolerance := 300 }

def CbSim.liveIds (s : CbSim) : List Id := (s.joined.filter (·.2)).map (·.1)

def CbSim.kill (s : CbSim) (i : Nat) (expire : Bool) : Option CbSim :=
  match s.joined[i]? with
  | some (id, true) =>
    let st := stopStep s.st id
    let st := if expire then st.setDoc id none else st
    some { s with st, joined := s.joined.map fun p => if p.1 = id then (id, false) else p }
  | _ => none

def CbSim.roundAll (s : CbSim) : CbSim :=
  let now := s.clock
  let st := s.liveIds.foldl (fun st m => casStep (readStep cbCfg st m st.index (fun _ => now)) m) s.st
  { s with st }

def CbSim.infos (s : CbSim) : List String :=
  s.joined.map fun (id, live) =>
    if !live then "-/-"
    else match s.st.mem id with
      | some mb => (match mb.pc, mb.info with
        | .crashed, _ => "crash"
        | _, some i => showInfo i
        | _, none => "?/?")
      | none => "?/?"

def CbSim.quiesce (s : CbSim) : CbSim × String :=
  let s := { s with clock := s.clock + 1000 }
  let st := s.liveIds.foldl (fun st m => heartbeatStep st m s.clock) s.st
  let s1 := ({ s with st }).roundAll
  let s2 := s1.roundAll
  (s2, if s1.infos == s2.infos then join (s2.infos ++ [s!"idx={s2.st.index.length}"]) else "unstable")

def cbRun (ops : List String) : Option (List String) := do
  let mut s : CbSim := {}
  let mut out : List String := []
  let mut q := 0
  for op in ops do
    match op.splitOn ":" with
    | ["join"] =>
      let id := s.next
      let st := register2 (register1 s.st id s.clock) id
      s := { s with st, joined := s.joined ++ [(id, true)], clock := s.clock + 10, next := id + 1 }
    | ["leave", i] => s ← s.kill (← i.toNat?) false
    | ["die", i] => s ← s.kill (← i.toNat?) false
    | ["exp", i] => s ← s.kill (← i.toNat?) true
    | ["swap", i] =>
      s ← s.kill (← i.toNat?) true
      let id := s.next
      let st := register2 (register1 s.st id s.clock) id
      s := { s with st, joined := s.joined ++ [(id, true)], clock := s.clock + 10, next := id + 1 }
    | ["q"] =>
      let (s', o) := s.quiesce
      s := s'
      q := q + 1
      out := out ++ [s!"q{q}: {o}"]
    | _ => none
  some out

/-- monitor on one quiescent phase `qN: a b c` of the real observation
    (entries in join order; a dash pair = not live) -/
def cbPhaseVerdict (phase : String) : Option String := do
  let _ :: entries := toks phase | none
  let entries := entries.filter fun e => !e.startsWith "idx="
  let obs ← (entries.zipIdx.filter (fun p => p.1 ≠ "-/-")).mapM fun (e, i) =>
    (slashNat? e).map fun (k, n) => (((i : Nat) : Int), k, n)
  some (Spec.C10.failing obs)

/-- `mb-cb join,join,q,leave:0,q` → `q1: 1/2 2/2 | q2: x 1/1` with a dash pair for x -/
def hMbCb (args : List String) (real : Option String) : Option Out := do
  -- second argument `x<k>`: k CAS conflicts were injected into index rewrites; by
  -- `converges` the quiescent outcome does not depend on them
  let [script, x] := args | none
  if !x.startsWith "x" then none
  let out ← cbRun (script.splitOn ",")
  let v := match real with
    | none => "-"
    | some r =>
      if r = "" then "ok" else
      match (r.splitOn " | ").mapM cbPhaseVerdict with
      | some vs => (match vs.zipIdx.find? (fun p => p.1 ≠ "ok") with
        | some (c, i) => s!"FAIL {c}@q{i + 1}"
        | none => "ok")
      | none => "FAIL C10.unparsable"
  some { model := " | ".intercalate out, verdict := v }

/-- `mb-cb-ev <instance> e1 e2 …` (the `membershipChanged` events instance published,
    oldest first) → the info in effect (`none` without events); verdict =
    announce-only-on-change and well-formedness on the real events -/
def hMbCbEv (args : List String) (_ : Option String) : Option Out := do
  let _ :: evs := args | none
  let evs ← evs.mapM slashNat?
  let model := match evs.getLast? with | some i => showInfo i | none => "none"
  let wf := evs.all fun (k, n) => decide (1 ≤ k ∧ k ≤ n)
  let v := if !Spec.C10.noRepeat evs then "FAIL C10.repeat" else if !wf then "FAIL C10.range" else "ok"
  some { model, verdict := v }

/-- the infos `n` members with EQUAL join times derive in the model, member `i` iterating the
    index map in its own order (even members front to back, odd members back to front) -/
def tieInfos (n : Nat) : List (Nat × Nat) :=
  let live : List Entry := (List.range n).map fun i => (i, 42)
  (List.range n).map fun i => (rankNumbering (if i % 2 = 0 then live else live.reverse) i).getD (0, 0)

/-- first pair that occurs twice -/
def firstCollision : List (Nat × Nat) → Option (Nat × Nat)
  | [] => none
  | a :: r => if r.contains a then some a else firstCollision r

/-- `mb-cb-tie n`: `n` members, then all join times in the index forced equal.
    The model is the code after commit 23681a3 (`monitor` breaks ties by instance id;
    `Props/C10 rank_numbering` holds without the distinct-join-times hypothesis): evaluated on
    `n` tied entries read in different iteration orders it numbers the members consistently, so
    the expected observation is `tied n distinct`.  The real observation `tied n same k/n` – two
    members holding the same number in two consecutive polls – is finding F8 (listed as fixed)
    having returned: a plain failure `C10.tie-inconsistent`, not a known finding. -/
def hMbCbTie (args : List String) (real : Option String) : Option Out := do
  let [n] := args | none
  let n ← n.toNat?
  let model := match firstCollision (tieInfos n) with
    | none => s!"tied {n} distinct"
    | some c => s!"tied {n} same {showInfo c}"
  match real with
  | none => some { model }
  | some r =>
    match toks r with
    | ["tied", n', "distinct"] =>
      some { model, verdict := if n'.toNat? = some n then "ok" else "FAIL C10.unparsable" }
    | ["tied", _, "same", _] => some { model, verdict := "FAIL C10.tie-inconsistent" }
    | _ => some { model, verdict := "FAIL C10.unparsable" }

/-- `mb-cb-race` (opt-in replay, child process): member 1 converged; instance 3
    has written its index entry but not yet its document while instance 2 joins
    completely; member 1 rewrites the index without 3; 3 completes its
    registration and runs its first round.  The model run of this schedule
    (the witness of `Props/C10 join_race_refuted`) ends with 3 fail-stopped. -/
def hMbCbRace (args : List String) (_ : Option String) : Option Out := do
  let [] := args | none
  let acts : List Action :=
    [.register1 1 10, .register2 1, .read 1 [(1, 10)] (fun _ => 20), .cas 1,
     .register1 3 30, .register1 2 31, .register2 2,
     .read 1 [(1, 10), (3, 30), (2, 31)] (fun _ => 40), .cas 1,
     .register2 3, .heartbeat 3 45,
     .read 3 [(1, 10), (2, 31)] (fun _ => 50), .cas 3]
  let s := run cbCfg {} acts
  let erased := !(s.index.any (·.1 = 3))
  let crashed := match s.mem 3 with
    | some mb => decide (mb.pc = Pc.crashed)
    | none => false
  some { model := if erased && crashed then "joiner-erased panic" else s!"erased={erased} survived" }

/-! ### c10sd -/

/-- one leader round over the surviving followers given in iteration order
    (`infos` = what each follower's own service discovery holds); returns the
    leader's info, its event (if published), per follower id the `Rebalance`
    arguments and the follower-side event (if published), and the new `infos` -/
def sdPhase (leaderInfo : Option (Nat × Nat)) (iter : List Entry) (infos : List (Id × (Nat × Nat)))
    (rerr : List Id) :
    Option (Nat × Nat) × Option (Nat × Nat) × List (Id × (Nat × Nat) × Option (Nat × Nat)) ×
      List (Id × (Nat × Nat)) :=
  let (li, asg) := sdRound iter
  let (leaderInfo', pub) := setInfo leaderInfo li
  let step := fun (acc : List (Id × (Nat × Nat) × Option (Nat × Nat)) × List (Id × (Nat × Nat)))
      (x : Id × (Nat × Nat)) =>
    let (id, a) := x
    if rerr.contains id then (acc.1 ++ [(id, a, none)], acc.2)
    else
      let (i', p) := setInfo (acc.2.lookup id) a
      (acc.1 ++ [(id, a, if p then some a else none)],
       match i' with
       | some v => (id, v) :: acc.2.filter (·.1 ≠ id)
       | none => acc.2)
  let (res, infos') := asg.foldl step ([], infos)
  (leaderInfo', if pub then some li else none, res, infos')

def sdShowPhase (tag : String) (n : Nat) (lev : Option (Nat × Nat))
    (res : List (Id × (Nat × Nat) × Option (Nat × Nat))) : String :=
  let l := match lev with | some i => showInfo i | none => "-"
  let fs := (List.range n).map fun i =>
    match res.find? (·.1 = i) with
    | some (_, a, ev) => s!"{i}={showInfo a}:{match ev with | some e => showInfo e | none => "-"}"
    | none => s!"{i}=x"
  join (s!"{tag} L={l}" :: fs)

/-- `i=k/t:ev` tokens of one phase of the real observation → (follower, number, total) -/
def sdParsePhase (phase : String) : List (Nat × Nat × Nat) :=
  (toks phase).filterMap fun t =>
    match t.splitOn "=" with
    | [i, rest] => match rest.splitOn ":" with
      | [a, _] => do
        let i ← i.toNat?
        let (k, t) ← slashNat? a
        some (i, k, t)
      | _ => none
    | _ => none

def ascJT : List Entry → Bool
  | a :: b :: r => decide (a.2 ≤ b.2) && ascJT (b :: r)
  | _ => true

/-- order of the followers that the real leader used in a phase (by the numbers
    it handed out), when that is an arrangement of `surv` sorted by join time -/
def sdObservedOrder (phase : String) (surv : List Entry) : Option (List Entry) := do
  let pairs := sdParsePhase phase
  let sorted := (List.range (surv.length + 2)).filterMap fun k => (pairs.find? (·.2.1 = k)).map (·.1)
  let fl ← sorted.mapM fun i => surv.find? (·.1 = i)
  if fl.length = surv.length ∧ (surv.all fun f => fl.any (·.1 = f.1)) ∧ ascJT fl then some fl else none

/-- `mb-sd <jts> <fail1> <fail2> <rerr>` (comma lists, `-` = empty) →
    `M1 L=1/3 0=2/3:2/3 1=x 2=3/3:3/3 | M2 L=- 0=2/3:- 1=x 2=3/3:- | closed=1`.
    With equal join times among survivors the leader's order is unspecified
    between them: the order the real leader used is adopted when it is sorted. -/
def hMbSd (args : List String) (real : Option String) : Option Out := do
  -- optional 5th argument `readd=<set>`: these followers die silently and register again under the same identity (same name,
  -- same join time) one second into the scenario.  `Add` stores by name, so the services map is the same function of
  -- (name, join time) as before and the fresh connection answers as scripted: the prediction does not depend on the set.
  let (jts, f1, f2, re, readd) ← match args with
    | [jts, f1, f2, re] => some (jts, f1, f2, re, "-")
    | [jts, f1, f2, re, ra] => if ra.startsWith "readd=" then some (jts, f1, f2, re, (ra.drop 6).toString) else none
    | _ => none
  let readd ← commaNats? readd
  let jts ← commaInts? jts
  let f1 ← commaNats? f1; let f2 ← commaNats? f2; let re ← commaNats? re
  let n := jts.length
  let all : List Entry := jts.zipIdx.map fun (jt, i) => (i, jt)
  let phases := match real with
    | some r => r.splitOn " | "
    | none => []
  let surv1 := sdHeartbeat all fun a => f1.contains a
  let iter1 := ((phases[0]?).bind fun p => sdObservedOrder p surv1).getD surv1
  let (li1, lev1, res1, infos1) := sdPhase none iter1 [] re
  let surv2 := sdHeartbeat surv1 fun a => f2.contains a
  let iter2 := ((phases[1]?).bind fun p => sdObservedOrder p surv2).getD surv2
  let (_, lev2, res2, _) := sdPhase li1 iter2 infos1 re
  let closed := (List.range n).filter fun i => f1.contains i || f2.contains i
  let cl := if closed.isEmpty then "-" else ",".intercalate (closed.map toString)
  let model := s!"{sdShowPhase "M1" n lev1 res1} | {sdShowPhase "M2" n lev2 res2} | closed={cl}"
  -- monitor on the real observation: per phase the followers hold exactly 2..k+1 of k+1 in join order
  let phaseOk (p : String) : Bool :=
    let nums : List Spec.C10.Obs := (sdParsePhase p).map fun (i, k, t) => (jts.getD i 0, k - 1, t - 1)
    Spec.C10.holds nums && (sdParsePhase p).all (fun x => decide (2 ≤ x.2.1))
  -- a re-registered follower that answers its pings holds a number at the end of phase 1 (it was admitted again)
  let admitted (p : String) : Bool :=
    readd.all fun i => f1.contains i || re.contains i ||
      (toks p).any fun t => t.startsWith s!"{i}=" && t != s!"{i}=x"
  let v := match real with
    | none => "-"
    | some _ => match phases with
      | [p1, p2, p3] =>
        -- a follower whose pings never fail is never dropped by the leader
        let realClosed := (commaNats? ((p3.drop 7).toString)).getD []
        if !(phaseOk p1 && phaseOk p2) then "FAIL C10.leader"
        else if !(admitted p1) then "FAIL C10.restarted-follower-not-admitted"
        else verdict (realClosed.all fun i => f1.contains i || f2.contains i) "C10.live-follower-dropped"
      | _ => if (phases.headD "").startsWith "flap-reannounced" then "FAIL C10.reannounced-same-numbering" else "FAIL C10.unparsable"
  some { model, verdict := v }

def membershipHandlers : List (String × (List String → Option String → Option Out)) :=
  [("mb-chg", hMbChg), ("mb-static", hMbStatic), ("mb-ss", hMbSs), ("mb-bus", hMbBus), ("mb-api", hMbApi),
   ("mb-cb", hMbCb), ("mb-cb-ev", hMbCbEv), ("mb-cb-tie", hMbCbTie), ("mb-cb-race", hMbCbRace),
   ("mb-sd", hMbSd)]

end GoDcp.Driver
