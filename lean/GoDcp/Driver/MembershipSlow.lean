import GoDcp.Driver.Util
import GoDcp.Driver.MembershipPause
import GoDcp.Driver.MembershipJoin
import GoDcp.Model.Membership
import GoDcp.Spec.C10
/-! handler of op `mb-cb-slowread` (stream c10cb; properties C10 and C20): the read of a LIVE
    member's instance document inside another member's monitor round is answered late, or never.

    couchbase/membership.go `monitor` l.193-225: every instance document is fetched with
    `Get(ctx, …)` under the round's context (`membershipConfig.Timeout`); `KeyNotFound` is the
    ONLY error that means "instance gone", every other error – the time-out of an unanswered read
    included – is `panic(err)`.  So, in terms of the EXISTING actions of `Model/Membership.lean`:
    a round whose read of K is answered late (inside the deadline) is an ordinary round
    (`readStep`, `casStep`), and a round whose read of K is never answered is the end of A's
    process (`stopStep`: "process exit").  Theorems: `Props/C10Slow.lean`. -/
namespace GoDcp.Driver
open GoDcp GoDcp.Membership

/-- the schedule of `mb-cb-slowread n a k how`: members `0..n-1` join at 10, 20, …, heart-beat at
    1000 and run two rounds (converged).  late: A runs three more (ordinary) rounds.  silent: A's
    process ends (`stopStep`), at 2000 the others heart-beat (A's heartbeat of 1000 is stale) and
    run two rounds.  Result: (the state at A's exit, the final state). -/
def swScenario (n a : Nat) (silent : Bool) : State × State :=
  let all := (List.range n).map jwId
  let A := jwId a
  let others := all.filter (· ≠ A)
  let s := (List.range n).foldl (fun s i => register2 (register1 s (jwId i) (jwJt i)) (jwId i)) {}
  let s := all.foldl (fun s m => heartbeatStep s m 1000) s
  let s := all.foldl (jwRound 1000) s
  let s := all.foldl (jwRound 1000) s
  if silent then
    let sx := stopStep s A
    let s := others.foldl (fun s m => heartbeatStep s m 2000) sx
    let s := others.foldl (jwRound 2000) s
    (sx, others.foldl (jwRound 2000) s)
  else
    let s := [A, A, A].foldl (jwRound 1001) s
    (s, s)

def swIndex (s : State) (a k : Nat) : String :=
  let io (m : Id) := if s.index.any (·.1 = m) then "in" else "out"
  s!"n={s.index.length} K={io (jwId k)} A={io (jwId a)}"

/-- model observation: the members' infos in join order (A after a silent read: its exit class), then the index
    (size, K listed, A listed), then the owners; for `silent` the index at A's exit in addition -/
def swModel (n a k : Nat) (silent : Bool) : String :=
  let (sx, s) := swScenario n a silent
  let mem := (List.range n).map fun i => if silent && i = a then "exit-fail:read-timeout" else jwShowMember s (jwId i)
  let live := ((List.range n).filter fun i => !(silent && i = a)).filterMap fun i => (s.mem (jwId i)).bind (·.info)
  let base := s!"members: {join mem} | index: {swIndex s a k} | {mpOwners live}"
  if silent then s!"{base} | at-exit: {swIndex sx a k}" else base

/-- monitor on the real observation.
    `C10.live-member-dropped-on-slow-read` + `C20.invented-not-found`: K – alive and heart-beating
    throughout – is missing from the index (now, or at A's exit) or has fail-stopped: the slow read
    was taken for "document gone".
    `C20.late-answer-not-used`: A ended although the answer arrived inside the deadline.
    `C20.silent-read-no-error`: A went on after a read that was never answered.
    Then the live members hold a consistent numbering, the index lists exactly them, one owner per vBucket. -/
def swVerdict (n a k : Nat) (silent : Bool) (real : String) : String :=
  match real.splitOn " | " with
  | mm :: ix :: ow :: rest =>
    match toks mm, toks ix with
    | "members:" :: ms, ["index:", nn, kIn, _] =>
      if ms.length ≠ n then "FAIL C10.unparsable" else
      let atExitBad := match rest with
        | [x] => x ≠ s!"at-exit: n={n} K=in A=in"
        | [] => false
        | _ => true
      let kTok := ms.getD k ""
      let aTok := ms.getD a ""
      if kIn ≠ "K=in" || (mpSlash? kTok).isNone || atExitBad then
        "FAIL C10.live-member-dropped-on-slow-read C20.invented-not-found"
      else if !silent && (mpSlash? aTok).isNone then "FAIL C10.failstop-on-late-read C20.late-answer-not-used"
      else if silent && (mpSlash? aTok).isSome then "FAIL C20.silent-read-no-error"
      else
        let liveIdx := (List.range n).filter fun i => !(silent && i = a)
        match (liveIdx.map fun i => ms.getD i "").mapM mpSlash? with
        | none => "FAIL C10.unparsable"
        | some infos =>
          let obs : List Spec.C10.Obs := (liveIdx.zip infos).map fun (i, (k', t)) => (jwJt i, k', t)
          if !Spec.C10.holds obs then s!"FAIL {Spec.C10.failing obs}"
          else if nn ≠ s!"n={obs.length}" then "FAIL C10.index-not-live-set"
          else if ow ≠ "owners: multi=0 none=0" then "FAIL C10.owner"
          else "ok"
    | _, _ => "FAIL C10.unparsable"
  | _ => "FAIL C10.unparsable"

/-- `mb-cb-slowread n a k how` with `how` = `late:<percent of the timeout>` | `silent` -/
def hMbCbSlowRead (args : List String) (real : Option String) : Option Out := do
  let [n, a, k, how] := args | none
  let n ← n.toNat?; let a ← a.toNat?; let k ← k.toNat?
  if n < 2 || n > 64 || a ≥ n || k ≥ n || a = k then none
  let silent ← if how = "silent" then some true else
    match how.splitOn ":" with
    | ["late", p] => do
      let p ← p.toNat?
      if p < 1 || p > 70 then none
      some false
    | _ => none
  let v := match real with
    | none => "-"
    | some r => swVerdict n a k silent r
  some { model := swModel n a k silent, verdict := v }

def membershipSlowHandlers : List (String × (List String → Option String → Option Out)) :=
  [("mb-cb-slowread", hMbCbSlowRead)]

end GoDcp.Driver
