import GoDcp.Driver.Util
import GoDcp.Model.AsyncOp
import GoDcp.Spec.C20
/-! handlers for the C20 L0 commands (stream `c20a`), all prefixed `ao-`

  ao-run  <script> <D> <a>                                   deterministic script; real = `res=… cancel=… time=… resolve=…`
  ao-race <script> <D> <a> res=… cancel=… time=… resolve=…   racy script; real = `racy` (the Go side only checked: returned, no panic);
                                                              the observation travels in the op and is checked here for membership
  ao-double resolve2=<ok|blocked|panic>                       two `Resolve()` without a waiter (documentation); real = `documented`
  ao-site <file>:<func>                                       go/ast fact pass over the wrapper call sites; real = (fact line | `unknown`) + ` scope=…`
-/
namespace GoDcp.Driver
namespace AO   -- helpers live in their own namespace: helper names of other slices cannot clash
open GoDcp GoDcp.AsyncOp GoDcp.Spec.C20

def showRes : Res → String
  | .nil_ => "nil" | .deadline => "deadline" | .canceled => "canceled" | .imm => "imm" | .other => "other"

def readRes : String → Res
  | "nil" => .nil_ | "deadline" => .deadline | "canceled" => .canceled | "imm" => .imm | _ => .other

def showTime : TimeClass → String
  | .before => "before" | .ontime => "ontime" | .late => "late"

def readTime? : String → Option TimeClass
  | "before" => some .before | "ontime" => some .ontime | "late" => some .late | _ => none

def showRObs : RObs → String
  | .na => "na" | .ok => "ok" | .blocked => "blocked" | .panic => "panic"

def readRObs? : String → Option RObs
  | "na" => some .na | "ok" => some .ok | "blocked" => some .blocked | "panic" => some .panic | _ => none

def showObs (o : Obs) : String :=
  s!"res={showRes o.res} cancel={o.cancel} time={showTime o.time} resolve={showRObs o.resolve}"

/-- `k=v` tokens → value of `k` -/
def kv (ts : List String) (k : String) : Option String :=
  ts.findSome? fun t => match t.splitOn "=" with
    | [a, b] => if a == k then some b else none
    | _ => none

/-- parse `res=… cancel=… time=… resolve=…` against the script facts -/
def readObs (imm : Bool) (completes : Tri) (ctxCancel : Bool) (ts : List String) : Option Obs := do
  let res := readRes (← kv ts "res")
  let cancel ← (← kv ts "cancel").toNat?
  let time ← readTime? (← kv ts "time")
  let resolve ← readRObs? (← kv ts "resolve")
  some { imm, completes, ctxCancel, res, cancel, time, resolve }

def script? : String → Option Script
  | "imm" => some .imm | "pre" => some .pre | "mid" => some .mid | "silent" => some .silent
  | "late" => some .late | "precancel" => some .precancel | _ => none

def racy? : String → Option RacyScript
  | "race" => some .race | "precancelpre" => some .precancelpre | _ => none

def verdictOf (o : Obs) : String :=
  match check o with
  | none => "ok"
  | some c => s!"FAIL C20.{c}"

/-- `ao-run <script> <D> <a>` -/
def hAoRun (args : List String) (real : Option String) : Option Out := do
  let [sc, d, a] := args | none
  let sc ← script? sc
  let D ← nat? d
  let a ← nat? a
  let x := expand sc D a
  let model := match modelObs sc D a with
    | some o => showObs o
    | none => "no-return"
  let v := match real with
    | none => "-"
    | some r => match readObs x.cfg.imm.isSome x.completes (sc == .precancel) (toks r) with
      | some o => verdictOf o
      | none => "FAIL C20.unparsable"
  some { model, verdict := v }

/-- `ao-race <script> <D> <a> res=… cancel=… time=… resolve=…` -/
def hAoRace (args : List String) (real : Option String) : Option Out := do
  let sc :: d :: _a :: obs := args | none
  let rs ← racy? sc
  let D ← nat? d
  let v := match real with
    | none => "-"
    | some _ =>
      let (comp, cc) := match rs with
        | .race => (Tri.maybe, false)
        | .precancelpre => (Tri.yes, true)
      match readObs false comp cc obs with
      | none => "FAIL C20.unparsable"
      | some o =>
        match check o with
        | some c => s!"FAIL C20.{c}"
        | none => if (raceSet rs D).contains (o.res, o.cancel) then "ok" else "FAIL C20.race-set"
  some { model := "racy", verdict := v }

/-- `ao-double resolve2=<ok|blocked|panic>` -/
def hAoDouble (args : List String) (real : Option String) : Option Out := do
  let r ← readRObs? (← kv args "resolve2")
  let v := match real with
    | none => "-"
    | some _ => verdict (holdsDouble r) "C20.no-panic-or-hang"
  some { model := "documented", verdict := v }

/-- `ao-site <file>:<func>`: the wrapper table answers; real = `<facts> scope=<s>` | `unknown scope=<s>`.
    `unknown` (shape not recognised by the fact pass) is accepted for the shape facts, but the SCOPE
    fact (is the asyncOp created inside the closure / loop body that issues the request?) is answered
    from the table in every case: a hoisted `NewAsyncOp` shows as `scope=shared` against the table.
    The same holds for `waitErrReturns` (is `Wait`'s error handed back before any receive from a callback
    channel?): a receive moved in front of the guard shows as `waitErrReturns=0`.
    A call site that is not in the table must have the generic shape the theorems are proved for
    (buffered, read after Wait, error propagated, some ctx deadline, asyncOp not shared). -/
def hAoSite (args : List String) (real : Option String) : Option Out := do
  let [site] := args | none
  let rt := (real.map toks).getD []
  let unknown := rt.head? == some "unknown"
  let model := match lookupSite site with
    | some w =>
      if unknown then s!"unknown scope={w.scope.show} waitErrReturns={if w.returnsOnWaitError then "1" else "0"}"
      else w.factLine
    | none =>
      let sc := match kv rt "scope" with
        | some "single" => "single"
        | _ => "per-request"
      if unknown then s!"unknown scope={sc} waitErrReturns=1" else
      let d := match kv rt "deadline" with
        | some "none" | none => "<some-ctx-deadline>"
        | some d => d
      s!"buffered=1 readsAfterWait=1 propagatesErr=1 deadline={d} scope={sc} waitErrReturns=1"
  some { model }

end AO

def asyncOpHandlers : List (String × (List String → Option String → Option Out)) :=
  [("ao-run", AO.hAoRun), ("ao-race", AO.hAoRace), ("ao-double", AO.hAoDouble), ("ao-site", AO.hAoSite)]

end GoDcp.Driver
