import GoDcp.Driver.Util
import GoDcp.Model.Health
import GoDcp.Spec.C19
/-! handlers of stream `c19` (health checker).  Every model observation is computed
    by running the functions the theorems are about: `Health.round` for single
    rounds, `Health.exec` (the LTS) for everything that involves Start/Stop. -/
namespace GoDcp.Driver
open GoDcp GoDcp.Health

/-- "FFSFF" → [false,false,true,false,false] -/
def pattern? (s : String) : Option (List Bool) :=
  s.toList.mapM fun c => if c = 'S' then some true else if c = 'F' then some false else none

def showRes : Res → String
  | .ok => "ok" | .panic => "panic" | .starved => "starved"

def res? : String → Option Res
  | "ok" => some .ok | "panic" => some .panic | "starved" => some .starved | _ => none

/-- "k=v" → v as Nat -/
def kvNat? (key : String) (ts : List String) : Option Nat :=
  ts.findSome? fun t => match t.splitOn "=" with
    | [k, v] => if k = key then v.toNat? else none
    | _ => none

/-- `hc-round PATTERN [slow=MS]` → `pings=N ok|panic|starved`; the optional second argument makes every failing ping of
    the real run take MS ms with `healthCheck.timeout = MS` – the model of `performHealthCheck` has no ping duration and no
    use of that option, so the prediction is the same -/
def hHcRound (args : List String) (real : Option String) : Option Out := do
  let ps ← match args with
    | [ps] => some ps
    | [ps, sl] => if sl.startsWith "slow=" then some ps else none
    | _ => none
  let p ← pattern? ps
  let o := round p
  let model := s!"pings={o.pings} {showRes o.res}"
  let v := match real with
    | none => "-"
    | some r =>
      let ts := toks r
      match kvNat? "pings" ts, ts.getLast? >>= res? with
      | some n, some out => if Spec.C19.holds p n out then "ok" else s!"FAIL {Spec.C19.clause p n out}"
      | _, _ => if ts.contains "timeout" then "FAIL C19.round-did-not-end" else "FAIL C19.unparsable"
  some { model, verdict := v }

/-- play one round on the LTS: tick, then the scripted results with the retry timer
    firing after every non-final failure.  Returns the state and the labels of the
    pings issued (`T` = after a tick, `R` = after a retry wait). -/
def playRound (σ : State) (p : List Bool) : Option (State × String) := do
  let σ ← step σ .tick
  let rec go (σ : State) (lab : String) : List Bool → Option (State × String)
    | [] => some (σ, lab)
    | b :: rest => do
      let σ ← step σ (.pingResult b)
      match σ.g with
      | .retryWait _ => do
        let σ ← step σ .retryFires
        go σ (lab ++ "R") rest
      | _ => some (σ, lab)
  go σ "T" p

def playRounds (σ : State) : List (List Bool) → Option (State × String)
  | [] => some (σ, "")
  | p :: ps => do
    let (σ, l) ← playRound σ p
    if σ.g = .panicked then some (σ, l) else do
      let (σ, l') ← playRounds σ ps
      some (σ, l ++ l')

/-- split a label string before every `T`: ping counts per round -/
def roundCounts (lab : String) : List Nat :=
  let rec go : List Char → Option Nat → List Nat → List Nat
    | [], none, acc => acc.reverse
    | [], some n, acc => (n :: acc).reverse
    | 'T' :: cs, none, acc => go cs (some 1) acc
    | 'T' :: cs, some n, acc => go cs (some 1) (n :: acc)
    | _ :: cs, none, acc => go cs (some 1) acc
    | _ :: cs, some n, acc => go cs (some (n + 1)) acc
  go lab.toList none []

/-- `hc-rounds P1,P2,…` → `TRRT… ok|panic` -/
def hHcRounds (args : List String) (real : Option String) : Option Out := do
  let [s] := args | none
  let ps ← (s.splitOn ",").mapM pattern?
  let σ₀ ← exec init startSeq
  let model := match playRounds σ₀ ps with
    | none => "model-stuck"
    | some (σ, lab) =>
      if σ.pings ≠ lab.length then "model-count-mismatch"
      else s!"{lab} {if σ.g = .panicked then "panic" else "ok"}"
  let v := match real with
    | none => "-"
    | some r => match toks r with
      | [lab, out] =>
        if out ≠ "ok" ∧ out ≠ "panic" then "FAIL C19.unparsable"
        else verdict (Spec.C19.holdsRounds ps (roundCounts lab) (out == "panic")) "C19.rounds"
      | _ => "FAIL C19.unparsable"
  some { model, verdict := v }

/-- the retry ladder up to (and into) attempt `k`: tick, then `k-1` failed pings each
    followed by the retry timer; ends with `Ping()` number `k` in flight -/
def intoPing (k : Nat) : List Action :=
  .tick :: (List.replicate (k - 1) [Action.pingResult false, Action.retryFires]).flatten

def stopSeq : List Action := [.stopCall, .stopCancel, .seeCancel, .stopWait]

def lateStr (σ : State) : String := if pingEnabled σ then "late=yes" else "late=0"

/-- verdict for a Stop observation: `stopped` present, `slow` absent, `late=0` -/
def stopVerdict (real : Option String) (expectPanic : Bool := false) : String :=
  match real with
  | none => "-"
  | some r =>
    let ts := toks r
    if expectPanic then
      -- Stop() arrived during the fifth failing ping: five failures in a row still mean fail-stop
      verdict (ts.contains "panic" && kvNat? "pings" ts == some 5) "C19.no-panic-after-five-failures"
    else if ts.contains "panic" then "FAIL C19.stop-not-prompt" else
    let inTime := ts.contains "stopped" && !ts.contains "slow"
    match kvNat? "late" ts with
    | some l => if Spec.C19.holdsStop inTime l then "ok"
                else if inTime then "FAIL C19.ping-after-stop" else "FAIL C19.stop-not-prompt"
    | none => "FAIL C19.ping-after-stop"

/-- `hc-stop before-tick` | `hc-stop during-retry K` | `hc-stop during-ping K F|S`
    → `stopped pings=K late=0` | `blocked stopped pings=K late=0` | `blocked pings=5 panic` -/
def hHcStop (args : List String) (real : Option String) : Option Out := do
  -- a trailing `slow` (the held ping lasts longer than the retry interval) does not change the model's steps
  let args := if args.getLast? == some "slow" then args.dropLast else args
  let model ← match args with
    | ["before-tick"] => do
      match exec init (startSeq ++ stopSeq) with
      | some σ => some s!"stopped pings={σ.pings} {lateStr σ}"
      | none => some "model-stuck"
    | ["during-retry", ks] => do
      let k ← ks.toNat?
      if k < 1 ∨ k > 4 then none
      match exec init (startSeq ++ intoPing k ++ [.pingResult false] ++ stopSeq) with
      | some σ => some s!"stopped pings={σ.pings} {lateStr σ}"
      | none => some "model-stuck"
    | ["during-ping", ks, bs] => do
      let k ← ks.toNat?
      let [b] ← pattern? bs | none
      if k < 1 ∨ k > 5 then none
      match exec init (startSeq ++ intoPing k ++ [.stopCall, .stopCancel]) with
      | none => some "model-stuck"
      | some σ =>
        let blocked := if (step σ .stopWait).isNone then "blocked" else "not-blocked"
        match step σ (.pingResult b) with
        | none => some "model-stuck"
        | some σ₁ =>
          if σ₁.g = .panicked then some s!"{blocked} pings={σ₁.pings} panic"
          else match exec σ₁ [.seeCancel, .stopWait] with
            | some σ₂ => some s!"{blocked} stopped pings={σ₂.pings} {lateStr σ₂}"
            | none => some "model-stuck"
    | _ => none
  some { model, verdict := stopVerdict real (args == ["during-ping", "5", "F"]) }

/-- `hc-double-start` → `goroutines=1 stopped late=0` -/
def hHcDoubleStart (args : List String) (real : Option String) : Option Out := do
  let [] := args | none
  let model := match exec init (startSeq ++ [.startCall, .tick, .startCall, .pingResult true] ++ stopSeq) with
    | some σ => s!"goroutines={σ.spawns} stopped {lateStr σ}"
    | none => "model-stuck"
  let v := match real with
    | none => "-"
    | some r => if (toks r).contains "goroutines=1" then stopVerdict real else "FAIL C19.double-start"
  some { model, verdict := v }

/-- `hc-double-stop seq|conc` → `stopped stopped late=0` -/
def hHcDoubleStop (args : List String) (real : Option String) : Option Out := do
  let [mode] := args | none
  let pre := startSeq ++ [.tick, .pingResult true]
  let model ← match mode with
    | "seq" => match exec init (pre ++ stopSeq ++ [.stopCall]) with
      | some σ => some s!"stopped stopped {lateStr σ}"
      | none => some "model-stuck"
    | "conc" =>
      -- the second caller arrives while the first is inside the Once: it is blocked
      -- there, and returns (doing nothing) once the first has returned
      match exec init (pre ++ [.stopCall]) with
      | none => some "model-stuck"
      | some σ =>
        if (step σ .stopCall).isSome then some "second-not-blocked"
        else match exec σ [.stopCancel, .seeCancel, .stopWait, .stopCall] with
          | some σ₂ => some s!"stopped stopped {lateStr σ₂}"
          | none => some "model-stuck"
    | _ => none
  some { model, verdict := stopVerdict real }

/-- `hc-stop-then-start` → what the code does when `Stop()` precedes `Start()`:
    `stopped started pinging stopped late=yes` (see `Props/C19.stop_before_start_unstoppable`).
    No monitor: the call order is outside the hypothesis of `no_ping_after_stop_returns`. -/
def hHcStopThenStart (args : List String) (_real : Option String) : Option Out := do
  let [] := args | none
  let model := match exec init ([.stopCall, .stopCancel, .stopWait]) with
    | none => "stop-blocked"
    | some σ₁ => match exec σ₁ startSeq with
      | none => "stopped start-blocked"
      | some σ₂ =>
        let p := if pingEnabled σ₂ then "pinging" else "silent"
        match exec σ₂ [.tick, .pingResult true, .stopCall] with
        | none => s!"stopped started {p} stop-blocked"
        | some σ₃ => s!"stopped started {p} stopped {lateStr σ₃}"
  some { model }

def healthHandlers : List (String × (List String → Option String → Option Out)) :=
  [("hc-round", hHcRound), ("hc-rounds", hHcRounds), ("hc-stop", hHcStop),
   ("hc-double-start", hHcDoubleStart), ("hc-double-stop", hHcDoubleStop),
   ("hc-stop-then-start", hHcStopThenStart)]

end GoDcp.Driver
