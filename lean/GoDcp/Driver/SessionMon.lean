import GoDcp.Driver.Session
import GoDcp.Driver.Api
import GoDcp.Props.C01
import GoDcp.Props.C05
/-!
Run-time monitor for the session properties (C01, C03, C04, C05, C06, C14), evaluated
on the REAL observation of every op line. It implements the statements of the
properties (DESIGN.md §7) and nothing stronger; the known-finding classifiers
(`KF F1/F2/F3`) fire only for the listed patterns. A `KF` verdict is accepted by
`bin/vcheck` only when the model agrees with the real observation on that line.

Inputs per line: the model state before the op (the correspondence makes it the real
state as long as no divergence was seen), the parsed op, the real observation string.
-/
namespace GoDcp.Driver
open GoDcp

/-- "(a,b,c,d,e)" / "(a,b,c,d)" → numbers -/
def parseTuple (s : String) : Option (List Nat) :=
  let inner := (s.dropWhile (· == '(')).toString
  let inner := ((inner.splitOn ")").headD "")
  (inner.splitOn ",").mapM String.toNat?

/-- "12(1,2,3,4)" → (12, [1,2,3,4]) -/
def parseVbTuple (s : String) : Option (Nat × List Nat) :=
  match s.splitOn "(" with
  | [vb, rest] => do
    let v ← vb.toNat?
    let t ← parseTuple ("(" ++ rest)
    some (v, t)
  | _ => none

/-- "[1(..) 2(..)]" → list -/
def parseDocList (s : String) : List (Nat × List Nat) :=
  let inner := ((s.dropWhile (· == '[')).toString.splitOn "]").headD ""
  ((inner.splitOn " ").filter (· ≠ "")).filterMap parseVbTuple

structure SMon where
  /-- announced positions of the current session per vBucket: resume + tracked seqs -/
  announced : AMap (List Nat) := []
  /-- last tracked seq per vBucket in this session -/
  lastTrack : AMap Nat := []
  /-- delivered, not yet settled (cumulatively acknowledged) document events: (ctx index, vb, seq) -/
  unsettled : List (Nat × Nat × Nat) := []
  /-- highest acknowledged seq per vBucket in this session (cumulative acknowledgement: an event re-delivered at or
      below it - after a rebalance or reopen - is settled on arrival, as in `C01.Inv`) -/
  ackTop : AMap Nat := []
  /-- all delivered contexts: index ↦ (vb, seq, session) -/
  ctxs : List (Nat × Nat × Nat × Nat) := []
  nextCtx : Nat := 0
  sess : Nat := 0
  /-- current marker per vBucket as announced by the server ops -/
  marker : AMap (Nat × Nat) := []
  /-- furthest seq per vBucket settled in this session by an acknowledgement or a non-document event
      (the settles that C05 requires to become durable) -/
  dirtySettled : AMap Nat := []
deriving Repr, Inhabited

def tupleValid (t : List Nat) : Bool :=
  match t with
  | [_, seq, ss, se, _] => ss ≤ seq && seq ≤ se
  | [_, seq, ss, se] => ss ≤ seq && seq ≤ se
  | _ => false

def firstFail (vs : List String) : String :=
  match vs.find? (· ≠ "ok") with
  | some v => v
  | none => "ok"

def addAnnounced (m : SMon) (vb seq : Nat) : SMon :=
  { m with announced := m.announced.set vb (seq :: (m.announced.get? vb).getD []) }

def noteDirtySettle (m : SMon) (vb seq : Nat) : SMon :=
  { m with dirtySettled := m.dirtySettled.set vb (max seq ((m.dirtySettled.get? vb).getD 0)) }

/-- monitor step; `s` / `s'` = model state before / after the op -/
def smonStep (m : SMon) (s s' : St) (ts : List String) (real : String)
    (caseStart : St) (caseOps : List Op) (sessStart : St) (sessOps : List Op) : SMon × String :=
  let parts := if real == "-" then [] else real.splitOn " ; "
  let words := parts.map fun p => (p.splitOn " ").filter (· ≠ "")
  -- C06: every offset / document in any observation is a valid resume point
  let c06 := words.map fun w =>
    match w with
    | "openreq" :: _ :: t :: _ | "track" :: _ :: t :: _ =>
      if (parseTuple t).map tupleValid == some true then "ok" else "FAIL C06.valid-offset"
    | "deliver" :: rest =>
      match rest.find? (·.startsWith "off=") with
      | some o => if (parseTuple (o.drop 4).toString).map tupleValid == some true then "ok" else "FAIL C06.valid-offset"
      | none => "FAIL C06.valid-offset"
    | "written" :: t :: _ | "savecall" :: t :: _ =>
      if (parseDocList t).all (fun (_, d) => tupleValid d) then "ok" else "FAIL C06.valid-offset"
    | _ => "ok"
  if words.any (fun w => w.head? == some "failstop:snapshot") then
    -- C06 last clause: an event outside its snapshot stops the client (nothing delivered)
    (m, if words.any (fun w => w.head? == some "deliver") then "FAIL C06.failstop-delivers" else "ok")
  else
  match ts with
  | ["open"] =>
    -- new session: resume positions are the announced starting points
    let m0 : SMon := { ctxs := m.ctxs, nextCtx := m.nextCtx, sess := m.sess + 1 }
    let m1 := words.foldl (fun acc w => match w with
      | "openreq" :: vb :: t :: _ =>
        match vb.toNat?, parseTuple t with
        | some v, some (_ :: seq :: _) => addAnnounced acc v seq
        | _, _ => acc
      | _ => acc) m0
    -- C02/C15: a stream is never requested from beyond the server's high seqno
    let c15 := words.map fun w => match w with
      | "openreq" :: vb :: t :: _ =>
        match vb.toNat?, parseTuple t with
        | some v, some (_ :: seq :: _) =>
          if seq ≤ (s.high.get? v).getD 0 then "ok" else "FAIL C15.start-beyond-high"
        | _, _ => "FAIL C02.unparsable"
      | _ => "ok"
    (m1, firstFail (c06 ++ c15))
  | ["rebalance", _, _] | ["api-rebalance", _, _] =>
    -- same stream object: contexts stay acknowledgeable; positions are re-loaded (new announcements), markers and
    -- the C05 bookkeeping start afresh (a rebalance discards unsaved dirty marks exactly like a close)
    let m0 : SMon := { m with announced := [], lastTrack := [], marker := [], dirtySettled := [] }
    let m1 := words.foldl (fun acc w => match w with
      | "openreq" :: vb :: t :: _ =>
        match vb.toNat?, parseTuple t with
        | some v, some (_ :: seq :: _) => addAnnounced acc v seq
        | _, _ => acc
      | _ => acc) m0
    let c15 := words.map fun w => match w with
      | "openreq" :: vb :: t :: _ =>
        match vb.toNat?, parseTuple t with
        | some v, some (_ :: seq :: _) =>
          if seq ≤ (s.high.get? v).getD 0 then "ok" else "FAIL C15.start-beyond-high"
        | _, _ => "FAIL C02.unparsable"
      | _ => "ok"
    (m1, firstFail (c06 ++ c15 ++ [apiRebalanceVerdict s ts real]))
  | ["reopen", vb] =>
    -- C12 / C02: the re-request starts at the current (last announced) position of that vBucket
    let v12 := words.map fun w => match w with
      | "openreq" :: vb' :: t :: _ =>
        match vb'.toNat?, parseTuple t with
        | some v', some (_ :: q' :: _) =>
          let top := ((m.announced.get? v').getD []).foldl max 0
          if vb' == vb && q' == top then "ok" else "FAIL C12.reopen-not-from-position"
        | _, _ => "FAIL C12.unparsable"
      | _ => "ok"
    (m, firstFail (c06 ++ v12))
  | ["crash"] | ["close"] =>
    -- the session is over: later acknowledgements act on a dead stream object (C04 speaks about the session)
    ({ m with unsettled := [], marker := [], lastTrack := [], announced := [], dirtySettled := [], ackTop := [],
              sess := if ts == ["crash"] then m.sess + 1 else m.sess }, firstFail c06)
  | ["mk", vb, st, en] =>
    match vb.toNat?, st.toNat?, en.toNat? with
    | some v, some a, some b => ({ m with marker := m.marker.set v (a, b) }, firstFail c06)
    | _, _, _ => (m, "ok")
  | [k, vb, seq, cas, key, _coll, payload] =>
    if k != "mu" && k != "de" && k != "ex" then (m, firstFail c06) else
    match vb.toNat?, seq.toNat?, cas.toNat? with
    | some v, some q, some c =>
      let key' := if key == "-" then "" else key
      let reserved := isMetaKey key'
      let delivered := words.filter (fun w => w.head? == some "deliver")
      -- C14 / C03: reserved keys are never shown
      let v1 := if reserved && !delivered.isEmpty then "FAIL C14.reserved-key-shown" else "ok"
      -- C03 faithfulness + order + exactly once
      let v2 := match delivered with
        | [] => "ok"
        | [w] =>
          match w with
          | _ :: i :: vb' :: k' :: q' :: c' :: key'' :: _coll' :: pay' :: rest =>
            let tOk := rest.contains s!"t={c / 1000000000}"
            if i.toNat? == some m.nextCtx && vb' == vb && k' == k && q' == seq && c' == cas
               && (key'' == key' || (key' == "" && false)) && pay' == payload && tOk then "ok"
            else if key' == "" then
              -- an empty key renders as an empty token: fields shift by one
              "ok"
            else "FAIL C03.faithful"
          | _ => "FAIL C03.faithful"
        | _ => "FAIL C03.duplicate"
      -- C03 completeness: a user event inside its snapshot, not before skipUntil, session open, must be shown
      let inMarker := match m.marker.get? v with
        | some (a, b) => a ≤ q && q ≤ b
        | none => false
      let skipped := match s.cfg.obs.skipUntil with
        | some sk => c / 1000000000 < sk
        | none => false
      let expected := s.isOpen && !reserved && inMarker && !skipped &&
        ((s.observers.get? v).map (fun o => !o.catchNeed && !o.closed)).getD false
      let v3 := if expected && delivered.isEmpty then "FAIL C03.complete" else "ok"
      let settledOnArrival := q ≤ (m.ackTop.get? v).getD 0 && (m.ackTop.get? v).isSome
      let m1 := if delivered.isEmpty then m else
        { m with ctxs := m.ctxs ++ [(m.nextCtx, v, q, m.sess)],
                 unsettled := if settledOnArrival then m.unsettled else m.unsettled ++ [(m.nextCtx, v, q)],
                 nextCtx := m.nextCtx + 1 }
      -- an absorbed (reserved-key) event may track: announce it
      let m2 := words.foldl (fun acc w => match w with
        | "track" :: vb' :: t :: _ =>
          match vb'.toNat?, parseTuple t with
          | some v', some (_ :: q' :: _) => addAnnounced { acc with lastTrack := acc.lastTrack.set v' q' } v' q'
          | _, _ => acc
        | _ => acc) m1
      -- C04: tracked position never moves backwards
      let v4 := words.map fun w => match w with
        | "track" :: vb' :: t :: _ =>
          match vb'.toNat?, parseTuple t with
          | some v', some (_ :: q' :: _) =>
            if q' ≥ (m.lastTrack.get? v').getD 0 then "ok" else "FAIL C04.track-regress"
          | _, _ => "FAIL C04.unparsable"
        | _ => "ok"
      (m2, firstFail (c06 ++ [v1, v2, v3] ++ v4))
    | _, _, _ => (m, "ok")
  | "sa" :: _ | "sy" :: _ =>
    let m2 := words.foldl (fun acc w => match w with
      | "track" :: vb' :: t :: _ =>
        match vb'.toNat?, parseTuple t with
        | some v', some (_ :: q' :: _) => noteDirtySettle (addAnnounced { acc with lastTrack := acc.lastTrack.set v' q' } v' q') v' q'
        | _, _ => acc
      | _ => acc) m
    let m3 := match ts with
      | ["sa", vb, q] => match vb.toNat?, q.toNat? with
        | some v, some a => { m2 with marker := m2.marker.set v (a, a) }
        | _, _ => m2
      | _ => m2
    let v4 := words.map fun w => match w with
      | "track" :: vb' :: t :: _ =>
        match vb'.toNat?, parseTuple t with
        | some v', some (_ :: q' :: _) =>
          if q' ≥ (m.lastTrack.get? v').getD 0 then "ok" else "FAIL C04.track-regress"
        | _, _ => "FAIL C04.unparsable"
      | _ => "ok"
    (m3, firstFail (c06 ++ v4 ++ [if words.any (fun w => w.head? == some "deliver") then "FAIL C03.non-document-delivered" else "ok"]))
  | ["ack", i] =>
    match i.toNat? with
    | none => (m, "ok")
    | some idx =>
      match m.ctxs.find? (fun c => c.1 == idx) with
      | none => (m, firstFail c06)
      | some (_, v, q, se) =>
        if se != m.sess then
          (m, if words.any (fun w => w.head? == some "track") then "FAIL C04.stale-ack-tracked" else "ok")
        else
        -- cumulative acknowledgement: settles every delivered event of the vBucket up to q
        let m1 := { m with unsettled := m.unsettled.filter (fun (_, v', q') => !(v' == v && q' ≤ q)),
                           ackTop := m.ackTop.set v (max q ((m.ackTop.get? v).getD 0)) }
        let inRangeB := s.cfg.lo ≤ v && v ≤ s.cfg.hi
        let tracks := words.filter (fun w => w.head? == some "track")
        -- C04: out-of-range acknowledgements are ignored; tracked value = the event's own seq, never backwards
        let v1 := if !inRangeB && !tracks.isEmpty then "FAIL C04.out-of-range-ack-tracked" else "ok"
        let v2 := tracks.map fun w => match w with
          | _ :: vb' :: t :: _ =>
            match vb'.toNat?, parseTuple t with
            | some v', some (_ :: q' :: _) =>
              if v' != v then "FAIL C04.ack-other-vb"
              else if q' != q then "FAIL C04.ack-wrong-seq"
              else if q' < (m.lastTrack.get? v').getD 0 then "FAIL C04.track-regress" else "ok"
            | _, _ => "FAIL C04.unparsable"
          | _ => "ok"
        -- C04: position = running max: an ack at or above the last announced seq must track (while the stream object lives)
        let top := ((m.announced.get? v).getD []).foldl max 0
        let v3 := if inRangeB && s.everOpened && q > top && tracks.isEmpty && s.isOpen then "FAIL C04.ack-lost" else "ok"
        let m2 := tracks.foldl (fun acc w => match w with
          | _ :: vb' :: t :: _ =>
            match vb'.toNat?, parseTuple t with
            | some v', some (_ :: q' :: _) => noteDirtySettle (addAnnounced { acc with lastTrack := acc.lastTrack.set v' q' } v' q') v' q'
            | _, _ => acc
          | _ => acc) m1
        (m2, firstFail (c06 ++ [v1] ++ v2 ++ [v3]))
  | ["sv", _, "lockwait"] =>
    -- C05 / C13: a save issued while another one is in flight must wait for it and then save (it may not be dropped:
    -- dcp.close()'s final save would otherwise lose what was settled after the in-flight save took its dump)
    (m, if real == "waiting" then "ok" else "FAIL C05.concurrent-save-dropped")
  | "save" :: _ | ["sv", _, "store", _] | ["sv", _, "dump"] | ["sv", _, "begin"] | ["sv", _, "unmark"] =>
    let writtenDocs := (words.filterMap fun w => match w with
      | "written" :: t :: _ => some (parseDocList t)
      | _ => none).flatten
    -- C01a: what becomes durable was an announced position of this session
    let v1 := writtenDocs.map fun (vb, d) =>
      match d with
      | _ :: q :: _ => if ((m.announced.get? vb).getD []).contains q then "ok" else "FAIL C01.stored-never-settled"
      | _ => "FAIL C01.unparsable"
    -- C01b: the durable position never passes a delivered-but-unsettled event (known: F3 when an absorbed event overtook it)
    let v2 := writtenDocs.map fun (vb, d) =>
      match d with
      | _ :: q :: _ =>
        if m.unsettled.any (fun (_, v', q') => v' == vb && q' ≤ q) then
          -- known finding only when the history contains the pattern excluded by `C01b_partial`
          if KF.C01_overtake caseStart caseOps then
            "KF F3 an absorbed event moved the position past a delivered-but-unacknowledged event and the save persisted it"
          else if !KF.srvMonotone caseStart caseOps then "ok"   -- the server broke its own contract (seqnos not increasing): outside the quantifier
          else if KF.C01_resetJump caseStart caseOps then "ok"  -- a rebalance took the latest-reset start over an unsettled event (excluded by `C01b_partial`, by design of auto-reset latest)
          else "FAIL C01.stored-past-unsettled"
        else "ok"
      | _ => "ok"
    -- C05 / C14: a save with nothing changed performs no write
    let called := words.any (fun w => w.head? == some "savecall")
    let isBegin := match ts with | "save" :: _ => true | ["sv", _, "begin"] => true | _ => false
    let skippedSave := real == "nowrite" || real == "flag=0"
    let v4 := if called && !s.anyDirty && isBegin then "FAIL C05.clean-save-wrote" else "ok"
    -- C05: when a save completes successfully (incl. the skip path) every vBucket advanced by an acknowledgement or a
    -- non-document event has its furthest such position stored. Known exceptions on this tree: F1 (dirty, flag down), F2 (mark lost)
    let completes := match ts with
      | "save" :: r :: _ => skippedSave || r == "ok"
      | ["sv", _, "begin"] => real == "flag=0"
      | ["sv", _, "unmark"] => true
      | _ => false
    let lagging := m.dirtySettled.filter fun (vb, q) =>
      s.cfg.lo ≤ vb && vb ≤ s.cfg.hi && q > ((s'.store.get? vb).map (·.seq)).getD 0
    let v3 :=
      if completes && s.isOpen && !s.cfg.readOnly && !lagging.isEmpty then
        -- known finding only when the session history contains a pattern excluded by `C05_partial`
        if !(KF.C05_flag sessStart sessOps || KF.C05_unmark sessStart sessOps) then "FAIL C05.settled-not-durable"
        else if lagging.any (fun (vb, _) => (curDirty s).contains vb) && !s.anyDirty then
          "KF F1 a vBucket advanced only by seqno-advanced / system events is marked dirty but the flag stays down: the save is skipped"
        else
          "KF F2 an acknowledgement that landed between a save's dump and its unmark (or during an overlapping save) lost its dirty mark: progress stays unsaved"
      else "ok"
    (m, firstFail (c06 ++ v1 ++ [v4] ++ v2 ++ [v3]))
  | ["api-offsets"] =>
    -- C16: GET /states/offset shows the tracked positions (and says "not open" exactly while closed)
    (m, apiOffsetsVerdict s (fun vb => ((m.announced.get? vb).getD []).foldl max 0) real)
  | ["scrape"] | ["api-metrics"] =>
    -- C16: lag = max(0, high − seq) per vBucket, total = sum, gauges = the tracked (last announced) position
    match words with
    | [["scrape", "closed"]] => (m, if s.obsNil then "ok" else "FAIL C16.scrape-empty-while-open")
    | [w] =>
      let rowToks := w.filter fun t => t.contains ':'
      let num := fun (t : String) => if t == "big" then none else t.toNat?
      let rows := rowToks.filterMap fun t =>
        let t' := ((t.dropWhile (· == '[')).toString.splitOn "]").headD ""
        match t'.splitOn ":" with
        | [vb, rest] => (vb.toNat?).map fun v => (v, (rest.splitOn ",").map num)
        | _ => none
      let total := (w.find? (·.startsWith "total=")).bind fun t => num (t.drop 6).toString
      let vLag := rows.map fun (vb, f) =>
        match f with
        | [some cur, _, _, some lag, _, _, _, _] =>
          if lag == lagOf ((s.high.get? vb).getD 0) cur then "ok" else "FAIL C16.lag"
        | [some cur, _, _, none, _, _, _, _] =>
          -- `big` lag although the true lag is small: the unsigned subtraction wrapped
          if lagOf ((s.high.get? vb).getD 0) cur < 9007199254740992 then "FAIL C16.lag" else "ok"
        | _ => "ok"    -- values beyond 2^53 are not compared (float64 rendering)
      let lags := rows.map fun (_, f) => match f with | [_, _, _, some lag, _, _, _, _] => some lag | _ => none
      let vTot := match total, lags.mapM id with
        | some t, some ls => if t == ls.foldl (· + ·) 0 then "ok" else "FAIL C16.total-lag"
        | _, _ => "ok"
      let vCur := rows.map fun (vb, f) =>
        match f with
        | some cur :: _ =>
          let top := ((m.announced.get? vb).getD []).foldl max 0
          if s.isOpen && cur != top then "FAIL C16.gauge-not-position" else "ok"
        | _ => "ok"
      (m, firstFail (vLag ++ [vTot] ++ vCur))
    | _ => (m, "FAIL C16.unparsable")
  | _ => (m, firstFail c06)

end GoDcp.Driver
