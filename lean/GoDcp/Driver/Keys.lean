import GoDcp.Driver.Util
import GoDcp.Model.Keys
import GoDcp.Spec.C14K
/-! handlers of stream `c14k` (keys and the metadata filter).  Byte strings travel
    hex-encoded (`-` = empty); inside, one `Char` per byte. -/
namespace GoDcp.Driver
open GoDcp GoDcp.Keys

def keyHexVal (c : Char) : Option Nat :=
  if '0' ≤ c ∧ c ≤ '9' then some (c.toNat - 48)
  else if 'a' ≤ c ∧ c ≤ 'f' then some (c.toNat - 87)
  else none

def hexDecodeAux : List Char → List Char → Option (List Char)
  | [], acc => some acc.reverse
  | a :: b :: r, acc => do
    let x ← keyHexVal a
    let y ← keyHexVal b
    hexDecodeAux r (Char.ofNat (16 * x + y) :: acc)
  | _, _ => none

/-- "5f74" → ['_','t'];  "-" → [] -/
def hexDecode (s : String) : Option Str :=
  if s = "-" then some [] else hexDecodeAux s.toList []

def keyHexDigit (n : Nat) : Char := if n < 10 then Char.ofNat (48 + n) else Char.ofNat (87 + n)

def hexEncode (s : Str) : String :=
  if s.isEmpty then "-"
  else String.ofList (s.foldr (fun c acc => keyHexDigit (c.toNat / 16 % 16) :: keyHexDigit (c.toNat % 16) :: acc) [])

/-- `key-cp HEXGROUP VB` → hex of the checkpoint document key | `panic` (rejected name) -/
def hKeyCp (args : List String) (real : Option String) : Option Out := do
  let [gs, vs] := args | none
  let g ← hexDecode gs
  let vb ← vs.toNat?
  let model := match checkpointID vb g with
    | some k => hexEncode k
    | none => "panic"
  let v := match real with
    | none => "-"
    | some "panic" => "ok"   -- a rejected name writes nothing
    | some r => match hexDecode r with
      | none => "FAIL C14.unparsable"
      | some k =>
        if !Spec.C14K.reserved k then "FAIL C14.key-outside-reserved-prefix"
        else if !isMetadata k then "FAIL C14.key-not-filtered"
        else verdict (Spec.C14K.holdsCheckpoint g vb k) "C14.key-ambiguous"
  some { model, verdict := v }

/-- `key-inst HEXGROUP HEXID` → hex of the instance document key (for streams that can
    observe membership keys, e.g. at the simulated node) -/
def hKeyInst (args : List String) (real : Option String) : Option Out := do
  let [gs, ids] := args | none
  let g ← hexDecode gs
  let id ← hexDecode ids
  let v := match real with
    | none => "-"
    | some r => match hexDecode r with
      | none => "FAIL C14.unparsable"
      | some k =>
        if !Spec.C14K.reserved k then "FAIL C14.key-outside-reserved-prefix"
        else if !isMetadata k then "FAIL C14.key-not-filtered"
        else if id.contains ':' then "ok"
        else verdict (Spec.C14K.holdsInstance g id k) "C14.key-ambiguous"
  some { model := hexEncode (instanceKey g id), verdict := v }

/-- `key-index HEXGROUP` → hex of the index document key -/
def hKeyIndex (args : List String) (real : Option String) : Option Out := do
  let [gs] := args | none
  hKeyInst [gs, hexEncode allWord] real

/-- `key-meta KIND HEXKEY` → `true|false|panic`: `IsMetadata` on a value of the given kind.
    kinds with a `Key []byte` field: mut del exp rawmut custom collcreate scopecreate;
    without: seqno colldel nokey;  on which reflection panics: ptr strkey nilembed -/
def hKeyMeta (args : List String) (real : Option String) : Option Out := do
  let [kind, ks] := args | none
  let k ← hexDecode ks
  let payload ←
    if ["mut", "del", "exp", "rawmut", "custom", "collcreate", "scopecreate"].contains kind then some (Payload.withKey k)
    else if ["seqno", "colldel", "nokey"].contains kind then some Payload.noKey
    else if ["ptr", "strkey", "nilembed"].contains kind then some Payload.reflectPanics
    else none
  let model := match isMetadataPayload payload with
    | some true => "true" | some false => "false" | none => "panic"
  let v := match payload, real with
    | _, none => "-"
    | .withKey _, some "true" => verdict (Spec.C14K.holdsFilter k true) "C14.user-key-hidden"
    | .withKey _, some "false" => verdict (Spec.C14K.holdsFilter k false) "C14.reserved-key-shown"
    | .noKey, some "false" => "ok"
    | .noKey, some "true" => "FAIL C14.keyless-event-hidden"
    | .reflectPanics, some _ => "-"
    | _, some _ => "FAIL C14.unparsable"
  some { model, verdict := v }

/-- `key-collisions` → `0`: number of distinct (group, vb) pairs of the run that were
    handed the same key (`Props/C14Keys.checkpointKey_injective`: none, ever) -/
def hKeyCollisions (args : List String) (real : Option String) : Option Out := do
  let [] := args | none
  let v := match real with
    | none => "-"
    | some r => verdict (r == "0") "C14.key-collision"
  some { model := "0", verdict := v }

def keysHandlers : List (String × (List String → Option String → Option Out)) :=
  -- `key-cfg`: the same key, built from the group name as `config.ApplyDefaults` leaves it (a set name is never altered: C17_keeps_set)
  [("key-cp", hKeyCp), ("key-cfg", hKeyCp), ("key-inst", hKeyInst), ("key-index", hKeyIndex),
   ("key-meta", hKeyMeta), ("key-collisions", hKeyCollisions)]

end GoDcp.Driver
