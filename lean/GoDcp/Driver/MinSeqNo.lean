import GoDcp.Driver.Util
import GoDcp.Model.MinSeqNo
import GoDcp.Spec.C07
import GoDcp.Model.RmStop
/-!
handlers of slice C07: `rm-script` (stream `c07rm`, harness/l2_rm.go) and
`gate-script` (stream `c07gate`, harness/l1_gate.go).  Handlers are stateless,
so one op line carries a whole script and the observation has one token per step.

`rm-script N ABS V STEP…`   one vBucket = one table
    N     number of entries of the row (= numReplicas + 1)
    ABS   indices that are not listed in the vBucket map: `-` or `1.2`
    V     what every index answers at the start: `uuid:seq,uuid:seq,…` (N items)
    STEP  `s:ORDER`        Start() (first) / config revision bump (later): reset, then answers arrive in ORDER (`2.0.1` or `-`)
          `m:ABS:ORDER`    the row of the vBucket map changes (new ABS), then as `s`
          `e:E:R:ABS:ORDER` the cluster publishes a config with revision (revEpoch E, rev R) and row ABS (every cluster starts at
                           (2,100); `s`/`m` publish rev+1 of the current epoch): adopted only if lexicographically newer than
                           the one in use (`isNewer`), then as `s`; otherwise nothing happens (`[]`) and the old layout stays
          `r:I:U:S`        index I now answers (U,S)
          `t:I:U:S:K`      the same, after K TMPFAIL answers (retried inside gocbcore)
          `b:I:U:S:K`      the same, after K BUSY answers (retried inside gocbcore)
          `o:I:U:S`        the same, after one unanswered request (5 s time-out, ignored by the callback)
          `i`              nothing changes
          `x`              Stop()
    observation token per step: `[a.b.c]` (dispatches of a (re)start, in order), `dM`, `n`, `stopped`
`rm-stop-slow I D P`   (stream `c07rm`; properties C13 / C07 "closing … releases")  one instance of the REAL rollback
    mitigation, poll interval I ms; one replica answers the OBSERVE_SEQNO requests of one round only after D ms
    (D ≥ 3·I, so the next tick is buffered while the round runs); `Stop()` is called P ms into that round (P < D).
    observation: `stopped late-observes=N` (Stop() returned within the rest of the delay + 1 s; N = OBSERVE requests
    that reached any node during 5 intervals after the return) | `stopped-late late-observes=N` | `hang` (not back after 4 s)
`gate-script STEP…`
    STEP  `a:mk:S:E` | `a:mu:Q` | `a:de:Q` | `a:ex:Q` | `a:sa:Q` | `a:sy:Q` | `a:os`   an event arrives (own goroutine)
          `p:M`            SetPersistSeqNo(M)
          `c`              Close()
    observation token per step: arrive → `d` delivered, `w` waiting, `k` returned without delivery because closed,
          `x` panic (event outside its snapshot), `o` dropped otherwise; `p`/`c` → `r[ID+letter.…]` (calls that returned, by arrival number)
-/
namespace GoDcp.Driver
namespace C07d
open GoDcp GoDcp.MinSeqNo

def dots? (s : String) : Option (List Nat) :=
  if s == "-" then some [] else (s.splitOn ".").mapM String.toNat?

/-- `s` without its first `a` and last `b` characters -/
def strip (s : String) (a b : Nat) : String := String.ofList ((s.toList.drop a).take (s.length - a - b))

def showDots (l : List Nat) : String := ".".intercalate (l.map toString)

def truths? (s : String) : Option (List (Nat × Nat)) := (s.splitOn ",").mapM pair?

def rmStep? (s : String) : Option RmStep :=
  match s.splitOn ":" with
  | ["s", o] => do some (.start (← dots? o))
  | ["m", a, o] => do some (.remap (← dots? a) (← dots? o))
  | ["e", e, r, a, o] => do some (.config (← e.toNat?) (← r.toNat?) (← dots? a) (← dots? o))
  | ["r", i, u, q] => do some (.change (← i.toNat?) (← u.toNat?) (← q.toNat?))
  | ["t", i, u, q, k] => do let _ ← k.toNat?; some (.change (← i.toNat?) (← u.toNat?) (← q.toNat?))
  | ["b", i, u, q, k] => do let _ ← k.toNat?; some (.change (← i.toNat?) (← u.toNat?) (← q.toNat?))
  | ["o", i, u, q] => do some (.change (← i.toNat?) (← u.toNat?) (← q.toNat?))
  | ["i"] => some .idle
  | ["x"] => some .stop
  | _ => none

def showRmObs : RmObs → String
  | .many l => s!"[{showDots l}]"
  | .one m => s!"d{m}"
  | .nothing => "n"
  | .stopped => "stopped"

def rmObs? (s : String) : Option RmObs :=
  if s == "n" then some .nothing
  else if s == "stopped" then some .stopped
  else if s.startsWith "[" && s.endsWith "]" then
    let inner := strip s 1 1
    if inner.isEmpty then some (.many []) else do some (.many (← (inner.splitOn ".").mapM String.toNat?))
  else if s.startsWith "d" then do some (.one (← (strip s 1 0).toNat?))
  else none

def hRmScript (args : List String) (real : Option String) : Option Out := do
  let n :: ab :: v :: steps ← pure args | none
  let n ← n.toNat?
  if n == 0 then none
  let ab ← dots? ab
  let v ← truths? v
  if v.length != n then none
  let steps ← steps.mapM rmStep?
  let s0 : RmSim := { truth := v, numReplicas := n - 1, absentIdx := ab }
  let model := join ((RmSim.observe s0 steps).map showRmObs)
  let verdict := match real with
    | none => "-"
    | some r =>
      match (toks r).mapM rmObs? with
      | none => "FAIL parse"
      | some ro => match Spec.C07.rmCheckL s0 steps ro with
        | none => "ok"
        | some c => s!"FAIL {c}"
  some { model, verdict }

/-- `rm-stop-slow I D P`.  Model: Model/RmStop.lean, the close handshake `observeCloseCh` / `observeCloseDoneCh`
    explored over ALL interleavings from the state the scenario sets up (`RmStop.slowRound`: goroutine inside the
    round, next tick buffered, `Stop()` about to run): `RmStop.predict {}` = `stopped late-observes=0`
    (`Props/C13Rm.slow_round_scenario`; for every reachable state: `stop_returns`, `stop_answered_exactly_once`,
    `no_round_after_stop`).  The wall-clock figures I, D, P only select the scenario; they are not part of the model.
    Monitor on the REAL observation:
      `C13.rollback-mitigation-stop-hangs`   `Stop()` did not return (4 s) – stream.Close(), Dcp.Close(), every rebalance hang with it
      `C07.close-blocked-before-release`     (same observation) stream.Close() calls `rollbackMitigation.Stop()` BEFORE `observer.Close()`
                                             (stream.go l.419-426): calls waiting at the gate are never released
      `C13.rollback-mitigation-stop-late`    it returned, but later than the slow round lasted + 1 s
      `C13.polling-not-stopped`              OBSERVE requests reached a node after `Stop()` had returned -/
def hRmStopSlow (args : List String) (real : Option String) : Option Out := do
  let [i, d, p] ← pure args | none
  let i ← i.toNat?
  let d ← d.toNat?
  let p ← p.toNat?
  if i == 0 || d < 3 * i || p ≥ d then none
  let model := RmStop.predict {}
  let verdict := match real with
    | none => "-"
    | some r =>
      match toks r with
      | ["hang"] => "FAIL C13.rollback-mitigation-stop-hangs C07.close-blocked-before-release"
      | [st, l] =>
        match (l.splitOn "=") with
        | ["late-observes", n] =>
          match n.toNat? with
          | some n =>
            if st != "stopped" && st != "stopped-late" then "FAIL parse"
            else if n != 0 then "FAIL C13.polling-not-stopped"
            else if st == "stopped-late" then "FAIL C13.rollback-mitigation-stop-late"
            else "ok"
          | none => "FAIL parse"
        | _ => "FAIL parse"
      | _ => "FAIL parse"
  some { model, verdict }

def docEv (k : DocKind) (q : Nat) : SrvEv := .doc { kind := k, seq := q, cas := 0, key := "", coll := 0, payload := "" }

def gStep? (s : String) : Option GStep :=
  match s.splitOn ":" with
  | ["a", "mk", a, b] => do some (.arrive (.marker (← a.toNat?) (← b.toNat?)))
  | ["a", "mu", q] => do some (.arrive (docEv .mu (← q.toNat?)))
  | ["a", "de", q] => do some (.arrive (docEv .de (← q.toNat?)))
  | ["a", "ex", q] => do some (.arrive (docEv .ex (← q.toNat?)))
  | ["a", "sa", q] => do some (.arrive (.seqAdv (← q.toNat?)))
  | ["a", "sy", q] => do some (.arrive (.sys .cc (← q.toNat?) 0))
  | ["a", "os"] => some (.arrive .oso)
  | ["p", m] => do some (.persist (← m.toNat?))
  -- `u:U` = SetVbUUID(U), the open-stream callback of a (re-)opened stream: the vbUUID of later offsets changes, the persisted
  -- threshold does NOT (it never decreases: `threshold_monotone`); for the gate this is the identity = `persist 0` (`setPersist_zero`)
  | ["u", u] => do let _ ← u.toNat?; some (.persist 0)
  | ["c"] => some .close
  | _ => none

def showRes : GRes → String
  | .delivered => "d" | .droppedClosed => "k" | .failstop => "x" | .dropped => "o"

def res? : String → Option GRes
  | "d" => some .delivered | "k" => some .droppedClosed | "x" => some .failstop | "o" => some .dropped | _ => none

def showGObs : GObs → String
  | .done r => showRes r
  | .waiting => "w"
  | .released l => s!"r[{".".intercalate (l.map fun (i, r) => s!"{i}{showRes r}")}]"

def rel? (s : String) : Option (Nat × GRes) := do
  if s.length < 2 then none
  some ((← (strip s 0 1).toNat?), (← res? (strip s (s.length - 1) 0)))

def gObs? (s : String) : Option GObs :=
  if s == "w" then some .waiting
  else if s.startsWith "r[" && s.endsWith "]" then
    let inner := strip s 2 1
    if inner.isEmpty then some (.released []) else do some (.released (← (inner.splitOn ".").mapM rel?))
  else do some (.done (← res? s))

def hGateScript (args : List String) (real : Option String) : Option Out := do
  let steps ← args.mapM gStep?
  let model := join ((Gate.runScript {} steps).map showGObs)
  let verdict := match real with
    | none => "-"
    | some r =>
      match (toks r).mapM gObs? with
      | none => "FAIL parse"
      | some ro => match Spec.C07.gateCheck steps ro with
        | none => "ok"
        | some c => s!"FAIL {c}"
  some { model, verdict }

end C07d

def minSeqNoHandlers : List (String × (List String → Option String → Option Out)) :=
  [("rm-script", C07d.hRmScript), ("rm-stop-slow", C07d.hRmStopSlow), ("gate-script", C07d.hGateScript)]

end GoDcp.Driver
