import GoDcp.Driver.Util
import GoDcp.Driver.Session
import GoDcp.Driver.Keys
import GoDcp.Model.AsyncOp
import GoDcp.Model.Rollback
import GoDcp.Model.Codec
import GoDcp.Model.Startup
import GoDcp.Spec.C20
/-!
Handlers of the on-the-wire (L2) streams that drive the REAL go-dcp client,
metadata back ends, stream layer and `dcp.NewDcp` against the simulated node:

  stream c20w  `ao-wire …`, `ao-wire-f7probe`, `ao-wire-goroutines`, `w-seqnos-multi …`   (C20)
  stream c02w  `ck-f12probe`, `ck-rt`, `ck-save`, `ck-bulk`, `ck-corrupt`, `ck-open`, `ck-file`, `ck-ro`   (C02, C05)
  stream c15w  `st-f7probe`, `st-case`                                     (C15)
  stream c14w  `key-wire-*` (the key commands `key-cp` / `key-inst` / `key-index` of
               Driver/Keys.lean are reused unchanged)                      (C14)

Nothing is re-modelled here: `ao-wire` runs the LTS of Model/AsyncOp.lean with the
shape of the wrapper-table row (`AsyncOp.wrappers`) and evaluates `Spec.C20.check`;
`ck-*` use `Doc` / `Offset` / `GoDcp.load` / `GoDcp.mdWrite` / `GoDcp.mdLoad` of
Model/Basic + Model/Session and the codec of Model/Codec.lean; `st-case` uses
Model/Startup.lean (which is `GoDcp.load` plus the guards around it).
-/
namespace GoDcp.Driver
namespace Wire
open GoDcp GoDcp.AsyncOp GoDcp.Spec.C20

/-! ## stream c20w -/

/-- what the simulated node does with the scripted request (harness/l2_wrappers.go) -/
inductive Beh
  | prompt | errInternal | errEnoent | errTmpfail | tmpfailAlways | delayShort | delayLong | silent | drop
  -- the request never reaches the node: gocbcore refuses it at dispatch, no callback will ever run
  | rejShutdown | rejInvalidVb | rejOverload
  deriving DecidableEq, Repr

def Beh.rejected : Beh → Bool
  | .rejShutdown | .rejInvalidVb | .rejOverload => true
  | _ => false

def beh? : String → Option Beh
  | "prompt" => some .prompt | "err-internal" => some .errInternal | "err-enoent" => some .errEnoent
  | "err-tmpfail" => some .errTmpfail | "tmpfail-always" => some .tmpfailAlways
  | "delay-short" => some .delayShort | "delay-long" => some .delayLong | "silent" => some .silent
  | "drop" => some .drop
  | "rejected-shutdown" => some .rejShutdown | "rejected-invalid-vb" => some .rejInvalidVb
  | "rejected-overload" => some .rejOverload | _ => none

/-- how an entry point uses the table row of its scripted call -/
inductive Post
  | plain            -- the wrapper itself
  | ping             -- client.go Ping: every failure of the KV service becomes "some services are not healthy"
  | saveUpsert       -- cbMetadata.Save, scripted first UpsertXattrs: KEY_ENOENT → CreateDocument → UpsertXattrs (metadata.go l.52-62)
  | saveCreate       -- cbMetadata.Save, scripted CreateDocument (after a real KEY_ENOENT); success → UpsertXattrs
  | load             -- cbMetadata.Load: KEY_ENOENT → empty document, exist stays false (metadata.go l.84-103)
  | register         -- NewCBMembership → register(): createIndex error → panic(err) (membership.go l.66-70)
  deriving DecidableEq, Repr

/-- wire-level entry point → (site of the scripted call in `AsyncOp.wrappers`, use).
    `bestEffort`: the call passes `RetryStrategy: gocbcore.NewBestEffortRetryStrategy(nil)` (doc_op.go, all
    helpers; client.go getCollectionID l.767), so gocbcore itself retries a TMPFAIL answer until the deadline.
    `resend`: gocbcore re-sends the request after a dropped connection (idempotent reads) – environment
    fact about gocbcore, observed, not verified. -/
structure Entry where
  name : String
  site : String
  post : Post := .plain
  bestEffort : Bool := false
  resend : Bool := false

def entries : List Entry := [
  { name := "Ping", site := "client.go:Ping", post := .ping },
  { name := "GetVBucketSeqNos", site := "client.go:GetVBucketSeqNos" },
  { name := "GetFailOverLogs", site := "client.go:GetFailOverLogs" },
  { name := "OpenStream", site := "client.go:OpenStream" },
  { name := "OpenStream/rollback", site := "client.go:openStreamWithRollback" },
  { name := "CloseStream", site := "client.go:CloseStream" },
  { name := "GetCollectionIDs", site := "client.go:getCollectionID", bestEffort := true, resend := true },
  { name := "GetXattrs", site := "doc_op.go:GetXattrs", bestEffort := true },
  { name := "UpsertXattrs", site := "doc_op.go:UpsertXattrs", bestEffort := true },
  { name := "CreateDocument", site := "doc_op.go:CreateDocument", bestEffort := true },
  { name := "UpdateDocument", site := "doc_op.go:UpdateDocument", bestEffort := true },
  { name := "DeleteDocument", site := "doc_op.go:DeleteDocument", bestEffort := true },
  { name := "Get", site := "doc_op.go:Get", bestEffort := true, resend := true },
  { name := "CreatePath", site := "doc_op.go:CreatePath", bestEffort := true },
  { name := "cbMetadata.Save", site := "doc_op.go:UpsertXattrs", post := .saveUpsert, bestEffort := true },
  { name := "cbMetadata.Save/create", site := "doc_op.go:CreateDocument", post := .saveCreate, bestEffort := true },
  { name := "cbMetadata.Load", site := "doc_op.go:GetXattrs", post := .load, bestEffort := true },
  { name := "cbMetadata.Clear", site := "doc_op.go:DeleteDocument", bestEffort := true },
  { name := "cbMembership.register", site := "doc_op.go:CreatePath", post := .register, bestEffort := true },
  -- the exported helper called with `context.Background()`, exactly as cbMetadata.Load l.84 does (deadline class bg5)
  { name := "GetXattrs.bg", site := "doc_op.go:GetXattrs", bestEffort := true } ]

/-- error codes used for `Outcome.err` in the wire scripts -/
def codeInternal : Nat := 1
def codeEnoent : Nat := 2
def codeTmpfail : Nat := 3
def codeConn : Nat := 4      -- gocbcore: socket closed in flight
def codeGocbTimeout : Nat := 5   -- gocbcore's own deadline fired its callback
def codeDispatch : Nat := 7      -- gocbcore refused the request at dispatch (ErrShutdown / ErrOverload / no route)

/-- model deadline in ticks (any value ≥ 2 gives the same classes) -/
def wireD : Nat := 3

def okSched (a : Nat) (o : Outcome) : List Action :=
  [.waiterStep false] ++ List.replicate a .tick ++
    [.srvResolve o, .srvPush, .waiterStep false, .waiterStep false, .waiterStep false]

/-- schedules (one per distinguishable interleaving) of a behaviour for a wrapper whose ctx
    deadline is `wireD`.  `own`: gocbcore was handed the same deadline (`Deadline: ctx.Deadline()`)
    and may complete the operation itself with a time-out error at that instant. -/
def schedules (e : Entry) (b : Beh) : List (List Action) :=
  let silentS := [silentActs wireD, okSched wireD (.err codeGocbTimeout)]
  match b with
  | .prompt => [okSched 0 (.ok 1)]
  | .delayShort => [okSched 1 (.ok 1)]
  | .errInternal => [okSched 0 (.err codeInternal)]
  | .errEnoent => [okSched 0 (.err codeEnoent)]
  | .errTmpfail => if e.bestEffort then [okSched 1 (.ok 1)] else [okSched 0 (.err codeTmpfail)]
  | .tmpfailAlways => if e.bestEffort then silentS else [okSched 0 (.err codeTmpfail)]
  | .delayLong | .silent => silentS
  | .drop => [okSched 0 (.err codeConn)] ++ (if e.resend then [okSched 1 (.ok 1)] ++ silentS else [])
  -- `Wait(op, err)` hands the dispatch error back, the wrapper returns it: two steps of the caller, no tick
  | .rejShutdown | .rejInvalidVb | .rejOverload => [[.waiterStep false, .waiterStep false]]

def classOfFinal : Final → String
  | .ok _ => "ok"
  | .okEmpty => "ok-empty"
  | .srvErr c => if c == codeConn then "conn-error" else if c == codeGocbTimeout then "timeout" else "server-error"
  | .ctxErr .deadlineExceeded => "timeout"
  | .ctxErr .canceled => "canceled"
  | .immErr c => if c == codeDispatch then "dispatch-error" else "other-error"

def showTime : TimeClass → String
  | .before => "before" | .ontime => "ontime" | .late => "late"

def readTime? : String → Option TimeClass
  | "before" => some .before | "ontime" => some .ontime | "late" => some .late | _ => none

/-- what the entry point makes of the class of its scripted call; the remaining calls of a
    composite entry point are answered promptly by the node -/
def postClass (p : Post) (f : Final) : String :=
  let c := classOfFinal f
  match p with
  | .plain => c
  | .ping => if c == "ok" || c == "timeout" || c == "dispatch-error" then c else "unhealthy"
  | .saveUpsert => (match f with | .srvErr 2 => "ok" | _ => c)
  | .saveCreate => c
  | .load => (match f with | .srvErr 2 => "ok-noexist" | .ok _ => "ok" | _ => "failstop:" ++ c)
  | .register => if c == "ok" then "ok" else "panic:" ++ c

/-- the shape the LTS is run with: the wrapper-table row – except for GetVBucketSeqNos, finding F7.
    As first written that wrapper had no result channel and dropped the callback's error
    (`propagatesErr = false`): a server error status came back as (empty map, nil).  The harness first
    asks the real code (`ao-wire-f7probe`) and passes the answer on the op line, so that BOTH trees
    correspond to the model: `f7=swallows` → the defective shape (and the verdict is the known-finding
    line), `f7=propagates` → the repaired shape (result channel read after `Wait`, error handed back),
    which is also what the table row says since the repair. -/
def shapeOf (w : Wrapper) (f7 : Option String) : Shape :=
  if w.site == "client.go:GetVBucketSeqNos" then
    match f7 with
    | some "swallows" => { resultChan := false, propagatesErr := false }
    | some "propagates" => { resultChan := true, propagatesErr := true }
    | _ => w.shape
  else w.shape

/-- all (class, time) pairs the model allows, first = the canonical one -/
def allowed (e : Entry) (w : Wrapper) (b : Beh) (dclass : String) (f7 : Option String) : List (String × TimeClass) :=
  let cfg : AsyncOp.Cfg := { shape := shapeOf w f7, deadline := if dclass == "bg5" then none else some wireD,
                             imm := if b.rejected then some codeDispatch else none }
  let outs := (schedules e b).filterMap fun acts =>
    let s := AsyncOp.run (AsyncOp.init cfg) acts
    s.final.map fun f => (postClass e.post f, timeOf s)
  -- Ping: gocbcore's ping operation ends at KVDeadline = ctx deadline with the service in state
  -- `timeout` and err == nil; the callback turns that into "some services are not healthy"
  let outs := if e.post == .ping && (b == .silent || b == .delayLong) then outs ++ [("unhealthy", .ontime)]
              else if e.post == .ping && b == .drop then outs ++ [("timeout", .ontime)] else outs
  -- bg5 + silent.  The LTS has nothing to offer here: without a ctx deadline the waiter of a silent server
  -- never leaves `select` (Props/C20 `returns_by_deadline_refuted_for_background`), so `silentActs` has no
  -- final state.  What ends the real call is gocbcore's OWN deadline, `Deadline: time.Now().Add(5 s)` of
  -- doc_op.go GetXattrs l.186: gocbcore completes the operation with its time-out error at that instant.
  -- TRUSTED environment fact about gocbcore (assumption list of C20), not derived from the model; the
  -- harness classifies the real time against those 5 s, hence `ontime`.
  let outs := if dclass == "bg5" && b == .silent then [(postClass e.post (.srvErr codeGocbTimeout), .ontime)] else outs
  outs.eraseDups

def kvArg (args : List String) (k : String) : Option String :=
  args.findSome? fun t => match t.splitOn "=" with
    | [a, b] => if a == k then some b else none
    | _ => none

def isErrLike : Beh → Bool
  | .errInternal | .errEnoent | .errTmpfail | .tmpfailAlways | .drop => true
  | _ => false

/-- the real observation as a `Spec.C20.Obs`.  Not observable on the wire: the number of
    `PendingOp.Cancel()` calls (taken as 1 exactly when a ctx error came back) and whether the
    callback ran before `Wait` returned when gocbcore shares the deadline (`maybe`). -/
def obsOfWire (b : Beh) (cls : String) (t : TimeClass) (leak : Nat) : Spec.C20.Obs :=
  let res : Res :=
    if cls == "timeout" || cls == "panic:timeout" then .deadline
    else if cls == "canceled" then .canceled
    else if cls == "other-error" || cls == "ok-wrong-data" || cls == "panic:other" || cls == "panic:other-error"
      || cls == "hang" then .other
    else .nil_
  { imm := false,
    completes := (match b with | .silent | .delayLong | .tmpfailAlways | .drop => .maybe | _ => .yes),
    ctxCancel := false, res := res, cancel := if res.isCtxErr then 1 else 0, time := t,
    resolve := if leak == 0 then .ok else .blocked }

def kfF7 : String := "KF F7 GetVBucketSeqNos reports success on a server error status"

/-- `ao-wire <wrapper> <behaviour> <deadline-class> [f7=…]`; real = `<class> <time> leak=<n>` -/
def hAoWire (args : List String) (real : Option String) : Option Out := do
  let wn :: bs :: dclass :: rest := args | none
  let e ← entries.find? (·.name == wn)
  let w ← lookupSite e.site
  let b ← beh? bs
  let f7 := kvArg rest "f7"
  let al := allowed e w b dclass f7
  let (c0, t0) ← al.head?
  let parsed : Option (String × TimeClass × Nat) := do
    let r ← real
    let [c, t, l] := toks r | none
    some (c, ← readTime? t, ← (← kvArg [l] "leak").toNat?)
  let model := match parsed with
    | some (c, t, _) => if al.contains (c, t) then s!"{c} {showTime t} leak=0" else s!"{c0} {showTime t0} leak=0"
    | none => s!"{c0} {showTime t0} leak=0"
  let v := match real, parsed with
    | none, _ => "-"
    | some _, none => "FAIL C20.unparsable"
    | some _, some (c, t, leak) =>
      -- rejected at dispatch: the error must come back at once; `hang` (or a late return) = the wrapper waits for a
      -- callback that will never run, success = the dispatch error was dropped
      if b.rejected then
        (if c == "hang" then "FAIL C20.dispatch-error-hangs"
         else if c == "ok" || c.startsWith "ok-" then "FAIL C20.dispatch-error-swallowed"
         else if t != .before then "FAIL C20.dispatch-error-hangs"
         else if leak != 0 then "FAIL C20.no-block"
         else if c == "dispatch-error" || c == "panic:dispatch-error" then "ok"
         else "FAIL C20.dispatch-error-swallowed")
      else if c == "ok-empty" then
        if wn == "GetVBucketSeqNos" && isErrLike b && f7 == some "swallows" then kfF7
        else "FAIL C20.success-unconfirmed"
      else if c == "ok-unconfirmed" then "FAIL C20.success-unconfirmed"
      else if c == "ok-wrong-data" then "FAIL C20.outcome-exact"
      -- a call without ctx deadline (bg5) under a silent server must be back by gocbcore's 5 s + margin with
      -- an error; `hang` = the harness gave up waiting for it.  (Success is caught above, `late` below.)
      else if c == "hang" && dclass == "bg5" then "FAIL C20.background-call-hangs"
      else match check (obsOfWire b c t leak) with
        | some cl => s!"FAIL C20.{cl}"
        | none => "ok"
  some { model, verdict := v }

/-- `ao-wire-f7probe`: the fact line; both answers are accepted (they select the model shape) -/
def hAoF7Probe (args : List String) (real : Option String) : Option Out := do
  let [] := args | none
  let model := match real with
    | some "propagates" => "propagates"
    | _ => "swallows"
  some { model }

/-- `ao-wire-goroutines` → `leaked=0` -/
def hAoGoroutines (args : List String) (real : Option String) : Option Out := do
  let [] := args | none
  let v := match real with
    | none => "-"
    | some r => verdict (r == "leaked=0") "C20.no-block"
  some { model := "leaked=0", verdict := v }


/-! ### GetVBucketSeqNos on several KV nodes -/

def nodeBeh? : String → Option NodeBeh
  | "prompt" => some .prompt | "err" => some .err | "silent" => some .silent | "late" => some .late | _ => none

def showMClass : MClass → String
  | .ok => "ok" | .okBad => "ok-bad" | .serverError => "server-error" | .timeout => "timeout"
  | .otherError => "other-error" | .hang => "hang" | .panic => "panic"

def readMClass (s : String) : MClass :=
  if s == "ok" then .ok
  else if s.startsWith "ok" then .okBad
  else if s == "server-error" then .serverError
  else if s == "timeout" then .timeout
  else if s == "hang" then .hang
  else if s.startsWith "panic" then .panic
  else .otherError

def showMTime : MTime → String
  | .before => "before" | .byDeadline => "by-deadline" | .late => "late"

def readMTime? : String → Option MTime
  | "before" => some .before | "by-deadline" => some .byDeadline | "late" => some .late | _ => none

/-- `w-seqnos-multi <n> <b0>,<b1>,…`; real = `<class> <time> blocked=<k>`.  Model: the per-request
    LTS of Model/AsyncOp.lean (`Spec.C20.multiModelObs`); monitor: `Spec.C20.checkMulti` on the real line. -/
def hSeqnosMulti (args : List String) (real : Option String) : Option Out := do
  let [ns, bs] := args | none
  let n ← nat? ns
  let behs ← (bs.splitOn ",").mapM nodeBeh?
  if behs.length != n || n == 0 || n > 8 then none
  let m := multiModelObs behs
  let model := s!"{showMClass m.cls} {showMTime m.time} blocked={m.blocked}"
  let v := match real with
    | none => "-"
    | some r =>
      match toks r with
      | [c, t, b] =>
        (match readMTime? t, (kvArg [b] "blocked").bind String.toNat? with
         | some t, some k =>
           (match checkMulti { behs, cls := readMClass c, time := t, blocked := k } with
            | some cl => s!"FAIL C20.{cl}"
            | none => "ok")
         | _, _ => "FAIL C20.unparsable")
      | _ => "FAIL C20.unparsable"
  some { model, verdict := v }


/-! ## shared parsing / rendering of the `ck-*` and `st-case` lines -/

def doc? (s : String) : Option Doc :=
  match s.toList with
  | '(' :: rest =>
    match rest.reverse with
    | ')' :: inner =>
      match (String.ofList inner.reverse).splitOn "," with
      | [u, q, a, b] => do some ⟨← u.toNat?, ← q.toNat?, ← a.toNat?, ← b.toNat?⟩
      | _ => none
    | _ => none
  | _ => none

/-- `-` or `vb:(u,s,ss,se);…` -/
def docs? (s : String) : Option (List (Vb × Doc)) :=
  if s == "-" then some [] else
  (s.splitOn ";").mapM fun it =>
    match it.splitOn ":" with
    | [vb, d] => do some (← vb.toNat?, ← doc? d)
    | _ => none

def vbs? (s : String) : Option (List Vb) :=
  if s == "-" then some [] else (s.splitOn ",").mapM String.toNat?

def pairs? (s : String) : Option (List (Vb × Nat)) :=
  if s == "-" then some [] else (s.splitOn ",").mapM pair?

def showLoaded : Codec.Loaded → String
  | .doc d => showDoc d
  | .nilDoc => "nil" | .noCheckpoint => "nocp" | .noSnapshot => "nosnap" | .absent => "-"

def showLoadedList (l : List (Vb × Codec.Loaded)) (exist : Bool) : String :=
  "loaded=[" ++ join (l.map fun (vb, x) => s!"{vb}{showLoaded x}") ++ s!"] exist={exist}"

def showDocList (l : List (Vb × Doc)) (exist : Bool) : String :=
  showLoadedList (l.map fun (vb, d) => (vb, Codec.Loaded.doc d)) exist

def hexOfString (s : String) : String := hexEncode s.toList

/-- the request the stream layer sends for an offset: `Rollback.firstReq` (client.go OpenStream l.695-714) -/
def showReq (vb : Vb) (o : Offset) : String :=
  let r := Rollback.firstReq ⟨o.uuid, o.seq, o.ss, o.se, o.latest⟩
  s!"{vb}:{r.flags},{r.uuid},{r.start},{r.stop},{r.snapStart},{r.snapEnd}"

def showReqs (offs : List (Vb × Offset)) : String :=
  "reqs=[" ++ join ((sortBy (·.1) offs).map fun (vb, o) => showReq vb o) ++ "]"

/-- the logged stream requests of a real observation: `reqs=[vb:flags,uuid,start,end,ss,se …]`
    → (vb, [flags, uuid, start, end, ss, se]) -/
def parseReqs (r : String) : Option (List (Vb × List Nat)) :=
  match r.splitOn "reqs=[" with
  | [_, rest] =>
    match rest.splitOn "]" with
    | body :: _ =>
      (toks body).mapM fun it =>
        match it.splitOn ":" with
        | [vb, f] => do some (← vb.toNat?, ← (f.splitOn ",").mapM String.toNat?)
        | _ => none
    | [] => none
  | _ => none

/-- echo: the handler has no monitor of its own beyond model = real -/
def same (model : String) (real : Option String) (clause : String) : String :=
  match real with
  | none => "-"
  | some r => verdict (r == model) clause

/-! ## stream c02w -/

def kfF12 : String := "KF F12 file metadata Save reports success when the write failed"

/-- `ck-f12probe`: fact line, both answers accepted (they select `Codec.fileSaveResult`) -/
def hCkF12Probe (args : List String) (real : Option String) : Option Out := do
  let [] := args | none
  some { model := match real with | some "reports" => "reports" | _ => "swallows" }

/-- `ck-rt cb|file G U S SS SE`: one document through `Save` → `Load`.
    cb: the stored xattr must be `Codec.encodeDoc`, byte for byte; the loaded fields are
    `Codec.decodeFields (Codec.encodeFields d)` (the decimal path); monitor: lossless -/
def hCkRt (args : List String) (real : Option String) : Option Out := do
  let [kind, _g, u, q, a, b] := args | none
  let d : Doc := ⟨← u.toNat?, ← q.toNat?, ← a.toNat?, ← b.toNat?⟩
  let loaded := match Codec.decodeFields (Codec.encodeFields d) with
    | some d' => s!"loaded={showDoc d'} exist=true"
    | none => "loaded=undecodable exist=true"
  let model ← match kind with
    | "cb" => some (s!"xattr={hexOfString (Codec.encodeDoc d "u")} " ++ loaded)
    | "file" => some loaded
    | _ => none
  let v := match real with
    | none => "-"
    | some r => verdict ((toks r).contains s!"loaded={showDoc d}" && (toks r).contains "exist=true") "C02.roundtrip-lossless"
  some { model, verdict := v }

def showWriteOp : Codec.WriteOp → String
  | .mutateIn st => s!"M({Codec.xattrPath})={st}"
  | .set st => s!"S={st}"

/-- `ck-save cb|file G n=N pre=DOCS state=DOCS dirty=VBS` -/
def hCkSave (args : List String) (real : Option String) : Option Out := do
  let kind :: g :: rest := args | none
  let n ← (← kvArg rest "n").toNat?
  let pre ← docs? (← kvArg rest "pre")
  let state ← docs? (← kvArg rest "state")
  let dirty ← vbs? (← kvArg rest "dirty")
  if n = 0 then none
  let vbs := List.range n
  match kind with
  | "cb" =>
    let (w, docs, exist) := Codec.saveThenLoad n pre state dirty
    let writes := (sortBy (·.1) w).map fun (vb, _) =>
      s!"{vb}:{hexEncode (Keys.checkpointKey g.toList vb)}:" ++
        join ((Codec.cbWriteOps (AMap.has pre vb)).map showWriteOp) ","
    let model := "writes=[" ++ join writes ++ "] " ++ showDocList docs exist
    some { model, verdict := same model real "C02.save-then-load" }
  | "file" =>
    let f := Codec.fileSave (if pre.isEmpty then none else some pre) state
    let (l, exist) := Codec.fileLoad f vbs
    let model := showLoadedList l exist
    some { model, verdict := same model real "C02.save-then-load" }
  | _ => none

/-! ### large dirty sets in one save (`ck-bulk`) -/

def two64 : Nat := 18446744073709551616

/-- the document of vBucket `vb` in a `ck-bulk` line with salt `K` (harness/l2_checkpoint.go `ckBulkDoc`,
    uint64 arithmetic): with b = K·1000003 + vb, field k is (b+k)·6364136223846793005 + k·1442695040888963407 -/
def bulkDoc (salt vb : Nat) : Doc :=
  let b := (salt * 1000003 + vb) % two64
  let f := fun k => ((b + k) * 6364136223846793005 + k * 1442695040888963407) % two64
  ⟨f 1, f 2, f 3, f 4⟩

/-- `loaded=[vb(U,S,SS,SE) …]` of a real observation → (vb, document); entries that are not a
    document (`vb-`, `vbnil`, …) are left out, so a lookup of them fails -/
def parseLoaded (r : String) : List (Vb × Doc) :=
  match r.splitOn "loaded=[" with
  | [_, rest] =>
    match rest.splitOn "]" with
    | body :: _ =>
      (toks body).filterMap fun it =>
        match it.splitOn "(" with
        | [vb, d] => do some (← vb.toNat?, ← doc? ("(" ++ d))
        | _ => none
    | [] => []
  | _ => []

/-- `ck-bulk cb G n=N lat=MS salt=K pre=M skip=S fail=-|VB`: ONE `cbMetadata.Save` of a large dirty set
    (the real writes overlap: the node answers each after MS ms), then `Load` of all N.

    Model: `Codec.saveThenLoad` = `mdWrite … .ok` then `mdLoad` of Model/Session, exactly as `ck-save`; the
    number of dirty vBuckets plays no role in it.  `Props/C02Codec.save_then_load_id` (every SUBSET written
    from an empty store reads back exactly, zero documents elsewhere) and `save_then_load` (any prior store)
    are for all n, `save_then_load_dirty` is the clause the monitor evaluates: every dirty vBucket with a
    state entry reads back the document saved for it.  With `fail=VB` the store verdict is
    `.part (dirty without VB)`: `storeSucceeds` is false (`part_store_reports_error`), the save must
    return an error.

    Monitor on the REAL observation (C05: "when a save completes successfully the stored checkpoint of
    every advanced vBucket equals its position"):
      `C05.successful-save-skipped-writes`   Save returned nil but a dirty vBucket does not read back what was
                                             saved, or its key never received a successful xattr write
      `C05.failed-write-reported-success`    a write was refused by the node and Save returned nil
      `C02.save-then-load`                   any other difference from the model -/
def hCkBulk (args : List String) (real : Option String) : Option Out := do
  let "cb" :: _g :: rest := args | none
  let n ← (← kvArg rest "n").toNat?
  let _lat ← (← kvArg rest "lat").toNat?
  let salt ← (← kvArg rest "salt").toNat?
  let preM ← (← kvArg rest "pre").toNat?
  let skip ← (← kvArg rest "skip").toNat?
  let failS ← kvArg rest "fail"
  if n = 0 || n > 1024 then none
  let vbs := List.range n
  let dirty := vbs.filter fun vb => skip == 0 || vb % skip != skip - 1
  -- `fail=VB`: that vBucket's first xattr write is refused; `fail=VBv`: its document vanishes between creation and the repeated
  -- write (second xattr write answered KEY_ENOENT) - either way the server did not confirm that vBucket's checkpoint
  let fail : Option Vb ← if failS == "-" then some none else do
    let v ← (if failS.endsWith "v" then (failS.dropEnd 1).toString else failS).toNat?
    if dirty.contains v then some (some v) else none
  let pre : AMap Doc := if preM == 0 then [] else (vbs.filter (· % preM == 0)).map fun vb => (vb, bulkDoc (salt + 1) vb)
  let state := vbs.map fun vb => (vb, bulkDoc salt vb)
  match fail with
  | some fv =>
    let ok := storeSucceeds (Codec.storeState n pre) (.part (dirty.filter (· != fv)))
    let model := if ok then "save=ok" else "save=err"
    let v := match real with
      | none => "-"
      | some r =>
        if r == model then "ok"
        else if (toks r).head? == some "save=ok" then "FAIL C05.failed-write-reported-success"
        else "FAIL C02.save-then-load"
    some { model, verdict := v }
  | none =>
    let (w, docs, exist) := Codec.saveThenLoad n pre state dirty
    let ops := (w.map fun (vb, _) => (Codec.cbWriteOps (AMap.has pre vb)).length).foldl (· + ·) 0
    let model := s!"save=ok keys={w.length} ops={ops} stray=0 " ++ showDocList docs exist
    let v := match real with
      | none => "-"
      | some r =>
        if r == model then "ok"
        else
          let t := toks r
          if t.head? != some "save=ok" then "FAIL C02.bulk-save-failed"
          else
            let loaded := parseLoaded r
            let lost := w.filter fun (vb, d) => AMap.get? loaded vb != some d
            let keys := ((kvArg t "keys").bind String.toNat?).getD 0
            if !lost.isEmpty || keys < w.length then
              s!"FAIL C02.save-then-load C05.successful-save-skipped-writes lost={lost.length} unwritten-keys={w.length - keys}"
            else "FAIL C02.save-then-load"
    some { model, verdict := v }

/-- `ck-ro cb|file G n=N pre=DOCS state=DOCS dirty=VBS`: the read-only wrapper -/
def hCkRo (args : List String) (real : Option String) : Option Out := do
  let kind :: _g :: rest := args | none
  let n ← (← kvArg rest "n").toNat?
  let pre ← docs? (← kvArg rest "pre")
  let state ← docs? (← kvArg rest "state")
  let dirty ← vbs? (← kvArg rest "dirty")
  if n = 0 then none
  let loaded ← match kind with
    | "cb" =>
      let (_, docs, exist) := Codec.saveThenLoad n pre state dirty (readOnly := true)
      some (showDocList docs exist)
    | "file" =>
      let (l, exist) := Codec.fileLoad (if pre.isEmpty then none else some pre) (List.range n)
      some (showLoadedList l exist)
    | _ => none
  let model := "save=ok changed=no same=yes " ++ loaded
  let v := match real with
    | none => "-"
    | some r =>
      let t := toks r
      if !t.contains "changed=no" then "FAIL C02.readonly-never-writes"
      else if !t.contains "same=yes" then "FAIL C02.readonly-load-identical"
      else "ok"
  some { model, verdict := v }

/-- the named contents of harness/l2_checkpoint.go `ckCorruptKinds`, classified as `sonic.Unmarshal`
    treats them (trusted decoder; the table is the differential test of it) -/
def corruptKind : String → Option Codec.Stored
  | "garbage" | "truncated" | "strfield" | "negative" | "fraction" | "overflow" | "array" | "empty"
  | "exponent" | "leadingzero" => some .invalid
  | "null" => some .null
  | "emptyobj" | "nullcp" => some .noCheckpoint
  | "nosnapshot" => some .noSnapshot
  | "extrafields" | "reordered" | "spaces" => some (.doc ⟨7, 5, 4, 6⟩)
  | _ => none

/-- `ck-corrupt cb|file G KIND` -/
def hCkCorrupt (args : List String) (real : Option String) : Option Out := do
  let [kind, _g, what] := args | none
  let st ← corruptKind what
  let (l, exist) ← match kind with
    | "cb" => some (Codec.cbLoad1 (some st))
    | "file" => some (Codec.fileEntry st, true)
    | _ => none
  let model := s!"loaded={showLoaded l} exist={exist}"
  some { model, verdict := same model real "C02.corrupt-as-coded" }

/-- `ck-file missing G n=N` / `ck-file unwritable G f12=…` -/
def hCkFile (args : List String) (real : Option String) : Option Out := do
  match args with
  | "missing" :: _g :: rest =>
    let n ← (← kvArg rest "n").toNat?
    let (l, exist) := Codec.fileLoad none (List.range n)
    let model := showLoadedList l exist
    some { model, verdict := same model real "C02.missing-file" }
  | "unwritable" :: _g :: rest =>
    -- finding F12: `_ = os.WriteFile(...)`; `return nil`.  `f12=swallows` (fact line `ck-f12probe`,
    -- the unchanged tree) → Save reports success; `f12=reports` (repaired tree) → an error.
    -- Either way nothing is written; both trees correspond.
    let f12 ← kvArg rest "f12"
    let swallows := f12 == "swallows"
    let ok := Codec.fileSaveResult true swallows
    let written := (Codec.fileSaveFailed none).isSome
    let model := s!"save={if ok then "ok" else "err"} written={if written then "yes" else "no"}"
    let v := match real with
      | none => "-"
      | some r =>
        if r == "save=ok written=no" then (if swallows then kfF12 else "FAIL C02.failed-save-reported")
        else if r == "save=err written=no" then "ok"
        else "FAIL C02.unwritable"
    some { model, verdict := v }
  | _ => none

/-- `ck-open G lo= hi= mode= reset= docs= high= flog=`: the real stream layer; the model is
    `GoDcp.load` followed by `Rollback.firstReq` per offset -/
def hCkOpen (args : List String) (real : Option String) : Option Out := do
  let _g :: rest := args | none
  let lo ← (← kvArg rest "lo").toNat?
  let hi ← (← kvArg rest "hi").toNat?
  let mode ← kvArg rest "mode"
  let reset ← kvArg rest "reset"
  let docs ← docs? (← kvArg rest "docs")
  let high ← pairs? (← kvArg rest "high")
  let flog ← pairs? (← kvArg rest "flog")
  if lo > hi then none
  let s : St := { cfg := { lo, hi, finite := mode == "fin", resetLatest := reset == "latest" },
                  store := docs, high := high, flog := flog }
  let model := match load s with
    | none => "ahead-not-executed"   -- the guard would fire (harness/l2_checkpoint.go does not run it)
    | some (offs, _, _) => showReqs offs
  -- C02 on the real requests: stored → exactly the stored fields; none anywhere + latest → at high;
  -- otherwise zeros; end = 2^64-1 (infinite) / high (finite).  That is `load` + `firstReq`; the monitor is
  -- equality with it (`Props/C02Codec.resume_exact`, `earliest_zero`, `latest_high` say what `load` gives).
  some { model, verdict := same model real "C02.resume-exact" }

/-! ## stream c15w -/

def kfF13 : String := "KF F13 events reach the consumer while another assigned stream request is still failing"

def hStF7Probe (args : List String) (real : Option String) : Option Out := do
  let [] := args | none
  some { model := match real with | some "propagates" => "propagates" | _ => "swallows" }

/-- a per-vBucket counter of a real observation: `KEY=[vb:n vb:n …]` -/
def parseCounts (key : String) (r : String) : Option (List (Vb × Nat)) :=
  match r.splitOn (key ++ "=[") with
  | [_, rest] =>
    match rest.splitOn "]" with
    | body :: _ => (toks body).mapM pair?
    | [] => none
  | _ => none

def countOf (l : List (Vb × Nat)) (vb : Vb) : Nat := ((l.filter fun p => p.1 == vb).map (·.2)).foldl (· + ·) 0

/-- the four re-openable STREAM_END statuses the harness pushes (stream.go listenEnd l.208-212) -/
def transientEnd (s : String) : Bool :=
  s == "state-changed" || s == "disconnected" || s == "too-slow" || s == "backfill-failed"

/-- `st-case NAME meta= memb= file= lo= hi= mode= reset= docs= high= flog= loaderr= seq= f7= flogerr= openerr= delay= push=`
    `[end=VBS:STATUS:s|r reref=VBS | members=K]`; `seq=ok|err|partial:VBS`.
    `members=K` (group file-partial): the node has K·(hi+1) vBuckets, static membership 1/K, so 0..hi is the assignment
    and `high=` lists every vBucket of the node; the model needs nothing of it beyond `high`.
    meta=file with `docs` non-empty = the metadata file exists: `Startup.startAny` takes the file path
    (`Startup.startFile`); every other line is decided by `Startup.start` exactly as before. -/
def hStCase (args : List String) (real : Option String) : Option Out := do
  let _name :: rest := args | none
  let get := kvArg rest
  let metaT ← get "meta"
  let memb ← get "memb"
  let file ← get "file"
  let lo ← (← get "lo").toNat?
  let hi ← (← get "hi").toNat?
  let docs ← docs? (← get "docs")
  let high ← pairs? (← get "high")
  let flog ← pairs? (← get "flog")
  let loadErr ← vbs? (← get "loaderr")
  let flogErr ← vbs? (← get "flogerr")
  let openErr ← vbs? (← get "openerr")
  let seqS ← get "seq"
  let f7 ← get "f7"
  let delay := (← get "delay") == "1"
  let push := (← get "push") == "1"
  if lo > hi then none
  let st : St := { cfg := { lo, hi, finite := (← get "mode") == "fin", resetLatest := (← get "reset") == "latest" },
                   store := docs, high := high, flog := flog }
  let seq : Startup.SeqAnswer ←
    if seqS == "err" then some (if f7 == "propagates" then Startup.SeqAnswer.errPropagated else .errSwallowed)
    else if seqS == "ok" then some .ok
    else match seqS.splitOn ":" with
      | ["partial", vs] => do
        let m ← vbs? vs
        if m.isEmpty then none else some (.missing m)
      | _ => none
  let partialAns := match seq with | .missing _ => true | _ => false
  -- the optional stream-end fields
  let endCase := (get "end").isSome
  let (ended, reopenErr) : List Vb × List Vb ← match get "end" with
    | none => some ([], [])
    | some e => match e.splitOn ":" with
      | [vs, status, phase] => do
        let ev ← vbs? vs
        let rr ← vbs? (← get "reref")
        if ev.isEmpty || !transientEnd status || !(phase == "s" || phase == "r") then none else some (ev, rr)
      | _ => none
  let assigned := vbRange st.cfg
  let c : Startup.Case := { metaType := metaT, memberType := memb, st, seq,
                            loadErr := assigned.any loadErr.contains, flogErr, openErr, ended, reopenErr }
  -- config.GetFileMetadata: type "file" without a file name panics in NewFSMetadata (dcp.go Start, first switch)
  let exit := if metaT == "file" && file != "set" then Startup.Exit.fail "file-name-missing" else Startup.startAny c
  -- case names `nosnap<K>x<VB>`: the stored document of VB has NO snapshot section (`doc.Checkpoint.Snapshot == nil`): checkpoint.Load
  -- l.187 dereferences it inside the map's Range goroutine - a fail-stop (class `nil-deref`) for every start-up that gets as far as
  -- building the offsets; nothing is delivered
  let noSnapVb : Option Vb := if _name.startsWith "nosnap" then ((_name.splitOn "x").getLast?.bind String.toNat?) else none
  let exit := match noSnapVb, exit with
    | some v, .running _ => if assigned.contains v && AMap.has docs v then Startup.Exit.fail "nil-deref" else exit
    | some v, .fail "open-error" => if assigned.contains v && AMap.has docs v then Startup.Exit.fail "nil-deref" else exit
    | _, _ => exit
  -- the file back end found its file: `Load` hands back the file's map, not one document per assigned vBucket
  let fileEx := file == "set" && Startup.fileExists c
  let fileMissing := if fileEx then Startup.fileMissing st else []
  -- traffic: one mutation per opened stream whose high seqno is not 2^64-1 (harness rule)
  let pushed := fun (offs : List (Vb × Offset)) =>
    (offs.filter fun p => push && Startup.trueHigh c p.1 != maxU64).length
  -- case names `lpanic<K>`: the consumer's listener panics on the first event it is handed (before acknowledging it). Nothing in the
  -- library recovers it (dcp.go simplifiedConsumer.ConsumeEvent calls the listener directly): the process ends with the consumer's panic
  let listenerPanics := _name.startsWith "lpanic"
  let exit := match exit with
    | .running offs => if listenerPanics && pushed offs > 0 then Startup.Exit.fail "listener-panic" else exit
    | _ => exit
  let lateSome := Startup.deliversBeforeStopAny c delay push
  let model := match exit with
    | .running offs =>
      if endCase then
        -- every logged request: the first round and the re-open round (`Startup.reRequests`), then the ends pushed
        let endedAssigned := (sortBy id ended.eraseDups).filter assigned.contains
        s!"{showReqs (offs ++ Startup.reRequests c offs)} events={pushed offs} " ++
          "ends=[" ++ join (endedAssigned.map fun vb => s!"{vb}:{Startup.endsOf c vb}") ++ "] refused=[]"
      else s!"{showReqs offs} events={pushed offs}"
    | .fail cls =>
      s!"exit-fail:{cls} events={if lateSome || cls == "listener-panic" then "some" else "none"}" ++
        (if endCase then s!" rereqs={if cls == "reopen-gave-up" then Startup.reopenAttempts else 0}" else "")
  let model := match exit with | .running _ => "running " ++ model | _ => model
  -- a prompt error answer racing with traffic: both `none` and `some` are possible
  let model := match exit, real with
    | .fail "open-error", some r =>
      if !delay && push && fileMissing.isEmpty && r == "exit-fail:open-error events=some" then r else model
    | _, _ => model
  -- the property on the REAL observation: `reasons` = why this start-up must be refused, judged on the
  -- TRUE server state (`load st` with the real high seqnos, whatever the client made of the answer)
  -- a PARTIAL answer is judged on what the server reported: a left-out vBucket counts as high seqno 0 (that is the
  -- reading of the unchanged client, `Props/C15.partial_seqnos_missing_is_zero`), so a stored seqno > 0 there is "ahead"
  -- behind an existing file EVERY stored vBucket is range-checked, assigned or not (`Startup.loadFile`)
  let ahead := if fileEx then (Startup.loadFile st).isNone || (partialAns && (Startup.loadFile (Startup.seenState c)).isNone)
               else (load st).isNone || (partialAns && (load (Startup.seenState c)).isNone)
  let reopenRefused := assigned.any fun vb => ended.contains vb && reopenErr.contains vb
  let reasons : List String :=
    (if !Startup.knownMetadata metaT || (metaT == "file" && file != "set") then ["metadata-type"] else []) ++
    (if !Startup.knownMembership memb then ["membership-type"] else []) ++
    (if c.loadErr then ["load-error"] else []) ++
    (if seqS == "err" then ["seqno-error"] else []) ++
    (if !fileEx && Startup.latestBranch st && assigned.any flogErr.contains then ["failover-error"] else []) ++
    (if ahead then ["checkpoint-ahead"] else []) ++
    -- an assigned vBucket the existing file does not name: no basis for it, the session must not run
    -- (`Props/C15File.file_partial_basis_failstop`)
    (if !fileMissing.isEmpty then ["partial-basis"] else []) ++
    (if assigned.any openErr.contains then ["open-error"] else []) ++
    (if reopenRefused then ["reopen-refused"] else [])
  let v := match real with
    | none => "-"
    | some r =>
      let t := toks r
      if t.head? == some "running" then
        match reasons with
        | [] =>
          -- on the REAL request log: complete (exactly one request per assigned vBucket) and
          -- reachable (start seqno ≤ the server's true high seqno)
          (match parseReqs r with
           | some reqs =>
             if (if endCase then (reqs.map (·.1)).eraseDups != assigned else reqs.map (·.1) != assigned) then "FAIL C15.session-incomplete"
             else if !(reqs.all fun p => (p.2.getD 2 0) ≤ Startup.reportedHigh c p.1) then "FAIL C15.start-beyond-high"
             -- a stream the server ended must have been opened again (`Props/C15.running_every_vbucket_live`):
             -- per assigned vBucket  accepted requests − pushed ends ≥ 1,  and every request of a vBucket names the same position
             else if endCase && !(match parseCounts "ends" r, parseCounts "refused" r with
                 | some ends, some refused => assigned.all fun vb =>
                     (reqs.filter fun p => p.1 == vb).length ≥ countOf refused vb + countOf ends vb + 1
                 | _, _ => false) then "FAIL C15.ended-stream-not-reopened"
             else if endCase && !(reqs.all fun p => reqs.all fun q => p.1 != q.1 || p.2 == q.2) then "FAIL C15.reopen-other-position"
             else
               -- C06 (inductive from valid stored checkpoints): every request names a valid resume point
               let storeValid := st.store.all fun (_, d) => d.ss ≤ d.seq && d.seq ≤ d.se
               verdict (!storeValid || reqs.all fun p => p.2.getD 4 0 ≤ p.2.getD 2 0 && p.2.getD 2 0 ≤ p.2.getD 5 0) "C06.valid-offset"
           | none => "FAIL C15.unparsable")
        | ["seqno-error"] => if f7 == "swallows" then kfF7 else "FAIL C15.ran-despite-seqno-error"
        | why :: _ =>
          -- a session that should not exist: besides C15, do its requests at least name valid resume points (C06)?
          -- fields of a logged request: flags, uuid, start, end, snapStart, snapEnd
          let invalid := (st.store.all fun (_, d) => d.ss ≤ d.seq && d.seq ≤ d.se) && match parseReqs r with
            | some reqs => reqs.any fun p =>
                let st := p.2.getD 2 0; let ss := p.2.getD 4 0; let se := p.2.getD 5 0
                !(ss ≤ st && st ≤ se)
            | none => false
          (if why == "partial-basis" then "FAIL C15.partial-basis-running" else s!"FAIL C15.ran-despite-{why}") ++
            (if invalid then " C06.valid-offset" else "")
      else if (t.head?.getD "").startsWith "exit-fail:" then
        if t.contains "events=some" then
          -- only sibling traffic can reach the consumer before the process stops (finding F13)
          (if push then kfF13 else "FAIL C15.events-on-refusal")
        else "ok"
      else "FAIL C15.unparsable"
  some { model, verdict := v }

/-! ## stream c14w (the key commands proper are those of Driver/Keys.lean) -/

/-- `key-wire-id HEXID` → `uuid` | `other`: `Spec.C14K.uuidLike` with the dashes in place -/
def hKeyWireId (args : List String) (real : Option String) : Option Out := do
  let [ids] := args | none
  let id ← hexDecode ids
  let dashes := [8, 13, 18, 23].all fun i => id[i]? == some '-'
  let hexes := (List.range id.length).all fun i =>
    [8, 13, 18, 23].contains i || (match id[i]? with | some ch => ch.isDigit || ('a' ≤ ch && ch ≤ 'f') | none => false)
  let model := if Spec.C14K.uuidLike id && dashes && hexes then "uuid" else "other"
  let v := match real with
    | none => "-"
    | some r => verdict (r == "uuid" && !id.contains ':') "C14.instance-id-shape"
  some { model, verdict := v }

/-- `key-wire-count membership HEXGROUP` → `2`: index document + instance document, nothing else -/
def hKeyWireCount (args : List String) (real : Option String) : Option Out := do
  let ["membership", gs] := args | none
  let _ ← hexDecode gs
  some { model := "2", verdict := same "2" real "C14.unaccounted-key" }

/-- `key-wire-dot HEXGROUP save|load|clear|control` → `failstop writes=0` for a rejected name -/
def hKeyWireDot (args : List String) (real : Option String) : Option Out := do
  let [gs, what] := args | none
  let g ← hexDecode gs
  let rejected := (Keys.checkpointID 3 g).isNone
  let model ←
    if rejected then some "failstop writes=0"
    else match what with
      | "save" | "control" => some "no-failstop writes=3"     -- MUTATEIN(KEY_ENOENT), SET, MUTATEIN
      | "load" | "clear" => some (if what == "clear" then "no-failstop writes=1" else "no-failstop writes=0")
      | _ => none
  let v := match real with
    | none => "-"
    | some r => if rejected then verdict (r == "failstop writes=0") "C14.dotted-name-not-rejected" else "ok"
  some { model, verdict := v }

end Wire

def wireHandlers : List (String × (List String → Option String → Option Out)) :=
  [("ao-wire", Wire.hAoWire), ("ao-wire-f7probe", Wire.hAoF7Probe), ("ao-wire-goroutines", Wire.hAoGoroutines),
   ("w-seqnos-multi", Wire.hSeqnosMulti),
   ("ck-f12probe", Wire.hCkF12Probe), ("ck-rt", Wire.hCkRt), ("ck-save", Wire.hCkSave), ("ck-ro", Wire.hCkRo), ("ck-bulk", Wire.hCkBulk),
   ("ck-corrupt", Wire.hCkCorrupt), ("ck-file", Wire.hCkFile), ("ck-open", Wire.hCkOpen),
   ("st-f7probe", Wire.hStF7Probe), ("st-case", Wire.hStCase),
   ("key-wire-id", Wire.hKeyWireId), ("key-wire-count", Wire.hKeyWireCount), ("key-wire-dot", Wire.hKeyWireDot)]

end GoDcp.Driver
