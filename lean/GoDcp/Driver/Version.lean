import GoDcp.Driver.Util
import GoDcp.Model.Version
import GoDcp.Spec.C18
/-!
Line-protocol handlers of slice C18 (stream `c18`, commands `ver-*`).

Text arguments (version strings, editions) travel as one token `=<enc>`: bytes
0x21..0x7e except `%` stand for themselves, every other byte is `%XX` (upper
case hex).  The model sees one `Char` per byte.

    ver-intsize                          → `64`
    ver-cmp  a0 a1 a2 a3 b0 b1 b2 b3     → `HEL HEL`   Higher/Equal/Lower bits of (a,b) and (b,a)
    ver-tri  a(4) b(4) c(4)              → six `HEL` groups: ab ba ac ca bc cb
    ver-gate K a(4) b(4)                 → `XCS XCS`   K = 1 Magma / 0 not; bits = expiry opcode,
                                            change streams, serial close, for a and for b
    ver-parse =<enc>                     → `ok M m p b` | `err major|minor|patch|empty`
    ver-render F M m p b =<enc edition>  → `=<enc of the rendered text> <parse result>`
    ver-gates-src                        → `expiry=<rle> changeStreams=<rle> serialClose=<rle>`
        truth tables of the three gate conditions found in the Go sources over
        the fixed sample grid `samplePoints` (see `hGatesSrc`)
-/
namespace GoDcp.Driver
open GoDcp GoDcp.Version GoDcp.Spec.C18

/-! ### text encoding -/

def hexVal (c : Char) : Option Nat :=
  if '0' ≤ c ∧ c ≤ '9' then some (c.toNat - 48)
  else if 'A' ≤ c ∧ c ≤ 'F' then some (c.toNat - 55)
  else if 'a' ≤ c ∧ c ≤ 'f' then some (c.toNat - 87)
  else none

def decodeBytes : List Char → Option (List Char)
  | [] => some []
  | '%' :: a :: b :: r => do
    let x ← hexVal a
    let y ← hexVal b
    let t ← decodeBytes r
    some (Char.ofNat (16 * x + y) :: t)
  | '%' :: _ => none
  | c :: r => do
    let t ← decodeBytes r
    some (c :: t)

/-- `=<enc>` → bytes -/
def decodeArg (s : String) : Option (List Char) :=
  match s.toList with
  | '=' :: r => decodeBytes r
  | _ => none

def hexDigit (n : Nat) : Char := if n < 10 then Char.ofNat (48 + n) else Char.ofNat (55 + n)

def encodeBytes : List Char → List Char
  | [] => []
  | c :: r =>
    if 0x21 ≤ c.toNat ∧ c.toNat ≤ 0x7e ∧ c ≠ '%' then c :: encodeBytes r
    else '%' :: hexDigit (c.toNat / 16 % 16) :: hexDigit (c.toNat % 16) :: encodeBytes r

def encodeArg (l : List Char) : String := String.ofList ('=' :: encodeBytes l)

/-! ### observations -/

def bit (b : Bool) : String := if b then "1" else "0"

def showTri (t : Tri) : String := bit t.h ++ bit t.e ++ bit t.l

def bit? (c : Char) : Option Bool := if c = '1' then some true else if c = '0' then some false else none

def tri? (s : String) : Option Tri :=
  match s.toList with
  | [a, b, c] => do some ⟨← bit? a, ← bit? b, ← bit? c⟩
  | _ => none

def showGates (g : Gates) : String := bit g.expiry ++ bit g.changeStreams ++ bit g.serialClose

def gates? (s : String) : Option Gates :=
  match s.toList with
  | [a, b, c] => do some ⟨← bit? a, ← bit? b, ← bit? c⟩
  | _ => none

def ver? : List String → Option Version
  | [a, b, c, d] => do some ⟨← int? a, ← int? b, ← int? c, ← int? d⟩
  | _ => none

def showParse : ParseRes → String
  | .ok v => s!"ok {v.major} {v.minor} {v.patch} {v.build}"
  | .errNoMajor => "err empty"
  | .errMajor => "err major"
  | .errMinor => "err minor"
  | .errPatch => "err patch"

def parseObs? (l : List String) : Option ParseRes :=
  match l with
  | ["ok", a, b, c, d] => do some (.ok ⟨← int? a, ← int? b, ← int? c, ← int? d⟩)
  | ["err", "empty"] => some .errNoMajor
  | ["err", "major"] => some .errMajor
  | ["err", "minor"] => some .errMinor
  | ["err", "patch"] => some .errPatch
  | _ => none

def clauseVerdict : Option String → String
  | none => "ok"
  | some c => s!"FAIL {c}"

/-! ### handlers -/

def hIntSize (args : List String) (_ : Option String) : Option Out :=
  match args with
  | [] => some { model := "64" }
  | _ => none

def hCmp (args : List String) (real : Option String) : Option Out := do
  let v ← ver? (args.take 4)
  let w ← ver? (args.drop 4)
  let model := s!"{showTri (triOf v w)} {showTri (triOf w v)}"
  let verdict := match real with
    | none => "-"
    | some r => match (toks r).mapM tri? with
      | some [vw, wv] => clauseVerdict (pairClause v w vw wv)
      | _ => "FAIL C18.unparsable"
  some { model, verdict }

def hTri (args : List String) (real : Option String) : Option Out := do
  let a ← ver? (args.take 4)
  let b ← ver? ((args.drop 4).take 4)
  let c ← ver? (args.drop 8)
  let m := [triOf a b, triOf b a, triOf a c, triOf c a, triOf b c, triOf c b]
  let verdict := match real with
    | none => "-"
    | some r => match (toks r).mapM tri? with
      | some [ab, ba, ac, ca, bc, cb] => clauseVerdict (triClause a b c ab ba ac ca bc cb)
      | _ => "FAIL C18.unparsable"
  some { model := join (m.map showTri), verdict }

def hGate (args : List String) (real : Option String) : Option Out := do
  let k :: rest := args | none
  let isMagma ← bit? (← k.toList.head?)
  if k.length ≠ 1 then none
  let v ← ver? (rest.take 4)
  let w ← ver? (rest.drop 4)
  let model := s!"{showGates (gatesOf isMagma v)} {showGates (gatesOf isMagma w)}"
  let verdict := match real with
    | none => "-"
    | some r => match (toks r).mapM gates? with
      | some [gv, gw] => clauseVerdict (gateClause isMagma v w gv gw)
      | _ => "FAIL C18.unparsable"
  some { model, verdict }

/-- no monitor: the property says nothing about arbitrary text; the line is
    compared with the model of `nodeVersionFromString` only -/
def hParse (args : List String) (_ : Option String) : Option Out := do
  let [a] := args | none
  let s ← decodeArg a
  some { model := showParse (parse s) }

def hRender (args : List String) (real : Option String) : Option Out := do
  let [f, a, b, c, d, e] := args | none
  let form ← nat? f
  let M ← nat? a
  let m ← nat? b
  let p ← nat? c
  let bd ← nat? d
  let ed ← decodeArg e
  let text := renderForm form M m p bd ed
  let model := s!"{encodeArg text} {showParse (parse text)}"
  let verdict := match real with
    | none => "-"
    | some r => match parseObs? ((toks r).drop 1) with
      | some pr => clauseVerdict (renderClause form M m p bd pr)
      | none => if fits M && fits m && fits p && fits bd then "FAIL C18.parse-render" else "ok"
  some { model, verdict }

/-! ### gate conditions read from the Go sources

The harness parses `dcp.go` and `stream/stream.go` with go/parser, finds the
conditions that set `useExpiryOpcode`, `useChangeStreams` and
`streamEndNotSupportedData`, and – when a condition is a Boolean combination
of `version.Higher/Equal/Lower(<version constant>)` and `bucketInfo.IsMagma()` –
evaluates it (with the REAL comparison methods) on every point of the sample
grid below; it reports the truth table, run-length encoded.  Any semantically
equal rewrite of a condition gives the same table.  A condition whose shape is
outside that little language is reported as `unknown`; the model side prints the
expected table, so the broken source tie shows as a divergence (the behavioural `ver-gate` / `ver-gate-e2e` lines
decide whether there is a failing input).
-/

def range' (lo hi : Int) : List Int := List.map (fun (i : Nat) => lo + Int.ofNat i) (List.range (hi - lo + 1).toNat)

/-- majors 4..8 × minors 1..6 × patch -1..1 × build -1..1, in lexicographic
    order: contains every version within ±1 (per component) of 5.5.0-0, 6.5.0-0, 7.2.0-0 -/
def samplePoints : List Version :=
  (range' 4 8).flatMap fun M => (range' 1 6).flatMap fun m =>
    (range' (-1) 1).flatMap fun p => (range' (-1) 1).map fun b => ⟨M, m, p, b⟩

def rleGo : Bool → Nat → List Bool → List String
  | cur, n, [] => [s!"{bit cur}x{n}"]
  | cur, n, b :: r => if b == cur then rleGo cur (n + 1) r else s!"{bit cur}x{n}" :: rleGo b 1 r

/-- `0x121,1x149` -/
def rle : List Bool → String
  | [] => ""
  | b :: r => ",".intercalate (rleGo b 1 r)

def expectedGateTables : List (String × String) :=
  [("expiry", rle (samplePoints.map gateExpiry)),
   ("changeStreams", rle (samplePoints.map (gateChangeStreams false) ++ samplePoints.map (gateChangeStreams true))),
   ("serialClose", rle (samplePoints.map gateSerialClose))]

/-- `ver-gate-e2e =<enc version text> magma|couchstore` → `exp=0|1 cs=0|1`: the DCP_CONTROL keys the REAL `dcp.NewDcp`
    negotiates with a simulated node reporting that version text and storage back end = the model's parser followed by the model's
    gates (`gateExpiry`, `gateChangeStreams`); an unparsable text makes start-up fail -/
def hGateE2E (args : List String) (real : Option String) : Option Out := do
  let [a, be] := args | none
  let text ← decodeArg a
  let isMagma ← if be == "magma" then some true else if be == "couchstore" then some false else none
  let model := match parse text with
    | .ok v => s!"exp={bit (gateExpiry v)} cs={bit (gateChangeStreams isMagma v)}"
    | _ => "start-error"
  let verdict := match real with
    | none => "-"
    | some r => if r == model then "ok" else "FAIL C18.gate-threshold"
  some { model, verdict }

def hGatesSrc (args : List String) (real : Option String) : Option Out := do
  let [] := args | none
  let realFields : List (String × String) := match real with
    | none => []
    | some r => (toks r).filterMap fun t => match t.splitOn "=" with
      | [k, v] => some (k, v)
      | _ => none
  -- a condition outside the extractor's little language is reported as `unknown` by the harness: the tie through the source no longer
  -- checks, which is reported (a divergence); the behavioural lines (`ver-gate`, `ver-gate-e2e`) decide whether a failing input exists
  let _ := realFields
  let fields := expectedGateTables.map fun (k, v) => s!"{k}={v}"
  some { model := join fields }

def versionHandlers : List (String × (List String → Option String → Option Out)) :=
  [("ver-intsize", hIntSize), ("ver-cmp", hCmp), ("ver-tri", hTri), ("ver-gate", hGate),
   ("ver-parse", hParse), ("ver-render", hRender), ("ver-gates-src", hGatesSrc), ("ver-gate-e2e", hGateE2E)]

end GoDcp.Driver
