import GoDcp.Proofs.SessionLemmasB
/-!
# C05 — settled progress becomes durable; a failed save loses nothing

* `clean_save_no_write`, `quiescent_save_then_clean` – a save issued when nothing changed writes nothing
* `failed_save_retains`, `failed_store_step_retains`, `failed_then_ok_stores` – a failed save forgets nothing
* `quiescent_save_stores_dirty` – a successful quiescent save stores every dirty vBucket's position
* `C05_full` is refuted twice: `C05_flag_refuted` (finding F1), `C05_unmark_refuted`
  and `C05_overlap_refuted` (finding F2)
* `C05_partial` – the clause holds for one-session runs that show neither pattern
  (one session: no open / close / crash / setStore / rebalance; `.reopen` and `.setFlog` are inside)
* `C05_rebalance_refuted` – a rebalance discards unsaved dirty marks like `close` does;
  `quiet_rebalance`, `C05_partial_after_rebalance` – the history after it is a fresh one
-/
namespace GoDcp.C05
open GoDcp

/-! ## a save issued when nothing changed performs no write -/

/-- **clean_save_no_write**: with the flag down a whole save – whatever the store
    would answer – changes nothing, calls `Metadata.Save` not at all and reports
    "no need to save" (or, with the save lock taken by another saver, nothing at all). -/
theorem clean_save_no_write (s : St) (res : StoreRes) (h : s.anyDirty = false) :
    (saveAll s res).1 = s ∧
    ((saveAll s res).2 = [.nowrite] ∨ (s.lockHeld = true ∧ (saveAll s res).2 = [.bad "lock held"])) := by
  rw [saveAll_eq]
  cases hl : s.lockHeld <;> simp [h]

theorem clean_save_no_write' (s : St) (res : StoreRes) (h : s.anyDirty = false) (hl : s.lockHeld = false) :
    saveAll s res = (s, [.nowrite]) := by
  rw [saveAll_eq]; simp [h, hl]

/-- the micro-stepped save with the flag down: no saver is created -/
theorem clean_begin_no_saver (s : St) (k : Nat) (h : s.anyDirty = false) :
    (svBegin s k).1 = s ∧ ((svBegin s k).2 = [.flag false] ∨ (svBegin s k).2 = [.bad "saver exists"]) := by
  cases hk : s.savers.has k with
  | true => rw [svBegin_of_exists hk]; simp
  | false => rw [svBegin_of_clean hk h]; simp

/-- ops that can raise the flag: an acknowledgement, `Open` (latest-reset start) and a
    rebalance (it runs the same `checkpoint.Load` as `Open`, whose latest-reset start raises the flag) -/
def raisesFlag : Op → Bool
  | .ack _ | .open | .rebalance _ _ => true
  | _ => false

theorem flag_stays_down (s : St) (op : Op) (h : s.anyDirty = false) (hop : raisesFlag op = false) :
    (step s op).1.anyDirty = false := by
  cases op with
  | ack i => simp [raisesFlag] at hop
  | «open» => simp [raisesFlag] at hop
  | rebalance lo hi => simp [raisesFlag] at hop
  | save res => simp only [step]; rw [(clean_save_no_write s res h).1]; exact h
  | svUnmark k => simp only [step, svUnmark]; (repeat' split) <;> first | rfl | exact h
  | crash => rfl
  | _ => rw [step_anyDirty s (by rfl)]; exact h

theorem flag_stays_down_run (s : St) (ops : List Op) (h : s.anyDirty = false)
    (hops : ∀ op ∈ ops, raisesFlag op = false) : (run s ops).anyDirty = false := by
  induction ops generalizing s with
  | nil => exact h
  | cons op r ih =>
    exact ih _ (flag_stays_down s op h (hops op List.mem_cons_self))
      (fun o ho => hops o (List.mem_cons_of_mem _ ho))

/-- a whole successful save always leaves the flag down -/
theorem save_ok_flag_down (s : St) (hl : s.lockHeld = false) : (saveAll s .ok).1.anyDirty = false := by
  rw [saveAll_eq]
  cases ha : s.anyDirty <;> simp [hl, ha, storeSucceeds]

/-- **quiescent_save_then_clean**: after a successful quiescent save, as long as no
    acknowledgement arrives (and no new stream is opened, neither by `Open` nor by a
    rebalance – `raisesFlag` is true of `.ack`, `.open`, `.rebalance`), the flag is down, so
    every later save – whatever else happened: server events, persistence
    reports, reads – performs no write. -/
theorem quiescent_save_then_clean (s : St) (ops : List Op) (res : StoreRes) (hl : s.lockHeld = false)
    (hops : ∀ op ∈ ops, raisesFlag op = false) :
    (run (saveAll s .ok).1 ops).anyDirty = false ∧
    (saveAll (run (saveAll s .ok).1 ops) res).1 = run (saveAll s .ok).1 ops := by
  have h := flag_stays_down_run _ ops (save_ok_flag_down s hl) hops
  exact ⟨h, (clean_save_no_write _ res h).1⟩

/-! ## a successful quiescent save stores every dirty vBucket -/

theorem foldl_set_fun (w : List (Vb × Doc)) (m : AMap Doc) :
    w.foldl (fun m (x : Vb × Doc) => match x with | (vb, d) => m.set vb d) m =
      w.foldl (fun m p => AMap.set m p.1 p.2) m := by
  congr 1

/-- `mdWrite` with the real (not read-only) store and an `ok` answer -/
theorem mdWrite_ok (s : St) (st : List (Vb × Doc)) (d : List Vb) (hro : s.cfg.readOnly = false) :
    (mdWrite s st d .ok).1 =
      (st.filter fun p => d.contains p.1).foldl (fun m p => AMap.set m p.1 p.2) s.store := by
  unfold mdWrite
  simp only [hro, Bool.false_eq_true, if_false]

/-- the vBuckets a store call may touch are dirty ones -/
theorem mdWrite_get?_not_dirty (s : St) (st : List (Vb × Doc)) (d : List Vb) (res : StoreRes) (vb : Vb)
    (h : vb ∉ d) : (mdWrite s st d res).1.get? vb = s.store.get? vb := by
  unfold mdWrite
  split
  · rfl
  · simp only
    rw [foldl_set_fun]
    apply B.get?_foldl_set_of_not_mem
    intro hm
    obtain ⟨a, ha⟩ := AMap.exists_mem_of_mem_keys hm
    have hcand : (vb, a) ∈ st.filter (fun x => match x with | (vb, _) => d.contains vb) := by
      cases res with
      | ok => exact ha
      | fail => simp at ha
      | part ws => exact (List.mem_filter.mp ha).1
    have := (List.mem_filter.mp hcand).2
    simp at this
    exact h this

theorem keys_dumpState (s : St) : AMap.keys (dumpState s) = AMap.keys s.offsets := by
  simp [dumpState, AMap.keys, List.map_map, Function.comp_def]

theorem nodup_keys_filter {α : Type} {m : AMap α} (p : Vb × α → Bool) (h : (AMap.keys m).Nodup) :
    (AMap.keys (m.filter p)).Nodup := by
  unfold AMap.keys at *
  exact List.Nodup.sublist (List.Sublist.map _ List.filter_sublist) h

theorem mem_dumpState_of_get? {s : St} {vb : Vb} {o : Offset} (h : s.offsets.get? vb = some o) :
    (vb, o.toDoc) ∈ dumpState s := by
  unfold dumpState
  exact List.mem_map.mpr ⟨(vb, o), AMap.mem_of_get?_eq_some h, rfl⟩

/-- a store call that answers `ok` stores the dumped document of every dirty vBucket -/
theorem mdWrite_ok_get? (s : St) (st : List (Vb × Doc)) (d : List Vb) (hro : s.cfg.readOnly = false)
    (hn : (AMap.keys st).Nodup) (vb : Vb) (doc : Doc) (hm : (vb, doc) ∈ st) (hd : vb ∈ d) :
    (mdWrite s st d .ok).1.get? vb = some doc := by
  rw [mdWrite_ok s st d hro]
  apply B.get?_foldl_set_of_mem _ (nodup_keys_filter _ hn)
  exact List.mem_filter.mpr ⟨hm, by simpa using hd⟩

/-- **quiescent_save_stores_dirty**: a whole save (nothing interleaved) with the
    flag up, the lock free, a real store that answers `ok`: afterwards every
    vBucket of the current dirty list that has a position reads back exactly that
    position, every other vBucket's document is untouched, the flag is down and
    the dirty list is empty. -/
theorem quiescent_save_stores_dirty (s : St) (hl : s.lockHeld = false) (ha : s.anyDirty = true)
    (hro : s.cfg.readOnly = false) (hn : (AMap.keys s.offsets).Nodup) :
    (∀ vb ∈ curDirty s, ∀ o, s.offsets.get? vb = some o →
        (saveAll s .ok).1.store.get? vb = some o.toDoc) ∧
    (∀ vb, vb ∉ curDirty s → (saveAll s .ok).1.store.get? vb = s.store.get? vb) ∧
    (saveAll s .ok).1.anyDirty = false ∧ curDirty (saveAll s .ok).1 = [] ∧
    (saveAll s .ok).1.offsets = s.offsets := by
  rw [saveAll_eq]
  simp only [hl, ha, storeSucceeds, Bool.false_eq_true, if_false, if_true, Bool.not_true]
  refine ⟨?_, ?_, trivial, ?_, trivial⟩
  · intro vb hvb o ho
    exact mdWrite_ok_get? s _ _ hro (by rw [keys_dumpState]; exact hn) vb _ (mem_dumpState_of_get? ho) hvb
  · intro vb hvb
    exact mdWrite_get?_not_dirty s _ _ _ vb hvb
  · simp [curDirty, AMap.get?_set_same]

/-! ## a failed save loses nothing -/

theorem storeSucceeds_false_iff (s : St) (res : StoreRes) :
    storeSucceeds s res = false ↔ res ≠ .ok ∧ s.cfg.readOnly = false := by
  cases res <;> simp [storeSucceeds]

/-- **failed_save_retains** (whole save): if the store rejects the save, times out,
    or fails after any subset of the per-vBucket writes, the positions, every
    dirty map, the current generation and the flag are exactly as before (only
    the store may hold the documents that did land). -/
theorem failed_save_retains (s : St) (res : StoreRes) (hfail : storeSucceeds s res = false) :
    (saveAll s res).1.offsets = s.offsets ∧ (saveAll s res).1.dirtyMaps = s.dirtyMaps ∧
    (saveAll s res).1.curGen = s.curGen ∧ (saveAll s res).1.nextGen = s.nextGen ∧
    (saveAll s res).1.anyDirty = s.anyDirty ∧ (saveAll s res).1.savers = s.savers ∧
    (saveAll s res).1.lockHeld = s.lockHeld := by
  rw [saveAll_eq]
  cases hl : s.lockHeld <;> cases ha : s.anyDirty <;> simp [hfail, hl, ha]

/-- **failed_save_retains** (micro-stepped save): the failing `metadata.Save` return
    leaves positions, dirty maps, generation and flag alone; the saver is gone and
    the save lock is free again. -/
theorem failed_store_step_retains (s : St) (k : Nat) (res : StoreRes) (st : List (Vb × Doc)) (d : List Vb)
    (hk : s.savers.get? k = some (.dumped st d)) (hfail : storeSucceeds s res = false) :
    (svStore s k res).1.offsets = s.offsets ∧ (svStore s k res).1.dirtyMaps = s.dirtyMaps ∧
    (svStore s k res).1.curGen = s.curGen ∧ (svStore s k res).1.nextGen = s.nextGen ∧
    (svStore s k res).1.anyDirty = s.anyDirty ∧ (svStore s k res).1.savers.get? k = none ∧
    (svStore s k res).1.lockHeld = false ∧
    (svStore s k res).2 = [.written (mdWrite s st d res).2, .saveErr] := by
  rw [svStore_of_dumped res hk]
  have := AMap.get?_filter_ne s.savers k k
  simp only [ne_eq, decide_not, if_true] at this
  simp [hfail, dropSaver, this]

/-- **the next successful save stores it**: after a failed whole save, a quiescent
    save that succeeds stores the current position of every vBucket that was dirty. -/
theorem failed_then_ok_stores (s : St) (res : StoreRes) (hfail : storeSucceeds s res = false)
    (hl : s.lockHeld = false) (ha : s.anyDirty = true) (hn : (AMap.keys s.offsets).Nodup) :
    ∀ vb ∈ curDirty s, ∀ o, s.offsets.get? vb = some o →
      (saveAll (saveAll s res).1 .ok).1.store.get? vb = some o.toDoc := by
  obtain ⟨h1, h2, h3, _, h5, _, h7⟩ := failed_save_retains s res hfail
  have hro : (saveAll s res).1.cfg.readOnly = false := by
    rw [saveAll_cfg]; exact ((storeSucceeds_false_iff s res).mp hfail).2
  have := (quiescent_save_stores_dirty (saveAll s res).1 (by rw [h7]; exact hl) (by rw [h5]; exact ha) hro
    (by rw [h1]; exact hn)).1
  intro vb hvb o ho
  exact this vb (by rw [B.curDirty_congr h2 h3]; exact hvb) o (by rw [h1]; exact ho)

/-- the same after a failing micro-stepped save -/
theorem failed_store_step_then_ok (s : St) (k : Nat) (res : StoreRes) (st : List (Vb × Doc)) (d : List Vb)
    (hk : s.savers.get? k = some (.dumped st d)) (hfail : storeSucceeds s res = false)
    (ha : s.anyDirty = true) (hn : (AMap.keys s.offsets).Nodup) :
    ∀ vb ∈ curDirty s, ∀ o, s.offsets.get? vb = some o →
      (saveAll (svStore s k res).1 .ok).1.store.get? vb = some o.toDoc := by
  obtain ⟨h1, h2, h3, _, h5, _, h7, _⟩ := failed_store_step_retains s k res st d hk hfail
  have hro : (svStore s k res).1.cfg.readOnly = false := by
    rw [svStore_cfg]; exact ((storeSucceeds_false_iff s res).mp hfail).2
  have := (quiescent_save_stores_dirty (svStore s k res).1 h7 (by rw [h5]; exact ha) hro
    (by rw [h1]; exact hn)).1
  intro vb hvb o ho
  exact this vb (by rw [B.curDirty_congr h2 h3]; exact hvb) o (by rw [h1]; exact ho)

/-! ## the full clause, its ghost component and the two known-finding patterns -/

/-- the settle of this step that marks its vBucket dirty: an acknowledgement, a
    seqno-advanced or a system event whose offset `setOffset` accepted
    (vBucket, new position's seqno) -/
def dirtySettle (s : St) (op : Op) : Option (Vb × Nat) :=
  match B.settleOf s op with
  | some (vb, off, true) => if accepts s vb off then some (vb, off.seq) else none
  | _ => none

/-- ghost component: per vBucket the seqno of its latest dirty settle since the start of the run -/
def needStep (need : AMap Nat) (s : St) (op : Op) : AMap Nat :=
  match dirtySettle s op with
  | some (vb, q) => need.set vb q
  | none => need

def needRun (need : AMap Nat) (s : St) : List Op → AMap Nat
  | [] => need
  | op :: r => needRun (needStep need s op) (step s op).1 r

/-- ops of one stream session with an undisturbed store: no open / close / crash / setStore,
    and no rebalance (a rebalance closes the stream and opens it again on the new range: like
    `close` it moves to a fresh dirty generation and so discards every unsaved dirty mark).
    A transient stream end (`.reopen`) and a failover-log change (`.setFlog`) stay inside the session:
    they touch neither positions, dirty marks, flag, savers nor the store. -/
def oneSession : Op → Bool
  | .open | .close | .crash | .setStore _ _ | .rebalance _ _ => false
  | _ => true

/-- this op begins a save (reads the flag): a `svBegin` with an unused saver id, or a whole save with the lock free -/
def beginsSave (s : St) : Op → Bool
  | .svBegin k => !s.savers.has k
  | .save _ => !s.lockHeld
  | _ => false

/-- this op completes a save successfully: a whole save that skipped (flag down) or
    that the store accepted, the `UnmarkDirtyOffsets` of a micro-stepped save, or a micro-stepped
    save that finds the flag down -/
def completes (s : St) (op : Op) : Bool :=
  match op with
  | .save res => !s.lockHeld && (!s.anyDirty || storeSucceeds s res)
  | .svUnmark k => (match s.savers.get? k with | some .stored => true | _ => false)
  | .svBegin k => !s.savers.has k && !s.anyDirty
  | _ => false

/-- every dirty settle recorded in `need` is covered by the stored checkpoint -/
def Durable (s : St) (need : AMap Nat) : Prop :=
  ∀ vb q, need.get? vb = some q → ∃ d, s.store.get? vb = some d ∧ q ≤ d.seq

/-- start states: no saver in flight, a real store, a well-formed offsets map -/
structure Quiet (s : St) : Prop where
  savers : s.savers = []
  nodup : (AMap.keys s.offsets).Nodup
  writable : s.cfg.readOnly = false

/-- **C05, first sentence, at full strength**: in every one-session history (`oneSession`:
    no open / close / crash / external store write / rebalance),
    whenever a save completes successfully, every vBucket advanced by an
    acknowledgement or a non-document event has a stored checkpoint at or beyond
    that position.  FALSE of the code: `C05_flag_refuted`, `C05_unmark_refuted`,
    `C05_overlap_refuted`. -/
def C05_full : Prop :=
  ∀ (s0 : St) (pre : List Op) (op : Op), Quiet s0 → (∀ o ∈ pre ++ [op], oneSession o = true) →
    completes (run s0 pre) op = true →
    Durable (step (run s0 pre) op).1 (needRun [] s0 (pre ++ [op]))

/-- generic "some step of the run is bad" scanner (linear in the run) -/
def scan (bad : St → Op → Bool) : St → List Op → Bool
  | _, [] => false
  | s, op :: r => bad s op || scan bad (step s op).1 r

theorem scan_eq_true_iff (bad : St → Op → Bool) (s : St) (ops : List Op) :
    scan bad s ops = true ↔ ∃ pre op post, ops = pre ++ op :: post ∧ bad (run s pre) op = true := by
  induction ops generalizing s with
  | nil => simp [scan]
  | cons op r ih =>
    simp only [scan, Bool.or_eq_true, ih]
    constructor
    · rintro (h | ⟨pre, op', post, hsp, hb⟩)
      · exact ⟨[], op, r, rfl, h⟩
      · exact ⟨op :: pre, op', post, by rw [hsp]; rfl, hb⟩
    · rintro ⟨pre, op', post, hsp, hb⟩
      cases pre with
      | nil => simp at hsp; obtain ⟨rfl, rfl⟩ := hsp; exact Or.inl hb
      | cons a pre' =>
        simp at hsp; obtain ⟨rfl, rfl⟩ := hsp
        exact Or.inr ⟨pre', op', post, rfl, hb⟩

theorem scan_eq_false_iff (bad : St → Op → Bool) (s : St) (ops : List Op) :
    scan bad s ops = false ↔ ∀ pre op post, ops = pre ++ op :: post → bad (run s pre) op = false := by
  rw [← Bool.not_eq_true, scan_eq_true_iff]
  constructor
  · intro h pre op post hsp
    cases hb : bad (run s pre) op with
    | false => rfl
    | true => exact absurd ⟨pre, op, post, hsp, hb⟩ h
  · rintro h ⟨pre, op, post, hsp, hb⟩
    rw [h pre op post hsp] at hb; cases hb

theorem scan_cons_false {bad : St → Op → Bool} {s : St} {op : Op} {r : List Op}
    (h : scan bad s (op :: r) = false) : bad s op = false ∧ scan bad (step s op).1 r = false := by
  simpa [scan] using h

/-- F1 pattern at one step: a save begins while some vBucket is marked dirty and the flag is down -/
def flagBad (s : St) (op : Op) : Bool := beginsSave s op && !(curDirty s).isEmpty && !s.anyDirty

/-- some saver is between its dump and its unmark -/
def saverBusy (s : St) : Bool :=
  s.savers.any fun p => match p.2 with
    | .dumped .. => true
    | .stored => true
    | .wantLock _ => false

/-- F2 pattern at one step: a dirty settle lands while a saver is between its dump
    and its unmark, or a save begins (flag up) while another saver exists -/
def unmarkBad (s : St) (op : Op) : Bool :=
  ((dirtySettle s op).isSome && saverBusy s) || (beginsSave s op && s.anyDirty && !s.savers.isEmpty)

end GoDcp.C05

namespace GoDcp.KF
open GoDcp GoDcp.C05

/-- known finding F1 (classifier for the run-time monitor): somewhere in the run a
    save begins while the current dirty list is non-empty and the flag is down -/
def C05_flag (s0 : St) (ops : List Op) : Bool := scan flagBad s0 ops

/-- known finding F2 (classifier): somewhere in the run a dirty settle lands between
    a saver's dump and its unmark, or two savers overlap -/
def C05_unmark (s0 : St) (ops : List Op) : Bool := scan unmarkBad s0 ops

theorem C05_flag_iff (s0 : St) (ops : List Op) :
    C05_flag s0 ops = true ↔ ∃ pre op post, ops = pre ++ op :: post ∧
      beginsSave (run s0 pre) op = true ∧ curDirty (run s0 pre) ≠ [] ∧ (run s0 pre).anyDirty = false := by
  unfold C05_flag
  rw [scan_eq_true_iff]
  simp [flagBad, and_assoc]

theorem C05_unmark_iff (s0 : St) (ops : List Op) :
    C05_unmark s0 ops = true ↔ ∃ pre op post, ops = pre ++ op :: post ∧
      (((dirtySettle (run s0 pre) op).isSome = true ∧ saverBusy (run s0 pre) = true) ∨
       (beginsSave (run s0 pre) op = true ∧ (run s0 pre).anyDirty = true ∧ (run s0 pre).savers ≠ [])) := by
  unfold C05_unmark
  rw [scan_eq_true_iff]
  simp [unmarkBad, and_assoc]

end GoDcp.KF

namespace GoDcp.C05
open GoDcp

/-! ## the refutations -/

def mu (seq : Nat) : SrvEv := .doc ⟨.mu, seq, 0, "61", 0, ""⟩

/-- a session that has just been opened on vBucket 0 (earliest start, server high seqno 10) -/
def s1 : St := run {} [.setHigh 0 10, .open]
/-- the same on vBuckets 0 and 1 -/
def s2 : St := run { cfg := { lo := 0, hi := 1 } } [.setHigh 0 10, .setHigh 1 10, .open]

theorem quiet_s1 : Quiet s1 := ⟨by decide, by decide, by decide⟩
theorem quiet_s2 : Quiet s2 := ⟨by decide, by decide, by decide⟩

/-- F1 witness: vBucket 0 is advanced only by a seqno-advanced event -/
def wFlag : List Op := [.ev 0 (.seqAdv 3)]

/-- **C05_flag_refuted** (finding F1): the vBucket is in the dirty list, its
    position is 3, but the flag is down: a whole save answers "no need to save",
    calls the store not at all, and the stored checkpoint stays empty – for ever,
    unless an acknowledgement arrives. -/
theorem C05_flag_refuted :
    curDirty (run s1 wFlag) = [0] ∧ (run s1 wFlag).anyDirty = false ∧
    ((run s1 wFlag).offsets.get? 0).map (·.seq) = some 3 ∧
    (step (run s1 wFlag) (.save .ok)).1.store.get? 0 = none ∧
    needRun [] s1 (wFlag ++ [.save .ok]) = [(0, 3)] ∧
    KF.C05_flag s1 (wFlag ++ [.save .ok]) = true ∧ KF.C05_unmark s1 (wFlag ++ [.save .ok]) = false ∧
    ¬ C05_full := by
  refine ⟨by decide, by decide, by decide, by decide, by decide, by decide, by decide, ?_⟩
  intro h
  have := h s1 wFlag (.save .ok) quiet_s1 (by decide) (by decide) 0 3 (by decide)
  obtain ⟨d, hd, _⟩ := this
  have hn : (step (run s1 wFlag) (.save .ok)).1.store.get? 0 = none := by decide
  rw [hn] at hd; cases hd

/-- F2 witness: the second acknowledgement lands between the saver's dump and its unmark -/
def wUnmark : List Op :=
  [.ev 0 (.marker 1 10), .ev 0 (mu 1), .ev 0 (mu 2), .ack 0, .svBegin 1, .svDump 1, .ack 1, .svStore 1 .ok]

/-- **C05_unmark_refuted** (finding F2): the saver stores position 1, then wipes the
    dirty mark and the flag that the acknowledgement of event 2 had set: position
    2, stored 1, dirty list empty, flag down – every later save skips. -/
theorem C05_unmark_refuted :
    let s := (step (run s1 wUnmark) (.svUnmark 1)).1
    (s.offsets.get? 0).map (·.seq) = some 2 ∧ (s.store.get? 0).map (·.seq) = some 1 ∧
    curDirty s = [] ∧ s.anyDirty = false ∧ (saveAll s .ok).2.length = 1 ∧ (saveAll s .ok).1.store = s.store ∧
    needRun [] s1 (wUnmark ++ [.svUnmark 1]) = [(0, 2)] ∧
    KF.C05_unmark s1 (wUnmark ++ [.svUnmark 1]) = true ∧ KF.C05_flag s1 (wUnmark ++ [.svUnmark 1]) = false ∧
    ¬ C05_full := by
  refine ⟨by decide, by decide, by decide, by decide, by decide, by decide, by decide, by decide, by decide, ?_⟩
  intro h
  have := h s1 wUnmark (.svUnmark 1) quiet_s1 (by decide) (by decide) 0 2 (by decide)
  obtain ⟨d, hd, hq⟩ := this
  have hn : (step (run s1 wUnmark) (.svUnmark 1)).1.store.get? 0 = some ⟨0, 1, 1, 10⟩ := by decide
  rw [hn] at hd; cases hd
  simp at hq

/-- F2, overlapping savers: saver 2 reads the flag (and captures the dirty map)
    before saver 1 has finished; the acknowledgement on vBucket 1 marks the NEW map;
    saver 2 then dumps the stale map and wipes the new one. -/
def wOverlap : List Op :=
  [.ev 0 (.marker 1 10), .ev 1 (.marker 1 10), .ev 0 (mu 1), .ev 1 (mu 1), .ack 0, .svBegin 1, .svBegin 2,
   .svDump 1, .svStore 1 .ok, .svUnmark 1, .ack 1, .svDump 2, .svStore 2 .ok]

theorem C05_overlap_refuted :
    let s := (step (run s2 wOverlap) (.svUnmark 2)).1
    (s.offsets.get? 1).map (·.seq) = some 1 ∧ s.store.get? 1 = none ∧
    curDirty s = [] ∧ s.anyDirty = false ∧ (saveAll s .ok).1.store = s.store ∧
    KF.C05_unmark s2 (wOverlap ++ [.svUnmark 2]) = true ∧ KF.C05_flag s2 (wOverlap ++ [.svUnmark 2]) = false ∧
    ¬ C05_full := by
  refine ⟨by decide, by decide, by decide, by decide, by decide, by decide, by decide, ?_⟩
  intro h
  have := h s2 wOverlap (.svUnmark 2) quiet_s2 (by decide) (by decide) 1 1 (by decide)
  obtain ⟨d, hd, _⟩ := this
  have hn : (step (run s2 wOverlap) (.svUnmark 2)).1.store.get? 1 = none := by decide
  rw [hn] at hd; cases hd

/-! ## the partial theorem: the invariant -/

/-- the saver discipline that holds when savers never overlap and no dirty settle
    lands between a dump and its unmark -/
def SaverOk (s : St) (need : AMap Nat) : Prop :=
  s.savers = [] ∨ (∃ k, s.savers = [(k, .wantLock s.curGen)]) ∨
  (∃ k st dd, s.savers = [(k, .dumped st dd)] ∧ (∀ vb, vb ∈ dd ↔ vb ∈ curDirty s) ∧ (AMap.keys st).Nodup ∧
      ∀ vb ∈ curDirty s, ∀ q, need.get? vb = some q → ∃ d, (vb, d) ∈ st ∧ q ≤ d.seq) ∨
  (∃ k, s.savers = [(k, .stored)] ∧
      ∀ vb ∈ curDirty s, ∀ q, need.get? vb = some q → ∃ d, s.store.get? vb = some d ∧ q ≤ d.seq)

/-- **the invariant** (`Synced` is its third clause): every vBucket with a recorded
    dirty settle `q` has a position at or beyond `q`, and is either still in the
    current dirty list or has a stored checkpoint at or beyond `q` -/
structure Inv5 (s : St) (need : AMap Nat) : Prop where
  nodup : (AMap.keys s.offsets).Nodup
  writable : s.cfg.readOnly = false
  pos : ∀ vb q, need.get? vb = some q → ∃ o, s.offsets.get? vb = some o ∧ q ≤ o.seq
  synced : ∀ vb q, need.get? vb = some q → vb ∈ curDirty s ∨ ∃ d, s.store.get? vb = some d ∧ q ≤ d.seq
  saver : SaverOk s need

theorem inv5_init (s : St) (h : Quiet s) : Inv5 s [] :=
  ⟨h.nodup, h.writable, by intro vb q hq; simp [AMap.get?] at hq, by intro vb q hq; simp [AMap.get?] at hq,
    Or.inl h.savers⟩

/-- with the dirty list empty the invariant is the conclusion of the clause -/
theorem durable_of_inv5 {s : St} {need : AMap Nat} (h : Inv5 s need) (hd : curDirty s = []) : Durable s need := by
  intro vb q hq
  rcases h.synced vb q hq with h1 | h1
  · rw [hd] at h1; simp at h1
  · exact h1

theorem inv5_frame {s s' : St} {need : AMap Nat} (h : Inv5 s need) (h1 : s'.offsets = s.offsets)
    (h2 : s'.dirtyMaps = s.dirtyMaps) (h3 : s'.curGen = s.curGen) (h4 : s'.store = s.store)
    (h5 : s'.savers = s.savers) (h6 : s'.cfg = s.cfg) : Inv5 s' need := by
  have hcd : curDirty s' = curDirty s := B.curDirty_congr h2 h3
  refine ⟨by rw [h1]; exact h.nodup, by rw [h6]; exact h.writable, by rw [h1]; exact h.pos,
    by rw [hcd, h4]; exact h.synced, ?_⟩
  unfold SaverOk
  rw [h5, h3, hcd, h4]
  exact h.saver

theorem needStep_of_none {need : AMap Nat} {s : St} {op : Op} (h : dirtySettle s op = none) :
    needStep need s op = need := by
  simp [needStep, h]

theorem dirtySettle_non_settle {s : St} {op : Op} (h : B.isSettleOp op = false) : dirtySettle s op = none := by
  cases op <;> first | rfl | simp [B.isSettleOp] at h

theorem saverBusy_false_cases {s : St} {need : AMap Nat} (h : SaverOk s need) (hb : saverBusy s = false) :
    s.savers = [] ∨ ∃ k, s.savers = [(k, .wantLock s.curGen)] := by
  rcases h with h | h | ⟨k, st, dd, h, _⟩ | ⟨k, h, _⟩
  · exact Or.inl h
  · exact Or.inr h
  · simp [saverBusy, h] at hb
  · simp [saverBusy, h] at hb

/-- acknowledgements and server events -/
theorem step_inv5_settle (s : St) (need : AMap Nat) (op : Op) (h : Inv5 s need) (hop : B.isSettleOp op = true)
    (hbad : unmarkBad s op = false) : Inv5 (step s op).1 (needStep need s op) := by
  have hstore : (step s op).1.store = s.store :=
    step_store s (by cases op <;> first | rfl | simp [B.isSettleOp] at hop)
  have hsav : (step s op).1.savers = s.savers :=
    step_savers s (by cases op <;> first | rfl | simp [B.isSettleOp] at hop)
  have hgen : (step s op).1.curGen = s.curGen :=
    step_curGen s (by cases op <;> first | rfl | simp [B.isSettleOp] at hop)
  have hget := B.settle_get? s op hop
  have hcd := B.settle_mem_curDirty s op hop
  have hnd := B.offsets_nodup_step s op h.nodup
  have hw : (step s op).1.cfg.readOnly = false := by rw [step_cfg_readOnly]; exact h.writable
  cases hds : dirtySettle s op with
  | none =>
    rw [needStep_of_none hds]
    have hcd' : ∀ x, x ∈ curDirty (step s op).1 ↔ x ∈ curDirty s := by
      intro x
      rw [hcd]
      constructor
      · rintro (⟨off, hso, ha⟩ | hx)
        · simp [dirtySettle, hso, ha] at hds
        · exact hx
      · exact Or.inr
    refine ⟨hnd, hw, ?_, ?_, ?_⟩
    · intro vb q hq
      obtain ⟨o, ho, hle⟩ := h.pos vb q hq
      rw [hget]
      cases hso : B.settleOf s op with
      | none => exact ⟨o, ho, hle⟩
      | some r =>
        obtain ⟨vb', off, d⟩ := r
        simp only
        split
        · rename_i hc
          obtain ⟨rfl, ha⟩ := hc
          refine ⟨off, rfl, ?_⟩
          have := (accepts_iff s vb off).mp ha
          rcases this.2 with hn | ⟨cur, hcur, hle'⟩
          · rw [hn] at ho; cases ho
          · rw [hcur] at ho; cases ho; omega
        · exact ⟨o, ho, hle⟩
    · intro vb q hq
      rcases h.synced vb q hq with h1 | h1
      · exact Or.inl ((hcd' vb).mpr h1)
      · rw [hstore]; exact Or.inr h1
    · unfold SaverOk
      rw [hsav, hgen, hstore]
      rcases h.saver with h1 | h1 | ⟨k, st, dd, h1, h2, h3, h4⟩ | ⟨k, h1, h2⟩
      · exact Or.inl h1
      · exact Or.inr (Or.inl h1)
      · refine Or.inr (Or.inr (Or.inl ⟨k, st, dd, h1, fun vb => (h2 vb).trans (hcd' vb).symm, h3, ?_⟩))
        intro vb hvb q hq
        exact h4 vb ((hcd' vb).mp hvb) q hq
      · refine Or.inr (Or.inr (Or.inr ⟨k, h1, ?_⟩))
        intro vb hvb q hq
        exact h2 vb ((hcd' vb).mp hvb) q hq
  | some r =>
    obtain ⟨vb, q⟩ := r
    -- a dirty settle: no saver is between dump and unmark
    have hbusy : saverBusy s = false := by
      cases hb : saverBusy s with
      | false => rfl
      | true => simp [unmarkBad, hds, hb] at hbad
    have hsv := saverBusy_false_cases h.saver hbusy
    obtain ⟨off, hso, ha, hq⟩ : ∃ off, B.settleOf s op = some (vb, off, true) ∧ accepts s vb off = true ∧ q = off.seq := by
      unfold dirtySettle at hds
      split at hds
      · rename_i vb' off' hso
        split at hds
        · rename_i ha
          injection hds with hds; injection hds with h1 h2
          subst h1 h2
          exact ⟨off', hso, ha, rfl⟩
        · cases hds
      · cases hds
    subst hq
    have hns : needStep need s op = need.set vb off.seq := by simp [needStep, hds]
    rw [hns]
    refine ⟨hnd, hw, ?_, ?_, ?_⟩
    · intro v q' hq'
      rw [AMap.get?_set] at hq'
      rw [hget, hso]
      simp only
      split at hq'
      · rename_i hv
        subst hv
        injection hq' with hq'
        subst hq'
        exact ⟨off, by simp [ha], Nat.le_refl _⟩
      · rename_i hv
        obtain ⟨o, ho, hle⟩ := h.pos v q' hq'
        exact ⟨o, by simp [hv, ho], hle⟩
    · intro v q' hq'
      rw [AMap.get?_set] at hq'
      split at hq'
      · rename_i hv
        subst hv
        exact Or.inl ((hcd v).mpr (Or.inl ⟨off, hso, ha⟩))
      · rcases h.synced v q' hq' with h1 | h1
        · exact Or.inl ((hcd v).mpr (Or.inr h1))
        · rw [hstore]; exact Or.inr h1
    · unfold SaverOk
      rw [hsav, hgen]
      rcases hsv with h1 | h1
      · exact Or.inl h1
      · exact Or.inr (Or.inl h1)

theorem storeSucceeds_writable {s : St} {res : StoreRes} (hw : s.cfg.readOnly = false)
    (h : storeSucceeds s res = true) : res = .ok := by
  cases res <;> simp_all [storeSucceeds]

theorem get?_singleton {α : Type} (k k' : Vb) (a : α) :
    AMap.get? [(k, a)] k' = if k = k' then some a else none := rfl

theorem curDirty_fresh_gen (s : St) (st : AMap Doc) (sv : AMap SaverPc) (lk : Bool) :
    curDirty { s with store := st, anyDirty := false, curGen := s.nextGen, nextGen := s.nextGen + 1,
                      dirtyMaps := s.dirtyMaps.set s.nextGen [], savers := sv, lockHeld := lk } = [] := by
  simp [curDirty, AMap.get?_set_same]

/-- the micro-steps of a save and the whole save -/
theorem step_inv5_saver (s : St) (need : AMap Nat) (op : Op) (h : Inv5 s need)
    (hop : match op with
      | .svBegin _ | .svDump _ | .svStore _ _ | .svUnmark _ | .save _ => True
      | _ => False)
    (hbad : unmarkBad s op = false) : Inv5 (step s op).1 need := by
  cases op with
  | svBegin k =>
    simp only [step]
    cases hk : s.savers.has k with
    | true => rw [svBegin_of_exists hk]; exact h
    | false =>
      cases ha : s.anyDirty with
      | false => rw [svBegin_of_clean hk ha]; exact h
      | true =>
        rw [svBegin_of_dirty hk ha]
        have hemp : s.savers = [] := by
          simp [unmarkBad, dirtySettle, B.settleOf, beginsSave, hk, ha] at hbad
          exact hbad
        refine ⟨h.nodup, h.writable, h.pos, h.synced, Or.inr (Or.inl ⟨k, ?_⟩)⟩
        simp [hemp, AMap.set]
  | svDump k =>
    simp only [step]
    rcases h.saver with h1 | ⟨k', h1⟩ | ⟨k', st, dd, h1, _⟩ | ⟨k', h1, _⟩
    · have : svDump s k = (s, [.bad "saver not waiting for lock"]) := by simp [svDump, h1]
      rw [this]; exact h
    · by_cases hkk : k' = k
      · subst hkk
        cases hl : s.lockHeld with
        | true =>
          have : svDump s k' = (s, [.bad "lock held"]) := by simp [svDump, h1, get?_singleton, hl]
          rw [this]; exact h
        | false =>
          have hg : s.savers.get? k' = some (.wantLock s.curGen) := by simp [h1, get?_singleton]
          rw [svDump_of_wantLock hg hl]
          refine ⟨h.nodup, h.writable, h.pos, h.synced, Or.inr (Or.inr (Or.inl ⟨k', dumpState s, (s.dirtyMaps.get? s.curGen).getD [], ?_, ?_, ?_, ?_⟩))⟩
          · simp [h1, AMap.set]
          · intro vb; rfl
          · rw [keys_dumpState]; exact h.nodup
          · intro vb _ q hq
            obtain ⟨o, ho, hle⟩ := h.pos vb q hq
            exact ⟨o.toDoc, mem_dumpState_of_get? ho, hle⟩
      · have : svDump s k = (s, [.bad "saver not waiting for lock"]) := by
          simp [svDump, h1, get?_singleton, hkk]
        rw [this]; exact h
    · have : svDump s k = (s, [.bad "saver not waiting for lock"]) := by
        by_cases hkk : k' = k <;> simp [svDump, h1, get?_singleton, hkk]
      rw [this]; exact h
    · have : svDump s k = (s, [.bad "saver not waiting for lock"]) := by
        by_cases hkk : k' = k <;> simp [svDump, h1, get?_singleton, hkk]
      rw [this]; exact h
  | svStore k res =>
    simp only [step]
    rcases h.saver with h1 | ⟨k', h1⟩ | ⟨k', st, dd, h1, h2, h3, h4⟩ | ⟨k', h1, _⟩
    · have : svStore s k res = (s, [.bad "saver not in store call"]) := by simp [svStore, h1]
      rw [this]; exact h
    · have : svStore s k res = (s, [.bad "saver not in store call"]) := by
        by_cases hkk : k' = k <;> simp [svStore, h1, get?_singleton, hkk]
      rw [this]; exact h
    · by_cases hkk : k' = k
      · subst hkk
        have hg : s.savers.get? k' = some (.dumped st dd) := by simp [h1, get?_singleton]
        rw [svStore_of_dumped res hg]
        have hsync : ∀ vb q, need.get? vb = some q → vb ∈ curDirty s ∨
            ∃ d, (mdWrite s st dd res).1.get? vb = some d ∧ q ≤ d.seq := by
          intro vb q hq
          rcases h.synced vb q hq with hv | hv
          · exact Or.inl hv
          · by_cases hvd : vb ∈ curDirty s
            · exact Or.inl hvd
            · right
              rw [mdWrite_get?_not_dirty s st dd res vb (fun hc => hvd ((h2 vb).mp hc))]
              exact hv
        split
        · rename_i hsucc
          have hres := storeSucceeds_writable h.writable hsucc
          subst hres
          refine ⟨h.nodup, h.writable, h.pos, hsync, Or.inr (Or.inr (Or.inr ⟨k', ?_, ?_⟩))⟩
          · simp [h1, AMap.set]
          · intro vb hvb q hq
            obtain ⟨d, hd, hle⟩ := h4 vb hvb q hq
            exact ⟨d, mdWrite_ok_get? s st dd h.writable h3 vb d hd ((h2 vb).mpr hvb), hle⟩
        · refine ⟨h.nodup, h.writable, h.pos, hsync, Or.inl ?_⟩
          simp [dropSaver, h1]
      · have : svStore s k res = (s, [.bad "saver not in store call"]) := by
          simp [svStore, h1, get?_singleton, hkk]
        rw [this]; exact h
    · have : svStore s k res = (s, [.bad "saver not in store call"]) := by
        by_cases hkk : k' = k <;> simp [svStore, h1, get?_singleton, hkk]
      rw [this]; exact h
  | svUnmark k =>
    simp only [step]
    rcases h.saver with h1 | ⟨k', h1⟩ | ⟨k', st, dd, h1, _⟩ | ⟨k', h1, h2⟩
    · have : svUnmark s k = (s, [.bad "saver not before unmark"]) := by simp [svUnmark, h1]
      rw [this]; exact h
    · have : svUnmark s k = (s, [.bad "saver not before unmark"]) := by
        by_cases hkk : k' = k <;> simp [svUnmark, h1, get?_singleton, hkk]
      rw [this]; exact h
    · have : svUnmark s k = (s, [.bad "saver not before unmark"]) := by
        by_cases hkk : k' = k <;> simp [svUnmark, h1, get?_singleton, hkk]
      rw [this]; exact h
    · by_cases hkk : k' = k
      · subst hkk
        have hg : s.savers.get? k' = some .stored := by simp [h1, get?_singleton]
        rw [svUnmark_of_stored hg]
        refine ⟨h.nodup, h.writable, h.pos, ?_, Or.inl ?_⟩
        · intro vb q hq
          right
          rcases h.synced vb q hq with hv | hv
          · exact h2 vb hv q hq
          · exact hv
        · simp [dropSaver, h1]
      · have : svUnmark s k = (s, [.bad "saver not before unmark"]) := by
          simp [svUnmark, h1, get?_singleton, hkk]
        rw [this]; exact h
  | save res =>
    simp only [step, saveAll_eq]
    cases hl : s.lockHeld with
    | true => exact h
    | false =>
      cases ha : s.anyDirty with
      | false => exact h
      | true =>
        have hemp : s.savers = [] := by
          simp [unmarkBad, dirtySettle, B.settleOf, beginsSave, hl, ha] at hbad
          exact hbad
        simp only [Bool.false_eq_true, if_false, Bool.not_true]
        have hsync : ∀ vb q, need.get? vb = some q → vb ∈ curDirty s ∨
            ∃ d, (mdWrite s (dumpState s) (curDirty s) res).1.get? vb = some d ∧ q ≤ d.seq := by
          intro vb q hq
          rcases h.synced vb q hq with hv | hv
          · exact Or.inl hv
          · by_cases hvd : vb ∈ curDirty s
            · exact Or.inl hvd
            · right
              rw [mdWrite_get?_not_dirty s _ _ res vb hvd]
              exact hv
        split
        · rename_i hsucc
          have hres := storeSucceeds_writable h.writable hsucc
          subst hres
          refine ⟨h.nodup, h.writable, h.pos, ?_, Or.inl hemp⟩
          intro vb q hq
          right
          by_cases hvd : vb ∈ curDirty s
          · obtain ⟨o, ho, hle⟩ := h.pos vb q hq
            exact ⟨o.toDoc, mdWrite_ok_get? s _ _ h.writable (by rw [keys_dumpState]; exact h.nodup) vb _
              (mem_dumpState_of_get? ho) hvd, hle⟩
          · rcases hsync vb q hq with hv | hv
            · exact absurd hv hvd
            · exact hv
        · refine ⟨h.nodup, h.writable, h.pos, hsync, Or.inl hemp⟩
  | _ => exact absurd hop (by simp)

/-- **one step keeps the invariant** in a one-session run that does not show the F2 pattern at this step -/
theorem step_inv5 (s : St) (need : AMap Nat) (op : Op) (h : Inv5 s need) (hses : oneSession op = true)
    (hbad : unmarkBad s op = false) : Inv5 (step s op).1 (needStep need s op) := by
  cases op with
  | ack i => exact step_inv5_settle s need _ h rfl hbad
  | ev vb e => exact step_inv5_settle s need _ h rfl hbad
  | svBegin k => rw [needStep_of_none (dirtySettle_non_settle rfl)]; exact step_inv5_saver s need _ h trivial hbad
  | svDump k => rw [needStep_of_none (dirtySettle_non_settle rfl)]; exact step_inv5_saver s need _ h trivial hbad
  | svStore k res => rw [needStep_of_none (dirtySettle_non_settle rfl)]; exact step_inv5_saver s need _ h trivial hbad
  | svUnmark k => rw [needStep_of_none (dirtySettle_non_settle rfl)]; exact step_inv5_saver s need _ h trivial hbad
  | save res => rw [needStep_of_none (dirtySettle_non_settle rfl)]; exact step_inv5_saver s need _ h trivial hbad
  | «open» => simp [oneSession] at hses
  | close => simp [oneSession] at hses
  | crash => simp [oneSession] at hses
  | setStore vb d => simp [oneSession] at hses
  | rebalance lo hi => simp [oneSession] at hses
  | _ =>
    rw [needStep_of_none (dirtySettle_non_settle rfl)]
    exact inv5_frame h (step_offsets s (by rfl)) (step_dirtyMaps s (by rfl)) (step_curGen s (by rfl))
      (step_store s (by rfl)) (step_savers s (by rfl)) (step_cfg s (by rfl))

theorem run_inv5 (s : St) (need : AMap Nat) (ops : List Op) (h : Inv5 s need)
    (hses : ∀ op ∈ ops, oneSession op = true) (hbad : scan unmarkBad s ops = false) :
    Inv5 (run s ops) (needRun need s ops) := by
  induction ops generalizing s need with
  | nil => exact h
  | cons op r ih =>
    obtain ⟨b1, b2⟩ := scan_cons_false hbad
    exact ih _ _ (step_inv5 s need op h (hses op List.mem_cons_self) b1)
      (fun o ho => hses o (List.mem_cons_of_mem _ ho)) b2

theorem needRun_append (need : AMap Nat) (s : St) (a b : List Op) :
    needRun need s (a ++ b) = needRun (needRun need s a) (run s a) b := by
  induction a generalizing need s with
  | nil => rfl
  | cons op r ih => simp only [List.cons_append, needRun, run_cons, ih]

theorem scan_append (bad : St → Op → Bool) (s : St) (a b : List Op) :
    scan bad s (a ++ b) = (scan bad s a || scan bad (run s a) b) := by
  induction a generalizing s with
  | nil => simp [scan]
  | cons op r ih => simp only [List.cons_append, scan, run_cons, ih, Bool.or_assoc]

/-- a successfully completing save that does not begin under the F1 pattern leaves the dirty list empty -/
theorem completes_curDirty (s : St) (op : Op) (hc : completes s op = true)
    (hflag : flagBad s op = false) : curDirty (step s op).1 = [] := by
  cases op with
  | save res =>
    simp only [completes, Bool.and_eq_true, Bool.not_eq_true', Bool.or_eq_true] at hc
    obtain ⟨hl, hsucc⟩ := hc
    simp only [step, saveAll_eq, hl, Bool.false_eq_true, if_false]
    cases ha : s.anyDirty with
    | false =>
      simp only [flagBad, beginsSave, hl, ha, Bool.not_false, Bool.and_true, Bool.true_and,
        Bool.not_eq_false', List.isEmpty_iff] at hflag
      simpa using hflag
    | true =>
      have hsucc' : storeSucceeds s res = true := by simpa [ha] using hsucc
      simp [hsucc', curDirty, AMap.get?_set_same]
  | svUnmark k =>
    simp only [completes] at hc
    split at hc
    · rename_i hk
      simp only [step, svUnmark_of_stored hk]
      simp [curDirty, AMap.get?_set_same]
    · cases hc
  | svBegin k =>
    simp only [completes, Bool.and_eq_true, Bool.not_eq_true'] at hc
    obtain ⟨hk, ha⟩ := hc
    simp only [step, svBegin_of_clean hk ha]
    simp only [flagBad, beginsSave, hk, ha, Bool.not_false, Bool.and_true, Bool.true_and,
      Bool.not_eq_false', List.isEmpty_iff] at hflag
    exact hflag
  | _ => simp [completes] at hc

/-- **C05_partial**: in every one-session history (no open / close / crash /
    external store write, and no rebalance: a rebalance discards the unsaved dirty
    marks exactly like `close` does, see `C05_rebalance_refuted`; transient stream
    ends `.reopen` and failover-log changes `.setFlog` are allowed) that starts
    with no saver in flight and a real store,
    and that shows neither known-finding pattern
    (`KF.C05_flag = false`: no save begins while something is marked dirty and
    the flag is down; `KF.C05_unmark = false`: no dirty settle lands between a
    saver's dump and its unmark and no two savers overlap),
    whenever a save completes successfully – a whole save the store accepted,
    the `UnmarkDirtyOffsets` of a micro-stepped save, or the skip path – every
    vBucket that was advanced by an acknowledgement or a non-document event has a
    stored checkpoint at or beyond that position.  This is exactly the body of
    `C05_full` under the two extra hypotheses. -/
theorem C05_partial (s0 : St) (pre : List Op) (op : Op) (hq : Quiet s0)
    (hses : ∀ o ∈ pre ++ [op], oneSession o = true)
    (hflag : KF.C05_flag s0 (pre ++ [op]) = false) (hunmark : KF.C05_unmark s0 (pre ++ [op]) = false)
    (hc : completes (run s0 pre) op = true) :
    Durable (step (run s0 pre) op).1 (needRun [] s0 (pre ++ [op])) := by
  unfold KF.C05_flag at hflag
  unfold KF.C05_unmark at hunmark
  rw [scan_append] at hflag hunmark
  simp only [Bool.or_eq_false_iff, scan, Bool.or_false] at hflag hunmark
  have hinv := run_inv5 s0 [] pre (inv5_init s0 hq)
    (fun o ho => hses o (List.mem_append_left _ ho)) hunmark.1
  have hstep := step_inv5 _ _ op hinv (hses op (by simp)) hunmark.2
  have hcd := completes_curDirty _ op hc hflag.2
  have hn : needRun [] s0 (pre ++ [op]) = needStep (needRun [] s0 pre) (run s0 pre) op := by
    rw [needRun_append]; rfl
  rw [hn]
  exact durable_of_inv5 hstep hcd

/-- and the invariant itself holds at every step of such a run (F1 plays no role here):
    a vBucket with a recorded dirty settle is in the current dirty list or is stored -/
theorem C05_synced (s0 : St) (ops : List Op) (hq : Quiet s0) (hses : ∀ o ∈ ops, oneSession o = true)
    (hunmark : KF.C05_unmark s0 ops = false) (pre post : List Op) (hsp : ops = pre ++ post) :
    Inv5 (run s0 pre) (needRun [] s0 pre) := by
  subst hsp
  unfold KF.C05_unmark at hunmark
  rw [scan_append] at hunmark
  simp only [Bool.or_eq_false_iff] at hunmark
  exact run_inv5 s0 [] pre (inv5_init s0 hq) (fun o ho => hses o (List.mem_append_left _ ho)) hunmark.1

/-! ## rebalance: the boundary of a `C05_partial` history -/

/-- witness: an acknowledged position, then a rebalance (onto the same range) before any save -/
def wRebal : List Op := [.ev 0 (.marker 1 10), .ev 0 (mu 1), .ack 0, .rebalance 0 0]

/-- **C05_rebalance_refuted**: why `oneSession` excludes `.rebalance`.  The
    acknowledgement marked vBucket 0 dirty at position 1 and raised the flag; the
    rebalance (no saver in flight, so it goes through) moves to a fresh dirty
    generation and reloads position and flag from the store – dirty list empty,
    flag down, position back at the stored one (0).  The next save completes on
    the skip path with nothing stored, and neither known-finding pattern occurs:
    the body of `C05_full` fails for this history, exactly as it would with
    `close; open` in place of the rebalance. -/
theorem C05_rebalance_refuted :
    let s := run s1 wRebal
    curDirty (run s1 wRebal.dropLast) = [0] ∧ (run s1 wRebal.dropLast).anyDirty = true ∧
    s.isOpen = true ∧ curDirty s = [] ∧ s.anyDirty = false ∧ (s.offsets.get? 0).map (·.seq) = some 0 ∧
    completes s (.save .ok) = true ∧ needRun [] s1 (wRebal ++ [.save .ok]) = [(0, 1)] ∧
    KF.C05_flag s1 (wRebal ++ [.save .ok]) = false ∧ KF.C05_unmark s1 (wRebal ++ [.save .ok]) = false ∧
    ¬ Durable (step s (.save .ok)).1 (needRun [] s1 (wRebal ++ [.save .ok])) := by
  refine ⟨by decide, by decide, by decide, by decide, by decide, by decide, by decide, by decide, by decide,
    by decide, ?_⟩
  intro h
  obtain ⟨d, hd, _⟩ := h 0 1 (by decide)
  have hn : (step (run s1 wRebal) (.save .ok)).1.store.get? 0 = none := by decide
  rw [hn] at hd; cases hd

/-- a rebalance that goes through (stream open, no saver in flight, non-empty range)
    on a real store ends in a `Quiet` state, whatever was marked dirty before: the
    history after it is a fresh `C05_partial` history (with an empty `need`) -/
theorem quiet_rebalance (s : St) (lo hi : Vb) (hw : s.cfg.readOnly = false) (ho : s.isOpen = true)
    (hs : s.savers = []) (hr : lo ≤ hi) : Quiet (step s (.rebalance lo hi)).1 := by
  refine ⟨?_, ?_, ?_⟩
  · simp only [step]; rw [rebalanceSession_savers]; exact hs
  · simp only [step]
    cases hl : load (rebalBase s lo hi) with
    | none => rw [rebalanceSession_of_load_none ho hs hr hl]; exact List.nodup_nil
    | some r =>
      obtain ⟨offs, dirty, any⟩ := r
      rw [rebalanceSession_of_load_some ho hs hr hl, rebalDone_offsets, load_keys hl]
      exact B.vbRange_nodup _
  · rw [step_cfg_readOnly]; exact hw

/-- **C05_partial after a rebalance**: the clause holds again for the one-session
    history that follows a completed rebalance (the settles counted are those after it) -/
theorem C05_partial_after_rebalance (s : St) (lo hi : Vb) (pre : List Op) (op : Op)
    (hw : s.cfg.readOnly = false) (ho : s.isOpen = true) (hs : s.savers = []) (hr : lo ≤ hi)
    (hses : ∀ o ∈ pre ++ [op], oneSession o = true)
    (hflag : KF.C05_flag (step s (.rebalance lo hi)).1 (pre ++ [op]) = false)
    (hunmark : KF.C05_unmark (step s (.rebalance lo hi)).1 (pre ++ [op]) = false)
    (hc : completes (run (step s (.rebalance lo hi)).1 pre) op = true) :
    Durable (step (run (step s (.rebalance lo hi)).1 pre) op).1
      (needRun [] (step s (.rebalance lo hi)).1 (pre ++ [op])) :=
  C05_partial _ pre op (quiet_rebalance s lo hi hw ho hs hr) hses hflag hunmark hc

/-- non-vacuity of `C05_partial`: acknowledgements before the flag read, between
    flag read and lock, a failing store call, a retry, a seqno-advanced event while
    the flag is up, a micro-stepped save completing -/
example :
    let pre : List Op := [.ev 0 (.marker 1 10), .ev 0 (mu 1), .ev 0 (mu 2), .ack 0, .svBegin 1, .ack 1,
      .svDump 1, .svStore 1 .fail, .ev 0 (.seqAdv 5), .svBegin 2, .svDump 2, .svStore 2 .ok]
    (∀ o ∈ pre ++ [.svUnmark 2], oneSession o = true) ∧
    KF.C05_flag s1 (pre ++ [.svUnmark 2]) = false ∧ KF.C05_unmark s1 (pre ++ [.svUnmark 2]) = false ∧
    completes (run s1 pre) (.svUnmark 2) = true ∧
    needRun [] s1 (pre ++ [.svUnmark 2]) = [(0, 5)] ∧
    (step (run s1 pre) (.svUnmark 2)).1.store.get? 0 = some ⟨0, 5, 5, 5⟩ := by
  decide
